"""Equivalence check for refactoring 2 (DatetimeYdms / DatetimeYdus in ceos_alos2/datatypes.py).

Run as a script (`python equiv.py`) or through pytest (`pytest equiv.py`).
`python equiv.py --record` re-records the expectations (only do that on the
UNCHANGED code).
"""

import datetime
import itertools
import json
import pathlib
import struct
import sys

import construct
from construct import Int32ub, Int64ub, Struct, this

from ceos_alos2 import datatypes


def canon(value):
    if isinstance(value, bool) or value is None:
        return value
    if isinstance(value, (float, complex)):
        return [type(value).__name__, repr(value)]
    if isinstance(value, int):
        return ["int", value]
    if isinstance(value, str):
        return ["str", value]
    if isinstance(value, bytes):
        return ["bytes", value.hex()]
    if isinstance(value, construct.Container):
        return [
            "Container",
            [[k, canon(v)] for k, v in value.items() if not k.startswith("_")],
        ]
    if isinstance(value, (list, tuple)):
        return [type(value).__name__, [canon(v) for v in value]]
    if isinstance(value, dict):
        return ["dict", [[k, canon(v)] for k, v in value.items()]]
    if isinstance(value, datetime.datetime):
        # exact type matters: a subclass must not leak through
        return [type(value).__name__, value.isoformat(), repr(value.tzinfo), value.fold]
    return [type(value).__name__, repr(value)]


def outcome(func, *args, **kwargs):
    try:
        result = func(*args, **kwargs)
    except Exception as e:  # noqa: BLE001
        return ["raised", type(e).__module__ + "." + type(e).__name__, str(e)]
    return ["returned", canon(result)]


class Recorder(dict):
    """mapping which logs the order in which the keys are requested"""

    def __init__(self, *args, **kwargs):
        super().__init__(*args, **kwargs)
        self.log = []

    def __getitem__(self, key):
        self.log.append(key)
        return super().__getitem__(key)


class Noisy:
    """number-like object logging the operations performed on it"""

    def __init__(self, value, log, name):
        self.value = value
        self.log = log
        self.name = name

    def __sub__(self, other):
        self.log.append(f"{self.name} - {other!r}")
        return self.value - other

    def __index__(self):
        self.log.append(f"index({self.name})")
        return self.value


class CallableReference:
    def __init__(self, result, log):
        self.result = result
        self.log = log

    def __call__(self, *args, **kwargs):
        self.log.append(["call", len(args), sorted(kwargs), canon(args[0]) if args else None])
        if isinstance(self.result, Exception):
            raise self.result
        return self.result


class CallableDatetime(datetime.datetime):
    def __call__(self, context):
        return datetime.datetime(1999, 12, 31, 23, 59, 59, 999999)


class LoggingReference:
    """datetime-like reference which logs the calls it receives"""

    def __init__(self, log):
        self.log = log

    def date(self):
        self.log.append("date()")
        return datetime.date(2001, 2, 3)


class LoggingMicroseconds:
    def __init__(self, log):
        self.log = log

    def __float__(self):
        self.log.append("float()")
        return 5.0

    def __mul__(self, other):
        self.log.append("mul")
        return NotImplemented

    def __rmul__(self, other):
        self.log.append("rmul")
        return NotImplemented


ydms_base = Struct("year" / Int32ub, "day_of_year" / Int32ub, "milliseconds" / Int32ub)

years = [0, 1, 4, 1900, 1990, 2019, 2020, 2100, 9999, 10000, 2**31, 2**32 - 1]
days = [0, 1, 2, 59, 60, 61, 365, 366, 367, 1000, 999999999, 10**9, 10**9 + 1, 2**32 - 1]
milliseconds = [0, 1, 999, 1000, 86399999, 86400000, 86400001, 2**31, 2**32 - 1]

direct_ydms = [
    {"year": 2019, "day_of_year": 1, "milliseconds": 0},
    {"year": 2019, "day_of_year": -5, "milliseconds": -1},
    {"year": 2019, "day_of_year": 1.5, "milliseconds": 0.25},
    {"year": 2019, "day_of_year": 1, "milliseconds": 0.0005},
    {"year": 2019.0, "day_of_year": 1, "milliseconds": 0},
    {"year": "2019", "day_of_year": 1, "milliseconds": 0},
    {"year": None, "day_of_year": 1, "milliseconds": 0},
    {"year": 2019, "day_of_year": "1", "milliseconds": 0},
    {"year": 2019, "day_of_year": None, "milliseconds": 0},
    {"year": 2019, "day_of_year": 1, "milliseconds": "0"},
    {"year": 2019, "day_of_year": 1, "milliseconds": None},
    {"year": True, "day_of_year": True, "milliseconds": True},
    {"year": -1, "day_of_year": 1, "milliseconds": 0},
    {"year": 10**30, "day_of_year": 1, "milliseconds": 0},
    {"year": 2019, "day_of_year": 10**30, "milliseconds": 0},
    {"year": 2019, "day_of_year": 1, "milliseconds": 10**30},
    {"year": 2019, "day_of_year": float("nan"), "milliseconds": 0},
    {"year": 2019, "day_of_year": 1, "milliseconds": float("inf")},
    {"year": 9999, "day_of_year": 365, "milliseconds": 86400000},
    {"year": 9999, "day_of_year": 365, "milliseconds": 86399999},
    {"year": 1, "day_of_year": 0, "milliseconds": 0},
    {"year": 1, "day_of_year": 1, "milliseconds": -1},
    # several problems at once: the first one has to win
    {"year": 0, "day_of_year": 10**30, "milliseconds": "x"},
    {"year": 0, "day_of_year": None, "milliseconds": None},
    {"year": 2019, "day_of_year": None, "milliseconds": "x"},
    {"year": 2019, "day_of_year": 10**30, "milliseconds": "x"},
    {"year": "x", "day_of_year": None},
    {"day_of_year": None, "milliseconds": 0},
    {"year": 2019, "milliseconds": 0},
    {"year": 2019, "day_of_year": 5},
    {"year": 0},
    {"year": 0, "milliseconds": 1},
    {},
    {"year": 2019, "day_of_year": 1, "milliseconds": 0, "extra": 1},
]

references = {
    "datetime": datetime.datetime(2019, 1, 1, 21, 37, 52, 107000),
    "midnight": datetime.datetime(2020, 2, 29),
    "last": datetime.datetime(9999, 12, 31, 23, 59, 59, 999999),
    "first": datetime.datetime(1, 1, 1, 0, 0, 0, 1),
    "aware": datetime.datetime(
        2019, 6, 1, 1, 30, tzinfo=datetime.timezone(datetime.timedelta(hours=9))
    ),
    "fold": datetime.datetime(2019, 6, 1, 1, 30, fold=1),
    "date": datetime.date(2019, 1, 1),
    "none": None,
    "string": "2019-01-01",
    "int": 20190101,
    "time": datetime.time(1, 2, 3),
    "callable_datetime": CallableDatetime(2019, 1, 1, 12),
    "lambda": lambda ctx: datetime.datetime(2010, 10, 10, 10, 10, 10, 10),
    "lambda_context": lambda ctx: ctx["ref"],
    "lambda_none": lambda ctx: None,
    "lambda_lambda": lambda ctx: (lambda ctx2: datetime.datetime(2000, 1, 1)),
    "lambda_noargs": lambda: datetime.datetime(2000, 1, 1),
    "type": datetime.datetime,
    "this.ref": this.ref,
    "this.missing": this.missing,
    "this._.ref": this._.ref,
}

contexts = {
    "none": None,
    "empty": construct.Container(),
    "ref": construct.Container(ref=datetime.datetime(2015, 5, 5, 5, 5, 5, 5)),
    "ref_date": construct.Container(ref=datetime.date(2015, 5, 5)),
    "nested": construct.Container(_=construct.Container(ref=datetime.datetime(2016, 6, 6, 6))),
}

microseconds = [
    0,
    1,
    40669000000,
    86399999999,
    86400000000,
    86400000001,
    2**32,
    2**63,
    2**64 - 1,
    -1,
    -86400000000,
    10**30,
    1.5,
    0.4,
    float("nan"),
    float("inf"),
    True,
    "5",
    None,
    b"5",
    [5],
    datetime.timedelta(seconds=1),
]


def observe():
    obs = {}

    obs["public names"] = sorted(n for n in dir(datatypes) if not n.startswith("_"))
    for cls in (datatypes.DatetimeYdms, datatypes.DatetimeYdus):
        obs[f"{cls.__name__}.mro"] = [c.__name__ for c in cls.__mro__]
        obs[f"{cls.__name__}.public"] = sorted(
            n for n in vars(cls) if not (n.startswith("_") and not n.startswith("__"))
        )

    # --- DatetimeYdms: byte parsing -------------------------------------------------
    ydms = datatypes.DatetimeYdms(ydms_base)
    for y, d, ms in itertools.product(years, days, milliseconds):
        data = struct.pack(">III", y, d, ms)
        obs[f"ydms.parse({y}, {d}, {ms})"] = outcome(ydms.parse, data)
    for data in (b"", b"\x00" * 11, b"\x00\x00\x07\xe3" * 3 + b"trailing"):
        obs[f"ydms.parse({data!r})"] = outcome(ydms.parse, data)
    obs["ydms.build"] = outcome(ydms.build, datetime.datetime(2019, 1, 1))
    obs["ydms.sizeof"] = outcome(ydms.sizeof)
    obs["ydms._encode"] = outcome(ydms._encode, datetime.datetime(2019, 1, 1), None, "(path)")
    obs["DatetimeYdms()"] = outcome(datatypes.DatetimeYdms)
    obs["DatetimeYdms(a, b)"] = outcome(datatypes.DatetimeYdms, ydms_base, 1)

    # --- DatetimeYdms: decoding of arbitrary mappings -------------------------------
    for index, mapping in enumerate(direct_ydms):
        for kind in (dict, construct.Container, Recorder):
            obj = kind(mapping)
            key = f"ydms._decode[{index}]({kind.__name__} {mapping!r})"
            obs[key] = outcome(ydms._decode, obj, None, "(path)")
            if kind is Recorder:
                obs[key + ".access order"] = obj.log
    log = []
    obj = Recorder(
        year=Noisy(2019, log, "year"),
        day_of_year=Noisy(45, log, "day_of_year"),
        milliseconds=1500,
    )
    obs["ydms._decode(noisy)"] = outcome(ydms._decode, obj, None, "(path)")
    obs["ydms._decode(noisy).operations"] = log
    obs["ydms._decode(noisy).access order"] = obj.log
    for obj in (None, 5, "abc", [2019, 1, 0], (2019, 1, 0)):
        obs[f"ydms._decode({obj!r})"] = outcome(ydms._decode, obj, None, "(path)")

    # the context and the path are not used
    obs["ydms._decode(ctx)"] = outcome(
        ydms._decode, {"year": 2000, "day_of_year": 60, "milliseconds": 5}, object(), None
    )

    # --- DatetimeYdus: decoding ----------------------------------------------------
    for (rname, ref), (cname, ctx) in itertools.product(references.items(), contexts.items()):
        ydus = datatypes.DatetimeYdus(Int64ub, ref)
        for us in (0, 40669000001, 10**30, "5"):
            key = f"ydus[{rname}]._decode({us!r}, ctx={cname})"
            obs[key] = outcome(ydus._decode, us, ctx, "(path)")
    for rname in ("datetime", "midnight", "last", "first", "aware", "fold", "lambda", "none"):
        ydus = datatypes.DatetimeYdus(Int64ub, references[rname])
        for us in microseconds:
            key = f"ydus[{rname}]._decode({us!r})"
            obs[key] = outcome(ydus._decode, us, contexts["ref"], "(path)")

    # evaluation of callables: how often, with which arguments
    for result in (
        datetime.datetime(2012, 12, 12, 12, 12, 12, 12),
        None,
        ValueError("broken reference"),
        KeyError("ref"),
    ):
        for us in (7, "x"):
            log = []
            ref = CallableReference(result, log)
            ydus = datatypes.DatetimeYdus(Int64ub, ref)
            key = f"ydus[callable -> {result!r}]._decode({us!r})"
            obs[key] = outcome(ydus._decode, us, contexts["ref"], "(path)")
            obs[key + ".calls"] = log
            obs[key + ".attribute"] = ydus.reference_date is ref

    # order of the operations on the operands
    for us_kind in ("int", "logging"):
        log = []
        ref = LoggingReference(log)
        us = 12 if us_kind == "int" else LoggingMicroseconds(log)
        ydus = datatypes.DatetimeYdus(Int64ub, ref)
        obs[f"ydus[logging]._decode({us_kind})"] = outcome(ydus._decode, us, None, "(path)")
        obs[f"ydus[logging]._decode({us_kind}).log"] = log

    # --- DatetimeYdus: byte parsing ------------------------------------------------
    for rname in ("datetime", "last", "aware", "lambda", "none", "date"):
        ydus = datatypes.DatetimeYdus(Int64ub, references[rname])
        for us in (0, 1, 40669000000, 86399999999, 86400000000, 2**63, 2**64 - 1):
            obs[f"ydus[{rname}].parse({us})"] = outcome(ydus.parse, struct.pack(">Q", us))
        obs[f"ydus[{rname}].parse(short)"] = outcome(ydus.parse, b"\x00" * 7)
        obs[f"ydus[{rname}].build"] = outcome(ydus.build, datetime.datetime(2019, 1, 1))
        obs[f"ydus[{rname}].sizeof"] = outcome(ydus.sizeof)
        obs[f"ydus[{rname}]._encode"] = outcome(ydus._encode, 1, None, "(path)")
    obs["DatetimeYdus()"] = outcome(datatypes.DatetimeYdus)
    obs["DatetimeYdus(a)"] = outcome(datatypes.DatetimeYdus, Int64ub)
    obs["DatetimeYdus(kw)"] = outcome(
        lambda: datatypes.DatetimeYdus(
            base=Int64ub, reference_date=references["datetime"]
        ).parse(b"\x00" * 7 + b"\x05")
    )

    # --- both, linked through the context (as in the signal data record) -----------
    linked = Struct(
        "ref" / datatypes.DatetimeYdms(ydms_base),
        "other" / Int32ub,
        "precise" / datatypes.DatetimeYdus(Int64ub, this.ref),
        "nested" / Struct("precise" / datatypes.DatetimeYdus(Int64ub, this._.ref)),
    )
    for y, d, ms, us in [
        (2019, 1, 0, 0),
        (2019, 32, 52672107, 52672107123),
        (2020, 366, 86399999, 86399999999),
        (2020, 366, 86400000, 5),
        (9999, 365, 86399999, 86400000000),
        (9999, 365, 86400000, 0),
        (0, 1, 0, 0),
        (2019, 2**32 - 1, 0, 0),
        (1990, 270, 52032102, 2**64 - 1),
    ]:
        data = struct.pack(">IIIIQQ", y, d, ms, 77, us, us + 1 if us < 2**64 - 1 else 0)
        obs[f"linked.parse({y}, {d}, {ms}, {us})"] = outcome(linked.parse, data)
        obs[f"linked[3].parse({y}, {d}, {ms}, {us})"] = outcome(linked[3].parse, data * 3)
    obs["linked.parse(short)"] = outcome(linked.parse, b"\x00\x00\x07\xe3" * 5)

    return json.loads(json.dumps(obs))


MARKER = "# --- recorded expectations (do not edit by hand) ---\n"


def load_expected():
    return json.loads(EXPECTED)


def test_equivalence():
    expected = load_expected()
    actual = observe()
    assert sorted(actual) == sorted(expected)
    different = [key for key in expected if actual[key] != expected[key]]
    for key in different:
        print("MISMATCH", key, "\n  expected:", expected[key], "\n  actual:  ", actual[key])
    assert not different
    assert len(expected) > 100


def record():
    path = pathlib.Path(__file__)
    source = path.read_text()
    head = source[: source.index(MARKER) + len(MARKER)]
    body = json.dumps(observe(), indent=0, sort_keys=True, ensure_ascii=True)
    assert '"""' not in body
    path.write_text(head + 'EXPECTED = r"""\n' + body + '\n"""\n' + TAIL)


TAIL = '''

if __name__ == "__main__":
    if "--record" in sys.argv[1:]:
        record()
        print("recorded")
    else:
        test_equivalence()
        print("equivalent:", len(load_expected()), "observations match")
'''

# --- recorded expectations (do not edit by hand) ---
EXPECTED = r"""
{
"DatetimeYdms()": [
"raised",
"builtins.TypeError",
"Subconstruct.__init__() missing 1 required positional argument: 'subcon'"
],
"DatetimeYdms(a, b)": [
"raised",
"builtins.TypeError",
"Subconstruct.__init__() takes 2 positional arguments but 3 were given"
],
"DatetimeYdms.mro": [
"DatetimeYdms",
"Adapter",
"Subconstruct",
"Construct",
"object"
],
"DatetimeYdms.public": [
"__doc__",
"__module__"
],
"DatetimeYdus()": [
"raised",
"builtins.TypeError",
"DatetimeYdus.__init__() missing 2 required positional arguments: 'base' and 'reference_date'"
],
"DatetimeYdus(a)": [
"raised",
"builtins.TypeError",
"DatetimeYdus.__init__() missing 1 required positional argument: 'reference_date'"
],
"DatetimeYdus(kw)": [
"returned",
[
"datetime",
"2019-01-01T00:00:00.000005",
"None",
0
]
],
"DatetimeYdus.mro": [
"DatetimeYdus",
"Adapter",
"Subconstruct",
"Construct",
"object"
],
"DatetimeYdus.public": [
"__doc__",
"__init__",
"__module__"
],
"linked.parse(0, 1, 0, 0)": [
"raised",
"builtins.ValueError",
"year 0 is out of range"
],
"linked.parse(1990, 270, 52032102, 18446744073709551615)": [
"raised",
"builtins.OverflowError",
"date value out of range"
],
"linked.parse(2019, 1, 0, 0)": [
"returned",
[
"Container",
[
[
"ref",
[
"datetime",
"2019-01-01T00:00:00",
"None",
0
]
],
[
"other",
[
"int",
77
]
],
[
"precise",
[
"datetime",
"2019-01-01T00:00:00",
"None",
0
]
],
[
"nested",
[
"Container",
[
[
"precise",
[
"datetime",
"2019-01-01T00:00:00.000001",
"None",
0
]
]
]
]
]
]
]
],
"linked.parse(2019, 32, 52672107, 52672107123)": [
"returned",
[
"Container",
[
[
"ref",
[
"datetime",
"2019-02-01T14:37:52.107000",
"None",
0
]
],
[
"other",
[
"int",
77
]
],
[
"precise",
[
"datetime",
"2019-02-01T14:37:52.107123",
"None",
0
]
],
[
"nested",
[
"Container",
[
[
"precise",
[
"datetime",
"2019-02-01T14:37:52.107124",
"None",
0
]
]
]
]
]
]
]
],
"linked.parse(2019, 4294967295, 0, 0)": [
"raised",
"builtins.OverflowError",
"Python int too large to convert to C int"
],
"linked.parse(2020, 366, 86399999, 86399999999)": [
"returned",
[
"Container",
[
[
"ref",
[
"datetime",
"2020-12-31T23:59:59.999000",
"None",
0
]
],
[
"other",
[
"int",
77
]
],
[
"precise",
[
"datetime",
"2020-12-31T23:59:59.999999",
"None",
0
]
],
[
"nested",
[
"Container",
[
[
"precise",
[
"datetime",
"2021-01-01T00:00:00",
"None",
0
]
]
]
]
]
]
]
],
"linked.parse(2020, 366, 86400000, 5)": [
"returned",
[
"Container",
[
[
"ref",
[
"datetime",
"2021-01-01T00:00:00",
"None",
0
]
],
[
"other",
[
"int",
77
]
],
[
"precise",
[
"datetime",
"2021-01-01T00:00:00.000005",
"None",
0
]
],
[
"nested",
[
"Container",
[
[
"precise",
[
"datetime",
"2021-01-01T00:00:00.000006",
"None",
0
]
]
]
]
]
]
]
],
"linked.parse(9999, 365, 86399999, 86400000000)": [
"raised",
"builtins.OverflowError",
"date value out of range"
],
"linked.parse(9999, 365, 86400000, 0)": [
"raised",
"builtins.OverflowError",
"date value out of range"
],
"linked.parse(short)": [
"raised",
"construct.core.StreamError",
"Error in path (parsing) -> precise\nstream read less than specified amount, expected 8, found 4"
],
"linked[3].parse(0, 1, 0, 0)": [
"raised",
"builtins.ValueError",
"year 0 is out of range"
],
"linked[3].parse(1990, 270, 52032102, 18446744073709551615)": [
"raised",
"builtins.OverflowError",
"date value out of range"
],
"linked[3].parse(2019, 1, 0, 0)": [
"returned",
[
"ListContainer",
[
[
"Container",
[
[
"ref",
[
"datetime",
"2019-01-01T00:00:00",
"None",
0
]
],
[
"other",
[
"int",
77
]
],
[
"precise",
[
"datetime",
"2019-01-01T00:00:00",
"None",
0
]
],
[
"nested",
[
"Container",
[
[
"precise",
[
"datetime",
"2019-01-01T00:00:00.000001",
"None",
0
]
]
]
]
]
]
],
[
"Container",
[
[
"ref",
[
"datetime",
"2019-01-01T00:00:00",
"None",
0
]
],
[
"other",
[
"int",
77
]
],
[
"precise",
[
"datetime",
"2019-01-01T00:00:00",
"None",
0
]
],
[
"nested",
[
"Container",
[
[
"precise",
[
"datetime",
"2019-01-01T00:00:00.000001",
"None",
0
]
]
]
]
]
]
],
[
"Container",
[
[
"ref",
[
"datetime",
"2019-01-01T00:00:00",
"None",
0
]
],
[
"other",
[
"int",
77
]
],
[
"precise",
[
"datetime",
"2019-01-01T00:00:00",
"None",
0
]
],
[
"nested",
[
"Container",
[
[
"precise",
[
"datetime",
"2019-01-01T00:00:00.000001",
"None",
0
]
]
]
]
]
]
]
]
]
],
"linked[3].parse(2019, 32, 52672107, 52672107123)": [
"returned",
[
"ListContainer",
[
[
"Container",
[
[
"ref",
[
"datetime",
"2019-02-01T14:37:52.107000",
"None",
0
]
],
[
"other",
[
"int",
77
]
],
[
"precise",
[
"datetime",
"2019-02-01T14:37:52.107123",
"None",
0
]
],
[
"nested",
[
"Container",
[
[
"precise",
[
"datetime",
"2019-02-01T14:37:52.107124",
"None",
0
]
]
]
]
]
]
],
[
"Container",
[
[
"ref",
[
"datetime",
"2019-02-01T14:37:52.107000",
"None",
0
]
],
[
"other",
[
"int",
77
]
],
[
"precise",
[
"datetime",
"2019-02-01T14:37:52.107123",
"None",
0
]
],
[
"nested",
[
"Container",
[
[
"precise",
[
"datetime",
"2019-02-01T14:37:52.107124",
"None",
0
]
]
]
]
]
]
],
[
"Container",
[
[
"ref",
[
"datetime",
"2019-02-01T14:37:52.107000",
"None",
0
]
],
[
"other",
[
"int",
77
]
],
[
"precise",
[
"datetime",
"2019-02-01T14:37:52.107123",
"None",
0
]
],
[
"nested",
[
"Container",
[
[
"precise",
[
"datetime",
"2019-02-01T14:37:52.107124",
"None",
0
]
]
]
]
]
]
]
]
]
],
"linked[3].parse(2019, 4294967295, 0, 0)": [
"raised",
"builtins.OverflowError",
"Python int too large to convert to C int"
],
"linked[3].parse(2020, 366, 86399999, 86399999999)": [
"returned",
[
"ListContainer",
[
[
"Container",
[
[
"ref",
[
"datetime",
"2020-12-31T23:59:59.999000",
"None",
0
]
],
[
"other",
[
"int",
77
]
],
[
"precise",
[
"datetime",
"2020-12-31T23:59:59.999999",
"None",
0
]
],
[
"nested",
[
"Container",
[
[
"precise",
[
"datetime",
"2021-01-01T00:00:00",
"None",
0
]
]
]
]
]
]
],
[
"Container",
[
[
"ref",
[
"datetime",
"2020-12-31T23:59:59.999000",
"None",
0
]
],
[
"other",
[
"int",
77
]
],
[
"precise",
[
"datetime",
"2020-12-31T23:59:59.999999",
"None",
0
]
],
[
"nested",
[
"Container",
[
[
"precise",
[
"datetime",
"2021-01-01T00:00:00",
"None",
0
]
]
]
]
]
]
],
[
"Container",
[
[
"ref",
[
"datetime",
"2020-12-31T23:59:59.999000",
"None",
0
]
],
[
"other",
[
"int",
77
]
],
[
"precise",
[
"datetime",
"2020-12-31T23:59:59.999999",
"None",
0
]
],
[
"nested",
[
"Container",
[
[
"precise",
[
"datetime",
"2021-01-01T00:00:00",
"None",
0
]
]
]
]
]
]
]
]
]
],
"linked[3].parse(2020, 366, 86400000, 5)": [
"returned",
[
"ListContainer",
[
[
"Container",
[
[
"ref",
[
"datetime",
"2021-01-01T00:00:00",
"None",
0
]
],
[
"other",
[
"int",
77
]
],
[
"precise",
[
"datetime",
"2021-01-01T00:00:00.000005",
"None",
0
]
],
[
"nested",
[
"Container",
[
[
"precise",
[
"datetime",
"2021-01-01T00:00:00.000006",
"None",
0
]
]
]
]
]
]
],
[
"Container",
[
[
"ref",
[
"datetime",
"2021-01-01T00:00:00",
"None",
0
]
],
[
"other",
[
"int",
77
]
],
[
"precise",
[
"datetime",
"2021-01-01T00:00:00.000005",
"None",
0
]
],
[
"nested",
[
"Container",
[
[
"precise",
[
"datetime",
"2021-01-01T00:00:00.000006",
"None",
0
]
]
]
]
]
]
],
[
"Container",
[
[
"ref",
[
"datetime",
"2021-01-01T00:00:00",
"None",
0
]
],
[
"other",
[
"int",
77
]
],
[
"precise",
[
"datetime",
"2021-01-01T00:00:00.000005",
"None",
0
]
],
[
"nested",
[
"Container",
[
[
"precise",
[
"datetime",
"2021-01-01T00:00:00.000006",
"None",
0
]
]
]
]
]
]
]
]
]
],
"linked[3].parse(9999, 365, 86399999, 86400000000)": [
"raised",
"builtins.OverflowError",
"date value out of range"
],
"linked[3].parse(9999, 365, 86400000, 0)": [
"raised",
"builtins.OverflowError",
"date value out of range"
],
"public names": [
"Adapter",
"AsciiComplex",
"AsciiFloat",
"AsciiInteger",
"DatetimeYdms",
"DatetimeYdus",
"Factor",
"Metadata",
"PaddedString",
"PaddedString_",
"StripNullBytes",
"Struct",
"datetime"
],
"ydms._decode('abc')": [
"raised",
"builtins.TypeError",
"string indices must be integers, not 'str'"
],
"ydms._decode((2019, 1, 0))": [
"raised",
"builtins.TypeError",
"tuple indices must be integers or slices, not str"
],
"ydms._decode(5)": [
"raised",
"builtins.TypeError",
"'int' object is not subscriptable"
],
"ydms._decode(None)": [
"raised",
"builtins.TypeError",
"'NoneType' object is not subscriptable"
],
"ydms._decode([2019, 1, 0])": [
"raised",
"builtins.TypeError",
"list indices must be integers or slices, not str"
],
"ydms._decode(ctx)": [
"returned",
[
"datetime",
"2000-02-29T00:00:00.005000",
"None",
0
]
],
"ydms._decode(noisy)": [
"returned",
[
"datetime",
"2019-02-14T00:00:01.500000",
"None",
0
]
],
"ydms._decode(noisy).access order": [
"year",
"day_of_year",
"milliseconds"
],
"ydms._decode(noisy).operations": [
"index(year)",
"day_of_year - 1"
],
"ydms._decode[0](Container {'year': 2019, 'day_of_year': 1, 'milliseconds': 0})": [
"returned",
[
"datetime",
"2019-01-01T00:00:00",
"None",
0
]
],
"ydms._decode[0](Recorder {'year': 2019, 'day_of_year': 1, 'milliseconds': 0})": [
"returned",
[
"datetime",
"2019-01-01T00:00:00",
"None",
0
]
],
"ydms._decode[0](Recorder {'year': 2019, 'day_of_year': 1, 'milliseconds': 0}).access order": [
"year",
"day_of_year",
"milliseconds"
],
"ydms._decode[0](dict {'year': 2019, 'day_of_year': 1, 'milliseconds': 0})": [
"returned",
[
"datetime",
"2019-01-01T00:00:00",
"None",
0
]
],
"ydms._decode[10](Container {'year': 2019, 'day_of_year': 1, 'milliseconds': None})": [
"raised",
"builtins.TypeError",
"unsupported type for timedelta milliseconds component: NoneType"
],
"ydms._decode[10](Recorder {'year': 2019, 'day_of_year': 1, 'milliseconds': None})": [
"raised",
"builtins.TypeError",
"unsupported type for timedelta milliseconds component: NoneType"
],
"ydms._decode[10](Recorder {'year': 2019, 'day_of_year': 1, 'milliseconds': None}).access order": [
"year",
"day_of_year",
"milliseconds"
],
"ydms._decode[10](dict {'year': 2019, 'day_of_year': 1, 'milliseconds': None})": [
"raised",
"builtins.TypeError",
"unsupported type for timedelta milliseconds component: NoneType"
],
"ydms._decode[11](Container {'year': True, 'day_of_year': True, 'milliseconds': True})": [
"returned",
[
"datetime",
"0001-01-01T00:00:00.001000",
"None",
0
]
],
"ydms._decode[11](Recorder {'year': True, 'day_of_year': True, 'milliseconds': True})": [
"returned",
[
"datetime",
"0001-01-01T00:00:00.001000",
"None",
0
]
],
"ydms._decode[11](Recorder {'year': True, 'day_of_year': True, 'milliseconds': True}).access order": [
"year",
"day_of_year",
"milliseconds"
],
"ydms._decode[11](dict {'year': True, 'day_of_year': True, 'milliseconds': True})": [
"returned",
[
"datetime",
"0001-01-01T00:00:00.001000",
"None",
0
]
],
"ydms._decode[12](Container {'year': -1, 'day_of_year': 1, 'milliseconds': 0})": [
"raised",
"builtins.ValueError",
"year -1 is out of range"
],
"ydms._decode[12](Recorder {'year': -1, 'day_of_year': 1, 'milliseconds': 0})": [
"raised",
"builtins.ValueError",
"year -1 is out of range"
],
"ydms._decode[12](Recorder {'year': -1, 'day_of_year': 1, 'milliseconds': 0}).access order": [
"year"
],
"ydms._decode[12](dict {'year': -1, 'day_of_year': 1, 'milliseconds': 0})": [
"raised",
"builtins.ValueError",
"year -1 is out of range"
],
"ydms._decode[13](Container {'year': 1000000000000000000000000000000, 'day_of_year': 1, 'milliseconds': 0})": [
"raised",
"builtins.OverflowError",
"Python int too large to convert to C long"
],
"ydms._decode[13](Recorder {'year': 1000000000000000000000000000000, 'day_of_year': 1, 'milliseconds': 0})": [
"raised",
"builtins.OverflowError",
"Python int too large to convert to C long"
],
"ydms._decode[13](Recorder {'year': 1000000000000000000000000000000, 'day_of_year': 1, 'milliseconds': 0}).access order": [
"year"
],
"ydms._decode[13](dict {'year': 1000000000000000000000000000000, 'day_of_year': 1, 'milliseconds': 0})": [
"raised",
"builtins.OverflowError",
"Python int too large to convert to C long"
],
"ydms._decode[14](Container {'year': 2019, 'day_of_year': 1000000000000000000000000000000, 'milliseconds': 0})": [
"raised",
"builtins.OverflowError",
"Python int too large to convert to C int"
],
"ydms._decode[14](Recorder {'year': 2019, 'day_of_year': 1000000000000000000000000000000, 'milliseconds': 0})": [
"raised",
"builtins.OverflowError",
"Python int too large to convert to C int"
],
"ydms._decode[14](Recorder {'year': 2019, 'day_of_year': 1000000000000000000000000000000, 'milliseconds': 0}).access order": [
"year",
"day_of_year",
"milliseconds"
],
"ydms._decode[14](dict {'year': 2019, 'day_of_year': 1000000000000000000000000000000, 'milliseconds': 0})": [
"raised",
"builtins.OverflowError",
"Python int too large to convert to C int"
],
"ydms._decode[15](Container {'year': 2019, 'day_of_year': 1, 'milliseconds': 1000000000000000000000000000000})": [
"raised",
"builtins.OverflowError",
"Python int too large to convert to C int"
],
"ydms._decode[15](Recorder {'year': 2019, 'day_of_year': 1, 'milliseconds': 1000000000000000000000000000000})": [
"raised",
"builtins.OverflowError",
"Python int too large to convert to C int"
],
"ydms._decode[15](Recorder {'year': 2019, 'day_of_year': 1, 'milliseconds': 1000000000000000000000000000000}).access order": [
"year",
"day_of_year",
"milliseconds"
],
"ydms._decode[15](dict {'year': 2019, 'day_of_year': 1, 'milliseconds': 1000000000000000000000000000000})": [
"raised",
"builtins.OverflowError",
"Python int too large to convert to C int"
],
"ydms._decode[16](Container {'year': 2019, 'day_of_year': nan, 'milliseconds': 0})": [
"raised",
"builtins.ValueError",
"cannot convert float NaN to integer"
],
"ydms._decode[16](Recorder {'year': 2019, 'day_of_year': nan, 'milliseconds': 0})": [
"raised",
"builtins.ValueError",
"cannot convert float NaN to integer"
],
"ydms._decode[16](Recorder {'year': 2019, 'day_of_year': nan, 'milliseconds': 0}).access order": [
"year",
"day_of_year",
"milliseconds"
],
"ydms._decode[16](dict {'year': 2019, 'day_of_year': nan, 'milliseconds': 0})": [
"raised",
"builtins.ValueError",
"cannot convert float NaN to integer"
],
"ydms._decode[17](Container {'year': 2019, 'day_of_year': 1, 'milliseconds': inf})": [
"raised",
"builtins.OverflowError",
"cannot convert float infinity to integer"
],
"ydms._decode[17](Recorder {'year': 2019, 'day_of_year': 1, 'milliseconds': inf})": [
"raised",
"builtins.OverflowError",
"cannot convert float infinity to integer"
],
"ydms._decode[17](Recorder {'year': 2019, 'day_of_year': 1, 'milliseconds': inf}).access order": [
"year",
"day_of_year",
"milliseconds"
],
"ydms._decode[17](dict {'year': 2019, 'day_of_year': 1, 'milliseconds': inf})": [
"raised",
"builtins.OverflowError",
"cannot convert float infinity to integer"
],
"ydms._decode[18](Container {'year': 9999, 'day_of_year': 365, 'milliseconds': 86400000})": [
"raised",
"builtins.OverflowError",
"date value out of range"
],
"ydms._decode[18](Recorder {'year': 9999, 'day_of_year': 365, 'milliseconds': 86400000})": [
"raised",
"builtins.OverflowError",
"date value out of range"
],
"ydms._decode[18](Recorder {'year': 9999, 'day_of_year': 365, 'milliseconds': 86400000}).access order": [
"year",
"day_of_year",
"milliseconds"
],
"ydms._decode[18](dict {'year': 9999, 'day_of_year': 365, 'milliseconds': 86400000})": [
"raised",
"builtins.OverflowError",
"date value out of range"
],
"ydms._decode[19](Container {'year': 9999, 'day_of_year': 365, 'milliseconds': 86399999})": [
"returned",
[
"datetime",
"9999-12-31T23:59:59.999000",
"None",
0
]
],
"ydms._decode[19](Recorder {'year': 9999, 'day_of_year': 365, 'milliseconds': 86399999})": [
"returned",
[
"datetime",
"9999-12-31T23:59:59.999000",
"None",
0
]
],
"ydms._decode[19](Recorder {'year': 9999, 'day_of_year': 365, 'milliseconds': 86399999}).access order": [
"year",
"day_of_year",
"milliseconds"
],
"ydms._decode[19](dict {'year': 9999, 'day_of_year': 365, 'milliseconds': 86399999})": [
"returned",
[
"datetime",
"9999-12-31T23:59:59.999000",
"None",
0
]
],
"ydms._decode[1](Container {'year': 2019, 'day_of_year': -5, 'milliseconds': -1})": [
"returned",
[
"datetime",
"2018-12-25T23:59:59.999000",
"None",
0
]
],
"ydms._decode[1](Recorder {'year': 2019, 'day_of_year': -5, 'milliseconds': -1})": [
"returned",
[
"datetime",
"2018-12-25T23:59:59.999000",
"None",
0
]
],
"ydms._decode[1](Recorder {'year': 2019, 'day_of_year': -5, 'milliseconds': -1}).access order": [
"year",
"day_of_year",
"milliseconds"
],
"ydms._decode[1](dict {'year': 2019, 'day_of_year': -5, 'milliseconds': -1})": [
"returned",
[
"datetime",
"2018-12-25T23:59:59.999000",
"None",
0
]
],
"ydms._decode[20](Container {'year': 1, 'day_of_year': 0, 'milliseconds': 0})": [
"raised",
"builtins.OverflowError",
"date value out of range"
],
"ydms._decode[20](Recorder {'year': 1, 'day_of_year': 0, 'milliseconds': 0})": [
"raised",
"builtins.OverflowError",
"date value out of range"
],
"ydms._decode[20](Recorder {'year': 1, 'day_of_year': 0, 'milliseconds': 0}).access order": [
"year",
"day_of_year",
"milliseconds"
],
"ydms._decode[20](dict {'year': 1, 'day_of_year': 0, 'milliseconds': 0})": [
"raised",
"builtins.OverflowError",
"date value out of range"
],
"ydms._decode[21](Container {'year': 1, 'day_of_year': 1, 'milliseconds': -1})": [
"raised",
"builtins.OverflowError",
"date value out of range"
],
"ydms._decode[21](Recorder {'year': 1, 'day_of_year': 1, 'milliseconds': -1})": [
"raised",
"builtins.OverflowError",
"date value out of range"
],
"ydms._decode[21](Recorder {'year': 1, 'day_of_year': 1, 'milliseconds': -1}).access order": [
"year",
"day_of_year",
"milliseconds"
],
"ydms._decode[21](dict {'year': 1, 'day_of_year': 1, 'milliseconds': -1})": [
"raised",
"builtins.OverflowError",
"date value out of range"
],
"ydms._decode[22](Container {'year': 0, 'day_of_year': 1000000000000000000000000000000, 'milliseconds': 'x'})": [
"raised",
"builtins.ValueError",
"year 0 is out of range"
],
"ydms._decode[22](Recorder {'year': 0, 'day_of_year': 1000000000000000000000000000000, 'milliseconds': 'x'})": [
"raised",
"builtins.ValueError",
"year 0 is out of range"
],
"ydms._decode[22](Recorder {'year': 0, 'day_of_year': 1000000000000000000000000000000, 'milliseconds': 'x'}).access order": [
"year"
],
"ydms._decode[22](dict {'year': 0, 'day_of_year': 1000000000000000000000000000000, 'milliseconds': 'x'})": [
"raised",
"builtins.ValueError",
"year 0 is out of range"
],
"ydms._decode[23](Container {'year': 0, 'day_of_year': None, 'milliseconds': None})": [
"raised",
"builtins.ValueError",
"year 0 is out of range"
],
"ydms._decode[23](Recorder {'year': 0, 'day_of_year': None, 'milliseconds': None})": [
"raised",
"builtins.ValueError",
"year 0 is out of range"
],
"ydms._decode[23](Recorder {'year': 0, 'day_of_year': None, 'milliseconds': None}).access order": [
"year"
],
"ydms._decode[23](dict {'year': 0, 'day_of_year': None, 'milliseconds': None})": [
"raised",
"builtins.ValueError",
"year 0 is out of range"
],
"ydms._decode[24](Container {'year': 2019, 'day_of_year': None, 'milliseconds': 'x'})": [
"raised",
"builtins.TypeError",
"unsupported operand type(s) for -: 'NoneType' and 'int'"
],
"ydms._decode[24](Recorder {'year': 2019, 'day_of_year': None, 'milliseconds': 'x'})": [
"raised",
"builtins.TypeError",
"unsupported operand type(s) for -: 'NoneType' and 'int'"
],
"ydms._decode[24](Recorder {'year': 2019, 'day_of_year': None, 'milliseconds': 'x'}).access order": [
"year",
"day_of_year"
],
"ydms._decode[24](dict {'year': 2019, 'day_of_year': None, 'milliseconds': 'x'})": [
"raised",
"builtins.TypeError",
"unsupported operand type(s) for -: 'NoneType' and 'int'"
],
"ydms._decode[25](Container {'year': 2019, 'day_of_year': 1000000000000000000000000000000, 'milliseconds': 'x'})": [
"raised",
"builtins.TypeError",
"unsupported type for timedelta milliseconds component: str"
],
"ydms._decode[25](Recorder {'year': 2019, 'day_of_year': 1000000000000000000000000000000, 'milliseconds': 'x'})": [
"raised",
"builtins.TypeError",
"unsupported type for timedelta milliseconds component: str"
],
"ydms._decode[25](Recorder {'year': 2019, 'day_of_year': 1000000000000000000000000000000, 'milliseconds': 'x'}).access order": [
"year",
"day_of_year",
"milliseconds"
],
"ydms._decode[25](dict {'year': 2019, 'day_of_year': 1000000000000000000000000000000, 'milliseconds': 'x'})": [
"raised",
"builtins.TypeError",
"unsupported type for timedelta milliseconds component: str"
],
"ydms._decode[26](Container {'year': 'x', 'day_of_year': None})": [
"raised",
"builtins.TypeError",
"'str' object cannot be interpreted as an integer"
],
"ydms._decode[26](Recorder {'year': 'x', 'day_of_year': None})": [
"raised",
"builtins.TypeError",
"'str' object cannot be interpreted as an integer"
],
"ydms._decode[26](Recorder {'year': 'x', 'day_of_year': None}).access order": [
"year"
],
"ydms._decode[26](dict {'year': 'x', 'day_of_year': None})": [
"raised",
"builtins.TypeError",
"'str' object cannot be interpreted as an integer"
],
"ydms._decode[27](Container {'day_of_year': None, 'milliseconds': 0})": [
"raised",
"builtins.KeyError",
"'year'"
],
"ydms._decode[27](Recorder {'day_of_year': None, 'milliseconds': 0})": [
"raised",
"builtins.KeyError",
"'year'"
],
"ydms._decode[27](Recorder {'day_of_year': None, 'milliseconds': 0}).access order": [
"year"
],
"ydms._decode[27](dict {'day_of_year': None, 'milliseconds': 0})": [
"raised",
"builtins.KeyError",
"'year'"
],
"ydms._decode[28](Container {'year': 2019, 'milliseconds': 0})": [
"raised",
"builtins.KeyError",
"'day_of_year'"
],
"ydms._decode[28](Recorder {'year': 2019, 'milliseconds': 0})": [
"raised",
"builtins.KeyError",
"'day_of_year'"
],
"ydms._decode[28](Recorder {'year': 2019, 'milliseconds': 0}).access order": [
"year",
"day_of_year"
],
"ydms._decode[28](dict {'year': 2019, 'milliseconds': 0})": [
"raised",
"builtins.KeyError",
"'day_of_year'"
],
"ydms._decode[29](Container {'year': 2019, 'day_of_year': 5})": [
"raised",
"builtins.KeyError",
"'milliseconds'"
],
"ydms._decode[29](Recorder {'year': 2019, 'day_of_year': 5})": [
"raised",
"builtins.KeyError",
"'milliseconds'"
],
"ydms._decode[29](Recorder {'year': 2019, 'day_of_year': 5}).access order": [
"year",
"day_of_year",
"milliseconds"
],
"ydms._decode[29](dict {'year': 2019, 'day_of_year': 5})": [
"raised",
"builtins.KeyError",
"'milliseconds'"
],
"ydms._decode[2](Container {'year': 2019, 'day_of_year': 1.5, 'milliseconds': 0.25})": [
"returned",
[
"datetime",
"2019-01-01T12:00:00.000250",
"None",
0
]
],
"ydms._decode[2](Recorder {'year': 2019, 'day_of_year': 1.5, 'milliseconds': 0.25})": [
"returned",
[
"datetime",
"2019-01-01T12:00:00.000250",
"None",
0
]
],
"ydms._decode[2](Recorder {'year': 2019, 'day_of_year': 1.5, 'milliseconds': 0.25}).access order": [
"year",
"day_of_year",
"milliseconds"
],
"ydms._decode[2](dict {'year': 2019, 'day_of_year': 1.5, 'milliseconds': 0.25})": [
"returned",
[
"datetime",
"2019-01-01T12:00:00.000250",
"None",
0
]
],
"ydms._decode[30](Container {'year': 0})": [
"raised",
"builtins.ValueError",
"year 0 is out of range"
],
"ydms._decode[30](Recorder {'year': 0})": [
"raised",
"builtins.ValueError",
"year 0 is out of range"
],
"ydms._decode[30](Recorder {'year': 0}).access order": [
"year"
],
"ydms._decode[30](dict {'year': 0})": [
"raised",
"builtins.ValueError",
"year 0 is out of range"
],
"ydms._decode[31](Container {'year': 0, 'milliseconds': 1})": [
"raised",
"builtins.ValueError",
"year 0 is out of range"
],
"ydms._decode[31](Recorder {'year': 0, 'milliseconds': 1})": [
"raised",
"builtins.ValueError",
"year 0 is out of range"
],
"ydms._decode[31](Recorder {'year': 0, 'milliseconds': 1}).access order": [
"year"
],
"ydms._decode[31](dict {'year': 0, 'milliseconds': 1})": [
"raised",
"builtins.ValueError",
"year 0 is out of range"
],
"ydms._decode[32](Container {})": [
"raised",
"builtins.KeyError",
"'year'"
],
"ydms._decode[32](Recorder {})": [
"raised",
"builtins.KeyError",
"'year'"
],
"ydms._decode[32](Recorder {}).access order": [
"year"
],
"ydms._decode[32](dict {})": [
"raised",
"builtins.KeyError",
"'year'"
],
"ydms._decode[33](Container {'year': 2019, 'day_of_year': 1, 'milliseconds': 0, 'extra': 1})": [
"returned",
[
"datetime",
"2019-01-01T00:00:00",
"None",
0
]
],
"ydms._decode[33](Recorder {'year': 2019, 'day_of_year': 1, 'milliseconds': 0, 'extra': 1})": [
"returned",
[
"datetime",
"2019-01-01T00:00:00",
"None",
0
]
],
"ydms._decode[33](Recorder {'year': 2019, 'day_of_year': 1, 'milliseconds': 0, 'extra': 1}).access order": [
"year",
"day_of_year",
"milliseconds"
],
"ydms._decode[33](dict {'year': 2019, 'day_of_year': 1, 'milliseconds': 0, 'extra': 1})": [
"returned",
[
"datetime",
"2019-01-01T00:00:00",
"None",
0
]
],
"ydms._decode[3](Container {'year': 2019, 'day_of_year': 1, 'milliseconds': 0.0005})": [
"returned",
[
"datetime",
"2019-01-01T00:00:00",
"None",
0
]
],
"ydms._decode[3](Recorder {'year': 2019, 'day_of_year': 1, 'milliseconds': 0.0005})": [
"returned",
[
"datetime",
"2019-01-01T00:00:00",
"None",
0
]
],
"ydms._decode[3](Recorder {'year': 2019, 'day_of_year': 1, 'milliseconds': 0.0005}).access order": [
"year",
"day_of_year",
"milliseconds"
],
"ydms._decode[3](dict {'year': 2019, 'day_of_year': 1, 'milliseconds': 0.0005})": [
"returned",
[
"datetime",
"2019-01-01T00:00:00",
"None",
0
]
],
"ydms._decode[4](Container {'year': 2019.0, 'day_of_year': 1, 'milliseconds': 0})": [
"raised",
"builtins.TypeError",
"'float' object cannot be interpreted as an integer"
],
"ydms._decode[4](Recorder {'year': 2019.0, 'day_of_year': 1, 'milliseconds': 0})": [
"raised",
"builtins.TypeError",
"'float' object cannot be interpreted as an integer"
],
"ydms._decode[4](Recorder {'year': 2019.0, 'day_of_year': 1, 'milliseconds': 0}).access order": [
"year"
],
"ydms._decode[4](dict {'year': 2019.0, 'day_of_year': 1, 'milliseconds': 0})": [
"raised",
"builtins.TypeError",
"'float' object cannot be interpreted as an integer"
],
"ydms._decode[5](Container {'year': '2019', 'day_of_year': 1, 'milliseconds': 0})": [
"raised",
"builtins.TypeError",
"'str' object cannot be interpreted as an integer"
],
"ydms._decode[5](Recorder {'year': '2019', 'day_of_year': 1, 'milliseconds': 0})": [
"raised",
"builtins.TypeError",
"'str' object cannot be interpreted as an integer"
],
"ydms._decode[5](Recorder {'year': '2019', 'day_of_year': 1, 'milliseconds': 0}).access order": [
"year"
],
"ydms._decode[5](dict {'year': '2019', 'day_of_year': 1, 'milliseconds': 0})": [
"raised",
"builtins.TypeError",
"'str' object cannot be interpreted as an integer"
],
"ydms._decode[6](Container {'year': None, 'day_of_year': 1, 'milliseconds': 0})": [
"raised",
"builtins.TypeError",
"'NoneType' object cannot be interpreted as an integer"
],
"ydms._decode[6](Recorder {'year': None, 'day_of_year': 1, 'milliseconds': 0})": [
"raised",
"builtins.TypeError",
"'NoneType' object cannot be interpreted as an integer"
],
"ydms._decode[6](Recorder {'year': None, 'day_of_year': 1, 'milliseconds': 0}).access order": [
"year"
],
"ydms._decode[6](dict {'year': None, 'day_of_year': 1, 'milliseconds': 0})": [
"raised",
"builtins.TypeError",
"'NoneType' object cannot be interpreted as an integer"
],
"ydms._decode[7](Container {'year': 2019, 'day_of_year': '1', 'milliseconds': 0})": [
"raised",
"builtins.TypeError",
"unsupported operand type(s) for -: 'str' and 'int'"
],
"ydms._decode[7](Recorder {'year': 2019, 'day_of_year': '1', 'milliseconds': 0})": [
"raised",
"builtins.TypeError",
"unsupported operand type(s) for -: 'str' and 'int'"
],
"ydms._decode[7](Recorder {'year': 2019, 'day_of_year': '1', 'milliseconds': 0}).access order": [
"year",
"day_of_year"
],
"ydms._decode[7](dict {'year': 2019, 'day_of_year': '1', 'milliseconds': 0})": [
"raised",
"builtins.TypeError",
"unsupported operand type(s) for -: 'str' and 'int'"
],
"ydms._decode[8](Container {'year': 2019, 'day_of_year': None, 'milliseconds': 0})": [
"raised",
"builtins.TypeError",
"unsupported operand type(s) for -: 'NoneType' and 'int'"
],
"ydms._decode[8](Recorder {'year': 2019, 'day_of_year': None, 'milliseconds': 0})": [
"raised",
"builtins.TypeError",
"unsupported operand type(s) for -: 'NoneType' and 'int'"
],
"ydms._decode[8](Recorder {'year': 2019, 'day_of_year': None, 'milliseconds': 0}).access order": [
"year",
"day_of_year"
],
"ydms._decode[8](dict {'year': 2019, 'day_of_year': None, 'milliseconds': 0})": [
"raised",
"builtins.TypeError",
"unsupported operand type(s) for -: 'NoneType' and 'int'"
],
"ydms._decode[9](Container {'year': 2019, 'day_of_year': 1, 'milliseconds': '0'})": [
"raised",
"builtins.TypeError",
"unsupported type for timedelta milliseconds component: str"
],
"ydms._decode[9](Recorder {'year': 2019, 'day_of_year': 1, 'milliseconds': '0'})": [
"raised",
"builtins.TypeError",
"unsupported type for timedelta milliseconds component: str"
],
"ydms._decode[9](Recorder {'year': 2019, 'day_of_year': 1, 'milliseconds': '0'}).access order": [
"year",
"day_of_year",
"milliseconds"
],
"ydms._decode[9](dict {'year': 2019, 'day_of_year': 1, 'milliseconds': '0'})": [
"raised",
"builtins.TypeError",
"unsupported type for timedelta milliseconds component: str"
],
"ydms._encode": [
"raised",
"builtins.NotImplementedError",
""
],
"ydms.build": [
"raised",
"builtins.NotImplementedError",
""
],
"ydms.parse(0, 0, 0)": [
"raised",
"builtins.ValueError",
"year 0 is out of range"
],
"ydms.parse(0, 0, 1)": [
"raised",
"builtins.ValueError",
"year 0 is out of range"
],
"ydms.parse(0, 0, 1000)": [
"raised",
"builtins.ValueError",
"year 0 is out of range"
],
"ydms.parse(0, 0, 2147483648)": [
"raised",
"builtins.ValueError",
"year 0 is out of range"
],
"ydms.parse(0, 0, 4294967295)": [
"raised",
"builtins.ValueError",
"year 0 is out of range"
],
"ydms.parse(0, 0, 86399999)": [
"raised",
"builtins.ValueError",
"year 0 is out of range"
],
"ydms.parse(0, 0, 86400000)": [
"raised",
"builtins.ValueError",
"year 0 is out of range"
],
"ydms.parse(0, 0, 86400001)": [
"raised",
"builtins.ValueError",
"year 0 is out of range"
],
"ydms.parse(0, 0, 999)": [
"raised",
"builtins.ValueError",
"year 0 is out of range"
],
"ydms.parse(0, 1, 0)": [
"raised",
"builtins.ValueError",
"year 0 is out of range"
],
"ydms.parse(0, 1, 1)": [
"raised",
"builtins.ValueError",
"year 0 is out of range"
],
"ydms.parse(0, 1, 1000)": [
"raised",
"builtins.ValueError",
"year 0 is out of range"
],
"ydms.parse(0, 1, 2147483648)": [
"raised",
"builtins.ValueError",
"year 0 is out of range"
],
"ydms.parse(0, 1, 4294967295)": [
"raised",
"builtins.ValueError",
"year 0 is out of range"
],
"ydms.parse(0, 1, 86399999)": [
"raised",
"builtins.ValueError",
"year 0 is out of range"
],
"ydms.parse(0, 1, 86400000)": [
"raised",
"builtins.ValueError",
"year 0 is out of range"
],
"ydms.parse(0, 1, 86400001)": [
"raised",
"builtins.ValueError",
"year 0 is out of range"
],
"ydms.parse(0, 1, 999)": [
"raised",
"builtins.ValueError",
"year 0 is out of range"
],
"ydms.parse(0, 1000, 0)": [
"raised",
"builtins.ValueError",
"year 0 is out of range"
],
"ydms.parse(0, 1000, 1)": [
"raised",
"builtins.ValueError",
"year 0 is out of range"
],
"ydms.parse(0, 1000, 1000)": [
"raised",
"builtins.ValueError",
"year 0 is out of range"
],
"ydms.parse(0, 1000, 2147483648)": [
"raised",
"builtins.ValueError",
"year 0 is out of range"
],
"ydms.parse(0, 1000, 4294967295)": [
"raised",
"builtins.ValueError",
"year 0 is out of range"
],
"ydms.parse(0, 1000, 86399999)": [
"raised",
"builtins.ValueError",
"year 0 is out of range"
],
"ydms.parse(0, 1000, 86400000)": [
"raised",
"builtins.ValueError",
"year 0 is out of range"
],
"ydms.parse(0, 1000, 86400001)": [
"raised",
"builtins.ValueError",
"year 0 is out of range"
],
"ydms.parse(0, 1000, 999)": [
"raised",
"builtins.ValueError",
"year 0 is out of range"
],
"ydms.parse(0, 1000000000, 0)": [
"raised",
"builtins.ValueError",
"year 0 is out of range"
],
"ydms.parse(0, 1000000000, 1)": [
"raised",
"builtins.ValueError",
"year 0 is out of range"
],
"ydms.parse(0, 1000000000, 1000)": [
"raised",
"builtins.ValueError",
"year 0 is out of range"
],
"ydms.parse(0, 1000000000, 2147483648)": [
"raised",
"builtins.ValueError",
"year 0 is out of range"
],
"ydms.parse(0, 1000000000, 4294967295)": [
"raised",
"builtins.ValueError",
"year 0 is out of range"
],
"ydms.parse(0, 1000000000, 86399999)": [
"raised",
"builtins.ValueError",
"year 0 is out of range"
],
"ydms.parse(0, 1000000000, 86400000)": [
"raised",
"builtins.ValueError",
"year 0 is out of range"
],
"ydms.parse(0, 1000000000, 86400001)": [
"raised",
"builtins.ValueError",
"year 0 is out of range"
],
"ydms.parse(0, 1000000000, 999)": [
"raised",
"builtins.ValueError",
"year 0 is out of range"
],
"ydms.parse(0, 1000000001, 0)": [
"raised",
"builtins.ValueError",
"year 0 is out of range"
],
"ydms.parse(0, 1000000001, 1)": [
"raised",
"builtins.ValueError",
"year 0 is out of range"
],
"ydms.parse(0, 1000000001, 1000)": [
"raised",
"builtins.ValueError",
"year 0 is out of range"
],
"ydms.parse(0, 1000000001, 2147483648)": [
"raised",
"builtins.ValueError",
"year 0 is out of range"
],
"ydms.parse(0, 1000000001, 4294967295)": [
"raised",
"builtins.ValueError",
"year 0 is out of range"
],
"ydms.parse(0, 1000000001, 86399999)": [
"raised",
"builtins.ValueError",
"year 0 is out of range"
],
"ydms.parse(0, 1000000001, 86400000)": [
"raised",
"builtins.ValueError",
"year 0 is out of range"
],
"ydms.parse(0, 1000000001, 86400001)": [
"raised",
"builtins.ValueError",
"year 0 is out of range"
],
"ydms.parse(0, 1000000001, 999)": [
"raised",
"builtins.ValueError",
"year 0 is out of range"
],
"ydms.parse(0, 2, 0)": [
"raised",
"builtins.ValueError",
"year 0 is out of range"
],
"ydms.parse(0, 2, 1)": [
"raised",
"builtins.ValueError",
"year 0 is out of range"
],
"ydms.parse(0, 2, 1000)": [
"raised",
"builtins.ValueError",
"year 0 is out of range"
],
"ydms.parse(0, 2, 2147483648)": [
"raised",
"builtins.ValueError",
"year 0 is out of range"
],
"ydms.parse(0, 2, 4294967295)": [
"raised",
"builtins.ValueError",
"year 0 is out of range"
],
"ydms.parse(0, 2, 86399999)": [
"raised",
"builtins.ValueError",
"year 0 is out of range"
],
"ydms.parse(0, 2, 86400000)": [
"raised",
"builtins.ValueError",
"year 0 is out of range"
],
"ydms.parse(0, 2, 86400001)": [
"raised",
"builtins.ValueError",
"year 0 is out of range"
],
"ydms.parse(0, 2, 999)": [
"raised",
"builtins.ValueError",
"year 0 is out of range"
],
"ydms.parse(0, 365, 0)": [
"raised",
"builtins.ValueError",
"year 0 is out of range"
],
"ydms.parse(0, 365, 1)": [
"raised",
"builtins.ValueError",
"year 0 is out of range"
],
"ydms.parse(0, 365, 1000)": [
"raised",
"builtins.ValueError",
"year 0 is out of range"
],
"ydms.parse(0, 365, 2147483648)": [
"raised",
"builtins.ValueError",
"year 0 is out of range"
],
"ydms.parse(0, 365, 4294967295)": [
"raised",
"builtins.ValueError",
"year 0 is out of range"
],
"ydms.parse(0, 365, 86399999)": [
"raised",
"builtins.ValueError",
"year 0 is out of range"
],
"ydms.parse(0, 365, 86400000)": [
"raised",
"builtins.ValueError",
"year 0 is out of range"
],
"ydms.parse(0, 365, 86400001)": [
"raised",
"builtins.ValueError",
"year 0 is out of range"
],
"ydms.parse(0, 365, 999)": [
"raised",
"builtins.ValueError",
"year 0 is out of range"
],
"ydms.parse(0, 366, 0)": [
"raised",
"builtins.ValueError",
"year 0 is out of range"
],
"ydms.parse(0, 366, 1)": [
"raised",
"builtins.ValueError",
"year 0 is out of range"
],
"ydms.parse(0, 366, 1000)": [
"raised",
"builtins.ValueError",
"year 0 is out of range"
],
"ydms.parse(0, 366, 2147483648)": [
"raised",
"builtins.ValueError",
"year 0 is out of range"
],
"ydms.parse(0, 366, 4294967295)": [
"raised",
"builtins.ValueError",
"year 0 is out of range"
],
"ydms.parse(0, 366, 86399999)": [
"raised",
"builtins.ValueError",
"year 0 is out of range"
],
"ydms.parse(0, 366, 86400000)": [
"raised",
"builtins.ValueError",
"year 0 is out of range"
],
"ydms.parse(0, 366, 86400001)": [
"raised",
"builtins.ValueError",
"year 0 is out of range"
],
"ydms.parse(0, 366, 999)": [
"raised",
"builtins.ValueError",
"year 0 is out of range"
],
"ydms.parse(0, 367, 0)": [
"raised",
"builtins.ValueError",
"year 0 is out of range"
],
"ydms.parse(0, 367, 1)": [
"raised",
"builtins.ValueError",
"year 0 is out of range"
],
"ydms.parse(0, 367, 1000)": [
"raised",
"builtins.ValueError",
"year 0 is out of range"
],
"ydms.parse(0, 367, 2147483648)": [
"raised",
"builtins.ValueError",
"year 0 is out of range"
],
"ydms.parse(0, 367, 4294967295)": [
"raised",
"builtins.ValueError",
"year 0 is out of range"
],
"ydms.parse(0, 367, 86399999)": [
"raised",
"builtins.ValueError",
"year 0 is out of range"
],
"ydms.parse(0, 367, 86400000)": [
"raised",
"builtins.ValueError",
"year 0 is out of range"
],
"ydms.parse(0, 367, 86400001)": [
"raised",
"builtins.ValueError",
"year 0 is out of range"
],
"ydms.parse(0, 367, 999)": [
"raised",
"builtins.ValueError",
"year 0 is out of range"
],
"ydms.parse(0, 4294967295, 0)": [
"raised",
"builtins.ValueError",
"year 0 is out of range"
],
"ydms.parse(0, 4294967295, 1)": [
"raised",
"builtins.ValueError",
"year 0 is out of range"
],
"ydms.parse(0, 4294967295, 1000)": [
"raised",
"builtins.ValueError",
"year 0 is out of range"
],
"ydms.parse(0, 4294967295, 2147483648)": [
"raised",
"builtins.ValueError",
"year 0 is out of range"
],
"ydms.parse(0, 4294967295, 4294967295)": [
"raised",
"builtins.ValueError",
"year 0 is out of range"
],
"ydms.parse(0, 4294967295, 86399999)": [
"raised",
"builtins.ValueError",
"year 0 is out of range"
],
"ydms.parse(0, 4294967295, 86400000)": [
"raised",
"builtins.ValueError",
"year 0 is out of range"
],
"ydms.parse(0, 4294967295, 86400001)": [
"raised",
"builtins.ValueError",
"year 0 is out of range"
],
"ydms.parse(0, 4294967295, 999)": [
"raised",
"builtins.ValueError",
"year 0 is out of range"
],
"ydms.parse(0, 59, 0)": [
"raised",
"builtins.ValueError",
"year 0 is out of range"
],
"ydms.parse(0, 59, 1)": [
"raised",
"builtins.ValueError",
"year 0 is out of range"
],
"ydms.parse(0, 59, 1000)": [
"raised",
"builtins.ValueError",
"year 0 is out of range"
],
"ydms.parse(0, 59, 2147483648)": [
"raised",
"builtins.ValueError",
"year 0 is out of range"
],
"ydms.parse(0, 59, 4294967295)": [
"raised",
"builtins.ValueError",
"year 0 is out of range"
],
"ydms.parse(0, 59, 86399999)": [
"raised",
"builtins.ValueError",
"year 0 is out of range"
],
"ydms.parse(0, 59, 86400000)": [
"raised",
"builtins.ValueError",
"year 0 is out of range"
],
"ydms.parse(0, 59, 86400001)": [
"raised",
"builtins.ValueError",
"year 0 is out of range"
],
"ydms.parse(0, 59, 999)": [
"raised",
"builtins.ValueError",
"year 0 is out of range"
],
"ydms.parse(0, 60, 0)": [
"raised",
"builtins.ValueError",
"year 0 is out of range"
],
"ydms.parse(0, 60, 1)": [
"raised",
"builtins.ValueError",
"year 0 is out of range"
],
"ydms.parse(0, 60, 1000)": [
"raised",
"builtins.ValueError",
"year 0 is out of range"
],
"ydms.parse(0, 60, 2147483648)": [
"raised",
"builtins.ValueError",
"year 0 is out of range"
],
"ydms.parse(0, 60, 4294967295)": [
"raised",
"builtins.ValueError",
"year 0 is out of range"
],
"ydms.parse(0, 60, 86399999)": [
"raised",
"builtins.ValueError",
"year 0 is out of range"
],
"ydms.parse(0, 60, 86400000)": [
"raised",
"builtins.ValueError",
"year 0 is out of range"
],
"ydms.parse(0, 60, 86400001)": [
"raised",
"builtins.ValueError",
"year 0 is out of range"
],
"ydms.parse(0, 60, 999)": [
"raised",
"builtins.ValueError",
"year 0 is out of range"
],
"ydms.parse(0, 61, 0)": [
"raised",
"builtins.ValueError",
"year 0 is out of range"
],
"ydms.parse(0, 61, 1)": [
"raised",
"builtins.ValueError",
"year 0 is out of range"
],
"ydms.parse(0, 61, 1000)": [
"raised",
"builtins.ValueError",
"year 0 is out of range"
],
"ydms.parse(0, 61, 2147483648)": [
"raised",
"builtins.ValueError",
"year 0 is out of range"
],
"ydms.parse(0, 61, 4294967295)": [
"raised",
"builtins.ValueError",
"year 0 is out of range"
],
"ydms.parse(0, 61, 86399999)": [
"raised",
"builtins.ValueError",
"year 0 is out of range"
],
"ydms.parse(0, 61, 86400000)": [
"raised",
"builtins.ValueError",
"year 0 is out of range"
],
"ydms.parse(0, 61, 86400001)": [
"raised",
"builtins.ValueError",
"year 0 is out of range"
],
"ydms.parse(0, 61, 999)": [
"raised",
"builtins.ValueError",
"year 0 is out of range"
],
"ydms.parse(0, 999999999, 0)": [
"raised",
"builtins.ValueError",
"year 0 is out of range"
],
"ydms.parse(0, 999999999, 1)": [
"raised",
"builtins.ValueError",
"year 0 is out of range"
],
"ydms.parse(0, 999999999, 1000)": [
"raised",
"builtins.ValueError",
"year 0 is out of range"
],
"ydms.parse(0, 999999999, 2147483648)": [
"raised",
"builtins.ValueError",
"year 0 is out of range"
],
"ydms.parse(0, 999999999, 4294967295)": [
"raised",
"builtins.ValueError",
"year 0 is out of range"
],
"ydms.parse(0, 999999999, 86399999)": [
"raised",
"builtins.ValueError",
"year 0 is out of range"
],
"ydms.parse(0, 999999999, 86400000)": [
"raised",
"builtins.ValueError",
"year 0 is out of range"
],
"ydms.parse(0, 999999999, 86400001)": [
"raised",
"builtins.ValueError",
"year 0 is out of range"
],
"ydms.parse(0, 999999999, 999)": [
"raised",
"builtins.ValueError",
"year 0 is out of range"
],
"ydms.parse(1, 0, 0)": [
"raised",
"builtins.OverflowError",
"date value out of range"
],
"ydms.parse(1, 0, 1)": [
"raised",
"builtins.OverflowError",
"date value out of range"
],
"ydms.parse(1, 0, 1000)": [
"raised",
"builtins.OverflowError",
"date value out of range"
],
"ydms.parse(1, 0, 2147483648)": [
"returned",
[
"datetime",
"0001-01-24T20:31:23.648000",
"None",
0
]
],
"ydms.parse(1, 0, 4294967295)": [
"returned",
[
"datetime",
"0001-02-18T17:02:47.295000",
"None",
0
]
],
"ydms.parse(1, 0, 86399999)": [
"raised",
"builtins.OverflowError",
"date value out of range"
],
"ydms.parse(1, 0, 86400000)": [
"returned",
[
"datetime",
"0001-01-01T00:00:00",
"None",
0
]
],
"ydms.parse(1, 0, 86400001)": [
"returned",
[
"datetime",
"0001-01-01T00:00:00.001000",
"None",
0
]
],
"ydms.parse(1, 0, 999)": [
"raised",
"builtins.OverflowError",
"date value out of range"
],
"ydms.parse(1, 1, 0)": [
"returned",
[
"datetime",
"0001-01-01T00:00:00",
"None",
0
]
],
"ydms.parse(1, 1, 1)": [
"returned",
[
"datetime",
"0001-01-01T00:00:00.001000",
"None",
0
]
],
"ydms.parse(1, 1, 1000)": [
"returned",
[
"datetime",
"0001-01-01T00:00:01",
"None",
0
]
],
"ydms.parse(1, 1, 2147483648)": [
"returned",
[
"datetime",
"0001-01-25T20:31:23.648000",
"None",
0
]
],
"ydms.parse(1, 1, 4294967295)": [
"returned",
[
"datetime",
"0001-02-19T17:02:47.295000",
"None",
0
]
],
"ydms.parse(1, 1, 86399999)": [
"returned",
[
"datetime",
"0001-01-01T23:59:59.999000",
"None",
0
]
],
"ydms.parse(1, 1, 86400000)": [
"returned",
[
"datetime",
"0001-01-02T00:00:00",
"None",
0
]
],
"ydms.parse(1, 1, 86400001)": [
"returned",
[
"datetime",
"0001-01-02T00:00:00.001000",
"None",
0
]
],
"ydms.parse(1, 1, 999)": [
"returned",
[
"datetime",
"0001-01-01T00:00:00.999000",
"None",
0
]
],
"ydms.parse(1, 1000, 0)": [
"returned",
[
"datetime",
"0003-09-27T00:00:00",
"None",
0
]
],
"ydms.parse(1, 1000, 1)": [
"returned",
[
"datetime",
"0003-09-27T00:00:00.001000",
"None",
0
]
],
"ydms.parse(1, 1000, 1000)": [
"returned",
[
"datetime",
"0003-09-27T00:00:01",
"None",
0
]
],
"ydms.parse(1, 1000, 2147483648)": [
"returned",
[
"datetime",
"0003-10-21T20:31:23.648000",
"None",
0
]
],
"ydms.parse(1, 1000, 4294967295)": [
"returned",
[
"datetime",
"0003-11-15T17:02:47.295000",
"None",
0
]
],
"ydms.parse(1, 1000, 86399999)": [
"returned",
[
"datetime",
"0003-09-27T23:59:59.999000",
"None",
0
]
],
"ydms.parse(1, 1000, 86400000)": [
"returned",
[
"datetime",
"0003-09-28T00:00:00",
"None",
0
]
],
"ydms.parse(1, 1000, 86400001)": [
"returned",
[
"datetime",
"0003-09-28T00:00:00.001000",
"None",
0
]
],
"ydms.parse(1, 1000, 999)": [
"returned",
[
"datetime",
"0003-09-27T00:00:00.999000",
"None",
0
]
],
"ydms.parse(1, 1000000000, 0)": [
"raised",
"builtins.OverflowError",
"date value out of range"
],
"ydms.parse(1, 1000000000, 1)": [
"raised",
"builtins.OverflowError",
"date value out of range"
],
"ydms.parse(1, 1000000000, 1000)": [
"raised",
"builtins.OverflowError",
"date value out of range"
],
"ydms.parse(1, 1000000000, 2147483648)": [
"raised",
"builtins.OverflowError",
"days=1000000023; must have magnitude <= 999999999"
],
"ydms.parse(1, 1000000000, 4294967295)": [
"raised",
"builtins.OverflowError",
"days=1000000048; must have magnitude <= 999999999"
],
"ydms.parse(1, 1000000000, 86399999)": [
"raised",
"builtins.OverflowError",
"date value out of range"
],
"ydms.parse(1, 1000000000, 86400000)": [
"raised",
"builtins.OverflowError",
"days=1000000000; must have magnitude <= 999999999"
],
"ydms.parse(1, 1000000000, 86400001)": [
"raised",
"builtins.OverflowError",
"days=1000000000; must have magnitude <= 999999999"
],
"ydms.parse(1, 1000000000, 999)": [
"raised",
"builtins.OverflowError",
"date value out of range"
],
"ydms.parse(1, 1000000001, 0)": [
"raised",
"builtins.OverflowError",
"days=1000000000; must have magnitude <= 999999999"
],
"ydms.parse(1, 1000000001, 1)": [
"raised",
"builtins.OverflowError",
"days=1000000000; must have magnitude <= 999999999"
],
"ydms.parse(1, 1000000001, 1000)": [
"raised",
"builtins.OverflowError",
"days=1000000000; must have magnitude <= 999999999"
],
"ydms.parse(1, 1000000001, 2147483648)": [
"raised",
"builtins.OverflowError",
"days=1000000024; must have magnitude <= 999999999"
],
"ydms.parse(1, 1000000001, 4294967295)": [
"raised",
"builtins.OverflowError",
"days=1000000049; must have magnitude <= 999999999"
],
"ydms.parse(1, 1000000001, 86399999)": [
"raised",
"builtins.OverflowError",
"days=1000000000; must have magnitude <= 999999999"
],
"ydms.parse(1, 1000000001, 86400000)": [
"raised",
"builtins.OverflowError",
"days=1000000001; must have magnitude <= 999999999"
],
"ydms.parse(1, 1000000001, 86400001)": [
"raised",
"builtins.OverflowError",
"days=1000000001; must have magnitude <= 999999999"
],
"ydms.parse(1, 1000000001, 999)": [
"raised",
"builtins.OverflowError",
"days=1000000000; must have magnitude <= 999999999"
],
"ydms.parse(1, 2, 0)": [
"returned",
[
"datetime",
"0001-01-02T00:00:00",
"None",
0
]
],
"ydms.parse(1, 2, 1)": [
"returned",
[
"datetime",
"0001-01-02T00:00:00.001000",
"None",
0
]
],
"ydms.parse(1, 2, 1000)": [
"returned",
[
"datetime",
"0001-01-02T00:00:01",
"None",
0
]
],
"ydms.parse(1, 2, 2147483648)": [
"returned",
[
"datetime",
"0001-01-26T20:31:23.648000",
"None",
0
]
],
"ydms.parse(1, 2, 4294967295)": [
"returned",
[
"datetime",
"0001-02-20T17:02:47.295000",
"None",
0
]
],
"ydms.parse(1, 2, 86399999)": [
"returned",
[
"datetime",
"0001-01-02T23:59:59.999000",
"None",
0
]
],
"ydms.parse(1, 2, 86400000)": [
"returned",
[
"datetime",
"0001-01-03T00:00:00",
"None",
0
]
],
"ydms.parse(1, 2, 86400001)": [
"returned",
[
"datetime",
"0001-01-03T00:00:00.001000",
"None",
0
]
],
"ydms.parse(1, 2, 999)": [
"returned",
[
"datetime",
"0001-01-02T00:00:00.999000",
"None",
0
]
],
"ydms.parse(1, 365, 0)": [
"returned",
[
"datetime",
"0001-12-31T00:00:00",
"None",
0
]
],
"ydms.parse(1, 365, 1)": [
"returned",
[
"datetime",
"0001-12-31T00:00:00.001000",
"None",
0
]
],
"ydms.parse(1, 365, 1000)": [
"returned",
[
"datetime",
"0001-12-31T00:00:01",
"None",
0
]
],
"ydms.parse(1, 365, 2147483648)": [
"returned",
[
"datetime",
"0002-01-24T20:31:23.648000",
"None",
0
]
],
"ydms.parse(1, 365, 4294967295)": [
"returned",
[
"datetime",
"0002-02-18T17:02:47.295000",
"None",
0
]
],
"ydms.parse(1, 365, 86399999)": [
"returned",
[
"datetime",
"0001-12-31T23:59:59.999000",
"None",
0
]
],
"ydms.parse(1, 365, 86400000)": [
"returned",
[
"datetime",
"0002-01-01T00:00:00",
"None",
0
]
],
"ydms.parse(1, 365, 86400001)": [
"returned",
[
"datetime",
"0002-01-01T00:00:00.001000",
"None",
0
]
],
"ydms.parse(1, 365, 999)": [
"returned",
[
"datetime",
"0001-12-31T00:00:00.999000",
"None",
0
]
],
"ydms.parse(1, 366, 0)": [
"returned",
[
"datetime",
"0002-01-01T00:00:00",
"None",
0
]
],
"ydms.parse(1, 366, 1)": [
"returned",
[
"datetime",
"0002-01-01T00:00:00.001000",
"None",
0
]
],
"ydms.parse(1, 366, 1000)": [
"returned",
[
"datetime",
"0002-01-01T00:00:01",
"None",
0
]
],
"ydms.parse(1, 366, 2147483648)": [
"returned",
[
"datetime",
"0002-01-25T20:31:23.648000",
"None",
0
]
],
"ydms.parse(1, 366, 4294967295)": [
"returned",
[
"datetime",
"0002-02-19T17:02:47.295000",
"None",
0
]
],
"ydms.parse(1, 366, 86399999)": [
"returned",
[
"datetime",
"0002-01-01T23:59:59.999000",
"None",
0
]
],
"ydms.parse(1, 366, 86400000)": [
"returned",
[
"datetime",
"0002-01-02T00:00:00",
"None",
0
]
],
"ydms.parse(1, 366, 86400001)": [
"returned",
[
"datetime",
"0002-01-02T00:00:00.001000",
"None",
0
]
],
"ydms.parse(1, 366, 999)": [
"returned",
[
"datetime",
"0002-01-01T00:00:00.999000",
"None",
0
]
],
"ydms.parse(1, 367, 0)": [
"returned",
[
"datetime",
"0002-01-02T00:00:00",
"None",
0
]
],
"ydms.parse(1, 367, 1)": [
"returned",
[
"datetime",
"0002-01-02T00:00:00.001000",
"None",
0
]
],
"ydms.parse(1, 367, 1000)": [
"returned",
[
"datetime",
"0002-01-02T00:00:01",
"None",
0
]
],
"ydms.parse(1, 367, 2147483648)": [
"returned",
[
"datetime",
"0002-01-26T20:31:23.648000",
"None",
0
]
],
"ydms.parse(1, 367, 4294967295)": [
"returned",
[
"datetime",
"0002-02-20T17:02:47.295000",
"None",
0
]
],
"ydms.parse(1, 367, 86399999)": [
"returned",
[
"datetime",
"0002-01-02T23:59:59.999000",
"None",
0
]
],
"ydms.parse(1, 367, 86400000)": [
"returned",
[
"datetime",
"0002-01-03T00:00:00",
"None",
0
]
],
"ydms.parse(1, 367, 86400001)": [
"returned",
[
"datetime",
"0002-01-03T00:00:00.001000",
"None",
0
]
],
"ydms.parse(1, 367, 999)": [
"returned",
[
"datetime",
"0002-01-02T00:00:00.999000",
"None",
0
]
],
"ydms.parse(1, 4294967295, 0)": [
"raised",
"builtins.OverflowError",
"Python int too large to convert to C int"
],
"ydms.parse(1, 4294967295, 1)": [
"raised",
"builtins.OverflowError",
"Python int too large to convert to C int"
],
"ydms.parse(1, 4294967295, 1000)": [
"raised",
"builtins.OverflowError",
"Python int too large to convert to C int"
],
"ydms.parse(1, 4294967295, 2147483648)": [
"raised",
"builtins.OverflowError",
"Python int too large to convert to C int"
],
"ydms.parse(1, 4294967295, 4294967295)": [
"raised",
"builtins.OverflowError",
"Python int too large to convert to C int"
],
"ydms.parse(1, 4294967295, 86399999)": [
"raised",
"builtins.OverflowError",
"Python int too large to convert to C int"
],
"ydms.parse(1, 4294967295, 86400000)": [
"raised",
"builtins.OverflowError",
"Python int too large to convert to C int"
],
"ydms.parse(1, 4294967295, 86400001)": [
"raised",
"builtins.OverflowError",
"Python int too large to convert to C int"
],
"ydms.parse(1, 4294967295, 999)": [
"raised",
"builtins.OverflowError",
"Python int too large to convert to C int"
],
"ydms.parse(1, 59, 0)": [
"returned",
[
"datetime",
"0001-02-28T00:00:00",
"None",
0
]
],
"ydms.parse(1, 59, 1)": [
"returned",
[
"datetime",
"0001-02-28T00:00:00.001000",
"None",
0
]
],
"ydms.parse(1, 59, 1000)": [
"returned",
[
"datetime",
"0001-02-28T00:00:01",
"None",
0
]
],
"ydms.parse(1, 59, 2147483648)": [
"returned",
[
"datetime",
"0001-03-24T20:31:23.648000",
"None",
0
]
],
"ydms.parse(1, 59, 4294967295)": [
"returned",
[
"datetime",
"0001-04-18T17:02:47.295000",
"None",
0
]
],
"ydms.parse(1, 59, 86399999)": [
"returned",
[
"datetime",
"0001-02-28T23:59:59.999000",
"None",
0
]
],
"ydms.parse(1, 59, 86400000)": [
"returned",
[
"datetime",
"0001-03-01T00:00:00",
"None",
0
]
],
"ydms.parse(1, 59, 86400001)": [
"returned",
[
"datetime",
"0001-03-01T00:00:00.001000",
"None",
0
]
],
"ydms.parse(1, 59, 999)": [
"returned",
[
"datetime",
"0001-02-28T00:00:00.999000",
"None",
0
]
],
"ydms.parse(1, 60, 0)": [
"returned",
[
"datetime",
"0001-03-01T00:00:00",
"None",
0
]
],
"ydms.parse(1, 60, 1)": [
"returned",
[
"datetime",
"0001-03-01T00:00:00.001000",
"None",
0
]
],
"ydms.parse(1, 60, 1000)": [
"returned",
[
"datetime",
"0001-03-01T00:00:01",
"None",
0
]
],
"ydms.parse(1, 60, 2147483648)": [
"returned",
[
"datetime",
"0001-03-25T20:31:23.648000",
"None",
0
]
],
"ydms.parse(1, 60, 4294967295)": [
"returned",
[
"datetime",
"0001-04-19T17:02:47.295000",
"None",
0
]
],
"ydms.parse(1, 60, 86399999)": [
"returned",
[
"datetime",
"0001-03-01T23:59:59.999000",
"None",
0
]
],
"ydms.parse(1, 60, 86400000)": [
"returned",
[
"datetime",
"0001-03-02T00:00:00",
"None",
0
]
],
"ydms.parse(1, 60, 86400001)": [
"returned",
[
"datetime",
"0001-03-02T00:00:00.001000",
"None",
0
]
],
"ydms.parse(1, 60, 999)": [
"returned",
[
"datetime",
"0001-03-01T00:00:00.999000",
"None",
0
]
],
"ydms.parse(1, 61, 0)": [
"returned",
[
"datetime",
"0001-03-02T00:00:00",
"None",
0
]
],
"ydms.parse(1, 61, 1)": [
"returned",
[
"datetime",
"0001-03-02T00:00:00.001000",
"None",
0
]
],
"ydms.parse(1, 61, 1000)": [
"returned",
[
"datetime",
"0001-03-02T00:00:01",
"None",
0
]
],
"ydms.parse(1, 61, 2147483648)": [
"returned",
[
"datetime",
"0001-03-26T20:31:23.648000",
"None",
0
]
],
"ydms.parse(1, 61, 4294967295)": [
"returned",
[
"datetime",
"0001-04-20T17:02:47.295000",
"None",
0
]
],
"ydms.parse(1, 61, 86399999)": [
"returned",
[
"datetime",
"0001-03-02T23:59:59.999000",
"None",
0
]
],
"ydms.parse(1, 61, 86400000)": [
"returned",
[
"datetime",
"0001-03-03T00:00:00",
"None",
0
]
],
"ydms.parse(1, 61, 86400001)": [
"returned",
[
"datetime",
"0001-03-03T00:00:00.001000",
"None",
0
]
],
"ydms.parse(1, 61, 999)": [
"returned",
[
"datetime",
"0001-03-02T00:00:00.999000",
"None",
0
]
],
"ydms.parse(1, 999999999, 0)": [
"raised",
"builtins.OverflowError",
"date value out of range"
],
"ydms.parse(1, 999999999, 1)": [
"raised",
"builtins.OverflowError",
"date value out of range"
],
"ydms.parse(1, 999999999, 1000)": [
"raised",
"builtins.OverflowError",
"date value out of range"
],
"ydms.parse(1, 999999999, 2147483648)": [
"raised",
"builtins.OverflowError",
"days=1000000022; must have magnitude <= 999999999"
],
"ydms.parse(1, 999999999, 4294967295)": [
"raised",
"builtins.OverflowError",
"days=1000000047; must have magnitude <= 999999999"
],
"ydms.parse(1, 999999999, 86399999)": [
"raised",
"builtins.OverflowError",
"date value out of range"
],
"ydms.parse(1, 999999999, 86400000)": [
"raised",
"builtins.OverflowError",
"date value out of range"
],
"ydms.parse(1, 999999999, 86400001)": [
"raised",
"builtins.OverflowError",
"date value out of range"
],
"ydms.parse(1, 999999999, 999)": [
"raised",
"builtins.OverflowError",
"date value out of range"
],
"ydms.parse(10000, 0, 0)": [
"raised",
"builtins.ValueError",
"year 10000 is out of range"
],
"ydms.parse(10000, 0, 1)": [
"raised",
"builtins.ValueError",
"year 10000 is out of range"
],
"ydms.parse(10000, 0, 1000)": [
"raised",
"builtins.ValueError",
"year 10000 is out of range"
],
"ydms.parse(10000, 0, 2147483648)": [
"raised",
"builtins.ValueError",
"year 10000 is out of range"
],
"ydms.parse(10000, 0, 4294967295)": [
"raised",
"builtins.ValueError",
"year 10000 is out of range"
],
"ydms.parse(10000, 0, 86399999)": [
"raised",
"builtins.ValueError",
"year 10000 is out of range"
],
"ydms.parse(10000, 0, 86400000)": [
"raised",
"builtins.ValueError",
"year 10000 is out of range"
],
"ydms.parse(10000, 0, 86400001)": [
"raised",
"builtins.ValueError",
"year 10000 is out of range"
],
"ydms.parse(10000, 0, 999)": [
"raised",
"builtins.ValueError",
"year 10000 is out of range"
],
"ydms.parse(10000, 1, 0)": [
"raised",
"builtins.ValueError",
"year 10000 is out of range"
],
"ydms.parse(10000, 1, 1)": [
"raised",
"builtins.ValueError",
"year 10000 is out of range"
],
"ydms.parse(10000, 1, 1000)": [
"raised",
"builtins.ValueError",
"year 10000 is out of range"
],
"ydms.parse(10000, 1, 2147483648)": [
"raised",
"builtins.ValueError",
"year 10000 is out of range"
],
"ydms.parse(10000, 1, 4294967295)": [
"raised",
"builtins.ValueError",
"year 10000 is out of range"
],
"ydms.parse(10000, 1, 86399999)": [
"raised",
"builtins.ValueError",
"year 10000 is out of range"
],
"ydms.parse(10000, 1, 86400000)": [
"raised",
"builtins.ValueError",
"year 10000 is out of range"
],
"ydms.parse(10000, 1, 86400001)": [
"raised",
"builtins.ValueError",
"year 10000 is out of range"
],
"ydms.parse(10000, 1, 999)": [
"raised",
"builtins.ValueError",
"year 10000 is out of range"
],
"ydms.parse(10000, 1000, 0)": [
"raised",
"builtins.ValueError",
"year 10000 is out of range"
],
"ydms.parse(10000, 1000, 1)": [
"raised",
"builtins.ValueError",
"year 10000 is out of range"
],
"ydms.parse(10000, 1000, 1000)": [
"raised",
"builtins.ValueError",
"year 10000 is out of range"
],
"ydms.parse(10000, 1000, 2147483648)": [
"raised",
"builtins.ValueError",
"year 10000 is out of range"
],
"ydms.parse(10000, 1000, 4294967295)": [
"raised",
"builtins.ValueError",
"year 10000 is out of range"
],
"ydms.parse(10000, 1000, 86399999)": [
"raised",
"builtins.ValueError",
"year 10000 is out of range"
],
"ydms.parse(10000, 1000, 86400000)": [
"raised",
"builtins.ValueError",
"year 10000 is out of range"
],
"ydms.parse(10000, 1000, 86400001)": [
"raised",
"builtins.ValueError",
"year 10000 is out of range"
],
"ydms.parse(10000, 1000, 999)": [
"raised",
"builtins.ValueError",
"year 10000 is out of range"
],
"ydms.parse(10000, 1000000000, 0)": [
"raised",
"builtins.ValueError",
"year 10000 is out of range"
],
"ydms.parse(10000, 1000000000, 1)": [
"raised",
"builtins.ValueError",
"year 10000 is out of range"
],
"ydms.parse(10000, 1000000000, 1000)": [
"raised",
"builtins.ValueError",
"year 10000 is out of range"
],
"ydms.parse(10000, 1000000000, 2147483648)": [
"raised",
"builtins.ValueError",
"year 10000 is out of range"
],
"ydms.parse(10000, 1000000000, 4294967295)": [
"raised",
"builtins.ValueError",
"year 10000 is out of range"
],
"ydms.parse(10000, 1000000000, 86399999)": [
"raised",
"builtins.ValueError",
"year 10000 is out of range"
],
"ydms.parse(10000, 1000000000, 86400000)": [
"raised",
"builtins.ValueError",
"year 10000 is out of range"
],
"ydms.parse(10000, 1000000000, 86400001)": [
"raised",
"builtins.ValueError",
"year 10000 is out of range"
],
"ydms.parse(10000, 1000000000, 999)": [
"raised",
"builtins.ValueError",
"year 10000 is out of range"
],
"ydms.parse(10000, 1000000001, 0)": [
"raised",
"builtins.ValueError",
"year 10000 is out of range"
],
"ydms.parse(10000, 1000000001, 1)": [
"raised",
"builtins.ValueError",
"year 10000 is out of range"
],
"ydms.parse(10000, 1000000001, 1000)": [
"raised",
"builtins.ValueError",
"year 10000 is out of range"
],
"ydms.parse(10000, 1000000001, 2147483648)": [
"raised",
"builtins.ValueError",
"year 10000 is out of range"
],
"ydms.parse(10000, 1000000001, 4294967295)": [
"raised",
"builtins.ValueError",
"year 10000 is out of range"
],
"ydms.parse(10000, 1000000001, 86399999)": [
"raised",
"builtins.ValueError",
"year 10000 is out of range"
],
"ydms.parse(10000, 1000000001, 86400000)": [
"raised",
"builtins.ValueError",
"year 10000 is out of range"
],
"ydms.parse(10000, 1000000001, 86400001)": [
"raised",
"builtins.ValueError",
"year 10000 is out of range"
],
"ydms.parse(10000, 1000000001, 999)": [
"raised",
"builtins.ValueError",
"year 10000 is out of range"
],
"ydms.parse(10000, 2, 0)": [
"raised",
"builtins.ValueError",
"year 10000 is out of range"
],
"ydms.parse(10000, 2, 1)": [
"raised",
"builtins.ValueError",
"year 10000 is out of range"
],
"ydms.parse(10000, 2, 1000)": [
"raised",
"builtins.ValueError",
"year 10000 is out of range"
],
"ydms.parse(10000, 2, 2147483648)": [
"raised",
"builtins.ValueError",
"year 10000 is out of range"
],
"ydms.parse(10000, 2, 4294967295)": [
"raised",
"builtins.ValueError",
"year 10000 is out of range"
],
"ydms.parse(10000, 2, 86399999)": [
"raised",
"builtins.ValueError",
"year 10000 is out of range"
],
"ydms.parse(10000, 2, 86400000)": [
"raised",
"builtins.ValueError",
"year 10000 is out of range"
],
"ydms.parse(10000, 2, 86400001)": [
"raised",
"builtins.ValueError",
"year 10000 is out of range"
],
"ydms.parse(10000, 2, 999)": [
"raised",
"builtins.ValueError",
"year 10000 is out of range"
],
"ydms.parse(10000, 365, 0)": [
"raised",
"builtins.ValueError",
"year 10000 is out of range"
],
"ydms.parse(10000, 365, 1)": [
"raised",
"builtins.ValueError",
"year 10000 is out of range"
],
"ydms.parse(10000, 365, 1000)": [
"raised",
"builtins.ValueError",
"year 10000 is out of range"
],
"ydms.parse(10000, 365, 2147483648)": [
"raised",
"builtins.ValueError",
"year 10000 is out of range"
],
"ydms.parse(10000, 365, 4294967295)": [
"raised",
"builtins.ValueError",
"year 10000 is out of range"
],
"ydms.parse(10000, 365, 86399999)": [
"raised",
"builtins.ValueError",
"year 10000 is out of range"
],
"ydms.parse(10000, 365, 86400000)": [
"raised",
"builtins.ValueError",
"year 10000 is out of range"
],
"ydms.parse(10000, 365, 86400001)": [
"raised",
"builtins.ValueError",
"year 10000 is out of range"
],
"ydms.parse(10000, 365, 999)": [
"raised",
"builtins.ValueError",
"year 10000 is out of range"
],
"ydms.parse(10000, 366, 0)": [
"raised",
"builtins.ValueError",
"year 10000 is out of range"
],
"ydms.parse(10000, 366, 1)": [
"raised",
"builtins.ValueError",
"year 10000 is out of range"
],
"ydms.parse(10000, 366, 1000)": [
"raised",
"builtins.ValueError",
"year 10000 is out of range"
],
"ydms.parse(10000, 366, 2147483648)": [
"raised",
"builtins.ValueError",
"year 10000 is out of range"
],
"ydms.parse(10000, 366, 4294967295)": [
"raised",
"builtins.ValueError",
"year 10000 is out of range"
],
"ydms.parse(10000, 366, 86399999)": [
"raised",
"builtins.ValueError",
"year 10000 is out of range"
],
"ydms.parse(10000, 366, 86400000)": [
"raised",
"builtins.ValueError",
"year 10000 is out of range"
],
"ydms.parse(10000, 366, 86400001)": [
"raised",
"builtins.ValueError",
"year 10000 is out of range"
],
"ydms.parse(10000, 366, 999)": [
"raised",
"builtins.ValueError",
"year 10000 is out of range"
],
"ydms.parse(10000, 367, 0)": [
"raised",
"builtins.ValueError",
"year 10000 is out of range"
],
"ydms.parse(10000, 367, 1)": [
"raised",
"builtins.ValueError",
"year 10000 is out of range"
],
"ydms.parse(10000, 367, 1000)": [
"raised",
"builtins.ValueError",
"year 10000 is out of range"
],
"ydms.parse(10000, 367, 2147483648)": [
"raised",
"builtins.ValueError",
"year 10000 is out of range"
],
"ydms.parse(10000, 367, 4294967295)": [
"raised",
"builtins.ValueError",
"year 10000 is out of range"
],
"ydms.parse(10000, 367, 86399999)": [
"raised",
"builtins.ValueError",
"year 10000 is out of range"
],
"ydms.parse(10000, 367, 86400000)": [
"raised",
"builtins.ValueError",
"year 10000 is out of range"
],
"ydms.parse(10000, 367, 86400001)": [
"raised",
"builtins.ValueError",
"year 10000 is out of range"
],
"ydms.parse(10000, 367, 999)": [
"raised",
"builtins.ValueError",
"year 10000 is out of range"
],
"ydms.parse(10000, 4294967295, 0)": [
"raised",
"builtins.ValueError",
"year 10000 is out of range"
],
"ydms.parse(10000, 4294967295, 1)": [
"raised",
"builtins.ValueError",
"year 10000 is out of range"
],
"ydms.parse(10000, 4294967295, 1000)": [
"raised",
"builtins.ValueError",
"year 10000 is out of range"
],
"ydms.parse(10000, 4294967295, 2147483648)": [
"raised",
"builtins.ValueError",
"year 10000 is out of range"
],
"ydms.parse(10000, 4294967295, 4294967295)": [
"raised",
"builtins.ValueError",
"year 10000 is out of range"
],
"ydms.parse(10000, 4294967295, 86399999)": [
"raised",
"builtins.ValueError",
"year 10000 is out of range"
],
"ydms.parse(10000, 4294967295, 86400000)": [
"raised",
"builtins.ValueError",
"year 10000 is out of range"
],
"ydms.parse(10000, 4294967295, 86400001)": [
"raised",
"builtins.ValueError",
"year 10000 is out of range"
],
"ydms.parse(10000, 4294967295, 999)": [
"raised",
"builtins.ValueError",
"year 10000 is out of range"
],
"ydms.parse(10000, 59, 0)": [
"raised",
"builtins.ValueError",
"year 10000 is out of range"
],
"ydms.parse(10000, 59, 1)": [
"raised",
"builtins.ValueError",
"year 10000 is out of range"
],
"ydms.parse(10000, 59, 1000)": [
"raised",
"builtins.ValueError",
"year 10000 is out of range"
],
"ydms.parse(10000, 59, 2147483648)": [
"raised",
"builtins.ValueError",
"year 10000 is out of range"
],
"ydms.parse(10000, 59, 4294967295)": [
"raised",
"builtins.ValueError",
"year 10000 is out of range"
],
"ydms.parse(10000, 59, 86399999)": [
"raised",
"builtins.ValueError",
"year 10000 is out of range"
],
"ydms.parse(10000, 59, 86400000)": [
"raised",
"builtins.ValueError",
"year 10000 is out of range"
],
"ydms.parse(10000, 59, 86400001)": [
"raised",
"builtins.ValueError",
"year 10000 is out of range"
],
"ydms.parse(10000, 59, 999)": [
"raised",
"builtins.ValueError",
"year 10000 is out of range"
],
"ydms.parse(10000, 60, 0)": [
"raised",
"builtins.ValueError",
"year 10000 is out of range"
],
"ydms.parse(10000, 60, 1)": [
"raised",
"builtins.ValueError",
"year 10000 is out of range"
],
"ydms.parse(10000, 60, 1000)": [
"raised",
"builtins.ValueError",
"year 10000 is out of range"
],
"ydms.parse(10000, 60, 2147483648)": [
"raised",
"builtins.ValueError",
"year 10000 is out of range"
],
"ydms.parse(10000, 60, 4294967295)": [
"raised",
"builtins.ValueError",
"year 10000 is out of range"
],
"ydms.parse(10000, 60, 86399999)": [
"raised",
"builtins.ValueError",
"year 10000 is out of range"
],
"ydms.parse(10000, 60, 86400000)": [
"raised",
"builtins.ValueError",
"year 10000 is out of range"
],
"ydms.parse(10000, 60, 86400001)": [
"raised",
"builtins.ValueError",
"year 10000 is out of range"
],
"ydms.parse(10000, 60, 999)": [
"raised",
"builtins.ValueError",
"year 10000 is out of range"
],
"ydms.parse(10000, 61, 0)": [
"raised",
"builtins.ValueError",
"year 10000 is out of range"
],
"ydms.parse(10000, 61, 1)": [
"raised",
"builtins.ValueError",
"year 10000 is out of range"
],
"ydms.parse(10000, 61, 1000)": [
"raised",
"builtins.ValueError",
"year 10000 is out of range"
],
"ydms.parse(10000, 61, 2147483648)": [
"raised",
"builtins.ValueError",
"year 10000 is out of range"
],
"ydms.parse(10000, 61, 4294967295)": [
"raised",
"builtins.ValueError",
"year 10000 is out of range"
],
"ydms.parse(10000, 61, 86399999)": [
"raised",
"builtins.ValueError",
"year 10000 is out of range"
],
"ydms.parse(10000, 61, 86400000)": [
"raised",
"builtins.ValueError",
"year 10000 is out of range"
],
"ydms.parse(10000, 61, 86400001)": [
"raised",
"builtins.ValueError",
"year 10000 is out of range"
],
"ydms.parse(10000, 61, 999)": [
"raised",
"builtins.ValueError",
"year 10000 is out of range"
],
"ydms.parse(10000, 999999999, 0)": [
"raised",
"builtins.ValueError",
"year 10000 is out of range"
],
"ydms.parse(10000, 999999999, 1)": [
"raised",
"builtins.ValueError",
"year 10000 is out of range"
],
"ydms.parse(10000, 999999999, 1000)": [
"raised",
"builtins.ValueError",
"year 10000 is out of range"
],
"ydms.parse(10000, 999999999, 2147483648)": [
"raised",
"builtins.ValueError",
"year 10000 is out of range"
],
"ydms.parse(10000, 999999999, 4294967295)": [
"raised",
"builtins.ValueError",
"year 10000 is out of range"
],
"ydms.parse(10000, 999999999, 86399999)": [
"raised",
"builtins.ValueError",
"year 10000 is out of range"
],
"ydms.parse(10000, 999999999, 86400000)": [
"raised",
"builtins.ValueError",
"year 10000 is out of range"
],
"ydms.parse(10000, 999999999, 86400001)": [
"raised",
"builtins.ValueError",
"year 10000 is out of range"
],
"ydms.parse(10000, 999999999, 999)": [
"raised",
"builtins.ValueError",
"year 10000 is out of range"
],
"ydms.parse(1900, 0, 0)": [
"returned",
[
"datetime",
"1899-12-31T00:00:00",
"None",
0
]
],
"ydms.parse(1900, 0, 1)": [
"returned",
[
"datetime",
"1899-12-31T00:00:00.001000",
"None",
0
]
],
"ydms.parse(1900, 0, 1000)": [
"returned",
[
"datetime",
"1899-12-31T00:00:01",
"None",
0
]
],
"ydms.parse(1900, 0, 2147483648)": [
"returned",
[
"datetime",
"1900-01-24T20:31:23.648000",
"None",
0
]
],
"ydms.parse(1900, 0, 4294967295)": [
"returned",
[
"datetime",
"1900-02-18T17:02:47.295000",
"None",
0
]
],
"ydms.parse(1900, 0, 86399999)": [
"returned",
[
"datetime",
"1899-12-31T23:59:59.999000",
"None",
0
]
],
"ydms.parse(1900, 0, 86400000)": [
"returned",
[
"datetime",
"1900-01-01T00:00:00",
"None",
0
]
],
"ydms.parse(1900, 0, 86400001)": [
"returned",
[
"datetime",
"1900-01-01T00:00:00.001000",
"None",
0
]
],
"ydms.parse(1900, 0, 999)": [
"returned",
[
"datetime",
"1899-12-31T00:00:00.999000",
"None",
0
]
],
"ydms.parse(1900, 1, 0)": [
"returned",
[
"datetime",
"1900-01-01T00:00:00",
"None",
0
]
],
"ydms.parse(1900, 1, 1)": [
"returned",
[
"datetime",
"1900-01-01T00:00:00.001000",
"None",
0
]
],
"ydms.parse(1900, 1, 1000)": [
"returned",
[
"datetime",
"1900-01-01T00:00:01",
"None",
0
]
],
"ydms.parse(1900, 1, 2147483648)": [
"returned",
[
"datetime",
"1900-01-25T20:31:23.648000",
"None",
0
]
],
"ydms.parse(1900, 1, 4294967295)": [
"returned",
[
"datetime",
"1900-02-19T17:02:47.295000",
"None",
0
]
],
"ydms.parse(1900, 1, 86399999)": [
"returned",
[
"datetime",
"1900-01-01T23:59:59.999000",
"None",
0
]
],
"ydms.parse(1900, 1, 86400000)": [
"returned",
[
"datetime",
"1900-01-02T00:00:00",
"None",
0
]
],
"ydms.parse(1900, 1, 86400001)": [
"returned",
[
"datetime",
"1900-01-02T00:00:00.001000",
"None",
0
]
],
"ydms.parse(1900, 1, 999)": [
"returned",
[
"datetime",
"1900-01-01T00:00:00.999000",
"None",
0
]
],
"ydms.parse(1900, 1000, 0)": [
"returned",
[
"datetime",
"1902-09-27T00:00:00",
"None",
0
]
],
"ydms.parse(1900, 1000, 1)": [
"returned",
[
"datetime",
"1902-09-27T00:00:00.001000",
"None",
0
]
],
"ydms.parse(1900, 1000, 1000)": [
"returned",
[
"datetime",
"1902-09-27T00:00:01",
"None",
0
]
],
"ydms.parse(1900, 1000, 2147483648)": [
"returned",
[
"datetime",
"1902-10-21T20:31:23.648000",
"None",
0
]
],
"ydms.parse(1900, 1000, 4294967295)": [
"returned",
[
"datetime",
"1902-11-15T17:02:47.295000",
"None",
0
]
],
"ydms.parse(1900, 1000, 86399999)": [
"returned",
[
"datetime",
"1902-09-27T23:59:59.999000",
"None",
0
]
],
"ydms.parse(1900, 1000, 86400000)": [
"returned",
[
"datetime",
"1902-09-28T00:00:00",
"None",
0
]
],
"ydms.parse(1900, 1000, 86400001)": [
"returned",
[
"datetime",
"1902-09-28T00:00:00.001000",
"None",
0
]
],
"ydms.parse(1900, 1000, 999)": [
"returned",
[
"datetime",
"1902-09-27T00:00:00.999000",
"None",
0
]
],
"ydms.parse(1900, 1000000000, 0)": [
"raised",
"builtins.OverflowError",
"date value out of range"
],
"ydms.parse(1900, 1000000000, 1)": [
"raised",
"builtins.OverflowError",
"date value out of range"
],
"ydms.parse(1900, 1000000000, 1000)": [
"raised",
"builtins.OverflowError",
"date value out of range"
],
"ydms.parse(1900, 1000000000, 2147483648)": [
"raised",
"builtins.OverflowError",
"days=1000000023; must have magnitude <= 999999999"
],
"ydms.parse(1900, 1000000000, 4294967295)": [
"raised",
"builtins.OverflowError",
"days=1000000048; must have magnitude <= 999999999"
],
"ydms.parse(1900, 1000000000, 86399999)": [
"raised",
"builtins.OverflowError",
"date value out of range"
],
"ydms.parse(1900, 1000000000, 86400000)": [
"raised",
"builtins.OverflowError",
"days=1000000000; must have magnitude <= 999999999"
],
"ydms.parse(1900, 1000000000, 86400001)": [
"raised",
"builtins.OverflowError",
"days=1000000000; must have magnitude <= 999999999"
],
"ydms.parse(1900, 1000000000, 999)": [
"raised",
"builtins.OverflowError",
"date value out of range"
],
"ydms.parse(1900, 1000000001, 0)": [
"raised",
"builtins.OverflowError",
"days=1000000000; must have magnitude <= 999999999"
],
"ydms.parse(1900, 1000000001, 1)": [
"raised",
"builtins.OverflowError",
"days=1000000000; must have magnitude <= 999999999"
],
"ydms.parse(1900, 1000000001, 1000)": [
"raised",
"builtins.OverflowError",
"days=1000000000; must have magnitude <= 999999999"
],
"ydms.parse(1900, 1000000001, 2147483648)": [
"raised",
"builtins.OverflowError",
"days=1000000024; must have magnitude <= 999999999"
],
"ydms.parse(1900, 1000000001, 4294967295)": [
"raised",
"builtins.OverflowError",
"days=1000000049; must have magnitude <= 999999999"
],
"ydms.parse(1900, 1000000001, 86399999)": [
"raised",
"builtins.OverflowError",
"days=1000000000; must have magnitude <= 999999999"
],
"ydms.parse(1900, 1000000001, 86400000)": [
"raised",
"builtins.OverflowError",
"days=1000000001; must have magnitude <= 999999999"
],
"ydms.parse(1900, 1000000001, 86400001)": [
"raised",
"builtins.OverflowError",
"days=1000000001; must have magnitude <= 999999999"
],
"ydms.parse(1900, 1000000001, 999)": [
"raised",
"builtins.OverflowError",
"days=1000000000; must have magnitude <= 999999999"
],
"ydms.parse(1900, 2, 0)": [
"returned",
[
"datetime",
"1900-01-02T00:00:00",
"None",
0
]
],
"ydms.parse(1900, 2, 1)": [
"returned",
[
"datetime",
"1900-01-02T00:00:00.001000",
"None",
0
]
],
"ydms.parse(1900, 2, 1000)": [
"returned",
[
"datetime",
"1900-01-02T00:00:01",
"None",
0
]
],
"ydms.parse(1900, 2, 2147483648)": [
"returned",
[
"datetime",
"1900-01-26T20:31:23.648000",
"None",
0
]
],
"ydms.parse(1900, 2, 4294967295)": [
"returned",
[
"datetime",
"1900-02-20T17:02:47.295000",
"None",
0
]
],
"ydms.parse(1900, 2, 86399999)": [
"returned",
[
"datetime",
"1900-01-02T23:59:59.999000",
"None",
0
]
],
"ydms.parse(1900, 2, 86400000)": [
"returned",
[
"datetime",
"1900-01-03T00:00:00",
"None",
0
]
],
"ydms.parse(1900, 2, 86400001)": [
"returned",
[
"datetime",
"1900-01-03T00:00:00.001000",
"None",
0
]
],
"ydms.parse(1900, 2, 999)": [
"returned",
[
"datetime",
"1900-01-02T00:00:00.999000",
"None",
0
]
],
"ydms.parse(1900, 365, 0)": [
"returned",
[
"datetime",
"1900-12-31T00:00:00",
"None",
0
]
],
"ydms.parse(1900, 365, 1)": [
"returned",
[
"datetime",
"1900-12-31T00:00:00.001000",
"None",
0
]
],
"ydms.parse(1900, 365, 1000)": [
"returned",
[
"datetime",
"1900-12-31T00:00:01",
"None",
0
]
],
"ydms.parse(1900, 365, 2147483648)": [
"returned",
[
"datetime",
"1901-01-24T20:31:23.648000",
"None",
0
]
],
"ydms.parse(1900, 365, 4294967295)": [
"returned",
[
"datetime",
"1901-02-18T17:02:47.295000",
"None",
0
]
],
"ydms.parse(1900, 365, 86399999)": [
"returned",
[
"datetime",
"1900-12-31T23:59:59.999000",
"None",
0
]
],
"ydms.parse(1900, 365, 86400000)": [
"returned",
[
"datetime",
"1901-01-01T00:00:00",
"None",
0
]
],
"ydms.parse(1900, 365, 86400001)": [
"returned",
[
"datetime",
"1901-01-01T00:00:00.001000",
"None",
0
]
],
"ydms.parse(1900, 365, 999)": [
"returned",
[
"datetime",
"1900-12-31T00:00:00.999000",
"None",
0
]
],
"ydms.parse(1900, 366, 0)": [
"returned",
[
"datetime",
"1901-01-01T00:00:00",
"None",
0
]
],
"ydms.parse(1900, 366, 1)": [
"returned",
[
"datetime",
"1901-01-01T00:00:00.001000",
"None",
0
]
],
"ydms.parse(1900, 366, 1000)": [
"returned",
[
"datetime",
"1901-01-01T00:00:01",
"None",
0
]
],
"ydms.parse(1900, 366, 2147483648)": [
"returned",
[
"datetime",
"1901-01-25T20:31:23.648000",
"None",
0
]
],
"ydms.parse(1900, 366, 4294967295)": [
"returned",
[
"datetime",
"1901-02-19T17:02:47.295000",
"None",
0
]
],
"ydms.parse(1900, 366, 86399999)": [
"returned",
[
"datetime",
"1901-01-01T23:59:59.999000",
"None",
0
]
],
"ydms.parse(1900, 366, 86400000)": [
"returned",
[
"datetime",
"1901-01-02T00:00:00",
"None",
0
]
],
"ydms.parse(1900, 366, 86400001)": [
"returned",
[
"datetime",
"1901-01-02T00:00:00.001000",
"None",
0
]
],
"ydms.parse(1900, 366, 999)": [
"returned",
[
"datetime",
"1901-01-01T00:00:00.999000",
"None",
0
]
],
"ydms.parse(1900, 367, 0)": [
"returned",
[
"datetime",
"1901-01-02T00:00:00",
"None",
0
]
],
"ydms.parse(1900, 367, 1)": [
"returned",
[
"datetime",
"1901-01-02T00:00:00.001000",
"None",
0
]
],
"ydms.parse(1900, 367, 1000)": [
"returned",
[
"datetime",
"1901-01-02T00:00:01",
"None",
0
]
],
"ydms.parse(1900, 367, 2147483648)": [
"returned",
[
"datetime",
"1901-01-26T20:31:23.648000",
"None",
0
]
],
"ydms.parse(1900, 367, 4294967295)": [
"returned",
[
"datetime",
"1901-02-20T17:02:47.295000",
"None",
0
]
],
"ydms.parse(1900, 367, 86399999)": [
"returned",
[
"datetime",
"1901-01-02T23:59:59.999000",
"None",
0
]
],
"ydms.parse(1900, 367, 86400000)": [
"returned",
[
"datetime",
"1901-01-03T00:00:00",
"None",
0
]
],
"ydms.parse(1900, 367, 86400001)": [
"returned",
[
"datetime",
"1901-01-03T00:00:00.001000",
"None",
0
]
],
"ydms.parse(1900, 367, 999)": [
"returned",
[
"datetime",
"1901-01-02T00:00:00.999000",
"None",
0
]
],
"ydms.parse(1900, 4294967295, 0)": [
"raised",
"builtins.OverflowError",
"Python int too large to convert to C int"
],
"ydms.parse(1900, 4294967295, 1)": [
"raised",
"builtins.OverflowError",
"Python int too large to convert to C int"
],
"ydms.parse(1900, 4294967295, 1000)": [
"raised",
"builtins.OverflowError",
"Python int too large to convert to C int"
],
"ydms.parse(1900, 4294967295, 2147483648)": [
"raised",
"builtins.OverflowError",
"Python int too large to convert to C int"
],
"ydms.parse(1900, 4294967295, 4294967295)": [
"raised",
"builtins.OverflowError",
"Python int too large to convert to C int"
],
"ydms.parse(1900, 4294967295, 86399999)": [
"raised",
"builtins.OverflowError",
"Python int too large to convert to C int"
],
"ydms.parse(1900, 4294967295, 86400000)": [
"raised",
"builtins.OverflowError",
"Python int too large to convert to C int"
],
"ydms.parse(1900, 4294967295, 86400001)": [
"raised",
"builtins.OverflowError",
"Python int too large to convert to C int"
],
"ydms.parse(1900, 4294967295, 999)": [
"raised",
"builtins.OverflowError",
"Python int too large to convert to C int"
],
"ydms.parse(1900, 59, 0)": [
"returned",
[
"datetime",
"1900-02-28T00:00:00",
"None",
0
]
],
"ydms.parse(1900, 59, 1)": [
"returned",
[
"datetime",
"1900-02-28T00:00:00.001000",
"None",
0
]
],
"ydms.parse(1900, 59, 1000)": [
"returned",
[
"datetime",
"1900-02-28T00:00:01",
"None",
0
]
],
"ydms.parse(1900, 59, 2147483648)": [
"returned",
[
"datetime",
"1900-03-24T20:31:23.648000",
"None",
0
]
],
"ydms.parse(1900, 59, 4294967295)": [
"returned",
[
"datetime",
"1900-04-18T17:02:47.295000",
"None",
0
]
],
"ydms.parse(1900, 59, 86399999)": [
"returned",
[
"datetime",
"1900-02-28T23:59:59.999000",
"None",
0
]
],
"ydms.parse(1900, 59, 86400000)": [
"returned",
[
"datetime",
"1900-03-01T00:00:00",
"None",
0
]
],
"ydms.parse(1900, 59, 86400001)": [
"returned",
[
"datetime",
"1900-03-01T00:00:00.001000",
"None",
0
]
],
"ydms.parse(1900, 59, 999)": [
"returned",
[
"datetime",
"1900-02-28T00:00:00.999000",
"None",
0
]
],
"ydms.parse(1900, 60, 0)": [
"returned",
[
"datetime",
"1900-03-01T00:00:00",
"None",
0
]
],
"ydms.parse(1900, 60, 1)": [
"returned",
[
"datetime",
"1900-03-01T00:00:00.001000",
"None",
0
]
],
"ydms.parse(1900, 60, 1000)": [
"returned",
[
"datetime",
"1900-03-01T00:00:01",
"None",
0
]
],
"ydms.parse(1900, 60, 2147483648)": [
"returned",
[
"datetime",
"1900-03-25T20:31:23.648000",
"None",
0
]
],
"ydms.parse(1900, 60, 4294967295)": [
"returned",
[
"datetime",
"1900-04-19T17:02:47.295000",
"None",
0
]
],
"ydms.parse(1900, 60, 86399999)": [
"returned",
[
"datetime",
"1900-03-01T23:59:59.999000",
"None",
0
]
],
"ydms.parse(1900, 60, 86400000)": [
"returned",
[
"datetime",
"1900-03-02T00:00:00",
"None",
0
]
],
"ydms.parse(1900, 60, 86400001)": [
"returned",
[
"datetime",
"1900-03-02T00:00:00.001000",
"None",
0
]
],
"ydms.parse(1900, 60, 999)": [
"returned",
[
"datetime",
"1900-03-01T00:00:00.999000",
"None",
0
]
],
"ydms.parse(1900, 61, 0)": [
"returned",
[
"datetime",
"1900-03-02T00:00:00",
"None",
0
]
],
"ydms.parse(1900, 61, 1)": [
"returned",
[
"datetime",
"1900-03-02T00:00:00.001000",
"None",
0
]
],
"ydms.parse(1900, 61, 1000)": [
"returned",
[
"datetime",
"1900-03-02T00:00:01",
"None",
0
]
],
"ydms.parse(1900, 61, 2147483648)": [
"returned",
[
"datetime",
"1900-03-26T20:31:23.648000",
"None",
0
]
],
"ydms.parse(1900, 61, 4294967295)": [
"returned",
[
"datetime",
"1900-04-20T17:02:47.295000",
"None",
0
]
],
"ydms.parse(1900, 61, 86399999)": [
"returned",
[
"datetime",
"1900-03-02T23:59:59.999000",
"None",
0
]
],
"ydms.parse(1900, 61, 86400000)": [
"returned",
[
"datetime",
"1900-03-03T00:00:00",
"None",
0
]
],
"ydms.parse(1900, 61, 86400001)": [
"returned",
[
"datetime",
"1900-03-03T00:00:00.001000",
"None",
0
]
],
"ydms.parse(1900, 61, 999)": [
"returned",
[
"datetime",
"1900-03-02T00:00:00.999000",
"None",
0
]
],
"ydms.parse(1900, 999999999, 0)": [
"raised",
"builtins.OverflowError",
"date value out of range"
],
"ydms.parse(1900, 999999999, 1)": [
"raised",
"builtins.OverflowError",
"date value out of range"
],
"ydms.parse(1900, 999999999, 1000)": [
"raised",
"builtins.OverflowError",
"date value out of range"
],
"ydms.parse(1900, 999999999, 2147483648)": [
"raised",
"builtins.OverflowError",
"days=1000000022; must have magnitude <= 999999999"
],
"ydms.parse(1900, 999999999, 4294967295)": [
"raised",
"builtins.OverflowError",
"days=1000000047; must have magnitude <= 999999999"
],
"ydms.parse(1900, 999999999, 86399999)": [
"raised",
"builtins.OverflowError",
"date value out of range"
],
"ydms.parse(1900, 999999999, 86400000)": [
"raised",
"builtins.OverflowError",
"date value out of range"
],
"ydms.parse(1900, 999999999, 86400001)": [
"raised",
"builtins.OverflowError",
"date value out of range"
],
"ydms.parse(1900, 999999999, 999)": [
"raised",
"builtins.OverflowError",
"date value out of range"
],
"ydms.parse(1990, 0, 0)": [
"returned",
[
"datetime",
"1989-12-31T00:00:00",
"None",
0
]
],
"ydms.parse(1990, 0, 1)": [
"returned",
[
"datetime",
"1989-12-31T00:00:00.001000",
"None",
0
]
],
"ydms.parse(1990, 0, 1000)": [
"returned",
[
"datetime",
"1989-12-31T00:00:01",
"None",
0
]
],
"ydms.parse(1990, 0, 2147483648)": [
"returned",
[
"datetime",
"1990-01-24T20:31:23.648000",
"None",
0
]
],
"ydms.parse(1990, 0, 4294967295)": [
"returned",
[
"datetime",
"1990-02-18T17:02:47.295000",
"None",
0
]
],
"ydms.parse(1990, 0, 86399999)": [
"returned",
[
"datetime",
"1989-12-31T23:59:59.999000",
"None",
0
]
],
"ydms.parse(1990, 0, 86400000)": [
"returned",
[
"datetime",
"1990-01-01T00:00:00",
"None",
0
]
],
"ydms.parse(1990, 0, 86400001)": [
"returned",
[
"datetime",
"1990-01-01T00:00:00.001000",
"None",
0
]
],
"ydms.parse(1990, 0, 999)": [
"returned",
[
"datetime",
"1989-12-31T00:00:00.999000",
"None",
0
]
],
"ydms.parse(1990, 1, 0)": [
"returned",
[
"datetime",
"1990-01-01T00:00:00",
"None",
0
]
],
"ydms.parse(1990, 1, 1)": [
"returned",
[
"datetime",
"1990-01-01T00:00:00.001000",
"None",
0
]
],
"ydms.parse(1990, 1, 1000)": [
"returned",
[
"datetime",
"1990-01-01T00:00:01",
"None",
0
]
],
"ydms.parse(1990, 1, 2147483648)": [
"returned",
[
"datetime",
"1990-01-25T20:31:23.648000",
"None",
0
]
],
"ydms.parse(1990, 1, 4294967295)": [
"returned",
[
"datetime",
"1990-02-19T17:02:47.295000",
"None",
0
]
],
"ydms.parse(1990, 1, 86399999)": [
"returned",
[
"datetime",
"1990-01-01T23:59:59.999000",
"None",
0
]
],
"ydms.parse(1990, 1, 86400000)": [
"returned",
[
"datetime",
"1990-01-02T00:00:00",
"None",
0
]
],
"ydms.parse(1990, 1, 86400001)": [
"returned",
[
"datetime",
"1990-01-02T00:00:00.001000",
"None",
0
]
],
"ydms.parse(1990, 1, 999)": [
"returned",
[
"datetime",
"1990-01-01T00:00:00.999000",
"None",
0
]
],
"ydms.parse(1990, 1000, 0)": [
"returned",
[
"datetime",
"1992-09-26T00:00:00",
"None",
0
]
],
"ydms.parse(1990, 1000, 1)": [
"returned",
[
"datetime",
"1992-09-26T00:00:00.001000",
"None",
0
]
],
"ydms.parse(1990, 1000, 1000)": [
"returned",
[
"datetime",
"1992-09-26T00:00:01",
"None",
0
]
],
"ydms.parse(1990, 1000, 2147483648)": [
"returned",
[
"datetime",
"1992-10-20T20:31:23.648000",
"None",
0
]
],
"ydms.parse(1990, 1000, 4294967295)": [
"returned",
[
"datetime",
"1992-11-14T17:02:47.295000",
"None",
0
]
],
"ydms.parse(1990, 1000, 86399999)": [
"returned",
[
"datetime",
"1992-09-26T23:59:59.999000",
"None",
0
]
],
"ydms.parse(1990, 1000, 86400000)": [
"returned",
[
"datetime",
"1992-09-27T00:00:00",
"None",
0
]
],
"ydms.parse(1990, 1000, 86400001)": [
"returned",
[
"datetime",
"1992-09-27T00:00:00.001000",
"None",
0
]
],
"ydms.parse(1990, 1000, 999)": [
"returned",
[
"datetime",
"1992-09-26T00:00:00.999000",
"None",
0
]
],
"ydms.parse(1990, 1000000000, 0)": [
"raised",
"builtins.OverflowError",
"date value out of range"
],
"ydms.parse(1990, 1000000000, 1)": [
"raised",
"builtins.OverflowError",
"date value out of range"
],
"ydms.parse(1990, 1000000000, 1000)": [
"raised",
"builtins.OverflowError",
"date value out of range"
],
"ydms.parse(1990, 1000000000, 2147483648)": [
"raised",
"builtins.OverflowError",
"days=1000000023; must have magnitude <= 999999999"
],
"ydms.parse(1990, 1000000000, 4294967295)": [
"raised",
"builtins.OverflowError",
"days=1000000048; must have magnitude <= 999999999"
],
"ydms.parse(1990, 1000000000, 86399999)": [
"raised",
"builtins.OverflowError",
"date value out of range"
],
"ydms.parse(1990, 1000000000, 86400000)": [
"raised",
"builtins.OverflowError",
"days=1000000000; must have magnitude <= 999999999"
],
"ydms.parse(1990, 1000000000, 86400001)": [
"raised",
"builtins.OverflowError",
"days=1000000000; must have magnitude <= 999999999"
],
"ydms.parse(1990, 1000000000, 999)": [
"raised",
"builtins.OverflowError",
"date value out of range"
],
"ydms.parse(1990, 1000000001, 0)": [
"raised",
"builtins.OverflowError",
"days=1000000000; must have magnitude <= 999999999"
],
"ydms.parse(1990, 1000000001, 1)": [
"raised",
"builtins.OverflowError",
"days=1000000000; must have magnitude <= 999999999"
],
"ydms.parse(1990, 1000000001, 1000)": [
"raised",
"builtins.OverflowError",
"days=1000000000; must have magnitude <= 999999999"
],
"ydms.parse(1990, 1000000001, 2147483648)": [
"raised",
"builtins.OverflowError",
"days=1000000024; must have magnitude <= 999999999"
],
"ydms.parse(1990, 1000000001, 4294967295)": [
"raised",
"builtins.OverflowError",
"days=1000000049; must have magnitude <= 999999999"
],
"ydms.parse(1990, 1000000001, 86399999)": [
"raised",
"builtins.OverflowError",
"days=1000000000; must have magnitude <= 999999999"
],
"ydms.parse(1990, 1000000001, 86400000)": [
"raised",
"builtins.OverflowError",
"days=1000000001; must have magnitude <= 999999999"
],
"ydms.parse(1990, 1000000001, 86400001)": [
"raised",
"builtins.OverflowError",
"days=1000000001; must have magnitude <= 999999999"
],
"ydms.parse(1990, 1000000001, 999)": [
"raised",
"builtins.OverflowError",
"days=1000000000; must have magnitude <= 999999999"
],
"ydms.parse(1990, 2, 0)": [
"returned",
[
"datetime",
"1990-01-02T00:00:00",
"None",
0
]
],
"ydms.parse(1990, 2, 1)": [
"returned",
[
"datetime",
"1990-01-02T00:00:00.001000",
"None",
0
]
],
"ydms.parse(1990, 2, 1000)": [
"returned",
[
"datetime",
"1990-01-02T00:00:01",
"None",
0
]
],
"ydms.parse(1990, 2, 2147483648)": [
"returned",
[
"datetime",
"1990-01-26T20:31:23.648000",
"None",
0
]
],
"ydms.parse(1990, 2, 4294967295)": [
"returned",
[
"datetime",
"1990-02-20T17:02:47.295000",
"None",
0
]
],
"ydms.parse(1990, 2, 86399999)": [
"returned",
[
"datetime",
"1990-01-02T23:59:59.999000",
"None",
0
]
],
"ydms.parse(1990, 2, 86400000)": [
"returned",
[
"datetime",
"1990-01-03T00:00:00",
"None",
0
]
],
"ydms.parse(1990, 2, 86400001)": [
"returned",
[
"datetime",
"1990-01-03T00:00:00.001000",
"None",
0
]
],
"ydms.parse(1990, 2, 999)": [
"returned",
[
"datetime",
"1990-01-02T00:00:00.999000",
"None",
0
]
],
"ydms.parse(1990, 365, 0)": [
"returned",
[
"datetime",
"1990-12-31T00:00:00",
"None",
0
]
],
"ydms.parse(1990, 365, 1)": [
"returned",
[
"datetime",
"1990-12-31T00:00:00.001000",
"None",
0
]
],
"ydms.parse(1990, 365, 1000)": [
"returned",
[
"datetime",
"1990-12-31T00:00:01",
"None",
0
]
],
"ydms.parse(1990, 365, 2147483648)": [
"returned",
[
"datetime",
"1991-01-24T20:31:23.648000",
"None",
0
]
],
"ydms.parse(1990, 365, 4294967295)": [
"returned",
[
"datetime",
"1991-02-18T17:02:47.295000",
"None",
0
]
],
"ydms.parse(1990, 365, 86399999)": [
"returned",
[
"datetime",
"1990-12-31T23:59:59.999000",
"None",
0
]
],
"ydms.parse(1990, 365, 86400000)": [
"returned",
[
"datetime",
"1991-01-01T00:00:00",
"None",
0
]
],
"ydms.parse(1990, 365, 86400001)": [
"returned",
[
"datetime",
"1991-01-01T00:00:00.001000",
"None",
0
]
],
"ydms.parse(1990, 365, 999)": [
"returned",
[
"datetime",
"1990-12-31T00:00:00.999000",
"None",
0
]
],
"ydms.parse(1990, 366, 0)": [
"returned",
[
"datetime",
"1991-01-01T00:00:00",
"None",
0
]
],
"ydms.parse(1990, 366, 1)": [
"returned",
[
"datetime",
"1991-01-01T00:00:00.001000",
"None",
0
]
],
"ydms.parse(1990, 366, 1000)": [
"returned",
[
"datetime",
"1991-01-01T00:00:01",
"None",
0
]
],
"ydms.parse(1990, 366, 2147483648)": [
"returned",
[
"datetime",
"1991-01-25T20:31:23.648000",
"None",
0
]
],
"ydms.parse(1990, 366, 4294967295)": [
"returned",
[
"datetime",
"1991-02-19T17:02:47.295000",
"None",
0
]
],
"ydms.parse(1990, 366, 86399999)": [
"returned",
[
"datetime",
"1991-01-01T23:59:59.999000",
"None",
0
]
],
"ydms.parse(1990, 366, 86400000)": [
"returned",
[
"datetime",
"1991-01-02T00:00:00",
"None",
0
]
],
"ydms.parse(1990, 366, 86400001)": [
"returned",
[
"datetime",
"1991-01-02T00:00:00.001000",
"None",
0
]
],
"ydms.parse(1990, 366, 999)": [
"returned",
[
"datetime",
"1991-01-01T00:00:00.999000",
"None",
0
]
],
"ydms.parse(1990, 367, 0)": [
"returned",
[
"datetime",
"1991-01-02T00:00:00",
"None",
0
]
],
"ydms.parse(1990, 367, 1)": [
"returned",
[
"datetime",
"1991-01-02T00:00:00.001000",
"None",
0
]
],
"ydms.parse(1990, 367, 1000)": [
"returned",
[
"datetime",
"1991-01-02T00:00:01",
"None",
0
]
],
"ydms.parse(1990, 367, 2147483648)": [
"returned",
[
"datetime",
"1991-01-26T20:31:23.648000",
"None",
0
]
],
"ydms.parse(1990, 367, 4294967295)": [
"returned",
[
"datetime",
"1991-02-20T17:02:47.295000",
"None",
0
]
],
"ydms.parse(1990, 367, 86399999)": [
"returned",
[
"datetime",
"1991-01-02T23:59:59.999000",
"None",
0
]
],
"ydms.parse(1990, 367, 86400000)": [
"returned",
[
"datetime",
"1991-01-03T00:00:00",
"None",
0
]
],
"ydms.parse(1990, 367, 86400001)": [
"returned",
[
"datetime",
"1991-01-03T00:00:00.001000",
"None",
0
]
],
"ydms.parse(1990, 367, 999)": [
"returned",
[
"datetime",
"1991-01-02T00:00:00.999000",
"None",
0
]
],
"ydms.parse(1990, 4294967295, 0)": [
"raised",
"builtins.OverflowError",
"Python int too large to convert to C int"
],
"ydms.parse(1990, 4294967295, 1)": [
"raised",
"builtins.OverflowError",
"Python int too large to convert to C int"
],
"ydms.parse(1990, 4294967295, 1000)": [
"raised",
"builtins.OverflowError",
"Python int too large to convert to C int"
],
"ydms.parse(1990, 4294967295, 2147483648)": [
"raised",
"builtins.OverflowError",
"Python int too large to convert to C int"
],
"ydms.parse(1990, 4294967295, 4294967295)": [
"raised",
"builtins.OverflowError",
"Python int too large to convert to C int"
],
"ydms.parse(1990, 4294967295, 86399999)": [
"raised",
"builtins.OverflowError",
"Python int too large to convert to C int"
],
"ydms.parse(1990, 4294967295, 86400000)": [
"raised",
"builtins.OverflowError",
"Python int too large to convert to C int"
],
"ydms.parse(1990, 4294967295, 86400001)": [
"raised",
"builtins.OverflowError",
"Python int too large to convert to C int"
],
"ydms.parse(1990, 4294967295, 999)": [
"raised",
"builtins.OverflowError",
"Python int too large to convert to C int"
],
"ydms.parse(1990, 59, 0)": [
"returned",
[
"datetime",
"1990-02-28T00:00:00",
"None",
0
]
],
"ydms.parse(1990, 59, 1)": [
"returned",
[
"datetime",
"1990-02-28T00:00:00.001000",
"None",
0
]
],
"ydms.parse(1990, 59, 1000)": [
"returned",
[
"datetime",
"1990-02-28T00:00:01",
"None",
0
]
],
"ydms.parse(1990, 59, 2147483648)": [
"returned",
[
"datetime",
"1990-03-24T20:31:23.648000",
"None",
0
]
],
"ydms.parse(1990, 59, 4294967295)": [
"returned",
[
"datetime",
"1990-04-18T17:02:47.295000",
"None",
0
]
],
"ydms.parse(1990, 59, 86399999)": [
"returned",
[
"datetime",
"1990-02-28T23:59:59.999000",
"None",
0
]
],
"ydms.parse(1990, 59, 86400000)": [
"returned",
[
"datetime",
"1990-03-01T00:00:00",
"None",
0
]
],
"ydms.parse(1990, 59, 86400001)": [
"returned",
[
"datetime",
"1990-03-01T00:00:00.001000",
"None",
0
]
],
"ydms.parse(1990, 59, 999)": [
"returned",
[
"datetime",
"1990-02-28T00:00:00.999000",
"None",
0
]
],
"ydms.parse(1990, 60, 0)": [
"returned",
[
"datetime",
"1990-03-01T00:00:00",
"None",
0
]
],
"ydms.parse(1990, 60, 1)": [
"returned",
[
"datetime",
"1990-03-01T00:00:00.001000",
"None",
0
]
],
"ydms.parse(1990, 60, 1000)": [
"returned",
[
"datetime",
"1990-03-01T00:00:01",
"None",
0
]
],
"ydms.parse(1990, 60, 2147483648)": [
"returned",
[
"datetime",
"1990-03-25T20:31:23.648000",
"None",
0
]
],
"ydms.parse(1990, 60, 4294967295)": [
"returned",
[
"datetime",
"1990-04-19T17:02:47.295000",
"None",
0
]
],
"ydms.parse(1990, 60, 86399999)": [
"returned",
[
"datetime",
"1990-03-01T23:59:59.999000",
"None",
0
]
],
"ydms.parse(1990, 60, 86400000)": [
"returned",
[
"datetime",
"1990-03-02T00:00:00",
"None",
0
]
],
"ydms.parse(1990, 60, 86400001)": [
"returned",
[
"datetime",
"1990-03-02T00:00:00.001000",
"None",
0
]
],
"ydms.parse(1990, 60, 999)": [
"returned",
[
"datetime",
"1990-03-01T00:00:00.999000",
"None",
0
]
],
"ydms.parse(1990, 61, 0)": [
"returned",
[
"datetime",
"1990-03-02T00:00:00",
"None",
0
]
],
"ydms.parse(1990, 61, 1)": [
"returned",
[
"datetime",
"1990-03-02T00:00:00.001000",
"None",
0
]
],
"ydms.parse(1990, 61, 1000)": [
"returned",
[
"datetime",
"1990-03-02T00:00:01",
"None",
0
]
],
"ydms.parse(1990, 61, 2147483648)": [
"returned",
[
"datetime",
"1990-03-26T20:31:23.648000",
"None",
0
]
],
"ydms.parse(1990, 61, 4294967295)": [
"returned",
[
"datetime",
"1990-04-20T17:02:47.295000",
"None",
0
]
],
"ydms.parse(1990, 61, 86399999)": [
"returned",
[
"datetime",
"1990-03-02T23:59:59.999000",
"None",
0
]
],
"ydms.parse(1990, 61, 86400000)": [
"returned",
[
"datetime",
"1990-03-03T00:00:00",
"None",
0
]
],
"ydms.parse(1990, 61, 86400001)": [
"returned",
[
"datetime",
"1990-03-03T00:00:00.001000",
"None",
0
]
],
"ydms.parse(1990, 61, 999)": [
"returned",
[
"datetime",
"1990-03-02T00:00:00.999000",
"None",
0
]
],
"ydms.parse(1990, 999999999, 0)": [
"raised",
"builtins.OverflowError",
"date value out of range"
],
"ydms.parse(1990, 999999999, 1)": [
"raised",
"builtins.OverflowError",
"date value out of range"
],
"ydms.parse(1990, 999999999, 1000)": [
"raised",
"builtins.OverflowError",
"date value out of range"
],
"ydms.parse(1990, 999999999, 2147483648)": [
"raised",
"builtins.OverflowError",
"days=1000000022; must have magnitude <= 999999999"
],
"ydms.parse(1990, 999999999, 4294967295)": [
"raised",
"builtins.OverflowError",
"days=1000000047; must have magnitude <= 999999999"
],
"ydms.parse(1990, 999999999, 86399999)": [
"raised",
"builtins.OverflowError",
"date value out of range"
],
"ydms.parse(1990, 999999999, 86400000)": [
"raised",
"builtins.OverflowError",
"date value out of range"
],
"ydms.parse(1990, 999999999, 86400001)": [
"raised",
"builtins.OverflowError",
"date value out of range"
],
"ydms.parse(1990, 999999999, 999)": [
"raised",
"builtins.OverflowError",
"date value out of range"
],
"ydms.parse(2019, 0, 0)": [
"returned",
[
"datetime",
"2018-12-31T00:00:00",
"None",
0
]
],
"ydms.parse(2019, 0, 1)": [
"returned",
[
"datetime",
"2018-12-31T00:00:00.001000",
"None",
0
]
],
"ydms.parse(2019, 0, 1000)": [
"returned",
[
"datetime",
"2018-12-31T00:00:01",
"None",
0
]
],
"ydms.parse(2019, 0, 2147483648)": [
"returned",
[
"datetime",
"2019-01-24T20:31:23.648000",
"None",
0
]
],
"ydms.parse(2019, 0, 4294967295)": [
"returned",
[
"datetime",
"2019-02-18T17:02:47.295000",
"None",
0
]
],
"ydms.parse(2019, 0, 86399999)": [
"returned",
[
"datetime",
"2018-12-31T23:59:59.999000",
"None",
0
]
],
"ydms.parse(2019, 0, 86400000)": [
"returned",
[
"datetime",
"2019-01-01T00:00:00",
"None",
0
]
],
"ydms.parse(2019, 0, 86400001)": [
"returned",
[
"datetime",
"2019-01-01T00:00:00.001000",
"None",
0
]
],
"ydms.parse(2019, 0, 999)": [
"returned",
[
"datetime",
"2018-12-31T00:00:00.999000",
"None",
0
]
],
"ydms.parse(2019, 1, 0)": [
"returned",
[
"datetime",
"2019-01-01T00:00:00",
"None",
0
]
],
"ydms.parse(2019, 1, 1)": [
"returned",
[
"datetime",
"2019-01-01T00:00:00.001000",
"None",
0
]
],
"ydms.parse(2019, 1, 1000)": [
"returned",
[
"datetime",
"2019-01-01T00:00:01",
"None",
0
]
],
"ydms.parse(2019, 1, 2147483648)": [
"returned",
[
"datetime",
"2019-01-25T20:31:23.648000",
"None",
0
]
],
"ydms.parse(2019, 1, 4294967295)": [
"returned",
[
"datetime",
"2019-02-19T17:02:47.295000",
"None",
0
]
],
"ydms.parse(2019, 1, 86399999)": [
"returned",
[
"datetime",
"2019-01-01T23:59:59.999000",
"None",
0
]
],
"ydms.parse(2019, 1, 86400000)": [
"returned",
[
"datetime",
"2019-01-02T00:00:00",
"None",
0
]
],
"ydms.parse(2019, 1, 86400001)": [
"returned",
[
"datetime",
"2019-01-02T00:00:00.001000",
"None",
0
]
],
"ydms.parse(2019, 1, 999)": [
"returned",
[
"datetime",
"2019-01-01T00:00:00.999000",
"None",
0
]
],
"ydms.parse(2019, 1000, 0)": [
"returned",
[
"datetime",
"2021-09-26T00:00:00",
"None",
0
]
],
"ydms.parse(2019, 1000, 1)": [
"returned",
[
"datetime",
"2021-09-26T00:00:00.001000",
"None",
0
]
],
"ydms.parse(2019, 1000, 1000)": [
"returned",
[
"datetime",
"2021-09-26T00:00:01",
"None",
0
]
],
"ydms.parse(2019, 1000, 2147483648)": [
"returned",
[
"datetime",
"2021-10-20T20:31:23.648000",
"None",
0
]
],
"ydms.parse(2019, 1000, 4294967295)": [
"returned",
[
"datetime",
"2021-11-14T17:02:47.295000",
"None",
0
]
],
"ydms.parse(2019, 1000, 86399999)": [
"returned",
[
"datetime",
"2021-09-26T23:59:59.999000",
"None",
0
]
],
"ydms.parse(2019, 1000, 86400000)": [
"returned",
[
"datetime",
"2021-09-27T00:00:00",
"None",
0
]
],
"ydms.parse(2019, 1000, 86400001)": [
"returned",
[
"datetime",
"2021-09-27T00:00:00.001000",
"None",
0
]
],
"ydms.parse(2019, 1000, 999)": [
"returned",
[
"datetime",
"2021-09-26T00:00:00.999000",
"None",
0
]
],
"ydms.parse(2019, 1000000000, 0)": [
"raised",
"builtins.OverflowError",
"date value out of range"
],
"ydms.parse(2019, 1000000000, 1)": [
"raised",
"builtins.OverflowError",
"date value out of range"
],
"ydms.parse(2019, 1000000000, 1000)": [
"raised",
"builtins.OverflowError",
"date value out of range"
],
"ydms.parse(2019, 1000000000, 2147483648)": [
"raised",
"builtins.OverflowError",
"days=1000000023; must have magnitude <= 999999999"
],
"ydms.parse(2019, 1000000000, 4294967295)": [
"raised",
"builtins.OverflowError",
"days=1000000048; must have magnitude <= 999999999"
],
"ydms.parse(2019, 1000000000, 86399999)": [
"raised",
"builtins.OverflowError",
"date value out of range"
],
"ydms.parse(2019, 1000000000, 86400000)": [
"raised",
"builtins.OverflowError",
"days=1000000000; must have magnitude <= 999999999"
],
"ydms.parse(2019, 1000000000, 86400001)": [
"raised",
"builtins.OverflowError",
"days=1000000000; must have magnitude <= 999999999"
],
"ydms.parse(2019, 1000000000, 999)": [
"raised",
"builtins.OverflowError",
"date value out of range"
],
"ydms.parse(2019, 1000000001, 0)": [
"raised",
"builtins.OverflowError",
"days=1000000000; must have magnitude <= 999999999"
],
"ydms.parse(2019, 1000000001, 1)": [
"raised",
"builtins.OverflowError",
"days=1000000000; must have magnitude <= 999999999"
],
"ydms.parse(2019, 1000000001, 1000)": [
"raised",
"builtins.OverflowError",
"days=1000000000; must have magnitude <= 999999999"
],
"ydms.parse(2019, 1000000001, 2147483648)": [
"raised",
"builtins.OverflowError",
"days=1000000024; must have magnitude <= 999999999"
],
"ydms.parse(2019, 1000000001, 4294967295)": [
"raised",
"builtins.OverflowError",
"days=1000000049; must have magnitude <= 999999999"
],
"ydms.parse(2019, 1000000001, 86399999)": [
"raised",
"builtins.OverflowError",
"days=1000000000; must have magnitude <= 999999999"
],
"ydms.parse(2019, 1000000001, 86400000)": [
"raised",
"builtins.OverflowError",
"days=1000000001; must have magnitude <= 999999999"
],
"ydms.parse(2019, 1000000001, 86400001)": [
"raised",
"builtins.OverflowError",
"days=1000000001; must have magnitude <= 999999999"
],
"ydms.parse(2019, 1000000001, 999)": [
"raised",
"builtins.OverflowError",
"days=1000000000; must have magnitude <= 999999999"
],
"ydms.parse(2019, 2, 0)": [
"returned",
[
"datetime",
"2019-01-02T00:00:00",
"None",
0
]
],
"ydms.parse(2019, 2, 1)": [
"returned",
[
"datetime",
"2019-01-02T00:00:00.001000",
"None",
0
]
],
"ydms.parse(2019, 2, 1000)": [
"returned",
[
"datetime",
"2019-01-02T00:00:01",
"None",
0
]
],
"ydms.parse(2019, 2, 2147483648)": [
"returned",
[
"datetime",
"2019-01-26T20:31:23.648000",
"None",
0
]
],
"ydms.parse(2019, 2, 4294967295)": [
"returned",
[
"datetime",
"2019-02-20T17:02:47.295000",
"None",
0
]
],
"ydms.parse(2019, 2, 86399999)": [
"returned",
[
"datetime",
"2019-01-02T23:59:59.999000",
"None",
0
]
],
"ydms.parse(2019, 2, 86400000)": [
"returned",
[
"datetime",
"2019-01-03T00:00:00",
"None",
0
]
],
"ydms.parse(2019, 2, 86400001)": [
"returned",
[
"datetime",
"2019-01-03T00:00:00.001000",
"None",
0
]
],
"ydms.parse(2019, 2, 999)": [
"returned",
[
"datetime",
"2019-01-02T00:00:00.999000",
"None",
0
]
],
"ydms.parse(2019, 365, 0)": [
"returned",
[
"datetime",
"2019-12-31T00:00:00",
"None",
0
]
],
"ydms.parse(2019, 365, 1)": [
"returned",
[
"datetime",
"2019-12-31T00:00:00.001000",
"None",
0
]
],
"ydms.parse(2019, 365, 1000)": [
"returned",
[
"datetime",
"2019-12-31T00:00:01",
"None",
0
]
],
"ydms.parse(2019, 365, 2147483648)": [
"returned",
[
"datetime",
"2020-01-24T20:31:23.648000",
"None",
0
]
],
"ydms.parse(2019, 365, 4294967295)": [
"returned",
[
"datetime",
"2020-02-18T17:02:47.295000",
"None",
0
]
],
"ydms.parse(2019, 365, 86399999)": [
"returned",
[
"datetime",
"2019-12-31T23:59:59.999000",
"None",
0
]
],
"ydms.parse(2019, 365, 86400000)": [
"returned",
[
"datetime",
"2020-01-01T00:00:00",
"None",
0
]
],
"ydms.parse(2019, 365, 86400001)": [
"returned",
[
"datetime",
"2020-01-01T00:00:00.001000",
"None",
0
]
],
"ydms.parse(2019, 365, 999)": [
"returned",
[
"datetime",
"2019-12-31T00:00:00.999000",
"None",
0
]
],
"ydms.parse(2019, 366, 0)": [
"returned",
[
"datetime",
"2020-01-01T00:00:00",
"None",
0
]
],
"ydms.parse(2019, 366, 1)": [
"returned",
[
"datetime",
"2020-01-01T00:00:00.001000",
"None",
0
]
],
"ydms.parse(2019, 366, 1000)": [
"returned",
[
"datetime",
"2020-01-01T00:00:01",
"None",
0
]
],
"ydms.parse(2019, 366, 2147483648)": [
"returned",
[
"datetime",
"2020-01-25T20:31:23.648000",
"None",
0
]
],
"ydms.parse(2019, 366, 4294967295)": [
"returned",
[
"datetime",
"2020-02-19T17:02:47.295000",
"None",
0
]
],
"ydms.parse(2019, 366, 86399999)": [
"returned",
[
"datetime",
"2020-01-01T23:59:59.999000",
"None",
0
]
],
"ydms.parse(2019, 366, 86400000)": [
"returned",
[
"datetime",
"2020-01-02T00:00:00",
"None",
0
]
],
"ydms.parse(2019, 366, 86400001)": [
"returned",
[
"datetime",
"2020-01-02T00:00:00.001000",
"None",
0
]
],
"ydms.parse(2019, 366, 999)": [
"returned",
[
"datetime",
"2020-01-01T00:00:00.999000",
"None",
0
]
],
"ydms.parse(2019, 367, 0)": [
"returned",
[
"datetime",
"2020-01-02T00:00:00",
"None",
0
]
],
"ydms.parse(2019, 367, 1)": [
"returned",
[
"datetime",
"2020-01-02T00:00:00.001000",
"None",
0
]
],
"ydms.parse(2019, 367, 1000)": [
"returned",
[
"datetime",
"2020-01-02T00:00:01",
"None",
0
]
],
"ydms.parse(2019, 367, 2147483648)": [
"returned",
[
"datetime",
"2020-01-26T20:31:23.648000",
"None",
0
]
],
"ydms.parse(2019, 367, 4294967295)": [
"returned",
[
"datetime",
"2020-02-20T17:02:47.295000",
"None",
0
]
],
"ydms.parse(2019, 367, 86399999)": [
"returned",
[
"datetime",
"2020-01-02T23:59:59.999000",
"None",
0
]
],
"ydms.parse(2019, 367, 86400000)": [
"returned",
[
"datetime",
"2020-01-03T00:00:00",
"None",
0
]
],
"ydms.parse(2019, 367, 86400001)": [
"returned",
[
"datetime",
"2020-01-03T00:00:00.001000",
"None",
0
]
],
"ydms.parse(2019, 367, 999)": [
"returned",
[
"datetime",
"2020-01-02T00:00:00.999000",
"None",
0
]
],
"ydms.parse(2019, 4294967295, 0)": [
"raised",
"builtins.OverflowError",
"Python int too large to convert to C int"
],
"ydms.parse(2019, 4294967295, 1)": [
"raised",
"builtins.OverflowError",
"Python int too large to convert to C int"
],
"ydms.parse(2019, 4294967295, 1000)": [
"raised",
"builtins.OverflowError",
"Python int too large to convert to C int"
],
"ydms.parse(2019, 4294967295, 2147483648)": [
"raised",
"builtins.OverflowError",
"Python int too large to convert to C int"
],
"ydms.parse(2019, 4294967295, 4294967295)": [
"raised",
"builtins.OverflowError",
"Python int too large to convert to C int"
],
"ydms.parse(2019, 4294967295, 86399999)": [
"raised",
"builtins.OverflowError",
"Python int too large to convert to C int"
],
"ydms.parse(2019, 4294967295, 86400000)": [
"raised",
"builtins.OverflowError",
"Python int too large to convert to C int"
],
"ydms.parse(2019, 4294967295, 86400001)": [
"raised",
"builtins.OverflowError",
"Python int too large to convert to C int"
],
"ydms.parse(2019, 4294967295, 999)": [
"raised",
"builtins.OverflowError",
"Python int too large to convert to C int"
],
"ydms.parse(2019, 59, 0)": [
"returned",
[
"datetime",
"2019-02-28T00:00:00",
"None",
0
]
],
"ydms.parse(2019, 59, 1)": [
"returned",
[
"datetime",
"2019-02-28T00:00:00.001000",
"None",
0
]
],
"ydms.parse(2019, 59, 1000)": [
"returned",
[
"datetime",
"2019-02-28T00:00:01",
"None",
0
]
],
"ydms.parse(2019, 59, 2147483648)": [
"returned",
[
"datetime",
"2019-03-24T20:31:23.648000",
"None",
0
]
],
"ydms.parse(2019, 59, 4294967295)": [
"returned",
[
"datetime",
"2019-04-18T17:02:47.295000",
"None",
0
]
],
"ydms.parse(2019, 59, 86399999)": [
"returned",
[
"datetime",
"2019-02-28T23:59:59.999000",
"None",
0
]
],
"ydms.parse(2019, 59, 86400000)": [
"returned",
[
"datetime",
"2019-03-01T00:00:00",
"None",
0
]
],
"ydms.parse(2019, 59, 86400001)": [
"returned",
[
"datetime",
"2019-03-01T00:00:00.001000",
"None",
0
]
],
"ydms.parse(2019, 59, 999)": [
"returned",
[
"datetime",
"2019-02-28T00:00:00.999000",
"None",
0
]
],
"ydms.parse(2019, 60, 0)": [
"returned",
[
"datetime",
"2019-03-01T00:00:00",
"None",
0
]
],
"ydms.parse(2019, 60, 1)": [
"returned",
[
"datetime",
"2019-03-01T00:00:00.001000",
"None",
0
]
],
"ydms.parse(2019, 60, 1000)": [
"returned",
[
"datetime",
"2019-03-01T00:00:01",
"None",
0
]
],
"ydms.parse(2019, 60, 2147483648)": [
"returned",
[
"datetime",
"2019-03-25T20:31:23.648000",
"None",
0
]
],
"ydms.parse(2019, 60, 4294967295)": [
"returned",
[
"datetime",
"2019-04-19T17:02:47.295000",
"None",
0
]
],
"ydms.parse(2019, 60, 86399999)": [
"returned",
[
"datetime",
"2019-03-01T23:59:59.999000",
"None",
0
]
],
"ydms.parse(2019, 60, 86400000)": [
"returned",
[
"datetime",
"2019-03-02T00:00:00",
"None",
0
]
],
"ydms.parse(2019, 60, 86400001)": [
"returned",
[
"datetime",
"2019-03-02T00:00:00.001000",
"None",
0
]
],
"ydms.parse(2019, 60, 999)": [
"returned",
[
"datetime",
"2019-03-01T00:00:00.999000",
"None",
0
]
],
"ydms.parse(2019, 61, 0)": [
"returned",
[
"datetime",
"2019-03-02T00:00:00",
"None",
0
]
],
"ydms.parse(2019, 61, 1)": [
"returned",
[
"datetime",
"2019-03-02T00:00:00.001000",
"None",
0
]
],
"ydms.parse(2019, 61, 1000)": [
"returned",
[
"datetime",
"2019-03-02T00:00:01",
"None",
0
]
],
"ydms.parse(2019, 61, 2147483648)": [
"returned",
[
"datetime",
"2019-03-26T20:31:23.648000",
"None",
0
]
],
"ydms.parse(2019, 61, 4294967295)": [
"returned",
[
"datetime",
"2019-04-20T17:02:47.295000",
"None",
0
]
],
"ydms.parse(2019, 61, 86399999)": [
"returned",
[
"datetime",
"2019-03-02T23:59:59.999000",
"None",
0
]
],
"ydms.parse(2019, 61, 86400000)": [
"returned",
[
"datetime",
"2019-03-03T00:00:00",
"None",
0
]
],
"ydms.parse(2019, 61, 86400001)": [
"returned",
[
"datetime",
"2019-03-03T00:00:00.001000",
"None",
0
]
],
"ydms.parse(2019, 61, 999)": [
"returned",
[
"datetime",
"2019-03-02T00:00:00.999000",
"None",
0
]
],
"ydms.parse(2019, 999999999, 0)": [
"raised",
"builtins.OverflowError",
"date value out of range"
],
"ydms.parse(2019, 999999999, 1)": [
"raised",
"builtins.OverflowError",
"date value out of range"
],
"ydms.parse(2019, 999999999, 1000)": [
"raised",
"builtins.OverflowError",
"date value out of range"
],
"ydms.parse(2019, 999999999, 2147483648)": [
"raised",
"builtins.OverflowError",
"days=1000000022; must have magnitude <= 999999999"
],
"ydms.parse(2019, 999999999, 4294967295)": [
"raised",
"builtins.OverflowError",
"days=1000000047; must have magnitude <= 999999999"
],
"ydms.parse(2019, 999999999, 86399999)": [
"raised",
"builtins.OverflowError",
"date value out of range"
],
"ydms.parse(2019, 999999999, 86400000)": [
"raised",
"builtins.OverflowError",
"date value out of range"
],
"ydms.parse(2019, 999999999, 86400001)": [
"raised",
"builtins.OverflowError",
"date value out of range"
],
"ydms.parse(2019, 999999999, 999)": [
"raised",
"builtins.OverflowError",
"date value out of range"
],
"ydms.parse(2020, 0, 0)": [
"returned",
[
"datetime",
"2019-12-31T00:00:00",
"None",
0
]
],
"ydms.parse(2020, 0, 1)": [
"returned",
[
"datetime",
"2019-12-31T00:00:00.001000",
"None",
0
]
],
"ydms.parse(2020, 0, 1000)": [
"returned",
[
"datetime",
"2019-12-31T00:00:01",
"None",
0
]
],
"ydms.parse(2020, 0, 2147483648)": [
"returned",
[
"datetime",
"2020-01-24T20:31:23.648000",
"None",
0
]
],
"ydms.parse(2020, 0, 4294967295)": [
"returned",
[
"datetime",
"2020-02-18T17:02:47.295000",
"None",
0
]
],
"ydms.parse(2020, 0, 86399999)": [
"returned",
[
"datetime",
"2019-12-31T23:59:59.999000",
"None",
0
]
],
"ydms.parse(2020, 0, 86400000)": [
"returned",
[
"datetime",
"2020-01-01T00:00:00",
"None",
0
]
],
"ydms.parse(2020, 0, 86400001)": [
"returned",
[
"datetime",
"2020-01-01T00:00:00.001000",
"None",
0
]
],
"ydms.parse(2020, 0, 999)": [
"returned",
[
"datetime",
"2019-12-31T00:00:00.999000",
"None",
0
]
],
"ydms.parse(2020, 1, 0)": [
"returned",
[
"datetime",
"2020-01-01T00:00:00",
"None",
0
]
],
"ydms.parse(2020, 1, 1)": [
"returned",
[
"datetime",
"2020-01-01T00:00:00.001000",
"None",
0
]
],
"ydms.parse(2020, 1, 1000)": [
"returned",
[
"datetime",
"2020-01-01T00:00:01",
"None",
0
]
],
"ydms.parse(2020, 1, 2147483648)": [
"returned",
[
"datetime",
"2020-01-25T20:31:23.648000",
"None",
0
]
],
"ydms.parse(2020, 1, 4294967295)": [
"returned",
[
"datetime",
"2020-02-19T17:02:47.295000",
"None",
0
]
],
"ydms.parse(2020, 1, 86399999)": [
"returned",
[
"datetime",
"2020-01-01T23:59:59.999000",
"None",
0
]
],
"ydms.parse(2020, 1, 86400000)": [
"returned",
[
"datetime",
"2020-01-02T00:00:00",
"None",
0
]
],
"ydms.parse(2020, 1, 86400001)": [
"returned",
[
"datetime",
"2020-01-02T00:00:00.001000",
"None",
0
]
],
"ydms.parse(2020, 1, 999)": [
"returned",
[
"datetime",
"2020-01-01T00:00:00.999000",
"None",
0
]
],
"ydms.parse(2020, 1000, 0)": [
"returned",
[
"datetime",
"2022-09-26T00:00:00",
"None",
0
]
],
"ydms.parse(2020, 1000, 1)": [
"returned",
[
"datetime",
"2022-09-26T00:00:00.001000",
"None",
0
]
],
"ydms.parse(2020, 1000, 1000)": [
"returned",
[
"datetime",
"2022-09-26T00:00:01",
"None",
0
]
],
"ydms.parse(2020, 1000, 2147483648)": [
"returned",
[
"datetime",
"2022-10-20T20:31:23.648000",
"None",
0
]
],
"ydms.parse(2020, 1000, 4294967295)": [
"returned",
[
"datetime",
"2022-11-14T17:02:47.295000",
"None",
0
]
],
"ydms.parse(2020, 1000, 86399999)": [
"returned",
[
"datetime",
"2022-09-26T23:59:59.999000",
"None",
0
]
],
"ydms.parse(2020, 1000, 86400000)": [
"returned",
[
"datetime",
"2022-09-27T00:00:00",
"None",
0
]
],
"ydms.parse(2020, 1000, 86400001)": [
"returned",
[
"datetime",
"2022-09-27T00:00:00.001000",
"None",
0
]
],
"ydms.parse(2020, 1000, 999)": [
"returned",
[
"datetime",
"2022-09-26T00:00:00.999000",
"None",
0
]
],
"ydms.parse(2020, 1000000000, 0)": [
"raised",
"builtins.OverflowError",
"date value out of range"
],
"ydms.parse(2020, 1000000000, 1)": [
"raised",
"builtins.OverflowError",
"date value out of range"
],
"ydms.parse(2020, 1000000000, 1000)": [
"raised",
"builtins.OverflowError",
"date value out of range"
],
"ydms.parse(2020, 1000000000, 2147483648)": [
"raised",
"builtins.OverflowError",
"days=1000000023; must have magnitude <= 999999999"
],
"ydms.parse(2020, 1000000000, 4294967295)": [
"raised",
"builtins.OverflowError",
"days=1000000048; must have magnitude <= 999999999"
],
"ydms.parse(2020, 1000000000, 86399999)": [
"raised",
"builtins.OverflowError",
"date value out of range"
],
"ydms.parse(2020, 1000000000, 86400000)": [
"raised",
"builtins.OverflowError",
"days=1000000000; must have magnitude <= 999999999"
],
"ydms.parse(2020, 1000000000, 86400001)": [
"raised",
"builtins.OverflowError",
"days=1000000000; must have magnitude <= 999999999"
],
"ydms.parse(2020, 1000000000, 999)": [
"raised",
"builtins.OverflowError",
"date value out of range"
],
"ydms.parse(2020, 1000000001, 0)": [
"raised",
"builtins.OverflowError",
"days=1000000000; must have magnitude <= 999999999"
],
"ydms.parse(2020, 1000000001, 1)": [
"raised",
"builtins.OverflowError",
"days=1000000000; must have magnitude <= 999999999"
],
"ydms.parse(2020, 1000000001, 1000)": [
"raised",
"builtins.OverflowError",
"days=1000000000; must have magnitude <= 999999999"
],
"ydms.parse(2020, 1000000001, 2147483648)": [
"raised",
"builtins.OverflowError",
"days=1000000024; must have magnitude <= 999999999"
],
"ydms.parse(2020, 1000000001, 4294967295)": [
"raised",
"builtins.OverflowError",
"days=1000000049; must have magnitude <= 999999999"
],
"ydms.parse(2020, 1000000001, 86399999)": [
"raised",
"builtins.OverflowError",
"days=1000000000; must have magnitude <= 999999999"
],
"ydms.parse(2020, 1000000001, 86400000)": [
"raised",
"builtins.OverflowError",
"days=1000000001; must have magnitude <= 999999999"
],
"ydms.parse(2020, 1000000001, 86400001)": [
"raised",
"builtins.OverflowError",
"days=1000000001; must have magnitude <= 999999999"
],
"ydms.parse(2020, 1000000001, 999)": [
"raised",
"builtins.OverflowError",
"days=1000000000; must have magnitude <= 999999999"
],
"ydms.parse(2020, 2, 0)": [
"returned",
[
"datetime",
"2020-01-02T00:00:00",
"None",
0
]
],
"ydms.parse(2020, 2, 1)": [
"returned",
[
"datetime",
"2020-01-02T00:00:00.001000",
"None",
0
]
],
"ydms.parse(2020, 2, 1000)": [
"returned",
[
"datetime",
"2020-01-02T00:00:01",
"None",
0
]
],
"ydms.parse(2020, 2, 2147483648)": [
"returned",
[
"datetime",
"2020-01-26T20:31:23.648000",
"None",
0
]
],
"ydms.parse(2020, 2, 4294967295)": [
"returned",
[
"datetime",
"2020-02-20T17:02:47.295000",
"None",
0
]
],
"ydms.parse(2020, 2, 86399999)": [
"returned",
[
"datetime",
"2020-01-02T23:59:59.999000",
"None",
0
]
],
"ydms.parse(2020, 2, 86400000)": [
"returned",
[
"datetime",
"2020-01-03T00:00:00",
"None",
0
]
],
"ydms.parse(2020, 2, 86400001)": [
"returned",
[
"datetime",
"2020-01-03T00:00:00.001000",
"None",
0
]
],
"ydms.parse(2020, 2, 999)": [
"returned",
[
"datetime",
"2020-01-02T00:00:00.999000",
"None",
0
]
],
"ydms.parse(2020, 365, 0)": [
"returned",
[
"datetime",
"2020-12-30T00:00:00",
"None",
0
]
],
"ydms.parse(2020, 365, 1)": [
"returned",
[
"datetime",
"2020-12-30T00:00:00.001000",
"None",
0
]
],
"ydms.parse(2020, 365, 1000)": [
"returned",
[
"datetime",
"2020-12-30T00:00:01",
"None",
0
]
],
"ydms.parse(2020, 365, 2147483648)": [
"returned",
[
"datetime",
"2021-01-23T20:31:23.648000",
"None",
0
]
],
"ydms.parse(2020, 365, 4294967295)": [
"returned",
[
"datetime",
"2021-02-17T17:02:47.295000",
"None",
0
]
],
"ydms.parse(2020, 365, 86399999)": [
"returned",
[
"datetime",
"2020-12-30T23:59:59.999000",
"None",
0
]
],
"ydms.parse(2020, 365, 86400000)": [
"returned",
[
"datetime",
"2020-12-31T00:00:00",
"None",
0
]
],
"ydms.parse(2020, 365, 86400001)": [
"returned",
[
"datetime",
"2020-12-31T00:00:00.001000",
"None",
0
]
],
"ydms.parse(2020, 365, 999)": [
"returned",
[
"datetime",
"2020-12-30T00:00:00.999000",
"None",
0
]
],
"ydms.parse(2020, 366, 0)": [
"returned",
[
"datetime",
"2020-12-31T00:00:00",
"None",
0
]
],
"ydms.parse(2020, 366, 1)": [
"returned",
[
"datetime",
"2020-12-31T00:00:00.001000",
"None",
0
]
],
"ydms.parse(2020, 366, 1000)": [
"returned",
[
"datetime",
"2020-12-31T00:00:01",
"None",
0
]
],
"ydms.parse(2020, 366, 2147483648)": [
"returned",
[
"datetime",
"2021-01-24T20:31:23.648000",
"None",
0
]
],
"ydms.parse(2020, 366, 4294967295)": [
"returned",
[
"datetime",
"2021-02-18T17:02:47.295000",
"None",
0
]
],
"ydms.parse(2020, 366, 86399999)": [
"returned",
[
"datetime",
"2020-12-31T23:59:59.999000",
"None",
0
]
],
"ydms.parse(2020, 366, 86400000)": [
"returned",
[
"datetime",
"2021-01-01T00:00:00",
"None",
0
]
],
"ydms.parse(2020, 366, 86400001)": [
"returned",
[
"datetime",
"2021-01-01T00:00:00.001000",
"None",
0
]
],
"ydms.parse(2020, 366, 999)": [
"returned",
[
"datetime",
"2020-12-31T00:00:00.999000",
"None",
0
]
],
"ydms.parse(2020, 367, 0)": [
"returned",
[
"datetime",
"2021-01-01T00:00:00",
"None",
0
]
],
"ydms.parse(2020, 367, 1)": [
"returned",
[
"datetime",
"2021-01-01T00:00:00.001000",
"None",
0
]
],
"ydms.parse(2020, 367, 1000)": [
"returned",
[
"datetime",
"2021-01-01T00:00:01",
"None",
0
]
],
"ydms.parse(2020, 367, 2147483648)": [
"returned",
[
"datetime",
"2021-01-25T20:31:23.648000",
"None",
0
]
],
"ydms.parse(2020, 367, 4294967295)": [
"returned",
[
"datetime",
"2021-02-19T17:02:47.295000",
"None",
0
]
],
"ydms.parse(2020, 367, 86399999)": [
"returned",
[
"datetime",
"2021-01-01T23:59:59.999000",
"None",
0
]
],
"ydms.parse(2020, 367, 86400000)": [
"returned",
[
"datetime",
"2021-01-02T00:00:00",
"None",
0
]
],
"ydms.parse(2020, 367, 86400001)": [
"returned",
[
"datetime",
"2021-01-02T00:00:00.001000",
"None",
0
]
],
"ydms.parse(2020, 367, 999)": [
"returned",
[
"datetime",
"2021-01-01T00:00:00.999000",
"None",
0
]
],
"ydms.parse(2020, 4294967295, 0)": [
"raised",
"builtins.OverflowError",
"Python int too large to convert to C int"
],
"ydms.parse(2020, 4294967295, 1)": [
"raised",
"builtins.OverflowError",
"Python int too large to convert to C int"
],
"ydms.parse(2020, 4294967295, 1000)": [
"raised",
"builtins.OverflowError",
"Python int too large to convert to C int"
],
"ydms.parse(2020, 4294967295, 2147483648)": [
"raised",
"builtins.OverflowError",
"Python int too large to convert to C int"
],
"ydms.parse(2020, 4294967295, 4294967295)": [
"raised",
"builtins.OverflowError",
"Python int too large to convert to C int"
],
"ydms.parse(2020, 4294967295, 86399999)": [
"raised",
"builtins.OverflowError",
"Python int too large to convert to C int"
],
"ydms.parse(2020, 4294967295, 86400000)": [
"raised",
"builtins.OverflowError",
"Python int too large to convert to C int"
],
"ydms.parse(2020, 4294967295, 86400001)": [
"raised",
"builtins.OverflowError",
"Python int too large to convert to C int"
],
"ydms.parse(2020, 4294967295, 999)": [
"raised",
"builtins.OverflowError",
"Python int too large to convert to C int"
],
"ydms.parse(2020, 59, 0)": [
"returned",
[
"datetime",
"2020-02-28T00:00:00",
"None",
0
]
],
"ydms.parse(2020, 59, 1)": [
"returned",
[
"datetime",
"2020-02-28T00:00:00.001000",
"None",
0
]
],
"ydms.parse(2020, 59, 1000)": [
"returned",
[
"datetime",
"2020-02-28T00:00:01",
"None",
0
]
],
"ydms.parse(2020, 59, 2147483648)": [
"returned",
[
"datetime",
"2020-03-23T20:31:23.648000",
"None",
0
]
],
"ydms.parse(2020, 59, 4294967295)": [
"returned",
[
"datetime",
"2020-04-17T17:02:47.295000",
"None",
0
]
],
"ydms.parse(2020, 59, 86399999)": [
"returned",
[
"datetime",
"2020-02-28T23:59:59.999000",
"None",
0
]
],
"ydms.parse(2020, 59, 86400000)": [
"returned",
[
"datetime",
"2020-02-29T00:00:00",
"None",
0
]
],
"ydms.parse(2020, 59, 86400001)": [
"returned",
[
"datetime",
"2020-02-29T00:00:00.001000",
"None",
0
]
],
"ydms.parse(2020, 59, 999)": [
"returned",
[
"datetime",
"2020-02-28T00:00:00.999000",
"None",
0
]
],
"ydms.parse(2020, 60, 0)": [
"returned",
[
"datetime",
"2020-02-29T00:00:00",
"None",
0
]
],
"ydms.parse(2020, 60, 1)": [
"returned",
[
"datetime",
"2020-02-29T00:00:00.001000",
"None",
0
]
],
"ydms.parse(2020, 60, 1000)": [
"returned",
[
"datetime",
"2020-02-29T00:00:01",
"None",
0
]
],
"ydms.parse(2020, 60, 2147483648)": [
"returned",
[
"datetime",
"2020-03-24T20:31:23.648000",
"None",
0
]
],
"ydms.parse(2020, 60, 4294967295)": [
"returned",
[
"datetime",
"2020-04-18T17:02:47.295000",
"None",
0
]
],
"ydms.parse(2020, 60, 86399999)": [
"returned",
[
"datetime",
"2020-02-29T23:59:59.999000",
"None",
0
]
],
"ydms.parse(2020, 60, 86400000)": [
"returned",
[
"datetime",
"2020-03-01T00:00:00",
"None",
0
]
],
"ydms.parse(2020, 60, 86400001)": [
"returned",
[
"datetime",
"2020-03-01T00:00:00.001000",
"None",
0
]
],
"ydms.parse(2020, 60, 999)": [
"returned",
[
"datetime",
"2020-02-29T00:00:00.999000",
"None",
0
]
],
"ydms.parse(2020, 61, 0)": [
"returned",
[
"datetime",
"2020-03-01T00:00:00",
"None",
0
]
],
"ydms.parse(2020, 61, 1)": [
"returned",
[
"datetime",
"2020-03-01T00:00:00.001000",
"None",
0
]
],
"ydms.parse(2020, 61, 1000)": [
"returned",
[
"datetime",
"2020-03-01T00:00:01",
"None",
0
]
],
"ydms.parse(2020, 61, 2147483648)": [
"returned",
[
"datetime",
"2020-03-25T20:31:23.648000",
"None",
0
]
],
"ydms.parse(2020, 61, 4294967295)": [
"returned",
[
"datetime",
"2020-04-19T17:02:47.295000",
"None",
0
]
],
"ydms.parse(2020, 61, 86399999)": [
"returned",
[
"datetime",
"2020-03-01T23:59:59.999000",
"None",
0
]
],
"ydms.parse(2020, 61, 86400000)": [
"returned",
[
"datetime",
"2020-03-02T00:00:00",
"None",
0
]
],
"ydms.parse(2020, 61, 86400001)": [
"returned",
[
"datetime",
"2020-03-02T00:00:00.001000",
"None",
0
]
],
"ydms.parse(2020, 61, 999)": [
"returned",
[
"datetime",
"2020-03-01T00:00:00.999000",
"None",
0
]
],
"ydms.parse(2020, 999999999, 0)": [
"raised",
"builtins.OverflowError",
"date value out of range"
],
"ydms.parse(2020, 999999999, 1)": [
"raised",
"builtins.OverflowError",
"date value out of range"
],
"ydms.parse(2020, 999999999, 1000)": [
"raised",
"builtins.OverflowError",
"date value out of range"
],
"ydms.parse(2020, 999999999, 2147483648)": [
"raised",
"builtins.OverflowError",
"days=1000000022; must have magnitude <= 999999999"
],
"ydms.parse(2020, 999999999, 4294967295)": [
"raised",
"builtins.OverflowError",
"days=1000000047; must have magnitude <= 999999999"
],
"ydms.parse(2020, 999999999, 86399999)": [
"raised",
"builtins.OverflowError",
"date value out of range"
],
"ydms.parse(2020, 999999999, 86400000)": [
"raised",
"builtins.OverflowError",
"date value out of range"
],
"ydms.parse(2020, 999999999, 86400001)": [
"raised",
"builtins.OverflowError",
"date value out of range"
],
"ydms.parse(2020, 999999999, 999)": [
"raised",
"builtins.OverflowError",
"date value out of range"
],
"ydms.parse(2100, 0, 0)": [
"returned",
[
"datetime",
"2099-12-31T00:00:00",
"None",
0
]
],
"ydms.parse(2100, 0, 1)": [
"returned",
[
"datetime",
"2099-12-31T00:00:00.001000",
"None",
0
]
],
"ydms.parse(2100, 0, 1000)": [
"returned",
[
"datetime",
"2099-12-31T00:00:01",
"None",
0
]
],
"ydms.parse(2100, 0, 2147483648)": [
"returned",
[
"datetime",
"2100-01-24T20:31:23.648000",
"None",
0
]
],
"ydms.parse(2100, 0, 4294967295)": [
"returned",
[
"datetime",
"2100-02-18T17:02:47.295000",
"None",
0
]
],
"ydms.parse(2100, 0, 86399999)": [
"returned",
[
"datetime",
"2099-12-31T23:59:59.999000",
"None",
0
]
],
"ydms.parse(2100, 0, 86400000)": [
"returned",
[
"datetime",
"2100-01-01T00:00:00",
"None",
0
]
],
"ydms.parse(2100, 0, 86400001)": [
"returned",
[
"datetime",
"2100-01-01T00:00:00.001000",
"None",
0
]
],
"ydms.parse(2100, 0, 999)": [
"returned",
[
"datetime",
"2099-12-31T00:00:00.999000",
"None",
0
]
],
"ydms.parse(2100, 1, 0)": [
"returned",
[
"datetime",
"2100-01-01T00:00:00",
"None",
0
]
],
"ydms.parse(2100, 1, 1)": [
"returned",
[
"datetime",
"2100-01-01T00:00:00.001000",
"None",
0
]
],
"ydms.parse(2100, 1, 1000)": [
"returned",
[
"datetime",
"2100-01-01T00:00:01",
"None",
0
]
],
"ydms.parse(2100, 1, 2147483648)": [
"returned",
[
"datetime",
"2100-01-25T20:31:23.648000",
"None",
0
]
],
"ydms.parse(2100, 1, 4294967295)": [
"returned",
[
"datetime",
"2100-02-19T17:02:47.295000",
"None",
0
]
],
"ydms.parse(2100, 1, 86399999)": [
"returned",
[
"datetime",
"2100-01-01T23:59:59.999000",
"None",
0
]
],
"ydms.parse(2100, 1, 86400000)": [
"returned",
[
"datetime",
"2100-01-02T00:00:00",
"None",
0
]
],
"ydms.parse(2100, 1, 86400001)": [
"returned",
[
"datetime",
"2100-01-02T00:00:00.001000",
"None",
0
]
],
"ydms.parse(2100, 1, 999)": [
"returned",
[
"datetime",
"2100-01-01T00:00:00.999000",
"None",
0
]
],
"ydms.parse(2100, 1000, 0)": [
"returned",
[
"datetime",
"2102-09-27T00:00:00",
"None",
0
]
],
"ydms.parse(2100, 1000, 1)": [
"returned",
[
"datetime",
"2102-09-27T00:00:00.001000",
"None",
0
]
],
"ydms.parse(2100, 1000, 1000)": [
"returned",
[
"datetime",
"2102-09-27T00:00:01",
"None",
0
]
],
"ydms.parse(2100, 1000, 2147483648)": [
"returned",
[
"datetime",
"2102-10-21T20:31:23.648000",
"None",
0
]
],
"ydms.parse(2100, 1000, 4294967295)": [
"returned",
[
"datetime",
"2102-11-15T17:02:47.295000",
"None",
0
]
],
"ydms.parse(2100, 1000, 86399999)": [
"returned",
[
"datetime",
"2102-09-27T23:59:59.999000",
"None",
0
]
],
"ydms.parse(2100, 1000, 86400000)": [
"returned",
[
"datetime",
"2102-09-28T00:00:00",
"None",
0
]
],
"ydms.parse(2100, 1000, 86400001)": [
"returned",
[
"datetime",
"2102-09-28T00:00:00.001000",
"None",
0
]
],
"ydms.parse(2100, 1000, 999)": [
"returned",
[
"datetime",
"2102-09-27T00:00:00.999000",
"None",
0
]
],
"ydms.parse(2100, 1000000000, 0)": [
"raised",
"builtins.OverflowError",
"date value out of range"
],
"ydms.parse(2100, 1000000000, 1)": [
"raised",
"builtins.OverflowError",
"date value out of range"
],
"ydms.parse(2100, 1000000000, 1000)": [
"raised",
"builtins.OverflowError",
"date value out of range"
],
"ydms.parse(2100, 1000000000, 2147483648)": [
"raised",
"builtins.OverflowError",
"days=1000000023; must have magnitude <= 999999999"
],
"ydms.parse(2100, 1000000000, 4294967295)": [
"raised",
"builtins.OverflowError",
"days=1000000048; must have magnitude <= 999999999"
],
"ydms.parse(2100, 1000000000, 86399999)": [
"raised",
"builtins.OverflowError",
"date value out of range"
],
"ydms.parse(2100, 1000000000, 86400000)": [
"raised",
"builtins.OverflowError",
"days=1000000000; must have magnitude <= 999999999"
],
"ydms.parse(2100, 1000000000, 86400001)": [
"raised",
"builtins.OverflowError",
"days=1000000000; must have magnitude <= 999999999"
],
"ydms.parse(2100, 1000000000, 999)": [
"raised",
"builtins.OverflowError",
"date value out of range"
],
"ydms.parse(2100, 1000000001, 0)": [
"raised",
"builtins.OverflowError",
"days=1000000000; must have magnitude <= 999999999"
],
"ydms.parse(2100, 1000000001, 1)": [
"raised",
"builtins.OverflowError",
"days=1000000000; must have magnitude <= 999999999"
],
"ydms.parse(2100, 1000000001, 1000)": [
"raised",
"builtins.OverflowError",
"days=1000000000; must have magnitude <= 999999999"
],
"ydms.parse(2100, 1000000001, 2147483648)": [
"raised",
"builtins.OverflowError",
"days=1000000024; must have magnitude <= 999999999"
],
"ydms.parse(2100, 1000000001, 4294967295)": [
"raised",
"builtins.OverflowError",
"days=1000000049; must have magnitude <= 999999999"
],
"ydms.parse(2100, 1000000001, 86399999)": [
"raised",
"builtins.OverflowError",
"days=1000000000; must have magnitude <= 999999999"
],
"ydms.parse(2100, 1000000001, 86400000)": [
"raised",
"builtins.OverflowError",
"days=1000000001; must have magnitude <= 999999999"
],
"ydms.parse(2100, 1000000001, 86400001)": [
"raised",
"builtins.OverflowError",
"days=1000000001; must have magnitude <= 999999999"
],
"ydms.parse(2100, 1000000001, 999)": [
"raised",
"builtins.OverflowError",
"days=1000000000; must have magnitude <= 999999999"
],
"ydms.parse(2100, 2, 0)": [
"returned",
[
"datetime",
"2100-01-02T00:00:00",
"None",
0
]
],
"ydms.parse(2100, 2, 1)": [
"returned",
[
"datetime",
"2100-01-02T00:00:00.001000",
"None",
0
]
],
"ydms.parse(2100, 2, 1000)": [
"returned",
[
"datetime",
"2100-01-02T00:00:01",
"None",
0
]
],
"ydms.parse(2100, 2, 2147483648)": [
"returned",
[
"datetime",
"2100-01-26T20:31:23.648000",
"None",
0
]
],
"ydms.parse(2100, 2, 4294967295)": [
"returned",
[
"datetime",
"2100-02-20T17:02:47.295000",
"None",
0
]
],
"ydms.parse(2100, 2, 86399999)": [
"returned",
[
"datetime",
"2100-01-02T23:59:59.999000",
"None",
0
]
],
"ydms.parse(2100, 2, 86400000)": [
"returned",
[
"datetime",
"2100-01-03T00:00:00",
"None",
0
]
],
"ydms.parse(2100, 2, 86400001)": [
"returned",
[
"datetime",
"2100-01-03T00:00:00.001000",
"None",
0
]
],
"ydms.parse(2100, 2, 999)": [
"returned",
[
"datetime",
"2100-01-02T00:00:00.999000",
"None",
0
]
],
"ydms.parse(2100, 365, 0)": [
"returned",
[
"datetime",
"2100-12-31T00:00:00",
"None",
0
]
],
"ydms.parse(2100, 365, 1)": [
"returned",
[
"datetime",
"2100-12-31T00:00:00.001000",
"None",
0
]
],
"ydms.parse(2100, 365, 1000)": [
"returned",
[
"datetime",
"2100-12-31T00:00:01",
"None",
0
]
],
"ydms.parse(2100, 365, 2147483648)": [
"returned",
[
"datetime",
"2101-01-24T20:31:23.648000",
"None",
0
]
],
"ydms.parse(2100, 365, 4294967295)": [
"returned",
[
"datetime",
"2101-02-18T17:02:47.295000",
"None",
0
]
],
"ydms.parse(2100, 365, 86399999)": [
"returned",
[
"datetime",
"2100-12-31T23:59:59.999000",
"None",
0
]
],
"ydms.parse(2100, 365, 86400000)": [
"returned",
[
"datetime",
"2101-01-01T00:00:00",
"None",
0
]
],
"ydms.parse(2100, 365, 86400001)": [
"returned",
[
"datetime",
"2101-01-01T00:00:00.001000",
"None",
0
]
],
"ydms.parse(2100, 365, 999)": [
"returned",
[
"datetime",
"2100-12-31T00:00:00.999000",
"None",
0
]
],
"ydms.parse(2100, 366, 0)": [
"returned",
[
"datetime",
"2101-01-01T00:00:00",
"None",
0
]
],
"ydms.parse(2100, 366, 1)": [
"returned",
[
"datetime",
"2101-01-01T00:00:00.001000",
"None",
0
]
],
"ydms.parse(2100, 366, 1000)": [
"returned",
[
"datetime",
"2101-01-01T00:00:01",
"None",
0
]
],
"ydms.parse(2100, 366, 2147483648)": [
"returned",
[
"datetime",
"2101-01-25T20:31:23.648000",
"None",
0
]
],
"ydms.parse(2100, 366, 4294967295)": [
"returned",
[
"datetime",
"2101-02-19T17:02:47.295000",
"None",
0
]
],
"ydms.parse(2100, 366, 86399999)": [
"returned",
[
"datetime",
"2101-01-01T23:59:59.999000",
"None",
0
]
],
"ydms.parse(2100, 366, 86400000)": [
"returned",
[
"datetime",
"2101-01-02T00:00:00",
"None",
0
]
],
"ydms.parse(2100, 366, 86400001)": [
"returned",
[
"datetime",
"2101-01-02T00:00:00.001000",
"None",
0
]
],
"ydms.parse(2100, 366, 999)": [
"returned",
[
"datetime",
"2101-01-01T00:00:00.999000",
"None",
0
]
],
"ydms.parse(2100, 367, 0)": [
"returned",
[
"datetime",
"2101-01-02T00:00:00",
"None",
0
]
],
"ydms.parse(2100, 367, 1)": [
"returned",
[
"datetime",
"2101-01-02T00:00:00.001000",
"None",
0
]
],
"ydms.parse(2100, 367, 1000)": [
"returned",
[
"datetime",
"2101-01-02T00:00:01",
"None",
0
]
],
"ydms.parse(2100, 367, 2147483648)": [
"returned",
[
"datetime",
"2101-01-26T20:31:23.648000",
"None",
0
]
],
"ydms.parse(2100, 367, 4294967295)": [
"returned",
[
"datetime",
"2101-02-20T17:02:47.295000",
"None",
0
]
],
"ydms.parse(2100, 367, 86399999)": [
"returned",
[
"datetime",
"2101-01-02T23:59:59.999000",
"None",
0
]
],
"ydms.parse(2100, 367, 86400000)": [
"returned",
[
"datetime",
"2101-01-03T00:00:00",
"None",
0
]
],
"ydms.parse(2100, 367, 86400001)": [
"returned",
[
"datetime",
"2101-01-03T00:00:00.001000",
"None",
0
]
],
"ydms.parse(2100, 367, 999)": [
"returned",
[
"datetime",
"2101-01-02T00:00:00.999000",
"None",
0
]
],
"ydms.parse(2100, 4294967295, 0)": [
"raised",
"builtins.OverflowError",
"Python int too large to convert to C int"
],
"ydms.parse(2100, 4294967295, 1)": [
"raised",
"builtins.OverflowError",
"Python int too large to convert to C int"
],
"ydms.parse(2100, 4294967295, 1000)": [
"raised",
"builtins.OverflowError",
"Python int too large to convert to C int"
],
"ydms.parse(2100, 4294967295, 2147483648)": [
"raised",
"builtins.OverflowError",
"Python int too large to convert to C int"
],
"ydms.parse(2100, 4294967295, 4294967295)": [
"raised",
"builtins.OverflowError",
"Python int too large to convert to C int"
],
"ydms.parse(2100, 4294967295, 86399999)": [
"raised",
"builtins.OverflowError",
"Python int too large to convert to C int"
],
"ydms.parse(2100, 4294967295, 86400000)": [
"raised",
"builtins.OverflowError",
"Python int too large to convert to C int"
],
"ydms.parse(2100, 4294967295, 86400001)": [
"raised",
"builtins.OverflowError",
"Python int too large to convert to C int"
],
"ydms.parse(2100, 4294967295, 999)": [
"raised",
"builtins.OverflowError",
"Python int too large to convert to C int"
],
"ydms.parse(2100, 59, 0)": [
"returned",
[
"datetime",
"2100-02-28T00:00:00",
"None",
0
]
],
"ydms.parse(2100, 59, 1)": [
"returned",
[
"datetime",
"2100-02-28T00:00:00.001000",
"None",
0
]
],
"ydms.parse(2100, 59, 1000)": [
"returned",
[
"datetime",
"2100-02-28T00:00:01",
"None",
0
]
],
"ydms.parse(2100, 59, 2147483648)": [
"returned",
[
"datetime",
"2100-03-24T20:31:23.648000",
"None",
0
]
],
"ydms.parse(2100, 59, 4294967295)": [
"returned",
[
"datetime",
"2100-04-18T17:02:47.295000",
"None",
0
]
],
"ydms.parse(2100, 59, 86399999)": [
"returned",
[
"datetime",
"2100-02-28T23:59:59.999000",
"None",
0
]
],
"ydms.parse(2100, 59, 86400000)": [
"returned",
[
"datetime",
"2100-03-01T00:00:00",
"None",
0
]
],
"ydms.parse(2100, 59, 86400001)": [
"returned",
[
"datetime",
"2100-03-01T00:00:00.001000",
"None",
0
]
],
"ydms.parse(2100, 59, 999)": [
"returned",
[
"datetime",
"2100-02-28T00:00:00.999000",
"None",
0
]
],
"ydms.parse(2100, 60, 0)": [
"returned",
[
"datetime",
"2100-03-01T00:00:00",
"None",
0
]
],
"ydms.parse(2100, 60, 1)": [
"returned",
[
"datetime",
"2100-03-01T00:00:00.001000",
"None",
0
]
],
"ydms.parse(2100, 60, 1000)": [
"returned",
[
"datetime",
"2100-03-01T00:00:01",
"None",
0
]
],
"ydms.parse(2100, 60, 2147483648)": [
"returned",
[
"datetime",
"2100-03-25T20:31:23.648000",
"None",
0
]
],
"ydms.parse(2100, 60, 4294967295)": [
"returned",
[
"datetime",
"2100-04-19T17:02:47.295000",
"None",
0
]
],
"ydms.parse(2100, 60, 86399999)": [
"returned",
[
"datetime",
"2100-03-01T23:59:59.999000",
"None",
0
]
],
"ydms.parse(2100, 60, 86400000)": [
"returned",
[
"datetime",
"2100-03-02T00:00:00",
"None",
0
]
],
"ydms.parse(2100, 60, 86400001)": [
"returned",
[
"datetime",
"2100-03-02T00:00:00.001000",
"None",
0
]
],
"ydms.parse(2100, 60, 999)": [
"returned",
[
"datetime",
"2100-03-01T00:00:00.999000",
"None",
0
]
],
"ydms.parse(2100, 61, 0)": [
"returned",
[
"datetime",
"2100-03-02T00:00:00",
"None",
0
]
],
"ydms.parse(2100, 61, 1)": [
"returned",
[
"datetime",
"2100-03-02T00:00:00.001000",
"None",
0
]
],
"ydms.parse(2100, 61, 1000)": [
"returned",
[
"datetime",
"2100-03-02T00:00:01",
"None",
0
]
],
"ydms.parse(2100, 61, 2147483648)": [
"returned",
[
"datetime",
"2100-03-26T20:31:23.648000",
"None",
0
]
],
"ydms.parse(2100, 61, 4294967295)": [
"returned",
[
"datetime",
"2100-04-20T17:02:47.295000",
"None",
0
]
],
"ydms.parse(2100, 61, 86399999)": [
"returned",
[
"datetime",
"2100-03-02T23:59:59.999000",
"None",
0
]
],
"ydms.parse(2100, 61, 86400000)": [
"returned",
[
"datetime",
"2100-03-03T00:00:00",
"None",
0
]
],
"ydms.parse(2100, 61, 86400001)": [
"returned",
[
"datetime",
"2100-03-03T00:00:00.001000",
"None",
0
]
],
"ydms.parse(2100, 61, 999)": [
"returned",
[
"datetime",
"2100-03-02T00:00:00.999000",
"None",
0
]
],
"ydms.parse(2100, 999999999, 0)": [
"raised",
"builtins.OverflowError",
"date value out of range"
],
"ydms.parse(2100, 999999999, 1)": [
"raised",
"builtins.OverflowError",
"date value out of range"
],
"ydms.parse(2100, 999999999, 1000)": [
"raised",
"builtins.OverflowError",
"date value out of range"
],
"ydms.parse(2100, 999999999, 2147483648)": [
"raised",
"builtins.OverflowError",
"days=1000000022; must have magnitude <= 999999999"
],
"ydms.parse(2100, 999999999, 4294967295)": [
"raised",
"builtins.OverflowError",
"days=1000000047; must have magnitude <= 999999999"
],
"ydms.parse(2100, 999999999, 86399999)": [
"raised",
"builtins.OverflowError",
"date value out of range"
],
"ydms.parse(2100, 999999999, 86400000)": [
"raised",
"builtins.OverflowError",
"date value out of range"
],
"ydms.parse(2100, 999999999, 86400001)": [
"raised",
"builtins.OverflowError",
"date value out of range"
],
"ydms.parse(2100, 999999999, 999)": [
"raised",
"builtins.OverflowError",
"date value out of range"
],
"ydms.parse(2147483648, 0, 0)": [
"raised",
"builtins.OverflowError",
"signed integer is greater than maximum"
],
"ydms.parse(2147483648, 0, 1)": [
"raised",
"builtins.OverflowError",
"signed integer is greater than maximum"
],
"ydms.parse(2147483648, 0, 1000)": [
"raised",
"builtins.OverflowError",
"signed integer is greater than maximum"
],
"ydms.parse(2147483648, 0, 2147483648)": [
"raised",
"builtins.OverflowError",
"signed integer is greater than maximum"
],
"ydms.parse(2147483648, 0, 4294967295)": [
"raised",
"builtins.OverflowError",
"signed integer is greater than maximum"
],
"ydms.parse(2147483648, 0, 86399999)": [
"raised",
"builtins.OverflowError",
"signed integer is greater than maximum"
],
"ydms.parse(2147483648, 0, 86400000)": [
"raised",
"builtins.OverflowError",
"signed integer is greater than maximum"
],
"ydms.parse(2147483648, 0, 86400001)": [
"raised",
"builtins.OverflowError",
"signed integer is greater than maximum"
],
"ydms.parse(2147483648, 0, 999)": [
"raised",
"builtins.OverflowError",
"signed integer is greater than maximum"
],
"ydms.parse(2147483648, 1, 0)": [
"raised",
"builtins.OverflowError",
"signed integer is greater than maximum"
],
"ydms.parse(2147483648, 1, 1)": [
"raised",
"builtins.OverflowError",
"signed integer is greater than maximum"
],
"ydms.parse(2147483648, 1, 1000)": [
"raised",
"builtins.OverflowError",
"signed integer is greater than maximum"
],
"ydms.parse(2147483648, 1, 2147483648)": [
"raised",
"builtins.OverflowError",
"signed integer is greater than maximum"
],
"ydms.parse(2147483648, 1, 4294967295)": [
"raised",
"builtins.OverflowError",
"signed integer is greater than maximum"
],
"ydms.parse(2147483648, 1, 86399999)": [
"raised",
"builtins.OverflowError",
"signed integer is greater than maximum"
],
"ydms.parse(2147483648, 1, 86400000)": [
"raised",
"builtins.OverflowError",
"signed integer is greater than maximum"
],
"ydms.parse(2147483648, 1, 86400001)": [
"raised",
"builtins.OverflowError",
"signed integer is greater than maximum"
],
"ydms.parse(2147483648, 1, 999)": [
"raised",
"builtins.OverflowError",
"signed integer is greater than maximum"
],
"ydms.parse(2147483648, 1000, 0)": [
"raised",
"builtins.OverflowError",
"signed integer is greater than maximum"
],
"ydms.parse(2147483648, 1000, 1)": [
"raised",
"builtins.OverflowError",
"signed integer is greater than maximum"
],
"ydms.parse(2147483648, 1000, 1000)": [
"raised",
"builtins.OverflowError",
"signed integer is greater than maximum"
],
"ydms.parse(2147483648, 1000, 2147483648)": [
"raised",
"builtins.OverflowError",
"signed integer is greater than maximum"
],
"ydms.parse(2147483648, 1000, 4294967295)": [
"raised",
"builtins.OverflowError",
"signed integer is greater than maximum"
],
"ydms.parse(2147483648, 1000, 86399999)": [
"raised",
"builtins.OverflowError",
"signed integer is greater than maximum"
],
"ydms.parse(2147483648, 1000, 86400000)": [
"raised",
"builtins.OverflowError",
"signed integer is greater than maximum"
],
"ydms.parse(2147483648, 1000, 86400001)": [
"raised",
"builtins.OverflowError",
"signed integer is greater than maximum"
],
"ydms.parse(2147483648, 1000, 999)": [
"raised",
"builtins.OverflowError",
"signed integer is greater than maximum"
],
"ydms.parse(2147483648, 1000000000, 0)": [
"raised",
"builtins.OverflowError",
"signed integer is greater than maximum"
],
"ydms.parse(2147483648, 1000000000, 1)": [
"raised",
"builtins.OverflowError",
"signed integer is greater than maximum"
],
"ydms.parse(2147483648, 1000000000, 1000)": [
"raised",
"builtins.OverflowError",
"signed integer is greater than maximum"
],
"ydms.parse(2147483648, 1000000000, 2147483648)": [
"raised",
"builtins.OverflowError",
"signed integer is greater than maximum"
],
"ydms.parse(2147483648, 1000000000, 4294967295)": [
"raised",
"builtins.OverflowError",
"signed integer is greater than maximum"
],
"ydms.parse(2147483648, 1000000000, 86399999)": [
"raised",
"builtins.OverflowError",
"signed integer is greater than maximum"
],
"ydms.parse(2147483648, 1000000000, 86400000)": [
"raised",
"builtins.OverflowError",
"signed integer is greater than maximum"
],
"ydms.parse(2147483648, 1000000000, 86400001)": [
"raised",
"builtins.OverflowError",
"signed integer is greater than maximum"
],
"ydms.parse(2147483648, 1000000000, 999)": [
"raised",
"builtins.OverflowError",
"signed integer is greater than maximum"
],
"ydms.parse(2147483648, 1000000001, 0)": [
"raised",
"builtins.OverflowError",
"signed integer is greater than maximum"
],
"ydms.parse(2147483648, 1000000001, 1)": [
"raised",
"builtins.OverflowError",
"signed integer is greater than maximum"
],
"ydms.parse(2147483648, 1000000001, 1000)": [
"raised",
"builtins.OverflowError",
"signed integer is greater than maximum"
],
"ydms.parse(2147483648, 1000000001, 2147483648)": [
"raised",
"builtins.OverflowError",
"signed integer is greater than maximum"
],
"ydms.parse(2147483648, 1000000001, 4294967295)": [
"raised",
"builtins.OverflowError",
"signed integer is greater than maximum"
],
"ydms.parse(2147483648, 1000000001, 86399999)": [
"raised",
"builtins.OverflowError",
"signed integer is greater than maximum"
],
"ydms.parse(2147483648, 1000000001, 86400000)": [
"raised",
"builtins.OverflowError",
"signed integer is greater than maximum"
],
"ydms.parse(2147483648, 1000000001, 86400001)": [
"raised",
"builtins.OverflowError",
"signed integer is greater than maximum"
],
"ydms.parse(2147483648, 1000000001, 999)": [
"raised",
"builtins.OverflowError",
"signed integer is greater than maximum"
],
"ydms.parse(2147483648, 2, 0)": [
"raised",
"builtins.OverflowError",
"signed integer is greater than maximum"
],
"ydms.parse(2147483648, 2, 1)": [
"raised",
"builtins.OverflowError",
"signed integer is greater than maximum"
],
"ydms.parse(2147483648, 2, 1000)": [
"raised",
"builtins.OverflowError",
"signed integer is greater than maximum"
],
"ydms.parse(2147483648, 2, 2147483648)": [
"raised",
"builtins.OverflowError",
"signed integer is greater than maximum"
],
"ydms.parse(2147483648, 2, 4294967295)": [
"raised",
"builtins.OverflowError",
"signed integer is greater than maximum"
],
"ydms.parse(2147483648, 2, 86399999)": [
"raised",
"builtins.OverflowError",
"signed integer is greater than maximum"
],
"ydms.parse(2147483648, 2, 86400000)": [
"raised",
"builtins.OverflowError",
"signed integer is greater than maximum"
],
"ydms.parse(2147483648, 2, 86400001)": [
"raised",
"builtins.OverflowError",
"signed integer is greater than maximum"
],
"ydms.parse(2147483648, 2, 999)": [
"raised",
"builtins.OverflowError",
"signed integer is greater than maximum"
],
"ydms.parse(2147483648, 365, 0)": [
"raised",
"builtins.OverflowError",
"signed integer is greater than maximum"
],
"ydms.parse(2147483648, 365, 1)": [
"raised",
"builtins.OverflowError",
"signed integer is greater than maximum"
],
"ydms.parse(2147483648, 365, 1000)": [
"raised",
"builtins.OverflowError",
"signed integer is greater than maximum"
],
"ydms.parse(2147483648, 365, 2147483648)": [
"raised",
"builtins.OverflowError",
"signed integer is greater than maximum"
],
"ydms.parse(2147483648, 365, 4294967295)": [
"raised",
"builtins.OverflowError",
"signed integer is greater than maximum"
],
"ydms.parse(2147483648, 365, 86399999)": [
"raised",
"builtins.OverflowError",
"signed integer is greater than maximum"
],
"ydms.parse(2147483648, 365, 86400000)": [
"raised",
"builtins.OverflowError",
"signed integer is greater than maximum"
],
"ydms.parse(2147483648, 365, 86400001)": [
"raised",
"builtins.OverflowError",
"signed integer is greater than maximum"
],
"ydms.parse(2147483648, 365, 999)": [
"raised",
"builtins.OverflowError",
"signed integer is greater than maximum"
],
"ydms.parse(2147483648, 366, 0)": [
"raised",
"builtins.OverflowError",
"signed integer is greater than maximum"
],
"ydms.parse(2147483648, 366, 1)": [
"raised",
"builtins.OverflowError",
"signed integer is greater than maximum"
],
"ydms.parse(2147483648, 366, 1000)": [
"raised",
"builtins.OverflowError",
"signed integer is greater than maximum"
],
"ydms.parse(2147483648, 366, 2147483648)": [
"raised",
"builtins.OverflowError",
"signed integer is greater than maximum"
],
"ydms.parse(2147483648, 366, 4294967295)": [
"raised",
"builtins.OverflowError",
"signed integer is greater than maximum"
],
"ydms.parse(2147483648, 366, 86399999)": [
"raised",
"builtins.OverflowError",
"signed integer is greater than maximum"
],
"ydms.parse(2147483648, 366, 86400000)": [
"raised",
"builtins.OverflowError",
"signed integer is greater than maximum"
],
"ydms.parse(2147483648, 366, 86400001)": [
"raised",
"builtins.OverflowError",
"signed integer is greater than maximum"
],
"ydms.parse(2147483648, 366, 999)": [
"raised",
"builtins.OverflowError",
"signed integer is greater than maximum"
],
"ydms.parse(2147483648, 367, 0)": [
"raised",
"builtins.OverflowError",
"signed integer is greater than maximum"
],
"ydms.parse(2147483648, 367, 1)": [
"raised",
"builtins.OverflowError",
"signed integer is greater than maximum"
],
"ydms.parse(2147483648, 367, 1000)": [
"raised",
"builtins.OverflowError",
"signed integer is greater than maximum"
],
"ydms.parse(2147483648, 367, 2147483648)": [
"raised",
"builtins.OverflowError",
"signed integer is greater than maximum"
],
"ydms.parse(2147483648, 367, 4294967295)": [
"raised",
"builtins.OverflowError",
"signed integer is greater than maximum"
],
"ydms.parse(2147483648, 367, 86399999)": [
"raised",
"builtins.OverflowError",
"signed integer is greater than maximum"
],
"ydms.parse(2147483648, 367, 86400000)": [
"raised",
"builtins.OverflowError",
"signed integer is greater than maximum"
],
"ydms.parse(2147483648, 367, 86400001)": [
"raised",
"builtins.OverflowError",
"signed integer is greater than maximum"
],
"ydms.parse(2147483648, 367, 999)": [
"raised",
"builtins.OverflowError",
"signed integer is greater than maximum"
],
"ydms.parse(2147483648, 4294967295, 0)": [
"raised",
"builtins.OverflowError",
"signed integer is greater than maximum"
],
"ydms.parse(2147483648, 4294967295, 1)": [
"raised",
"builtins.OverflowError",
"signed integer is greater than maximum"
],
"ydms.parse(2147483648, 4294967295, 1000)": [
"raised",
"builtins.OverflowError",
"signed integer is greater than maximum"
],
"ydms.parse(2147483648, 4294967295, 2147483648)": [
"raised",
"builtins.OverflowError",
"signed integer is greater than maximum"
],
"ydms.parse(2147483648, 4294967295, 4294967295)": [
"raised",
"builtins.OverflowError",
"signed integer is greater than maximum"
],
"ydms.parse(2147483648, 4294967295, 86399999)": [
"raised",
"builtins.OverflowError",
"signed integer is greater than maximum"
],
"ydms.parse(2147483648, 4294967295, 86400000)": [
"raised",
"builtins.OverflowError",
"signed integer is greater than maximum"
],
"ydms.parse(2147483648, 4294967295, 86400001)": [
"raised",
"builtins.OverflowError",
"signed integer is greater than maximum"
],
"ydms.parse(2147483648, 4294967295, 999)": [
"raised",
"builtins.OverflowError",
"signed integer is greater than maximum"
],
"ydms.parse(2147483648, 59, 0)": [
"raised",
"builtins.OverflowError",
"signed integer is greater than maximum"
],
"ydms.parse(2147483648, 59, 1)": [
"raised",
"builtins.OverflowError",
"signed integer is greater than maximum"
],
"ydms.parse(2147483648, 59, 1000)": [
"raised",
"builtins.OverflowError",
"signed integer is greater than maximum"
],
"ydms.parse(2147483648, 59, 2147483648)": [
"raised",
"builtins.OverflowError",
"signed integer is greater than maximum"
],
"ydms.parse(2147483648, 59, 4294967295)": [
"raised",
"builtins.OverflowError",
"signed integer is greater than maximum"
],
"ydms.parse(2147483648, 59, 86399999)": [
"raised",
"builtins.OverflowError",
"signed integer is greater than maximum"
],
"ydms.parse(2147483648, 59, 86400000)": [
"raised",
"builtins.OverflowError",
"signed integer is greater than maximum"
],
"ydms.parse(2147483648, 59, 86400001)": [
"raised",
"builtins.OverflowError",
"signed integer is greater than maximum"
],
"ydms.parse(2147483648, 59, 999)": [
"raised",
"builtins.OverflowError",
"signed integer is greater than maximum"
],
"ydms.parse(2147483648, 60, 0)": [
"raised",
"builtins.OverflowError",
"signed integer is greater than maximum"
],
"ydms.parse(2147483648, 60, 1)": [
"raised",
"builtins.OverflowError",
"signed integer is greater than maximum"
],
"ydms.parse(2147483648, 60, 1000)": [
"raised",
"builtins.OverflowError",
"signed integer is greater than maximum"
],
"ydms.parse(2147483648, 60, 2147483648)": [
"raised",
"builtins.OverflowError",
"signed integer is greater than maximum"
],
"ydms.parse(2147483648, 60, 4294967295)": [
"raised",
"builtins.OverflowError",
"signed integer is greater than maximum"
],
"ydms.parse(2147483648, 60, 86399999)": [
"raised",
"builtins.OverflowError",
"signed integer is greater than maximum"
],
"ydms.parse(2147483648, 60, 86400000)": [
"raised",
"builtins.OverflowError",
"signed integer is greater than maximum"
],
"ydms.parse(2147483648, 60, 86400001)": [
"raised",
"builtins.OverflowError",
"signed integer is greater than maximum"
],
"ydms.parse(2147483648, 60, 999)": [
"raised",
"builtins.OverflowError",
"signed integer is greater than maximum"
],
"ydms.parse(2147483648, 61, 0)": [
"raised",
"builtins.OverflowError",
"signed integer is greater than maximum"
],
"ydms.parse(2147483648, 61, 1)": [
"raised",
"builtins.OverflowError",
"signed integer is greater than maximum"
],
"ydms.parse(2147483648, 61, 1000)": [
"raised",
"builtins.OverflowError",
"signed integer is greater than maximum"
],
"ydms.parse(2147483648, 61, 2147483648)": [
"raised",
"builtins.OverflowError",
"signed integer is greater than maximum"
],
"ydms.parse(2147483648, 61, 4294967295)": [
"raised",
"builtins.OverflowError",
"signed integer is greater than maximum"
],
"ydms.parse(2147483648, 61, 86399999)": [
"raised",
"builtins.OverflowError",
"signed integer is greater than maximum"
],
"ydms.parse(2147483648, 61, 86400000)": [
"raised",
"builtins.OverflowError",
"signed integer is greater than maximum"
],
"ydms.parse(2147483648, 61, 86400001)": [
"raised",
"builtins.OverflowError",
"signed integer is greater than maximum"
],
"ydms.parse(2147483648, 61, 999)": [
"raised",
"builtins.OverflowError",
"signed integer is greater than maximum"
],
"ydms.parse(2147483648, 999999999, 0)": [
"raised",
"builtins.OverflowError",
"signed integer is greater than maximum"
],
"ydms.parse(2147483648, 999999999, 1)": [
"raised",
"builtins.OverflowError",
"signed integer is greater than maximum"
],
"ydms.parse(2147483648, 999999999, 1000)": [
"raised",
"builtins.OverflowError",
"signed integer is greater than maximum"
],
"ydms.parse(2147483648, 999999999, 2147483648)": [
"raised",
"builtins.OverflowError",
"signed integer is greater than maximum"
],
"ydms.parse(2147483648, 999999999, 4294967295)": [
"raised",
"builtins.OverflowError",
"signed integer is greater than maximum"
],
"ydms.parse(2147483648, 999999999, 86399999)": [
"raised",
"builtins.OverflowError",
"signed integer is greater than maximum"
],
"ydms.parse(2147483648, 999999999, 86400000)": [
"raised",
"builtins.OverflowError",
"signed integer is greater than maximum"
],
"ydms.parse(2147483648, 999999999, 86400001)": [
"raised",
"builtins.OverflowError",
"signed integer is greater than maximum"
],
"ydms.parse(2147483648, 999999999, 999)": [
"raised",
"builtins.OverflowError",
"signed integer is greater than maximum"
],
"ydms.parse(4, 0, 0)": [
"returned",
[
"datetime",
"0003-12-31T00:00:00",
"None",
0
]
],
"ydms.parse(4, 0, 1)": [
"returned",
[
"datetime",
"0003-12-31T00:00:00.001000",
"None",
0
]
],
"ydms.parse(4, 0, 1000)": [
"returned",
[
"datetime",
"0003-12-31T00:00:01",
"None",
0
]
],
"ydms.parse(4, 0, 2147483648)": [
"returned",
[
"datetime",
"0004-01-24T20:31:23.648000",
"None",
0
]
],
"ydms.parse(4, 0, 4294967295)": [
"returned",
[
"datetime",
"0004-02-18T17:02:47.295000",
"None",
0
]
],
"ydms.parse(4, 0, 86399999)": [
"returned",
[
"datetime",
"0003-12-31T23:59:59.999000",
"None",
0
]
],
"ydms.parse(4, 0, 86400000)": [
"returned",
[
"datetime",
"0004-01-01T00:00:00",
"None",
0
]
],
"ydms.parse(4, 0, 86400001)": [
"returned",
[
"datetime",
"0004-01-01T00:00:00.001000",
"None",
0
]
],
"ydms.parse(4, 0, 999)": [
"returned",
[
"datetime",
"0003-12-31T00:00:00.999000",
"None",
0
]
],
"ydms.parse(4, 1, 0)": [
"returned",
[
"datetime",
"0004-01-01T00:00:00",
"None",
0
]
],
"ydms.parse(4, 1, 1)": [
"returned",
[
"datetime",
"0004-01-01T00:00:00.001000",
"None",
0
]
],
"ydms.parse(4, 1, 1000)": [
"returned",
[
"datetime",
"0004-01-01T00:00:01",
"None",
0
]
],
"ydms.parse(4, 1, 2147483648)": [
"returned",
[
"datetime",
"0004-01-25T20:31:23.648000",
"None",
0
]
],
"ydms.parse(4, 1, 4294967295)": [
"returned",
[
"datetime",
"0004-02-19T17:02:47.295000",
"None",
0
]
],
"ydms.parse(4, 1, 86399999)": [
"returned",
[
"datetime",
"0004-01-01T23:59:59.999000",
"None",
0
]
],
"ydms.parse(4, 1, 86400000)": [
"returned",
[
"datetime",
"0004-01-02T00:00:00",
"None",
0
]
],
"ydms.parse(4, 1, 86400001)": [
"returned",
[
"datetime",
"0004-01-02T00:00:00.001000",
"None",
0
]
],
"ydms.parse(4, 1, 999)": [
"returned",
[
"datetime",
"0004-01-01T00:00:00.999000",
"None",
0
]
],
"ydms.parse(4, 1000, 0)": [
"returned",
[
"datetime",
"0006-09-26T00:00:00",
"None",
0
]
],
"ydms.parse(4, 1000, 1)": [
"returned",
[
"datetime",
"0006-09-26T00:00:00.001000",
"None",
0
]
],
"ydms.parse(4, 1000, 1000)": [
"returned",
[
"datetime",
"0006-09-26T00:00:01",
"None",
0
]
],
"ydms.parse(4, 1000, 2147483648)": [
"returned",
[
"datetime",
"0006-10-20T20:31:23.648000",
"None",
0
]
],
"ydms.parse(4, 1000, 4294967295)": [
"returned",
[
"datetime",
"0006-11-14T17:02:47.295000",
"None",
0
]
],
"ydms.parse(4, 1000, 86399999)": [
"returned",
[
"datetime",
"0006-09-26T23:59:59.999000",
"None",
0
]
],
"ydms.parse(4, 1000, 86400000)": [
"returned",
[
"datetime",
"0006-09-27T00:00:00",
"None",
0
]
],
"ydms.parse(4, 1000, 86400001)": [
"returned",
[
"datetime",
"0006-09-27T00:00:00.001000",
"None",
0
]
],
"ydms.parse(4, 1000, 999)": [
"returned",
[
"datetime",
"0006-09-26T00:00:00.999000",
"None",
0
]
],
"ydms.parse(4, 1000000000, 0)": [
"raised",
"builtins.OverflowError",
"date value out of range"
],
"ydms.parse(4, 1000000000, 1)": [
"raised",
"builtins.OverflowError",
"date value out of range"
],
"ydms.parse(4, 1000000000, 1000)": [
"raised",
"builtins.OverflowError",
"date value out of range"
],
"ydms.parse(4, 1000000000, 2147483648)": [
"raised",
"builtins.OverflowError",
"days=1000000023; must have magnitude <= 999999999"
],
"ydms.parse(4, 1000000000, 4294967295)": [
"raised",
"builtins.OverflowError",
"days=1000000048; must have magnitude <= 999999999"
],
"ydms.parse(4, 1000000000, 86399999)": [
"raised",
"builtins.OverflowError",
"date value out of range"
],
"ydms.parse(4, 1000000000, 86400000)": [
"raised",
"builtins.OverflowError",
"days=1000000000; must have magnitude <= 999999999"
],
"ydms.parse(4, 1000000000, 86400001)": [
"raised",
"builtins.OverflowError",
"days=1000000000; must have magnitude <= 999999999"
],
"ydms.parse(4, 1000000000, 999)": [
"raised",
"builtins.OverflowError",
"date value out of range"
],
"ydms.parse(4, 1000000001, 0)": [
"raised",
"builtins.OverflowError",
"days=1000000000; must have magnitude <= 999999999"
],
"ydms.parse(4, 1000000001, 1)": [
"raised",
"builtins.OverflowError",
"days=1000000000; must have magnitude <= 999999999"
],
"ydms.parse(4, 1000000001, 1000)": [
"raised",
"builtins.OverflowError",
"days=1000000000; must have magnitude <= 999999999"
],
"ydms.parse(4, 1000000001, 2147483648)": [
"raised",
"builtins.OverflowError",
"days=1000000024; must have magnitude <= 999999999"
],
"ydms.parse(4, 1000000001, 4294967295)": [
"raised",
"builtins.OverflowError",
"days=1000000049; must have magnitude <= 999999999"
],
"ydms.parse(4, 1000000001, 86399999)": [
"raised",
"builtins.OverflowError",
"days=1000000000; must have magnitude <= 999999999"
],
"ydms.parse(4, 1000000001, 86400000)": [
"raised",
"builtins.OverflowError",
"days=1000000001; must have magnitude <= 999999999"
],
"ydms.parse(4, 1000000001, 86400001)": [
"raised",
"builtins.OverflowError",
"days=1000000001; must have magnitude <= 999999999"
],
"ydms.parse(4, 1000000001, 999)": [
"raised",
"builtins.OverflowError",
"days=1000000000; must have magnitude <= 999999999"
],
"ydms.parse(4, 2, 0)": [
"returned",
[
"datetime",
"0004-01-02T00:00:00",
"None",
0
]
],
"ydms.parse(4, 2, 1)": [
"returned",
[
"datetime",
"0004-01-02T00:00:00.001000",
"None",
0
]
],
"ydms.parse(4, 2, 1000)": [
"returned",
[
"datetime",
"0004-01-02T00:00:01",
"None",
0
]
],
"ydms.parse(4, 2, 2147483648)": [
"returned",
[
"datetime",
"0004-01-26T20:31:23.648000",
"None",
0
]
],
"ydms.parse(4, 2, 4294967295)": [
"returned",
[
"datetime",
"0004-02-20T17:02:47.295000",
"None",
0
]
],
"ydms.parse(4, 2, 86399999)": [
"returned",
[
"datetime",
"0004-01-02T23:59:59.999000",
"None",
0
]
],
"ydms.parse(4, 2, 86400000)": [
"returned",
[
"datetime",
"0004-01-03T00:00:00",
"None",
0
]
],
"ydms.parse(4, 2, 86400001)": [
"returned",
[
"datetime",
"0004-01-03T00:00:00.001000",
"None",
0
]
],
"ydms.parse(4, 2, 999)": [
"returned",
[
"datetime",
"0004-01-02T00:00:00.999000",
"None",
0
]
],
"ydms.parse(4, 365, 0)": [
"returned",
[
"datetime",
"0004-12-30T00:00:00",
"None",
0
]
],
"ydms.parse(4, 365, 1)": [
"returned",
[
"datetime",
"0004-12-30T00:00:00.001000",
"None",
0
]
],
"ydms.parse(4, 365, 1000)": [
"returned",
[
"datetime",
"0004-12-30T00:00:01",
"None",
0
]
],
"ydms.parse(4, 365, 2147483648)": [
"returned",
[
"datetime",
"0005-01-23T20:31:23.648000",
"None",
0
]
],
"ydms.parse(4, 365, 4294967295)": [
"returned",
[
"datetime",
"0005-02-17T17:02:47.295000",
"None",
0
]
],
"ydms.parse(4, 365, 86399999)": [
"returned",
[
"datetime",
"0004-12-30T23:59:59.999000",
"None",
0
]
],
"ydms.parse(4, 365, 86400000)": [
"returned",
[
"datetime",
"0004-12-31T00:00:00",
"None",
0
]
],
"ydms.parse(4, 365, 86400001)": [
"returned",
[
"datetime",
"0004-12-31T00:00:00.001000",
"None",
0
]
],
"ydms.parse(4, 365, 999)": [
"returned",
[
"datetime",
"0004-12-30T00:00:00.999000",
"None",
0
]
],
"ydms.parse(4, 366, 0)": [
"returned",
[
"datetime",
"0004-12-31T00:00:00",
"None",
0
]
],
"ydms.parse(4, 366, 1)": [
"returned",
[
"datetime",
"0004-12-31T00:00:00.001000",
"None",
0
]
],
"ydms.parse(4, 366, 1000)": [
"returned",
[
"datetime",
"0004-12-31T00:00:01",
"None",
0
]
],
"ydms.parse(4, 366, 2147483648)": [
"returned",
[
"datetime",
"0005-01-24T20:31:23.648000",
"None",
0
]
],
"ydms.parse(4, 366, 4294967295)": [
"returned",
[
"datetime",
"0005-02-18T17:02:47.295000",
"None",
0
]
],
"ydms.parse(4, 366, 86399999)": [
"returned",
[
"datetime",
"0004-12-31T23:59:59.999000",
"None",
0
]
],
"ydms.parse(4, 366, 86400000)": [
"returned",
[
"datetime",
"0005-01-01T00:00:00",
"None",
0
]
],
"ydms.parse(4, 366, 86400001)": [
"returned",
[
"datetime",
"0005-01-01T00:00:00.001000",
"None",
0
]
],
"ydms.parse(4, 366, 999)": [
"returned",
[
"datetime",
"0004-12-31T00:00:00.999000",
"None",
0
]
],
"ydms.parse(4, 367, 0)": [
"returned",
[
"datetime",
"0005-01-01T00:00:00",
"None",
0
]
],
"ydms.parse(4, 367, 1)": [
"returned",
[
"datetime",
"0005-01-01T00:00:00.001000",
"None",
0
]
],
"ydms.parse(4, 367, 1000)": [
"returned",
[
"datetime",
"0005-01-01T00:00:01",
"None",
0
]
],
"ydms.parse(4, 367, 2147483648)": [
"returned",
[
"datetime",
"0005-01-25T20:31:23.648000",
"None",
0
]
],
"ydms.parse(4, 367, 4294967295)": [
"returned",
[
"datetime",
"0005-02-19T17:02:47.295000",
"None",
0
]
],
"ydms.parse(4, 367, 86399999)": [
"returned",
[
"datetime",
"0005-01-01T23:59:59.999000",
"None",
0
]
],
"ydms.parse(4, 367, 86400000)": [
"returned",
[
"datetime",
"0005-01-02T00:00:00",
"None",
0
]
],
"ydms.parse(4, 367, 86400001)": [
"returned",
[
"datetime",
"0005-01-02T00:00:00.001000",
"None",
0
]
],
"ydms.parse(4, 367, 999)": [
"returned",
[
"datetime",
"0005-01-01T00:00:00.999000",
"None",
0
]
],
"ydms.parse(4, 4294967295, 0)": [
"raised",
"builtins.OverflowError",
"Python int too large to convert to C int"
],
"ydms.parse(4, 4294967295, 1)": [
"raised",
"builtins.OverflowError",
"Python int too large to convert to C int"
],
"ydms.parse(4, 4294967295, 1000)": [
"raised",
"builtins.OverflowError",
"Python int too large to convert to C int"
],
"ydms.parse(4, 4294967295, 2147483648)": [
"raised",
"builtins.OverflowError",
"Python int too large to convert to C int"
],
"ydms.parse(4, 4294967295, 4294967295)": [
"raised",
"builtins.OverflowError",
"Python int too large to convert to C int"
],
"ydms.parse(4, 4294967295, 86399999)": [
"raised",
"builtins.OverflowError",
"Python int too large to convert to C int"
],
"ydms.parse(4, 4294967295, 86400000)": [
"raised",
"builtins.OverflowError",
"Python int too large to convert to C int"
],
"ydms.parse(4, 4294967295, 86400001)": [
"raised",
"builtins.OverflowError",
"Python int too large to convert to C int"
],
"ydms.parse(4, 4294967295, 999)": [
"raised",
"builtins.OverflowError",
"Python int too large to convert to C int"
],
"ydms.parse(4, 59, 0)": [
"returned",
[
"datetime",
"0004-02-28T00:00:00",
"None",
0
]
],
"ydms.parse(4, 59, 1)": [
"returned",
[
"datetime",
"0004-02-28T00:00:00.001000",
"None",
0
]
],
"ydms.parse(4, 59, 1000)": [
"returned",
[
"datetime",
"0004-02-28T00:00:01",
"None",
0
]
],
"ydms.parse(4, 59, 2147483648)": [
"returned",
[
"datetime",
"0004-03-23T20:31:23.648000",
"None",
0
]
],
"ydms.parse(4, 59, 4294967295)": [
"returned",
[
"datetime",
"0004-04-17T17:02:47.295000",
"None",
0
]
],
"ydms.parse(4, 59, 86399999)": [
"returned",
[
"datetime",
"0004-02-28T23:59:59.999000",
"None",
0
]
],
"ydms.parse(4, 59, 86400000)": [
"returned",
[
"datetime",
"0004-02-29T00:00:00",
"None",
0
]
],
"ydms.parse(4, 59, 86400001)": [
"returned",
[
"datetime",
"0004-02-29T00:00:00.001000",
"None",
0
]
],
"ydms.parse(4, 59, 999)": [
"returned",
[
"datetime",
"0004-02-28T00:00:00.999000",
"None",
0
]
],
"ydms.parse(4, 60, 0)": [
"returned",
[
"datetime",
"0004-02-29T00:00:00",
"None",
0
]
],
"ydms.parse(4, 60, 1)": [
"returned",
[
"datetime",
"0004-02-29T00:00:00.001000",
"None",
0
]
],
"ydms.parse(4, 60, 1000)": [
"returned",
[
"datetime",
"0004-02-29T00:00:01",
"None",
0
]
],
"ydms.parse(4, 60, 2147483648)": [
"returned",
[
"datetime",
"0004-03-24T20:31:23.648000",
"None",
0
]
],
"ydms.parse(4, 60, 4294967295)": [
"returned",
[
"datetime",
"0004-04-18T17:02:47.295000",
"None",
0
]
],
"ydms.parse(4, 60, 86399999)": [
"returned",
[
"datetime",
"0004-02-29T23:59:59.999000",
"None",
0
]
],
"ydms.parse(4, 60, 86400000)": [
"returned",
[
"datetime",
"0004-03-01T00:00:00",
"None",
0
]
],
"ydms.parse(4, 60, 86400001)": [
"returned",
[
"datetime",
"0004-03-01T00:00:00.001000",
"None",
0
]
],
"ydms.parse(4, 60, 999)": [
"returned",
[
"datetime",
"0004-02-29T00:00:00.999000",
"None",
0
]
],
"ydms.parse(4, 61, 0)": [
"returned",
[
"datetime",
"0004-03-01T00:00:00",
"None",
0
]
],
"ydms.parse(4, 61, 1)": [
"returned",
[
"datetime",
"0004-03-01T00:00:00.001000",
"None",
0
]
],
"ydms.parse(4, 61, 1000)": [
"returned",
[
"datetime",
"0004-03-01T00:00:01",
"None",
0
]
],
"ydms.parse(4, 61, 2147483648)": [
"returned",
[
"datetime",
"0004-03-25T20:31:23.648000",
"None",
0
]
],
"ydms.parse(4, 61, 4294967295)": [
"returned",
[
"datetime",
"0004-04-19T17:02:47.295000",
"None",
0
]
],
"ydms.parse(4, 61, 86399999)": [
"returned",
[
"datetime",
"0004-03-01T23:59:59.999000",
"None",
0
]
],
"ydms.parse(4, 61, 86400000)": [
"returned",
[
"datetime",
"0004-03-02T00:00:00",
"None",
0
]
],
"ydms.parse(4, 61, 86400001)": [
"returned",
[
"datetime",
"0004-03-02T00:00:00.001000",
"None",
0
]
],
"ydms.parse(4, 61, 999)": [
"returned",
[
"datetime",
"0004-03-01T00:00:00.999000",
"None",
0
]
],
"ydms.parse(4, 999999999, 0)": [
"raised",
"builtins.OverflowError",
"date value out of range"
],
"ydms.parse(4, 999999999, 1)": [
"raised",
"builtins.OverflowError",
"date value out of range"
],
"ydms.parse(4, 999999999, 1000)": [
"raised",
"builtins.OverflowError",
"date value out of range"
],
"ydms.parse(4, 999999999, 2147483648)": [
"raised",
"builtins.OverflowError",
"days=1000000022; must have magnitude <= 999999999"
],
"ydms.parse(4, 999999999, 4294967295)": [
"raised",
"builtins.OverflowError",
"days=1000000047; must have magnitude <= 999999999"
],
"ydms.parse(4, 999999999, 86399999)": [
"raised",
"builtins.OverflowError",
"date value out of range"
],
"ydms.parse(4, 999999999, 86400000)": [
"raised",
"builtins.OverflowError",
"date value out of range"
],
"ydms.parse(4, 999999999, 86400001)": [
"raised",
"builtins.OverflowError",
"date value out of range"
],
"ydms.parse(4, 999999999, 999)": [
"raised",
"builtins.OverflowError",
"date value out of range"
],
"ydms.parse(4294967295, 0, 0)": [
"raised",
"builtins.OverflowError",
"signed integer is greater than maximum"
],
"ydms.parse(4294967295, 0, 1)": [
"raised",
"builtins.OverflowError",
"signed integer is greater than maximum"
],
"ydms.parse(4294967295, 0, 1000)": [
"raised",
"builtins.OverflowError",
"signed integer is greater than maximum"
],
"ydms.parse(4294967295, 0, 2147483648)": [
"raised",
"builtins.OverflowError",
"signed integer is greater than maximum"
],
"ydms.parse(4294967295, 0, 4294967295)": [
"raised",
"builtins.OverflowError",
"signed integer is greater than maximum"
],
"ydms.parse(4294967295, 0, 86399999)": [
"raised",
"builtins.OverflowError",
"signed integer is greater than maximum"
],
"ydms.parse(4294967295, 0, 86400000)": [
"raised",
"builtins.OverflowError",
"signed integer is greater than maximum"
],
"ydms.parse(4294967295, 0, 86400001)": [
"raised",
"builtins.OverflowError",
"signed integer is greater than maximum"
],
"ydms.parse(4294967295, 0, 999)": [
"raised",
"builtins.OverflowError",
"signed integer is greater than maximum"
],
"ydms.parse(4294967295, 1, 0)": [
"raised",
"builtins.OverflowError",
"signed integer is greater than maximum"
],
"ydms.parse(4294967295, 1, 1)": [
"raised",
"builtins.OverflowError",
"signed integer is greater than maximum"
],
"ydms.parse(4294967295, 1, 1000)": [
"raised",
"builtins.OverflowError",
"signed integer is greater than maximum"
],
"ydms.parse(4294967295, 1, 2147483648)": [
"raised",
"builtins.OverflowError",
"signed integer is greater than maximum"
],
"ydms.parse(4294967295, 1, 4294967295)": [
"raised",
"builtins.OverflowError",
"signed integer is greater than maximum"
],
"ydms.parse(4294967295, 1, 86399999)": [
"raised",
"builtins.OverflowError",
"signed integer is greater than maximum"
],
"ydms.parse(4294967295, 1, 86400000)": [
"raised",
"builtins.OverflowError",
"signed integer is greater than maximum"
],
"ydms.parse(4294967295, 1, 86400001)": [
"raised",
"builtins.OverflowError",
"signed integer is greater than maximum"
],
"ydms.parse(4294967295, 1, 999)": [
"raised",
"builtins.OverflowError",
"signed integer is greater than maximum"
],
"ydms.parse(4294967295, 1000, 0)": [
"raised",
"builtins.OverflowError",
"signed integer is greater than maximum"
],
"ydms.parse(4294967295, 1000, 1)": [
"raised",
"builtins.OverflowError",
"signed integer is greater than maximum"
],
"ydms.parse(4294967295, 1000, 1000)": [
"raised",
"builtins.OverflowError",
"signed integer is greater than maximum"
],
"ydms.parse(4294967295, 1000, 2147483648)": [
"raised",
"builtins.OverflowError",
"signed integer is greater than maximum"
],
"ydms.parse(4294967295, 1000, 4294967295)": [
"raised",
"builtins.OverflowError",
"signed integer is greater than maximum"
],
"ydms.parse(4294967295, 1000, 86399999)": [
"raised",
"builtins.OverflowError",
"signed integer is greater than maximum"
],
"ydms.parse(4294967295, 1000, 86400000)": [
"raised",
"builtins.OverflowError",
"signed integer is greater than maximum"
],
"ydms.parse(4294967295, 1000, 86400001)": [
"raised",
"builtins.OverflowError",
"signed integer is greater than maximum"
],
"ydms.parse(4294967295, 1000, 999)": [
"raised",
"builtins.OverflowError",
"signed integer is greater than maximum"
],
"ydms.parse(4294967295, 1000000000, 0)": [
"raised",
"builtins.OverflowError",
"signed integer is greater than maximum"
],
"ydms.parse(4294967295, 1000000000, 1)": [
"raised",
"builtins.OverflowError",
"signed integer is greater than maximum"
],
"ydms.parse(4294967295, 1000000000, 1000)": [
"raised",
"builtins.OverflowError",
"signed integer is greater than maximum"
],
"ydms.parse(4294967295, 1000000000, 2147483648)": [
"raised",
"builtins.OverflowError",
"signed integer is greater than maximum"
],
"ydms.parse(4294967295, 1000000000, 4294967295)": [
"raised",
"builtins.OverflowError",
"signed integer is greater than maximum"
],
"ydms.parse(4294967295, 1000000000, 86399999)": [
"raised",
"builtins.OverflowError",
"signed integer is greater than maximum"
],
"ydms.parse(4294967295, 1000000000, 86400000)": [
"raised",
"builtins.OverflowError",
"signed integer is greater than maximum"
],
"ydms.parse(4294967295, 1000000000, 86400001)": [
"raised",
"builtins.OverflowError",
"signed integer is greater than maximum"
],
"ydms.parse(4294967295, 1000000000, 999)": [
"raised",
"builtins.OverflowError",
"signed integer is greater than maximum"
],
"ydms.parse(4294967295, 1000000001, 0)": [
"raised",
"builtins.OverflowError",
"signed integer is greater than maximum"
],
"ydms.parse(4294967295, 1000000001, 1)": [
"raised",
"builtins.OverflowError",
"signed integer is greater than maximum"
],
"ydms.parse(4294967295, 1000000001, 1000)": [
"raised",
"builtins.OverflowError",
"signed integer is greater than maximum"
],
"ydms.parse(4294967295, 1000000001, 2147483648)": [
"raised",
"builtins.OverflowError",
"signed integer is greater than maximum"
],
"ydms.parse(4294967295, 1000000001, 4294967295)": [
"raised",
"builtins.OverflowError",
"signed integer is greater than maximum"
],
"ydms.parse(4294967295, 1000000001, 86399999)": [
"raised",
"builtins.OverflowError",
"signed integer is greater than maximum"
],
"ydms.parse(4294967295, 1000000001, 86400000)": [
"raised",
"builtins.OverflowError",
"signed integer is greater than maximum"
],
"ydms.parse(4294967295, 1000000001, 86400001)": [
"raised",
"builtins.OverflowError",
"signed integer is greater than maximum"
],
"ydms.parse(4294967295, 1000000001, 999)": [
"raised",
"builtins.OverflowError",
"signed integer is greater than maximum"
],
"ydms.parse(4294967295, 2, 0)": [
"raised",
"builtins.OverflowError",
"signed integer is greater than maximum"
],
"ydms.parse(4294967295, 2, 1)": [
"raised",
"builtins.OverflowError",
"signed integer is greater than maximum"
],
"ydms.parse(4294967295, 2, 1000)": [
"raised",
"builtins.OverflowError",
"signed integer is greater than maximum"
],
"ydms.parse(4294967295, 2, 2147483648)": [
"raised",
"builtins.OverflowError",
"signed integer is greater than maximum"
],
"ydms.parse(4294967295, 2, 4294967295)": [
"raised",
"builtins.OverflowError",
"signed integer is greater than maximum"
],
"ydms.parse(4294967295, 2, 86399999)": [
"raised",
"builtins.OverflowError",
"signed integer is greater than maximum"
],
"ydms.parse(4294967295, 2, 86400000)": [
"raised",
"builtins.OverflowError",
"signed integer is greater than maximum"
],
"ydms.parse(4294967295, 2, 86400001)": [
"raised",
"builtins.OverflowError",
"signed integer is greater than maximum"
],
"ydms.parse(4294967295, 2, 999)": [
"raised",
"builtins.OverflowError",
"signed integer is greater than maximum"
],
"ydms.parse(4294967295, 365, 0)": [
"raised",
"builtins.OverflowError",
"signed integer is greater than maximum"
],
"ydms.parse(4294967295, 365, 1)": [
"raised",
"builtins.OverflowError",
"signed integer is greater than maximum"
],
"ydms.parse(4294967295, 365, 1000)": [
"raised",
"builtins.OverflowError",
"signed integer is greater than maximum"
],
"ydms.parse(4294967295, 365, 2147483648)": [
"raised",
"builtins.OverflowError",
"signed integer is greater than maximum"
],
"ydms.parse(4294967295, 365, 4294967295)": [
"raised",
"builtins.OverflowError",
"signed integer is greater than maximum"
],
"ydms.parse(4294967295, 365, 86399999)": [
"raised",
"builtins.OverflowError",
"signed integer is greater than maximum"
],
"ydms.parse(4294967295, 365, 86400000)": [
"raised",
"builtins.OverflowError",
"signed integer is greater than maximum"
],
"ydms.parse(4294967295, 365, 86400001)": [
"raised",
"builtins.OverflowError",
"signed integer is greater than maximum"
],
"ydms.parse(4294967295, 365, 999)": [
"raised",
"builtins.OverflowError",
"signed integer is greater than maximum"
],
"ydms.parse(4294967295, 366, 0)": [
"raised",
"builtins.OverflowError",
"signed integer is greater than maximum"
],
"ydms.parse(4294967295, 366, 1)": [
"raised",
"builtins.OverflowError",
"signed integer is greater than maximum"
],
"ydms.parse(4294967295, 366, 1000)": [
"raised",
"builtins.OverflowError",
"signed integer is greater than maximum"
],
"ydms.parse(4294967295, 366, 2147483648)": [
"raised",
"builtins.OverflowError",
"signed integer is greater than maximum"
],
"ydms.parse(4294967295, 366, 4294967295)": [
"raised",
"builtins.OverflowError",
"signed integer is greater than maximum"
],
"ydms.parse(4294967295, 366, 86399999)": [
"raised",
"builtins.OverflowError",
"signed integer is greater than maximum"
],
"ydms.parse(4294967295, 366, 86400000)": [
"raised",
"builtins.OverflowError",
"signed integer is greater than maximum"
],
"ydms.parse(4294967295, 366, 86400001)": [
"raised",
"builtins.OverflowError",
"signed integer is greater than maximum"
],
"ydms.parse(4294967295, 366, 999)": [
"raised",
"builtins.OverflowError",
"signed integer is greater than maximum"
],
"ydms.parse(4294967295, 367, 0)": [
"raised",
"builtins.OverflowError",
"signed integer is greater than maximum"
],
"ydms.parse(4294967295, 367, 1)": [
"raised",
"builtins.OverflowError",
"signed integer is greater than maximum"
],
"ydms.parse(4294967295, 367, 1000)": [
"raised",
"builtins.OverflowError",
"signed integer is greater than maximum"
],
"ydms.parse(4294967295, 367, 2147483648)": [
"raised",
"builtins.OverflowError",
"signed integer is greater than maximum"
],
"ydms.parse(4294967295, 367, 4294967295)": [
"raised",
"builtins.OverflowError",
"signed integer is greater than maximum"
],
"ydms.parse(4294967295, 367, 86399999)": [
"raised",
"builtins.OverflowError",
"signed integer is greater than maximum"
],
"ydms.parse(4294967295, 367, 86400000)": [
"raised",
"builtins.OverflowError",
"signed integer is greater than maximum"
],
"ydms.parse(4294967295, 367, 86400001)": [
"raised",
"builtins.OverflowError",
"signed integer is greater than maximum"
],
"ydms.parse(4294967295, 367, 999)": [
"raised",
"builtins.OverflowError",
"signed integer is greater than maximum"
],
"ydms.parse(4294967295, 4294967295, 0)": [
"raised",
"builtins.OverflowError",
"signed integer is greater than maximum"
],
"ydms.parse(4294967295, 4294967295, 1)": [
"raised",
"builtins.OverflowError",
"signed integer is greater than maximum"
],
"ydms.parse(4294967295, 4294967295, 1000)": [
"raised",
"builtins.OverflowError",
"signed integer is greater than maximum"
],
"ydms.parse(4294967295, 4294967295, 2147483648)": [
"raised",
"builtins.OverflowError",
"signed integer is greater than maximum"
],
"ydms.parse(4294967295, 4294967295, 4294967295)": [
"raised",
"builtins.OverflowError",
"signed integer is greater than maximum"
],
"ydms.parse(4294967295, 4294967295, 86399999)": [
"raised",
"builtins.OverflowError",
"signed integer is greater than maximum"
],
"ydms.parse(4294967295, 4294967295, 86400000)": [
"raised",
"builtins.OverflowError",
"signed integer is greater than maximum"
],
"ydms.parse(4294967295, 4294967295, 86400001)": [
"raised",
"builtins.OverflowError",
"signed integer is greater than maximum"
],
"ydms.parse(4294967295, 4294967295, 999)": [
"raised",
"builtins.OverflowError",
"signed integer is greater than maximum"
],
"ydms.parse(4294967295, 59, 0)": [
"raised",
"builtins.OverflowError",
"signed integer is greater than maximum"
],
"ydms.parse(4294967295, 59, 1)": [
"raised",
"builtins.OverflowError",
"signed integer is greater than maximum"
],
"ydms.parse(4294967295, 59, 1000)": [
"raised",
"builtins.OverflowError",
"signed integer is greater than maximum"
],
"ydms.parse(4294967295, 59, 2147483648)": [
"raised",
"builtins.OverflowError",
"signed integer is greater than maximum"
],
"ydms.parse(4294967295, 59, 4294967295)": [
"raised",
"builtins.OverflowError",
"signed integer is greater than maximum"
],
"ydms.parse(4294967295, 59, 86399999)": [
"raised",
"builtins.OverflowError",
"signed integer is greater than maximum"
],
"ydms.parse(4294967295, 59, 86400000)": [
"raised",
"builtins.OverflowError",
"signed integer is greater than maximum"
],
"ydms.parse(4294967295, 59, 86400001)": [
"raised",
"builtins.OverflowError",
"signed integer is greater than maximum"
],
"ydms.parse(4294967295, 59, 999)": [
"raised",
"builtins.OverflowError",
"signed integer is greater than maximum"
],
"ydms.parse(4294967295, 60, 0)": [
"raised",
"builtins.OverflowError",
"signed integer is greater than maximum"
],
"ydms.parse(4294967295, 60, 1)": [
"raised",
"builtins.OverflowError",
"signed integer is greater than maximum"
],
"ydms.parse(4294967295, 60, 1000)": [
"raised",
"builtins.OverflowError",
"signed integer is greater than maximum"
],
"ydms.parse(4294967295, 60, 2147483648)": [
"raised",
"builtins.OverflowError",
"signed integer is greater than maximum"
],
"ydms.parse(4294967295, 60, 4294967295)": [
"raised",
"builtins.OverflowError",
"signed integer is greater than maximum"
],
"ydms.parse(4294967295, 60, 86399999)": [
"raised",
"builtins.OverflowError",
"signed integer is greater than maximum"
],
"ydms.parse(4294967295, 60, 86400000)": [
"raised",
"builtins.OverflowError",
"signed integer is greater than maximum"
],
"ydms.parse(4294967295, 60, 86400001)": [
"raised",
"builtins.OverflowError",
"signed integer is greater than maximum"
],
"ydms.parse(4294967295, 60, 999)": [
"raised",
"builtins.OverflowError",
"signed integer is greater than maximum"
],
"ydms.parse(4294967295, 61, 0)": [
"raised",
"builtins.OverflowError",
"signed integer is greater than maximum"
],
"ydms.parse(4294967295, 61, 1)": [
"raised",
"builtins.OverflowError",
"signed integer is greater than maximum"
],
"ydms.parse(4294967295, 61, 1000)": [
"raised",
"builtins.OverflowError",
"signed integer is greater than maximum"
],
"ydms.parse(4294967295, 61, 2147483648)": [
"raised",
"builtins.OverflowError",
"signed integer is greater than maximum"
],
"ydms.parse(4294967295, 61, 4294967295)": [
"raised",
"builtins.OverflowError",
"signed integer is greater than maximum"
],
"ydms.parse(4294967295, 61, 86399999)": [
"raised",
"builtins.OverflowError",
"signed integer is greater than maximum"
],
"ydms.parse(4294967295, 61, 86400000)": [
"raised",
"builtins.OverflowError",
"signed integer is greater than maximum"
],
"ydms.parse(4294967295, 61, 86400001)": [
"raised",
"builtins.OverflowError",
"signed integer is greater than maximum"
],
"ydms.parse(4294967295, 61, 999)": [
"raised",
"builtins.OverflowError",
"signed integer is greater than maximum"
],
"ydms.parse(4294967295, 999999999, 0)": [
"raised",
"builtins.OverflowError",
"signed integer is greater than maximum"
],
"ydms.parse(4294967295, 999999999, 1)": [
"raised",
"builtins.OverflowError",
"signed integer is greater than maximum"
],
"ydms.parse(4294967295, 999999999, 1000)": [
"raised",
"builtins.OverflowError",
"signed integer is greater than maximum"
],
"ydms.parse(4294967295, 999999999, 2147483648)": [
"raised",
"builtins.OverflowError",
"signed integer is greater than maximum"
],
"ydms.parse(4294967295, 999999999, 4294967295)": [
"raised",
"builtins.OverflowError",
"signed integer is greater than maximum"
],
"ydms.parse(4294967295, 999999999, 86399999)": [
"raised",
"builtins.OverflowError",
"signed integer is greater than maximum"
],
"ydms.parse(4294967295, 999999999, 86400000)": [
"raised",
"builtins.OverflowError",
"signed integer is greater than maximum"
],
"ydms.parse(4294967295, 999999999, 86400001)": [
"raised",
"builtins.OverflowError",
"signed integer is greater than maximum"
],
"ydms.parse(4294967295, 999999999, 999)": [
"raised",
"builtins.OverflowError",
"signed integer is greater than maximum"
],
"ydms.parse(9999, 0, 0)": [
"returned",
[
"datetime",
"9998-12-31T00:00:00",
"None",
0
]
],
"ydms.parse(9999, 0, 1)": [
"returned",
[
"datetime",
"9998-12-31T00:00:00.001000",
"None",
0
]
],
"ydms.parse(9999, 0, 1000)": [
"returned",
[
"datetime",
"9998-12-31T00:00:01",
"None",
0
]
],
"ydms.parse(9999, 0, 2147483648)": [
"returned",
[
"datetime",
"9999-01-24T20:31:23.648000",
"None",
0
]
],
"ydms.parse(9999, 0, 4294967295)": [
"returned",
[
"datetime",
"9999-02-18T17:02:47.295000",
"None",
0
]
],
"ydms.parse(9999, 0, 86399999)": [
"returned",
[
"datetime",
"9998-12-31T23:59:59.999000",
"None",
0
]
],
"ydms.parse(9999, 0, 86400000)": [
"returned",
[
"datetime",
"9999-01-01T00:00:00",
"None",
0
]
],
"ydms.parse(9999, 0, 86400001)": [
"returned",
[
"datetime",
"9999-01-01T00:00:00.001000",
"None",
0
]
],
"ydms.parse(9999, 0, 999)": [
"returned",
[
"datetime",
"9998-12-31T00:00:00.999000",
"None",
0
]
],
"ydms.parse(9999, 1, 0)": [
"returned",
[
"datetime",
"9999-01-01T00:00:00",
"None",
0
]
],
"ydms.parse(9999, 1, 1)": [
"returned",
[
"datetime",
"9999-01-01T00:00:00.001000",
"None",
0
]
],
"ydms.parse(9999, 1, 1000)": [
"returned",
[
"datetime",
"9999-01-01T00:00:01",
"None",
0
]
],
"ydms.parse(9999, 1, 2147483648)": [
"returned",
[
"datetime",
"9999-01-25T20:31:23.648000",
"None",
0
]
],
"ydms.parse(9999, 1, 4294967295)": [
"returned",
[
"datetime",
"9999-02-19T17:02:47.295000",
"None",
0
]
],
"ydms.parse(9999, 1, 86399999)": [
"returned",
[
"datetime",
"9999-01-01T23:59:59.999000",
"None",
0
]
],
"ydms.parse(9999, 1, 86400000)": [
"returned",
[
"datetime",
"9999-01-02T00:00:00",
"None",
0
]
],
"ydms.parse(9999, 1, 86400001)": [
"returned",
[
"datetime",
"9999-01-02T00:00:00.001000",
"None",
0
]
],
"ydms.parse(9999, 1, 999)": [
"returned",
[
"datetime",
"9999-01-01T00:00:00.999000",
"None",
0
]
],
"ydms.parse(9999, 1000, 0)": [
"raised",
"builtins.OverflowError",
"date value out of range"
],
"ydms.parse(9999, 1000, 1)": [
"raised",
"builtins.OverflowError",
"date value out of range"
],
"ydms.parse(9999, 1000, 1000)": [
"raised",
"builtins.OverflowError",
"date value out of range"
],
"ydms.parse(9999, 1000, 2147483648)": [
"raised",
"builtins.OverflowError",
"date value out of range"
],
"ydms.parse(9999, 1000, 4294967295)": [
"raised",
"builtins.OverflowError",
"date value out of range"
],
"ydms.parse(9999, 1000, 86399999)": [
"raised",
"builtins.OverflowError",
"date value out of range"
],
"ydms.parse(9999, 1000, 86400000)": [
"raised",
"builtins.OverflowError",
"date value out of range"
],
"ydms.parse(9999, 1000, 86400001)": [
"raised",
"builtins.OverflowError",
"date value out of range"
],
"ydms.parse(9999, 1000, 999)": [
"raised",
"builtins.OverflowError",
"date value out of range"
],
"ydms.parse(9999, 1000000000, 0)": [
"raised",
"builtins.OverflowError",
"date value out of range"
],
"ydms.parse(9999, 1000000000, 1)": [
"raised",
"builtins.OverflowError",
"date value out of range"
],
"ydms.parse(9999, 1000000000, 1000)": [
"raised",
"builtins.OverflowError",
"date value out of range"
],
"ydms.parse(9999, 1000000000, 2147483648)": [
"raised",
"builtins.OverflowError",
"days=1000000023; must have magnitude <= 999999999"
],
"ydms.parse(9999, 1000000000, 4294967295)": [
"raised",
"builtins.OverflowError",
"days=1000000048; must have magnitude <= 999999999"
],
"ydms.parse(9999, 1000000000, 86399999)": [
"raised",
"builtins.OverflowError",
"date value out of range"
],
"ydms.parse(9999, 1000000000, 86400000)": [
"raised",
"builtins.OverflowError",
"days=1000000000; must have magnitude <= 999999999"
],
"ydms.parse(9999, 1000000000, 86400001)": [
"raised",
"builtins.OverflowError",
"days=1000000000; must have magnitude <= 999999999"
],
"ydms.parse(9999, 1000000000, 999)": [
"raised",
"builtins.OverflowError",
"date value out of range"
],
"ydms.parse(9999, 1000000001, 0)": [
"raised",
"builtins.OverflowError",
"days=1000000000; must have magnitude <= 999999999"
],
"ydms.parse(9999, 1000000001, 1)": [
"raised",
"builtins.OverflowError",
"days=1000000000; must have magnitude <= 999999999"
],
"ydms.parse(9999, 1000000001, 1000)": [
"raised",
"builtins.OverflowError",
"days=1000000000; must have magnitude <= 999999999"
],
"ydms.parse(9999, 1000000001, 2147483648)": [
"raised",
"builtins.OverflowError",
"days=1000000024; must have magnitude <= 999999999"
],
"ydms.parse(9999, 1000000001, 4294967295)": [
"raised",
"builtins.OverflowError",
"days=1000000049; must have magnitude <= 999999999"
],
"ydms.parse(9999, 1000000001, 86399999)": [
"raised",
"builtins.OverflowError",
"days=1000000000; must have magnitude <= 999999999"
],
"ydms.parse(9999, 1000000001, 86400000)": [
"raised",
"builtins.OverflowError",
"days=1000000001; must have magnitude <= 999999999"
],
"ydms.parse(9999, 1000000001, 86400001)": [
"raised",
"builtins.OverflowError",
"days=1000000001; must have magnitude <= 999999999"
],
"ydms.parse(9999, 1000000001, 999)": [
"raised",
"builtins.OverflowError",
"days=1000000000; must have magnitude <= 999999999"
],
"ydms.parse(9999, 2, 0)": [
"returned",
[
"datetime",
"9999-01-02T00:00:00",
"None",
0
]
],
"ydms.parse(9999, 2, 1)": [
"returned",
[
"datetime",
"9999-01-02T00:00:00.001000",
"None",
0
]
],
"ydms.parse(9999, 2, 1000)": [
"returned",
[
"datetime",
"9999-01-02T00:00:01",
"None",
0
]
],
"ydms.parse(9999, 2, 2147483648)": [
"returned",
[
"datetime",
"9999-01-26T20:31:23.648000",
"None",
0
]
],
"ydms.parse(9999, 2, 4294967295)": [
"returned",
[
"datetime",
"9999-02-20T17:02:47.295000",
"None",
0
]
],
"ydms.parse(9999, 2, 86399999)": [
"returned",
[
"datetime",
"9999-01-02T23:59:59.999000",
"None",
0
]
],
"ydms.parse(9999, 2, 86400000)": [
"returned",
[
"datetime",
"9999-01-03T00:00:00",
"None",
0
]
],
"ydms.parse(9999, 2, 86400001)": [
"returned",
[
"datetime",
"9999-01-03T00:00:00.001000",
"None",
0
]
],
"ydms.parse(9999, 2, 999)": [
"returned",
[
"datetime",
"9999-01-02T00:00:00.999000",
"None",
0
]
],
"ydms.parse(9999, 365, 0)": [
"returned",
[
"datetime",
"9999-12-31T00:00:00",
"None",
0
]
],
"ydms.parse(9999, 365, 1)": [
"returned",
[
"datetime",
"9999-12-31T00:00:00.001000",
"None",
0
]
],
"ydms.parse(9999, 365, 1000)": [
"returned",
[
"datetime",
"9999-12-31T00:00:01",
"None",
0
]
],
"ydms.parse(9999, 365, 2147483648)": [
"raised",
"builtins.OverflowError",
"date value out of range"
],
"ydms.parse(9999, 365, 4294967295)": [
"raised",
"builtins.OverflowError",
"date value out of range"
],
"ydms.parse(9999, 365, 86399999)": [
"returned",
[
"datetime",
"9999-12-31T23:59:59.999000",
"None",
0
]
],
"ydms.parse(9999, 365, 86400000)": [
"raised",
"builtins.OverflowError",
"date value out of range"
],
"ydms.parse(9999, 365, 86400001)": [
"raised",
"builtins.OverflowError",
"date value out of range"
],
"ydms.parse(9999, 365, 999)": [
"returned",
[
"datetime",
"9999-12-31T00:00:00.999000",
"None",
0
]
],
"ydms.parse(9999, 366, 0)": [
"raised",
"builtins.OverflowError",
"date value out of range"
],
"ydms.parse(9999, 366, 1)": [
"raised",
"builtins.OverflowError",
"date value out of range"
],
"ydms.parse(9999, 366, 1000)": [
"raised",
"builtins.OverflowError",
"date value out of range"
],
"ydms.parse(9999, 366, 2147483648)": [
"raised",
"builtins.OverflowError",
"date value out of range"
],
"ydms.parse(9999, 366, 4294967295)": [
"raised",
"builtins.OverflowError",
"date value out of range"
],
"ydms.parse(9999, 366, 86399999)": [
"raised",
"builtins.OverflowError",
"date value out of range"
],
"ydms.parse(9999, 366, 86400000)": [
"raised",
"builtins.OverflowError",
"date value out of range"
],
"ydms.parse(9999, 366, 86400001)": [
"raised",
"builtins.OverflowError",
"date value out of range"
],
"ydms.parse(9999, 366, 999)": [
"raised",
"builtins.OverflowError",
"date value out of range"
],
"ydms.parse(9999, 367, 0)": [
"raised",
"builtins.OverflowError",
"date value out of range"
],
"ydms.parse(9999, 367, 1)": [
"raised",
"builtins.OverflowError",
"date value out of range"
],
"ydms.parse(9999, 367, 1000)": [
"raised",
"builtins.OverflowError",
"date value out of range"
],
"ydms.parse(9999, 367, 2147483648)": [
"raised",
"builtins.OverflowError",
"date value out of range"
],
"ydms.parse(9999, 367, 4294967295)": [
"raised",
"builtins.OverflowError",
"date value out of range"
],
"ydms.parse(9999, 367, 86399999)": [
"raised",
"builtins.OverflowError",
"date value out of range"
],
"ydms.parse(9999, 367, 86400000)": [
"raised",
"builtins.OverflowError",
"date value out of range"
],
"ydms.parse(9999, 367, 86400001)": [
"raised",
"builtins.OverflowError",
"date value out of range"
],
"ydms.parse(9999, 367, 999)": [
"raised",
"builtins.OverflowError",
"date value out of range"
],
"ydms.parse(9999, 4294967295, 0)": [
"raised",
"builtins.OverflowError",
"Python int too large to convert to C int"
],
"ydms.parse(9999, 4294967295, 1)": [
"raised",
"builtins.OverflowError",
"Python int too large to convert to C int"
],
"ydms.parse(9999, 4294967295, 1000)": [
"raised",
"builtins.OverflowError",
"Python int too large to convert to C int"
],
"ydms.parse(9999, 4294967295, 2147483648)": [
"raised",
"builtins.OverflowError",
"Python int too large to convert to C int"
],
"ydms.parse(9999, 4294967295, 4294967295)": [
"raised",
"builtins.OverflowError",
"Python int too large to convert to C int"
],
"ydms.parse(9999, 4294967295, 86399999)": [
"raised",
"builtins.OverflowError",
"Python int too large to convert to C int"
],
"ydms.parse(9999, 4294967295, 86400000)": [
"raised",
"builtins.OverflowError",
"Python int too large to convert to C int"
],
"ydms.parse(9999, 4294967295, 86400001)": [
"raised",
"builtins.OverflowError",
"Python int too large to convert to C int"
],
"ydms.parse(9999, 4294967295, 999)": [
"raised",
"builtins.OverflowError",
"Python int too large to convert to C int"
],
"ydms.parse(9999, 59, 0)": [
"returned",
[
"datetime",
"9999-02-28T00:00:00",
"None",
0
]
],
"ydms.parse(9999, 59, 1)": [
"returned",
[
"datetime",
"9999-02-28T00:00:00.001000",
"None",
0
]
],
"ydms.parse(9999, 59, 1000)": [
"returned",
[
"datetime",
"9999-02-28T00:00:01",
"None",
0
]
],
"ydms.parse(9999, 59, 2147483648)": [
"returned",
[
"datetime",
"9999-03-24T20:31:23.648000",
"None",
0
]
],
"ydms.parse(9999, 59, 4294967295)": [
"returned",
[
"datetime",
"9999-04-18T17:02:47.295000",
"None",
0
]
],
"ydms.parse(9999, 59, 86399999)": [
"returned",
[
"datetime",
"9999-02-28T23:59:59.999000",
"None",
0
]
],
"ydms.parse(9999, 59, 86400000)": [
"returned",
[
"datetime",
"9999-03-01T00:00:00",
"None",
0
]
],
"ydms.parse(9999, 59, 86400001)": [
"returned",
[
"datetime",
"9999-03-01T00:00:00.001000",
"None",
0
]
],
"ydms.parse(9999, 59, 999)": [
"returned",
[
"datetime",
"9999-02-28T00:00:00.999000",
"None",
0
]
],
"ydms.parse(9999, 60, 0)": [
"returned",
[
"datetime",
"9999-03-01T00:00:00",
"None",
0
]
],
"ydms.parse(9999, 60, 1)": [
"returned",
[
"datetime",
"9999-03-01T00:00:00.001000",
"None",
0
]
],
"ydms.parse(9999, 60, 1000)": [
"returned",
[
"datetime",
"9999-03-01T00:00:01",
"None",
0
]
],
"ydms.parse(9999, 60, 2147483648)": [
"returned",
[
"datetime",
"9999-03-25T20:31:23.648000",
"None",
0
]
],
"ydms.parse(9999, 60, 4294967295)": [
"returned",
[
"datetime",
"9999-04-19T17:02:47.295000",
"None",
0
]
],
"ydms.parse(9999, 60, 86399999)": [
"returned",
[
"datetime",
"9999-03-01T23:59:59.999000",
"None",
0
]
],
"ydms.parse(9999, 60, 86400000)": [
"returned",
[
"datetime",
"9999-03-02T00:00:00",
"None",
0
]
],
"ydms.parse(9999, 60, 86400001)": [
"returned",
[
"datetime",
"9999-03-02T00:00:00.001000",
"None",
0
]
],
"ydms.parse(9999, 60, 999)": [
"returned",
[
"datetime",
"9999-03-01T00:00:00.999000",
"None",
0
]
],
"ydms.parse(9999, 61, 0)": [
"returned",
[
"datetime",
"9999-03-02T00:00:00",
"None",
0
]
],
"ydms.parse(9999, 61, 1)": [
"returned",
[
"datetime",
"9999-03-02T00:00:00.001000",
"None",
0
]
],
"ydms.parse(9999, 61, 1000)": [
"returned",
[
"datetime",
"9999-03-02T00:00:01",
"None",
0
]
],
"ydms.parse(9999, 61, 2147483648)": [
"returned",
[
"datetime",
"9999-03-26T20:31:23.648000",
"None",
0
]
],
"ydms.parse(9999, 61, 4294967295)": [
"returned",
[
"datetime",
"9999-04-20T17:02:47.295000",
"None",
0
]
],
"ydms.parse(9999, 61, 86399999)": [
"returned",
[
"datetime",
"9999-03-02T23:59:59.999000",
"None",
0
]
],
"ydms.parse(9999, 61, 86400000)": [
"returned",
[
"datetime",
"9999-03-03T00:00:00",
"None",
0
]
],
"ydms.parse(9999, 61, 86400001)": [
"returned",
[
"datetime",
"9999-03-03T00:00:00.001000",
"None",
0
]
],
"ydms.parse(9999, 61, 999)": [
"returned",
[
"datetime",
"9999-03-02T00:00:00.999000",
"None",
0
]
],
"ydms.parse(9999, 999999999, 0)": [
"raised",
"builtins.OverflowError",
"date value out of range"
],
"ydms.parse(9999, 999999999, 1)": [
"raised",
"builtins.OverflowError",
"date value out of range"
],
"ydms.parse(9999, 999999999, 1000)": [
"raised",
"builtins.OverflowError",
"date value out of range"
],
"ydms.parse(9999, 999999999, 2147483648)": [
"raised",
"builtins.OverflowError",
"days=1000000022; must have magnitude <= 999999999"
],
"ydms.parse(9999, 999999999, 4294967295)": [
"raised",
"builtins.OverflowError",
"days=1000000047; must have magnitude <= 999999999"
],
"ydms.parse(9999, 999999999, 86399999)": [
"raised",
"builtins.OverflowError",
"date value out of range"
],
"ydms.parse(9999, 999999999, 86400000)": [
"raised",
"builtins.OverflowError",
"date value out of range"
],
"ydms.parse(9999, 999999999, 86400001)": [
"raised",
"builtins.OverflowError",
"date value out of range"
],
"ydms.parse(9999, 999999999, 999)": [
"raised",
"builtins.OverflowError",
"date value out of range"
],
"ydms.parse(b'')": [
"raised",
"construct.core.StreamError",
"Error in path (parsing) -> year\nstream read less than specified amount, expected 4, found 0"
],
"ydms.parse(b'\\x00\\x00\\x00\\x00\\x00\\x00\\x00\\x00\\x00\\x00\\x00')": [
"raised",
"construct.core.StreamError",
"Error in path (parsing) -> milliseconds\nstream read less than specified amount, expected 4, found 3"
],
"ydms.parse(b'\\x00\\x00\\x07\\xe3\\x00\\x00\\x07\\xe3\\x00\\x00\\x07\\xe3trailing')": [
"returned",
[
"datetime",
"2024-07-11T00:00:02.019000",
"None",
0
]
],
"ydms.sizeof": [
"returned",
[
"int",
12
]
],
"ydus[aware]._decode('5')": [
"raised",
"builtins.TypeError",
"unsupported type for timedelta microseconds component: str"
],
"ydus[aware]._decode('5', ctx=empty)": [
"raised",
"builtins.TypeError",
"unsupported type for timedelta microseconds component: str"
],
"ydus[aware]._decode('5', ctx=nested)": [
"raised",
"builtins.TypeError",
"unsupported type for timedelta microseconds component: str"
],
"ydus[aware]._decode('5', ctx=none)": [
"raised",
"builtins.TypeError",
"unsupported type for timedelta microseconds component: str"
],
"ydus[aware]._decode('5', ctx=ref)": [
"raised",
"builtins.TypeError",
"unsupported type for timedelta microseconds component: str"
],
"ydus[aware]._decode('5', ctx=ref_date)": [
"raised",
"builtins.TypeError",
"unsupported type for timedelta microseconds component: str"
],
"ydus[aware]._decode(-1)": [
"returned",
[
"datetime",
"2019-05-31T23:59:59.999999",
"None",
0
]
],
"ydus[aware]._decode(-86400000000)": [
"returned",
[
"datetime",
"2019-05-31T00:00:00",
"None",
0
]
],
"ydus[aware]._decode(0)": [
"returned",
[
"datetime",
"2019-06-01T00:00:00",
"None",
0
]
],
"ydus[aware]._decode(0, ctx=empty)": [
"returned",
[
"datetime",
"2019-06-01T00:00:00",
"None",
0
]
],
"ydus[aware]._decode(0, ctx=nested)": [
"returned",
[
"datetime",
"2019-06-01T00:00:00",
"None",
0
]
],
"ydus[aware]._decode(0, ctx=none)": [
"returned",
[
"datetime",
"2019-06-01T00:00:00",
"None",
0
]
],
"ydus[aware]._decode(0, ctx=ref)": [
"returned",
[
"datetime",
"2019-06-01T00:00:00",
"None",
0
]
],
"ydus[aware]._decode(0, ctx=ref_date)": [
"returned",
[
"datetime",
"2019-06-01T00:00:00",
"None",
0
]
],
"ydus[aware]._decode(0.4)": [
"returned",
[
"datetime",
"2019-06-01T00:00:00",
"None",
0
]
],
"ydus[aware]._decode(1)": [
"returned",
[
"datetime",
"2019-06-01T00:00:00.000001",
"None",
0
]
],
"ydus[aware]._decode(1.5)": [
"returned",
[
"datetime",
"2019-06-01T00:00:00.000002",
"None",
0
]
],
"ydus[aware]._decode(1000000000000000000000000000000)": [
"raised",
"builtins.OverflowError",
"Python int too large to convert to C int"
],
"ydus[aware]._decode(1000000000000000000000000000000, ctx=empty)": [
"raised",
"builtins.OverflowError",
"Python int too large to convert to C int"
],
"ydus[aware]._decode(1000000000000000000000000000000, ctx=nested)": [
"raised",
"builtins.OverflowError",
"Python int too large to convert to C int"
],
"ydus[aware]._decode(1000000000000000000000000000000, ctx=none)": [
"raised",
"builtins.OverflowError",
"Python int too large to convert to C int"
],
"ydus[aware]._decode(1000000000000000000000000000000, ctx=ref)": [
"raised",
"builtins.OverflowError",
"Python int too large to convert to C int"
],
"ydus[aware]._decode(1000000000000000000000000000000, ctx=ref_date)": [
"raised",
"builtins.OverflowError",
"Python int too large to convert to C int"
],
"ydus[aware]._decode(18446744073709551615)": [
"raised",
"builtins.OverflowError",
"date value out of range"
],
"ydus[aware]._decode(40669000000)": [
"returned",
[
"datetime",
"2019-06-01T11:17:49",
"None",
0
]
],
"ydus[aware]._decode(40669000001, ctx=empty)": [
"returned",
[
"datetime",
"2019-06-01T11:17:49.000001",
"None",
0
]
],
"ydus[aware]._decode(40669000001, ctx=nested)": [
"returned",
[
"datetime",
"2019-06-01T11:17:49.000001",
"None",
0
]
],
"ydus[aware]._decode(40669000001, ctx=none)": [
"returned",
[
"datetime",
"2019-06-01T11:17:49.000001",
"None",
0
]
],
"ydus[aware]._decode(40669000001, ctx=ref)": [
"returned",
[
"datetime",
"2019-06-01T11:17:49.000001",
"None",
0
]
],
"ydus[aware]._decode(40669000001, ctx=ref_date)": [
"returned",
[
"datetime",
"2019-06-01T11:17:49.000001",
"None",
0
]
],
"ydus[aware]._decode(4294967296)": [
"returned",
[
"datetime",
"2019-06-01T01:11:34.967296",
"None",
0
]
],
"ydus[aware]._decode(86399999999)": [
"returned",
[
"datetime",
"2019-06-01T23:59:59.999999",
"None",
0
]
],
"ydus[aware]._decode(86400000000)": [
"returned",
[
"datetime",
"2019-06-02T00:00:00",
"None",
0
]
],
"ydus[aware]._decode(86400000001)": [
"returned",
[
"datetime",
"2019-06-02T00:00:00.000001",
"None",
0
]
],
"ydus[aware]._decode(9223372036854775808)": [
"raised",
"builtins.OverflowError",
"date value out of range"
],
"ydus[aware]._decode(None)": [
"raised",
"builtins.TypeError",
"unsupported type for timedelta microseconds component: NoneType"
],
"ydus[aware]._decode(True)": [
"returned",
[
"datetime",
"2019-06-01T00:00:00.000001",
"None",
0
]
],
"ydus[aware]._decode([5])": [
"raised",
"builtins.TypeError",
"unsupported type for timedelta microseconds component: list"
],
"ydus[aware]._decode(b'5')": [
"raised",
"builtins.TypeError",
"unsupported type for timedelta microseconds component: bytes"
],
"ydus[aware]._decode(datetime.timedelta(seconds=1))": [
"raised",
"builtins.TypeError",
"unsupported type for timedelta microseconds component: datetime.timedelta"
],
"ydus[aware]._decode(inf)": [
"raised",
"builtins.OverflowError",
"cannot convert float infinity to integer"
],
"ydus[aware]._decode(nan)": [
"raised",
"builtins.ValueError",
"cannot convert float NaN to integer"
],
"ydus[aware]._encode": [
"raised",
"builtins.NotImplementedError",
""
],
"ydus[aware].build": [
"raised",
"builtins.NotImplementedError",
""
],
"ydus[aware].parse(0)": [
"returned",
[
"datetime",
"2019-06-01T00:00:00",
"None",
0
]
],
"ydus[aware].parse(1)": [
"returned",
[
"datetime",
"2019-06-01T00:00:00.000001",
"None",
0
]
],
"ydus[aware].parse(18446744073709551615)": [
"raised",
"builtins.OverflowError",
"date value out of range"
],
"ydus[aware].parse(40669000000)": [
"returned",
[
"datetime",
"2019-06-01T11:17:49",
"None",
0
]
],
"ydus[aware].parse(86399999999)": [
"returned",
[
"datetime",
"2019-06-01T23:59:59.999999",
"None",
0
]
],
"ydus[aware].parse(86400000000)": [
"returned",
[
"datetime",
"2019-06-02T00:00:00",
"None",
0
]
],
"ydus[aware].parse(9223372036854775808)": [
"raised",
"builtins.OverflowError",
"date value out of range"
],
"ydus[aware].parse(short)": [
"raised",
"construct.core.StreamError",
"Error in path (parsing)\nstream read less than specified amount, expected 8, found 7"
],
"ydus[aware].sizeof": [
"returned",
[
"int",
8
]
],
"ydus[callable -> KeyError('ref')]._decode('x')": [
"raised",
"builtins.KeyError",
"'ref'"
],
"ydus[callable -> KeyError('ref')]._decode('x').attribute": true,
"ydus[callable -> KeyError('ref')]._decode('x').calls": [
[
"call",
1,
[],
[
"Container",
[
[
"ref",
[
"datetime",
"2015-05-05T05:05:05.000005",
"None",
0
]
]
]
]
]
],
"ydus[callable -> KeyError('ref')]._decode(7)": [
"raised",
"builtins.KeyError",
"'ref'"
],
"ydus[callable -> KeyError('ref')]._decode(7).attribute": true,
"ydus[callable -> KeyError('ref')]._decode(7).calls": [
[
"call",
1,
[],
[
"Container",
[
[
"ref",
[
"datetime",
"2015-05-05T05:05:05.000005",
"None",
0
]
]
]
]
]
],
"ydus[callable -> None]._decode('x')": [
"raised",
"builtins.AttributeError",
"'NoneType' object has no attribute 'date'"
],
"ydus[callable -> None]._decode('x').attribute": true,
"ydus[callable -> None]._decode('x').calls": [
[
"call",
1,
[],
[
"Container",
[
[
"ref",
[
"datetime",
"2015-05-05T05:05:05.000005",
"None",
0
]
]
]
]
]
],
"ydus[callable -> None]._decode(7)": [
"raised",
"builtins.AttributeError",
"'NoneType' object has no attribute 'date'"
],
"ydus[callable -> None]._decode(7).attribute": true,
"ydus[callable -> None]._decode(7).calls": [
[
"call",
1,
[],
[
"Container",
[
[
"ref",
[
"datetime",
"2015-05-05T05:05:05.000005",
"None",
0
]
]
]
]
]
],
"ydus[callable -> ValueError('broken reference')]._decode('x')": [
"raised",
"builtins.ValueError",
"broken reference"
],
"ydus[callable -> ValueError('broken reference')]._decode('x').attribute": true,
"ydus[callable -> ValueError('broken reference')]._decode('x').calls": [
[
"call",
1,
[],
[
"Container",
[
[
"ref",
[
"datetime",
"2015-05-05T05:05:05.000005",
"None",
0
]
]
]
]
]
],
"ydus[callable -> ValueError('broken reference')]._decode(7)": [
"raised",
"builtins.ValueError",
"broken reference"
],
"ydus[callable -> ValueError('broken reference')]._decode(7).attribute": true,
"ydus[callable -> ValueError('broken reference')]._decode(7).calls": [
[
"call",
1,
[],
[
"Container",
[
[
"ref",
[
"datetime",
"2015-05-05T05:05:05.000005",
"None",
0
]
]
]
]
]
],
"ydus[callable -> datetime.datetime(2012, 12, 12, 12, 12, 12, 12)]._decode('x')": [
"raised",
"builtins.TypeError",
"unsupported type for timedelta microseconds component: str"
],
"ydus[callable -> datetime.datetime(2012, 12, 12, 12, 12, 12, 12)]._decode('x').attribute": true,
"ydus[callable -> datetime.datetime(2012, 12, 12, 12, 12, 12, 12)]._decode('x').calls": [
[
"call",
1,
[],
[
"Container",
[
[
"ref",
[
"datetime",
"2015-05-05T05:05:05.000005",
"None",
0
]
]
]
]
]
],
"ydus[callable -> datetime.datetime(2012, 12, 12, 12, 12, 12, 12)]._decode(7)": [
"returned",
[
"datetime",
"2012-12-12T00:00:00.000007",
"None",
0
]
],
"ydus[callable -> datetime.datetime(2012, 12, 12, 12, 12, 12, 12)]._decode(7).attribute": true,
"ydus[callable -> datetime.datetime(2012, 12, 12, 12, 12, 12, 12)]._decode(7).calls": [
[
"call",
1,
[],
[
"Container",
[
[
"ref",
[
"datetime",
"2015-05-05T05:05:05.000005",
"None",
0
]
]
]
]
]
],
"ydus[callable_datetime]._decode('5', ctx=empty)": [
"raised",
"builtins.TypeError",
"unsupported type for timedelta microseconds component: str"
],
"ydus[callable_datetime]._decode('5', ctx=nested)": [
"raised",
"builtins.TypeError",
"unsupported type for timedelta microseconds component: str"
],
"ydus[callable_datetime]._decode('5', ctx=none)": [
"raised",
"builtins.TypeError",
"unsupported type for timedelta microseconds component: str"
],
"ydus[callable_datetime]._decode('5', ctx=ref)": [
"raised",
"builtins.TypeError",
"unsupported type for timedelta microseconds component: str"
],
"ydus[callable_datetime]._decode('5', ctx=ref_date)": [
"raised",
"builtins.TypeError",
"unsupported type for timedelta microseconds component: str"
],
"ydus[callable_datetime]._decode(0, ctx=empty)": [
"returned",
[
"datetime",
"1999-12-31T00:00:00",
"None",
0
]
],
"ydus[callable_datetime]._decode(0, ctx=nested)": [
"returned",
[
"datetime",
"1999-12-31T00:00:00",
"None",
0
]
],
"ydus[callable_datetime]._decode(0, ctx=none)": [
"returned",
[
"datetime",
"1999-12-31T00:00:00",
"None",
0
]
],
"ydus[callable_datetime]._decode(0, ctx=ref)": [
"returned",
[
"datetime",
"1999-12-31T00:00:00",
"None",
0
]
],
"ydus[callable_datetime]._decode(0, ctx=ref_date)": [
"returned",
[
"datetime",
"1999-12-31T00:00:00",
"None",
0
]
],
"ydus[callable_datetime]._decode(1000000000000000000000000000000, ctx=empty)": [
"raised",
"builtins.OverflowError",
"Python int too large to convert to C int"
],
"ydus[callable_datetime]._decode(1000000000000000000000000000000, ctx=nested)": [
"raised",
"builtins.OverflowError",
"Python int too large to convert to C int"
],
"ydus[callable_datetime]._decode(1000000000000000000000000000000, ctx=none)": [
"raised",
"builtins.OverflowError",
"Python int too large to convert to C int"
],
"ydus[callable_datetime]._decode(1000000000000000000000000000000, ctx=ref)": [
"raised",
"builtins.OverflowError",
"Python int too large to convert to C int"
],
"ydus[callable_datetime]._decode(1000000000000000000000000000000, ctx=ref_date)": [
"raised",
"builtins.OverflowError",
"Python int too large to convert to C int"
],
"ydus[callable_datetime]._decode(40669000001, ctx=empty)": [
"returned",
[
"datetime",
"1999-12-31T11:17:49.000001",
"None",
0
]
],
"ydus[callable_datetime]._decode(40669000001, ctx=nested)": [
"returned",
[
"datetime",
"1999-12-31T11:17:49.000001",
"None",
0
]
],
"ydus[callable_datetime]._decode(40669000001, ctx=none)": [
"returned",
[
"datetime",
"1999-12-31T11:17:49.000001",
"None",
0
]
],
"ydus[callable_datetime]._decode(40669000001, ctx=ref)": [
"returned",
[
"datetime",
"1999-12-31T11:17:49.000001",
"None",
0
]
],
"ydus[callable_datetime]._decode(40669000001, ctx=ref_date)": [
"returned",
[
"datetime",
"1999-12-31T11:17:49.000001",
"None",
0
]
],
"ydus[date]._decode('5', ctx=empty)": [
"raised",
"builtins.AttributeError",
"'datetime.date' object has no attribute 'date'"
],
"ydus[date]._decode('5', ctx=nested)": [
"raised",
"builtins.AttributeError",
"'datetime.date' object has no attribute 'date'"
],
"ydus[date]._decode('5', ctx=none)": [
"raised",
"builtins.AttributeError",
"'datetime.date' object has no attribute 'date'"
],
"ydus[date]._decode('5', ctx=ref)": [
"raised",
"builtins.AttributeError",
"'datetime.date' object has no attribute 'date'"
],
"ydus[date]._decode('5', ctx=ref_date)": [
"raised",
"builtins.AttributeError",
"'datetime.date' object has no attribute 'date'"
],
"ydus[date]._decode(0, ctx=empty)": [
"raised",
"builtins.AttributeError",
"'datetime.date' object has no attribute 'date'"
],
"ydus[date]._decode(0, ctx=nested)": [
"raised",
"builtins.AttributeError",
"'datetime.date' object has no attribute 'date'"
],
"ydus[date]._decode(0, ctx=none)": [
"raised",
"builtins.AttributeError",
"'datetime.date' object has no attribute 'date'"
],
"ydus[date]._decode(0, ctx=ref)": [
"raised",
"builtins.AttributeError",
"'datetime.date' object has no attribute 'date'"
],
"ydus[date]._decode(0, ctx=ref_date)": [
"raised",
"builtins.AttributeError",
"'datetime.date' object has no attribute 'date'"
],
"ydus[date]._decode(1000000000000000000000000000000, ctx=empty)": [
"raised",
"builtins.AttributeError",
"'datetime.date' object has no attribute 'date'"
],
"ydus[date]._decode(1000000000000000000000000000000, ctx=nested)": [
"raised",
"builtins.AttributeError",
"'datetime.date' object has no attribute 'date'"
],
"ydus[date]._decode(1000000000000000000000000000000, ctx=none)": [
"raised",
"builtins.AttributeError",
"'datetime.date' object has no attribute 'date'"
],
"ydus[date]._decode(1000000000000000000000000000000, ctx=ref)": [
"raised",
"builtins.AttributeError",
"'datetime.date' object has no attribute 'date'"
],
"ydus[date]._decode(1000000000000000000000000000000, ctx=ref_date)": [
"raised",
"builtins.AttributeError",
"'datetime.date' object has no attribute 'date'"
],
"ydus[date]._decode(40669000001, ctx=empty)": [
"raised",
"builtins.AttributeError",
"'datetime.date' object has no attribute 'date'"
],
"ydus[date]._decode(40669000001, ctx=nested)": [
"raised",
"builtins.AttributeError",
"'datetime.date' object has no attribute 'date'"
],
"ydus[date]._decode(40669000001, ctx=none)": [
"raised",
"builtins.AttributeError",
"'datetime.date' object has no attribute 'date'"
],
"ydus[date]._decode(40669000001, ctx=ref)": [
"raised",
"builtins.AttributeError",
"'datetime.date' object has no attribute 'date'"
],
"ydus[date]._decode(40669000001, ctx=ref_date)": [
"raised",
"builtins.AttributeError",
"'datetime.date' object has no attribute 'date'"
],
"ydus[date]._encode": [
"raised",
"builtins.NotImplementedError",
""
],
"ydus[date].build": [
"raised",
"builtins.NotImplementedError",
""
],
"ydus[date].parse(0)": [
"raised",
"builtins.AttributeError",
"'datetime.date' object has no attribute 'date'"
],
"ydus[date].parse(1)": [
"raised",
"builtins.AttributeError",
"'datetime.date' object has no attribute 'date'"
],
"ydus[date].parse(18446744073709551615)": [
"raised",
"builtins.AttributeError",
"'datetime.date' object has no attribute 'date'"
],
"ydus[date].parse(40669000000)": [
"raised",
"builtins.AttributeError",
"'datetime.date' object has no attribute 'date'"
],
"ydus[date].parse(86399999999)": [
"raised",
"builtins.AttributeError",
"'datetime.date' object has no attribute 'date'"
],
"ydus[date].parse(86400000000)": [
"raised",
"builtins.AttributeError",
"'datetime.date' object has no attribute 'date'"
],
"ydus[date].parse(9223372036854775808)": [
"raised",
"builtins.AttributeError",
"'datetime.date' object has no attribute 'date'"
],
"ydus[date].parse(short)": [
"raised",
"construct.core.StreamError",
"Error in path (parsing)\nstream read less than specified amount, expected 8, found 7"
],
"ydus[date].sizeof": [
"returned",
[
"int",
8
]
],
"ydus[datetime]._decode('5')": [
"raised",
"builtins.TypeError",
"unsupported type for timedelta microseconds component: str"
],
"ydus[datetime]._decode('5', ctx=empty)": [
"raised",
"builtins.TypeError",
"unsupported type for timedelta microseconds component: str"
],
"ydus[datetime]._decode('5', ctx=nested)": [
"raised",
"builtins.TypeError",
"unsupported type for timedelta microseconds component: str"
],
"ydus[datetime]._decode('5', ctx=none)": [
"raised",
"builtins.TypeError",
"unsupported type for timedelta microseconds component: str"
],
"ydus[datetime]._decode('5', ctx=ref)": [
"raised",
"builtins.TypeError",
"unsupported type for timedelta microseconds component: str"
],
"ydus[datetime]._decode('5', ctx=ref_date)": [
"raised",
"builtins.TypeError",
"unsupported type for timedelta microseconds component: str"
],
"ydus[datetime]._decode(-1)": [
"returned",
[
"datetime",
"2018-12-31T23:59:59.999999",
"None",
0
]
],
"ydus[datetime]._decode(-86400000000)": [
"returned",
[
"datetime",
"2018-12-31T00:00:00",
"None",
0
]
],
"ydus[datetime]._decode(0)": [
"returned",
[
"datetime",
"2019-01-01T00:00:00",
"None",
0
]
],
"ydus[datetime]._decode(0, ctx=empty)": [
"returned",
[
"datetime",
"2019-01-01T00:00:00",
"None",
0
]
],
"ydus[datetime]._decode(0, ctx=nested)": [
"returned",
[
"datetime",
"2019-01-01T00:00:00",
"None",
0
]
],
"ydus[datetime]._decode(0, ctx=none)": [
"returned",
[
"datetime",
"2019-01-01T00:00:00",
"None",
0
]
],
"ydus[datetime]._decode(0, ctx=ref)": [
"returned",
[
"datetime",
"2019-01-01T00:00:00",
"None",
0
]
],
"ydus[datetime]._decode(0, ctx=ref_date)": [
"returned",
[
"datetime",
"2019-01-01T00:00:00",
"None",
0
]
],
"ydus[datetime]._decode(0.4)": [
"returned",
[
"datetime",
"2019-01-01T00:00:00",
"None",
0
]
],
"ydus[datetime]._decode(1)": [
"returned",
[
"datetime",
"2019-01-01T00:00:00.000001",
"None",
0
]
],
"ydus[datetime]._decode(1.5)": [
"returned",
[
"datetime",
"2019-01-01T00:00:00.000002",
"None",
0
]
],
"ydus[datetime]._decode(1000000000000000000000000000000)": [
"raised",
"builtins.OverflowError",
"Python int too large to convert to C int"
],
"ydus[datetime]._decode(1000000000000000000000000000000, ctx=empty)": [
"raised",
"builtins.OverflowError",
"Python int too large to convert to C int"
],
"ydus[datetime]._decode(1000000000000000000000000000000, ctx=nested)": [
"raised",
"builtins.OverflowError",
"Python int too large to convert to C int"
],
"ydus[datetime]._decode(1000000000000000000000000000000, ctx=none)": [
"raised",
"builtins.OverflowError",
"Python int too large to convert to C int"
],
"ydus[datetime]._decode(1000000000000000000000000000000, ctx=ref)": [
"raised",
"builtins.OverflowError",
"Python int too large to convert to C int"
],
"ydus[datetime]._decode(1000000000000000000000000000000, ctx=ref_date)": [
"raised",
"builtins.OverflowError",
"Python int too large to convert to C int"
],
"ydus[datetime]._decode(18446744073709551615)": [
"raised",
"builtins.OverflowError",
"date value out of range"
],
"ydus[datetime]._decode(40669000000)": [
"returned",
[
"datetime",
"2019-01-01T11:17:49",
"None",
0
]
],
"ydus[datetime]._decode(40669000001, ctx=empty)": [
"returned",
[
"datetime",
"2019-01-01T11:17:49.000001",
"None",
0
]
],
"ydus[datetime]._decode(40669000001, ctx=nested)": [
"returned",
[
"datetime",
"2019-01-01T11:17:49.000001",
"None",
0
]
],
"ydus[datetime]._decode(40669000001, ctx=none)": [
"returned",
[
"datetime",
"2019-01-01T11:17:49.000001",
"None",
0
]
],
"ydus[datetime]._decode(40669000001, ctx=ref)": [
"returned",
[
"datetime",
"2019-01-01T11:17:49.000001",
"None",
0
]
],
"ydus[datetime]._decode(40669000001, ctx=ref_date)": [
"returned",
[
"datetime",
"2019-01-01T11:17:49.000001",
"None",
0
]
],
"ydus[datetime]._decode(4294967296)": [
"returned",
[
"datetime",
"2019-01-01T01:11:34.967296",
"None",
0
]
],
"ydus[datetime]._decode(86399999999)": [
"returned",
[
"datetime",
"2019-01-01T23:59:59.999999",
"None",
0
]
],
"ydus[datetime]._decode(86400000000)": [
"returned",
[
"datetime",
"2019-01-02T00:00:00",
"None",
0
]
],
"ydus[datetime]._decode(86400000001)": [
"returned",
[
"datetime",
"2019-01-02T00:00:00.000001",
"None",
0
]
],
"ydus[datetime]._decode(9223372036854775808)": [
"raised",
"builtins.OverflowError",
"date value out of range"
],
"ydus[datetime]._decode(None)": [
"raised",
"builtins.TypeError",
"unsupported type for timedelta microseconds component: NoneType"
],
"ydus[datetime]._decode(True)": [
"returned",
[
"datetime",
"2019-01-01T00:00:00.000001",
"None",
0
]
],
"ydus[datetime]._decode([5])": [
"raised",
"builtins.TypeError",
"unsupported type for timedelta microseconds component: list"
],
"ydus[datetime]._decode(b'5')": [
"raised",
"builtins.TypeError",
"unsupported type for timedelta microseconds component: bytes"
],
"ydus[datetime]._decode(datetime.timedelta(seconds=1))": [
"raised",
"builtins.TypeError",
"unsupported type for timedelta microseconds component: datetime.timedelta"
],
"ydus[datetime]._decode(inf)": [
"raised",
"builtins.OverflowError",
"cannot convert float infinity to integer"
],
"ydus[datetime]._decode(nan)": [
"raised",
"builtins.ValueError",
"cannot convert float NaN to integer"
],
"ydus[datetime]._encode": [
"raised",
"builtins.NotImplementedError",
""
],
"ydus[datetime].build": [
"raised",
"builtins.NotImplementedError",
""
],
"ydus[datetime].parse(0)": [
"returned",
[
"datetime",
"2019-01-01T00:00:00",
"None",
0
]
],
"ydus[datetime].parse(1)": [
"returned",
[
"datetime",
"2019-01-01T00:00:00.000001",
"None",
0
]
],
"ydus[datetime].parse(18446744073709551615)": [
"raised",
"builtins.OverflowError",
"date value out of range"
],
"ydus[datetime].parse(40669000000)": [
"returned",
[
"datetime",
"2019-01-01T11:17:49",
"None",
0
]
],
"ydus[datetime].parse(86399999999)": [
"returned",
[
"datetime",
"2019-01-01T23:59:59.999999",
"None",
0
]
],
"ydus[datetime].parse(86400000000)": [
"returned",
[
"datetime",
"2019-01-02T00:00:00",
"None",
0
]
],
"ydus[datetime].parse(9223372036854775808)": [
"raised",
"builtins.OverflowError",
"date value out of range"
],
"ydus[datetime].parse(short)": [
"raised",
"construct.core.StreamError",
"Error in path (parsing)\nstream read less than specified amount, expected 8, found 7"
],
"ydus[datetime].sizeof": [
"returned",
[
"int",
8
]
],
"ydus[first]._decode('5')": [
"raised",
"builtins.TypeError",
"unsupported type for timedelta microseconds component: str"
],
"ydus[first]._decode('5', ctx=empty)": [
"raised",
"builtins.TypeError",
"unsupported type for timedelta microseconds component: str"
],
"ydus[first]._decode('5', ctx=nested)": [
"raised",
"builtins.TypeError",
"unsupported type for timedelta microseconds component: str"
],
"ydus[first]._decode('5', ctx=none)": [
"raised",
"builtins.TypeError",
"unsupported type for timedelta microseconds component: str"
],
"ydus[first]._decode('5', ctx=ref)": [
"raised",
"builtins.TypeError",
"unsupported type for timedelta microseconds component: str"
],
"ydus[first]._decode('5', ctx=ref_date)": [
"raised",
"builtins.TypeError",
"unsupported type for timedelta microseconds component: str"
],
"ydus[first]._decode(-1)": [
"raised",
"builtins.OverflowError",
"date value out of range"
],
"ydus[first]._decode(-86400000000)": [
"raised",
"builtins.OverflowError",
"date value out of range"
],
"ydus[first]._decode(0)": [
"returned",
[
"datetime",
"0001-01-01T00:00:00",
"None",
0
]
],
"ydus[first]._decode(0, ctx=empty)": [
"returned",
[
"datetime",
"0001-01-01T00:00:00",
"None",
0
]
],
"ydus[first]._decode(0, ctx=nested)": [
"returned",
[
"datetime",
"0001-01-01T00:00:00",
"None",
0
]
],
"ydus[first]._decode(0, ctx=none)": [
"returned",
[
"datetime",
"0001-01-01T00:00:00",
"None",
0
]
],
"ydus[first]._decode(0, ctx=ref)": [
"returned",
[
"datetime",
"0001-01-01T00:00:00",
"None",
0
]
],
"ydus[first]._decode(0, ctx=ref_date)": [
"returned",
[
"datetime",
"0001-01-01T00:00:00",
"None",
0
]
],
"ydus[first]._decode(0.4)": [
"returned",
[
"datetime",
"0001-01-01T00:00:00",
"None",
0
]
],
"ydus[first]._decode(1)": [
"returned",
[
"datetime",
"0001-01-01T00:00:00.000001",
"None",
0
]
],
"ydus[first]._decode(1.5)": [
"returned",
[
"datetime",
"0001-01-01T00:00:00.000002",
"None",
0
]
],
"ydus[first]._decode(1000000000000000000000000000000)": [
"raised",
"builtins.OverflowError",
"Python int too large to convert to C int"
],
"ydus[first]._decode(1000000000000000000000000000000, ctx=empty)": [
"raised",
"builtins.OverflowError",
"Python int too large to convert to C int"
],
"ydus[first]._decode(1000000000000000000000000000000, ctx=nested)": [
"raised",
"builtins.OverflowError",
"Python int too large to convert to C int"
],
"ydus[first]._decode(1000000000000000000000000000000, ctx=none)": [
"raised",
"builtins.OverflowError",
"Python int too large to convert to C int"
],
"ydus[first]._decode(1000000000000000000000000000000, ctx=ref)": [
"raised",
"builtins.OverflowError",
"Python int too large to convert to C int"
],
"ydus[first]._decode(1000000000000000000000000000000, ctx=ref_date)": [
"raised",
"builtins.OverflowError",
"Python int too large to convert to C int"
],
"ydus[first]._decode(18446744073709551615)": [
"raised",
"builtins.OverflowError",
"date value out of range"
],
"ydus[first]._decode(40669000000)": [
"returned",
[
"datetime",
"0001-01-01T11:17:49",
"None",
0
]
],
"ydus[first]._decode(40669000001, ctx=empty)": [
"returned",
[
"datetime",
"0001-01-01T11:17:49.000001",
"None",
0
]
],
"ydus[first]._decode(40669000001, ctx=nested)": [
"returned",
[
"datetime",
"0001-01-01T11:17:49.000001",
"None",
0
]
],
"ydus[first]._decode(40669000001, ctx=none)": [
"returned",
[
"datetime",
"0001-01-01T11:17:49.000001",
"None",
0
]
],
"ydus[first]._decode(40669000001, ctx=ref)": [
"returned",
[
"datetime",
"0001-01-01T11:17:49.000001",
"None",
0
]
],
"ydus[first]._decode(40669000001, ctx=ref_date)": [
"returned",
[
"datetime",
"0001-01-01T11:17:49.000001",
"None",
0
]
],
"ydus[first]._decode(4294967296)": [
"returned",
[
"datetime",
"0001-01-01T01:11:34.967296",
"None",
0
]
],
"ydus[first]._decode(86399999999)": [
"returned",
[
"datetime",
"0001-01-01T23:59:59.999999",
"None",
0
]
],
"ydus[first]._decode(86400000000)": [
"returned",
[
"datetime",
"0001-01-02T00:00:00",
"None",
0
]
],
"ydus[first]._decode(86400000001)": [
"returned",
[
"datetime",
"0001-01-02T00:00:00.000001",
"None",
0
]
],
"ydus[first]._decode(9223372036854775808)": [
"raised",
"builtins.OverflowError",
"date value out of range"
],
"ydus[first]._decode(None)": [
"raised",
"builtins.TypeError",
"unsupported type for timedelta microseconds component: NoneType"
],
"ydus[first]._decode(True)": [
"returned",
[
"datetime",
"0001-01-01T00:00:00.000001",
"None",
0
]
],
"ydus[first]._decode([5])": [
"raised",
"builtins.TypeError",
"unsupported type for timedelta microseconds component: list"
],
"ydus[first]._decode(b'5')": [
"raised",
"builtins.TypeError",
"unsupported type for timedelta microseconds component: bytes"
],
"ydus[first]._decode(datetime.timedelta(seconds=1))": [
"raised",
"builtins.TypeError",
"unsupported type for timedelta microseconds component: datetime.timedelta"
],
"ydus[first]._decode(inf)": [
"raised",
"builtins.OverflowError",
"cannot convert float infinity to integer"
],
"ydus[first]._decode(nan)": [
"raised",
"builtins.ValueError",
"cannot convert float NaN to integer"
],
"ydus[fold]._decode('5')": [
"raised",
"builtins.TypeError",
"unsupported type for timedelta microseconds component: str"
],
"ydus[fold]._decode('5', ctx=empty)": [
"raised",
"builtins.TypeError",
"unsupported type for timedelta microseconds component: str"
],
"ydus[fold]._decode('5', ctx=nested)": [
"raised",
"builtins.TypeError",
"unsupported type for timedelta microseconds component: str"
],
"ydus[fold]._decode('5', ctx=none)": [
"raised",
"builtins.TypeError",
"unsupported type for timedelta microseconds component: str"
],
"ydus[fold]._decode('5', ctx=ref)": [
"raised",
"builtins.TypeError",
"unsupported type for timedelta microseconds component: str"
],
"ydus[fold]._decode('5', ctx=ref_date)": [
"raised",
"builtins.TypeError",
"unsupported type for timedelta microseconds component: str"
],
"ydus[fold]._decode(-1)": [
"returned",
[
"datetime",
"2019-05-31T23:59:59.999999",
"None",
0
]
],
"ydus[fold]._decode(-86400000000)": [
"returned",
[
"datetime",
"2019-05-31T00:00:00",
"None",
0
]
],
"ydus[fold]._decode(0)": [
"returned",
[
"datetime",
"2019-06-01T00:00:00",
"None",
0
]
],
"ydus[fold]._decode(0, ctx=empty)": [
"returned",
[
"datetime",
"2019-06-01T00:00:00",
"None",
0
]
],
"ydus[fold]._decode(0, ctx=nested)": [
"returned",
[
"datetime",
"2019-06-01T00:00:00",
"None",
0
]
],
"ydus[fold]._decode(0, ctx=none)": [
"returned",
[
"datetime",
"2019-06-01T00:00:00",
"None",
0
]
],
"ydus[fold]._decode(0, ctx=ref)": [
"returned",
[
"datetime",
"2019-06-01T00:00:00",
"None",
0
]
],
"ydus[fold]._decode(0, ctx=ref_date)": [
"returned",
[
"datetime",
"2019-06-01T00:00:00",
"None",
0
]
],
"ydus[fold]._decode(0.4)": [
"returned",
[
"datetime",
"2019-06-01T00:00:00",
"None",
0
]
],
"ydus[fold]._decode(1)": [
"returned",
[
"datetime",
"2019-06-01T00:00:00.000001",
"None",
0
]
],
"ydus[fold]._decode(1.5)": [
"returned",
[
"datetime",
"2019-06-01T00:00:00.000002",
"None",
0
]
],
"ydus[fold]._decode(1000000000000000000000000000000)": [
"raised",
"builtins.OverflowError",
"Python int too large to convert to C int"
],
"ydus[fold]._decode(1000000000000000000000000000000, ctx=empty)": [
"raised",
"builtins.OverflowError",
"Python int too large to convert to C int"
],
"ydus[fold]._decode(1000000000000000000000000000000, ctx=nested)": [
"raised",
"builtins.OverflowError",
"Python int too large to convert to C int"
],
"ydus[fold]._decode(1000000000000000000000000000000, ctx=none)": [
"raised",
"builtins.OverflowError",
"Python int too large to convert to C int"
],
"ydus[fold]._decode(1000000000000000000000000000000, ctx=ref)": [
"raised",
"builtins.OverflowError",
"Python int too large to convert to C int"
],
"ydus[fold]._decode(1000000000000000000000000000000, ctx=ref_date)": [
"raised",
"builtins.OverflowError",
"Python int too large to convert to C int"
],
"ydus[fold]._decode(18446744073709551615)": [
"raised",
"builtins.OverflowError",
"date value out of range"
],
"ydus[fold]._decode(40669000000)": [
"returned",
[
"datetime",
"2019-06-01T11:17:49",
"None",
0
]
],
"ydus[fold]._decode(40669000001, ctx=empty)": [
"returned",
[
"datetime",
"2019-06-01T11:17:49.000001",
"None",
0
]
],
"ydus[fold]._decode(40669000001, ctx=nested)": [
"returned",
[
"datetime",
"2019-06-01T11:17:49.000001",
"None",
0
]
],
"ydus[fold]._decode(40669000001, ctx=none)": [
"returned",
[
"datetime",
"2019-06-01T11:17:49.000001",
"None",
0
]
],
"ydus[fold]._decode(40669000001, ctx=ref)": [
"returned",
[
"datetime",
"2019-06-01T11:17:49.000001",
"None",
0
]
],
"ydus[fold]._decode(40669000001, ctx=ref_date)": [
"returned",
[
"datetime",
"2019-06-01T11:17:49.000001",
"None",
0
]
],
"ydus[fold]._decode(4294967296)": [
"returned",
[
"datetime",
"2019-06-01T01:11:34.967296",
"None",
0
]
],
"ydus[fold]._decode(86399999999)": [
"returned",
[
"datetime",
"2019-06-01T23:59:59.999999",
"None",
0
]
],
"ydus[fold]._decode(86400000000)": [
"returned",
[
"datetime",
"2019-06-02T00:00:00",
"None",
0
]
],
"ydus[fold]._decode(86400000001)": [
"returned",
[
"datetime",
"2019-06-02T00:00:00.000001",
"None",
0
]
],
"ydus[fold]._decode(9223372036854775808)": [
"raised",
"builtins.OverflowError",
"date value out of range"
],
"ydus[fold]._decode(None)": [
"raised",
"builtins.TypeError",
"unsupported type for timedelta microseconds component: NoneType"
],
"ydus[fold]._decode(True)": [
"returned",
[
"datetime",
"2019-06-01T00:00:00.000001",
"None",
0
]
],
"ydus[fold]._decode([5])": [
"raised",
"builtins.TypeError",
"unsupported type for timedelta microseconds component: list"
],
"ydus[fold]._decode(b'5')": [
"raised",
"builtins.TypeError",
"unsupported type for timedelta microseconds component: bytes"
],
"ydus[fold]._decode(datetime.timedelta(seconds=1))": [
"raised",
"builtins.TypeError",
"unsupported type for timedelta microseconds component: datetime.timedelta"
],
"ydus[fold]._decode(inf)": [
"raised",
"builtins.OverflowError",
"cannot convert float infinity to integer"
],
"ydus[fold]._decode(nan)": [
"raised",
"builtins.ValueError",
"cannot convert float NaN to integer"
],
"ydus[int]._decode('5', ctx=empty)": [
"raised",
"builtins.AttributeError",
"'int' object has no attribute 'date'"
],
"ydus[int]._decode('5', ctx=nested)": [
"raised",
"builtins.AttributeError",
"'int' object has no attribute 'date'"
],
"ydus[int]._decode('5', ctx=none)": [
"raised",
"builtins.AttributeError",
"'int' object has no attribute 'date'"
],
"ydus[int]._decode('5', ctx=ref)": [
"raised",
"builtins.AttributeError",
"'int' object has no attribute 'date'"
],
"ydus[int]._decode('5', ctx=ref_date)": [
"raised",
"builtins.AttributeError",
"'int' object has no attribute 'date'"
],
"ydus[int]._decode(0, ctx=empty)": [
"raised",
"builtins.AttributeError",
"'int' object has no attribute 'date'"
],
"ydus[int]._decode(0, ctx=nested)": [
"raised",
"builtins.AttributeError",
"'int' object has no attribute 'date'"
],
"ydus[int]._decode(0, ctx=none)": [
"raised",
"builtins.AttributeError",
"'int' object has no attribute 'date'"
],
"ydus[int]._decode(0, ctx=ref)": [
"raised",
"builtins.AttributeError",
"'int' object has no attribute 'date'"
],
"ydus[int]._decode(0, ctx=ref_date)": [
"raised",
"builtins.AttributeError",
"'int' object has no attribute 'date'"
],
"ydus[int]._decode(1000000000000000000000000000000, ctx=empty)": [
"raised",
"builtins.AttributeError",
"'int' object has no attribute 'date'"
],
"ydus[int]._decode(1000000000000000000000000000000, ctx=nested)": [
"raised",
"builtins.AttributeError",
"'int' object has no attribute 'date'"
],
"ydus[int]._decode(1000000000000000000000000000000, ctx=none)": [
"raised",
"builtins.AttributeError",
"'int' object has no attribute 'date'"
],
"ydus[int]._decode(1000000000000000000000000000000, ctx=ref)": [
"raised",
"builtins.AttributeError",
"'int' object has no attribute 'date'"
],
"ydus[int]._decode(1000000000000000000000000000000, ctx=ref_date)": [
"raised",
"builtins.AttributeError",
"'int' object has no attribute 'date'"
],
"ydus[int]._decode(40669000001, ctx=empty)": [
"raised",
"builtins.AttributeError",
"'int' object has no attribute 'date'"
],
"ydus[int]._decode(40669000001, ctx=nested)": [
"raised",
"builtins.AttributeError",
"'int' object has no attribute 'date'"
],
"ydus[int]._decode(40669000001, ctx=none)": [
"raised",
"builtins.AttributeError",
"'int' object has no attribute 'date'"
],
"ydus[int]._decode(40669000001, ctx=ref)": [
"raised",
"builtins.AttributeError",
"'int' object has no attribute 'date'"
],
"ydus[int]._decode(40669000001, ctx=ref_date)": [
"raised",
"builtins.AttributeError",
"'int' object has no attribute 'date'"
],
"ydus[lambda]._decode('5')": [
"raised",
"builtins.TypeError",
"unsupported type for timedelta microseconds component: str"
],
"ydus[lambda]._decode('5', ctx=empty)": [
"raised",
"builtins.TypeError",
"unsupported type for timedelta microseconds component: str"
],
"ydus[lambda]._decode('5', ctx=nested)": [
"raised",
"builtins.TypeError",
"unsupported type for timedelta microseconds component: str"
],
"ydus[lambda]._decode('5', ctx=none)": [
"raised",
"builtins.TypeError",
"unsupported type for timedelta microseconds component: str"
],
"ydus[lambda]._decode('5', ctx=ref)": [
"raised",
"builtins.TypeError",
"unsupported type for timedelta microseconds component: str"
],
"ydus[lambda]._decode('5', ctx=ref_date)": [
"raised",
"builtins.TypeError",
"unsupported type for timedelta microseconds component: str"
],
"ydus[lambda]._decode(-1)": [
"returned",
[
"datetime",
"2010-10-09T23:59:59.999999",
"None",
0
]
],
"ydus[lambda]._decode(-86400000000)": [
"returned",
[
"datetime",
"2010-10-09T00:00:00",
"None",
0
]
],
"ydus[lambda]._decode(0)": [
"returned",
[
"datetime",
"2010-10-10T00:00:00",
"None",
0
]
],
"ydus[lambda]._decode(0, ctx=empty)": [
"returned",
[
"datetime",
"2010-10-10T00:00:00",
"None",
0
]
],
"ydus[lambda]._decode(0, ctx=nested)": [
"returned",
[
"datetime",
"2010-10-10T00:00:00",
"None",
0
]
],
"ydus[lambda]._decode(0, ctx=none)": [
"returned",
[
"datetime",
"2010-10-10T00:00:00",
"None",
0
]
],
"ydus[lambda]._decode(0, ctx=ref)": [
"returned",
[
"datetime",
"2010-10-10T00:00:00",
"None",
0
]
],
"ydus[lambda]._decode(0, ctx=ref_date)": [
"returned",
[
"datetime",
"2010-10-10T00:00:00",
"None",
0
]
],
"ydus[lambda]._decode(0.4)": [
"returned",
[
"datetime",
"2010-10-10T00:00:00",
"None",
0
]
],
"ydus[lambda]._decode(1)": [
"returned",
[
"datetime",
"2010-10-10T00:00:00.000001",
"None",
0
]
],
"ydus[lambda]._decode(1.5)": [
"returned",
[
"datetime",
"2010-10-10T00:00:00.000002",
"None",
0
]
],
"ydus[lambda]._decode(1000000000000000000000000000000)": [
"raised",
"builtins.OverflowError",
"Python int too large to convert to C int"
],
"ydus[lambda]._decode(1000000000000000000000000000000, ctx=empty)": [
"raised",
"builtins.OverflowError",
"Python int too large to convert to C int"
],
"ydus[lambda]._decode(1000000000000000000000000000000, ctx=nested)": [
"raised",
"builtins.OverflowError",
"Python int too large to convert to C int"
],
"ydus[lambda]._decode(1000000000000000000000000000000, ctx=none)": [
"raised",
"builtins.OverflowError",
"Python int too large to convert to C int"
],
"ydus[lambda]._decode(1000000000000000000000000000000, ctx=ref)": [
"raised",
"builtins.OverflowError",
"Python int too large to convert to C int"
],
"ydus[lambda]._decode(1000000000000000000000000000000, ctx=ref_date)": [
"raised",
"builtins.OverflowError",
"Python int too large to convert to C int"
],
"ydus[lambda]._decode(18446744073709551615)": [
"raised",
"builtins.OverflowError",
"date value out of range"
],
"ydus[lambda]._decode(40669000000)": [
"returned",
[
"datetime",
"2010-10-10T11:17:49",
"None",
0
]
],
"ydus[lambda]._decode(40669000001, ctx=empty)": [
"returned",
[
"datetime",
"2010-10-10T11:17:49.000001",
"None",
0
]
],
"ydus[lambda]._decode(40669000001, ctx=nested)": [
"returned",
[
"datetime",
"2010-10-10T11:17:49.000001",
"None",
0
]
],
"ydus[lambda]._decode(40669000001, ctx=none)": [
"returned",
[
"datetime",
"2010-10-10T11:17:49.000001",
"None",
0
]
],
"ydus[lambda]._decode(40669000001, ctx=ref)": [
"returned",
[
"datetime",
"2010-10-10T11:17:49.000001",
"None",
0
]
],
"ydus[lambda]._decode(40669000001, ctx=ref_date)": [
"returned",
[
"datetime",
"2010-10-10T11:17:49.000001",
"None",
0
]
],
"ydus[lambda]._decode(4294967296)": [
"returned",
[
"datetime",
"2010-10-10T01:11:34.967296",
"None",
0
]
],
"ydus[lambda]._decode(86399999999)": [
"returned",
[
"datetime",
"2010-10-10T23:59:59.999999",
"None",
0
]
],
"ydus[lambda]._decode(86400000000)": [
"returned",
[
"datetime",
"2010-10-11T00:00:00",
"None",
0
]
],
"ydus[lambda]._decode(86400000001)": [
"returned",
[
"datetime",
"2010-10-11T00:00:00.000001",
"None",
0
]
],
"ydus[lambda]._decode(9223372036854775808)": [
"raised",
"builtins.OverflowError",
"date value out of range"
],
"ydus[lambda]._decode(None)": [
"raised",
"builtins.TypeError",
"unsupported type for timedelta microseconds component: NoneType"
],
"ydus[lambda]._decode(True)": [
"returned",
[
"datetime",
"2010-10-10T00:00:00.000001",
"None",
0
]
],
"ydus[lambda]._decode([5])": [
"raised",
"builtins.TypeError",
"unsupported type for timedelta microseconds component: list"
],
"ydus[lambda]._decode(b'5')": [
"raised",
"builtins.TypeError",
"unsupported type for timedelta microseconds component: bytes"
],
"ydus[lambda]._decode(datetime.timedelta(seconds=1))": [
"raised",
"builtins.TypeError",
"unsupported type for timedelta microseconds component: datetime.timedelta"
],
"ydus[lambda]._decode(inf)": [
"raised",
"builtins.OverflowError",
"cannot convert float infinity to integer"
],
"ydus[lambda]._decode(nan)": [
"raised",
"builtins.ValueError",
"cannot convert float NaN to integer"
],
"ydus[lambda]._encode": [
"raised",
"builtins.NotImplementedError",
""
],
"ydus[lambda].build": [
"raised",
"builtins.NotImplementedError",
""
],
"ydus[lambda].parse(0)": [
"returned",
[
"datetime",
"2010-10-10T00:00:00",
"None",
0
]
],
"ydus[lambda].parse(1)": [
"returned",
[
"datetime",
"2010-10-10T00:00:00.000001",
"None",
0
]
],
"ydus[lambda].parse(18446744073709551615)": [
"raised",
"builtins.OverflowError",
"date value out of range"
],
"ydus[lambda].parse(40669000000)": [
"returned",
[
"datetime",
"2010-10-10T11:17:49",
"None",
0
]
],
"ydus[lambda].parse(86399999999)": [
"returned",
[
"datetime",
"2010-10-10T23:59:59.999999",
"None",
0
]
],
"ydus[lambda].parse(86400000000)": [
"returned",
[
"datetime",
"2010-10-11T00:00:00",
"None",
0
]
],
"ydus[lambda].parse(9223372036854775808)": [
"raised",
"builtins.OverflowError",
"date value out of range"
],
"ydus[lambda].parse(short)": [
"raised",
"construct.core.StreamError",
"Error in path (parsing)\nstream read less than specified amount, expected 8, found 7"
],
"ydus[lambda].sizeof": [
"returned",
[
"int",
8
]
],
"ydus[lambda_context]._decode('5', ctx=empty)": [
"raised",
"builtins.KeyError",
"'ref'"
],
"ydus[lambda_context]._decode('5', ctx=nested)": [
"raised",
"builtins.KeyError",
"'ref'"
],
"ydus[lambda_context]._decode('5', ctx=none)": [
"raised",
"builtins.TypeError",
"'NoneType' object is not subscriptable"
],
"ydus[lambda_context]._decode('5', ctx=ref)": [
"raised",
"builtins.TypeError",
"unsupported type for timedelta microseconds component: str"
],
"ydus[lambda_context]._decode('5', ctx=ref_date)": [
"raised",
"builtins.AttributeError",
"'datetime.date' object has no attribute 'date'"
],
"ydus[lambda_context]._decode(0, ctx=empty)": [
"raised",
"builtins.KeyError",
"'ref'"
],
"ydus[lambda_context]._decode(0, ctx=nested)": [
"raised",
"builtins.KeyError",
"'ref'"
],
"ydus[lambda_context]._decode(0, ctx=none)": [
"raised",
"builtins.TypeError",
"'NoneType' object is not subscriptable"
],
"ydus[lambda_context]._decode(0, ctx=ref)": [
"returned",
[
"datetime",
"2015-05-05T00:00:00",
"None",
0
]
],
"ydus[lambda_context]._decode(0, ctx=ref_date)": [
"raised",
"builtins.AttributeError",
"'datetime.date' object has no attribute 'date'"
],
"ydus[lambda_context]._decode(1000000000000000000000000000000, ctx=empty)": [
"raised",
"builtins.KeyError",
"'ref'"
],
"ydus[lambda_context]._decode(1000000000000000000000000000000, ctx=nested)": [
"raised",
"builtins.KeyError",
"'ref'"
],
"ydus[lambda_context]._decode(1000000000000000000000000000000, ctx=none)": [
"raised",
"builtins.TypeError",
"'NoneType' object is not subscriptable"
],
"ydus[lambda_context]._decode(1000000000000000000000000000000, ctx=ref)": [
"raised",
"builtins.OverflowError",
"Python int too large to convert to C int"
],
"ydus[lambda_context]._decode(1000000000000000000000000000000, ctx=ref_date)": [
"raised",
"builtins.AttributeError",
"'datetime.date' object has no attribute 'date'"
],
"ydus[lambda_context]._decode(40669000001, ctx=empty)": [
"raised",
"builtins.KeyError",
"'ref'"
],
"ydus[lambda_context]._decode(40669000001, ctx=nested)": [
"raised",
"builtins.KeyError",
"'ref'"
],
"ydus[lambda_context]._decode(40669000001, ctx=none)": [
"raised",
"builtins.TypeError",
"'NoneType' object is not subscriptable"
],
"ydus[lambda_context]._decode(40669000001, ctx=ref)": [
"returned",
[
"datetime",
"2015-05-05T11:17:49.000001",
"None",
0
]
],
"ydus[lambda_context]._decode(40669000001, ctx=ref_date)": [
"raised",
"builtins.AttributeError",
"'datetime.date' object has no attribute 'date'"
],
"ydus[lambda_lambda]._decode('5', ctx=empty)": [
"raised",
"builtins.AttributeError",
"'function' object has no attribute 'date'"
],
"ydus[lambda_lambda]._decode('5', ctx=nested)": [
"raised",
"builtins.AttributeError",
"'function' object has no attribute 'date'"
],
"ydus[lambda_lambda]._decode('5', ctx=none)": [
"raised",
"builtins.AttributeError",
"'function' object has no attribute 'date'"
],
"ydus[lambda_lambda]._decode('5', ctx=ref)": [
"raised",
"builtins.AttributeError",
"'function' object has no attribute 'date'"
],
"ydus[lambda_lambda]._decode('5', ctx=ref_date)": [
"raised",
"builtins.AttributeError",
"'function' object has no attribute 'date'"
],
"ydus[lambda_lambda]._decode(0, ctx=empty)": [
"raised",
"builtins.AttributeError",
"'function' object has no attribute 'date'"
],
"ydus[lambda_lambda]._decode(0, ctx=nested)": [
"raised",
"builtins.AttributeError",
"'function' object has no attribute 'date'"
],
"ydus[lambda_lambda]._decode(0, ctx=none)": [
"raised",
"builtins.AttributeError",
"'function' object has no attribute 'date'"
],
"ydus[lambda_lambda]._decode(0, ctx=ref)": [
"raised",
"builtins.AttributeError",
"'function' object has no attribute 'date'"
],
"ydus[lambda_lambda]._decode(0, ctx=ref_date)": [
"raised",
"builtins.AttributeError",
"'function' object has no attribute 'date'"
],
"ydus[lambda_lambda]._decode(1000000000000000000000000000000, ctx=empty)": [
"raised",
"builtins.AttributeError",
"'function' object has no attribute 'date'"
],
"ydus[lambda_lambda]._decode(1000000000000000000000000000000, ctx=nested)": [
"raised",
"builtins.AttributeError",
"'function' object has no attribute 'date'"
],
"ydus[lambda_lambda]._decode(1000000000000000000000000000000, ctx=none)": [
"raised",
"builtins.AttributeError",
"'function' object has no attribute 'date'"
],
"ydus[lambda_lambda]._decode(1000000000000000000000000000000, ctx=ref)": [
"raised",
"builtins.AttributeError",
"'function' object has no attribute 'date'"
],
"ydus[lambda_lambda]._decode(1000000000000000000000000000000, ctx=ref_date)": [
"raised",
"builtins.AttributeError",
"'function' object has no attribute 'date'"
],
"ydus[lambda_lambda]._decode(40669000001, ctx=empty)": [
"raised",
"builtins.AttributeError",
"'function' object has no attribute 'date'"
],
"ydus[lambda_lambda]._decode(40669000001, ctx=nested)": [
"raised",
"builtins.AttributeError",
"'function' object has no attribute 'date'"
],
"ydus[lambda_lambda]._decode(40669000001, ctx=none)": [
"raised",
"builtins.AttributeError",
"'function' object has no attribute 'date'"
],
"ydus[lambda_lambda]._decode(40669000001, ctx=ref)": [
"raised",
"builtins.AttributeError",
"'function' object has no attribute 'date'"
],
"ydus[lambda_lambda]._decode(40669000001, ctx=ref_date)": [
"raised",
"builtins.AttributeError",
"'function' object has no attribute 'date'"
],
"ydus[lambda_noargs]._decode('5', ctx=empty)": [
"raised",
"builtins.TypeError",
"<lambda>() takes 0 positional arguments but 1 was given"
],
"ydus[lambda_noargs]._decode('5', ctx=nested)": [
"raised",
"builtins.TypeError",
"<lambda>() takes 0 positional arguments but 1 was given"
],
"ydus[lambda_noargs]._decode('5', ctx=none)": [
"raised",
"builtins.TypeError",
"<lambda>() takes 0 positional arguments but 1 was given"
],
"ydus[lambda_noargs]._decode('5', ctx=ref)": [
"raised",
"builtins.TypeError",
"<lambda>() takes 0 positional arguments but 1 was given"
],
"ydus[lambda_noargs]._decode('5', ctx=ref_date)": [
"raised",
"builtins.TypeError",
"<lambda>() takes 0 positional arguments but 1 was given"
],
"ydus[lambda_noargs]._decode(0, ctx=empty)": [
"raised",
"builtins.TypeError",
"<lambda>() takes 0 positional arguments but 1 was given"
],
"ydus[lambda_noargs]._decode(0, ctx=nested)": [
"raised",
"builtins.TypeError",
"<lambda>() takes 0 positional arguments but 1 was given"
],
"ydus[lambda_noargs]._decode(0, ctx=none)": [
"raised",
"builtins.TypeError",
"<lambda>() takes 0 positional arguments but 1 was given"
],
"ydus[lambda_noargs]._decode(0, ctx=ref)": [
"raised",
"builtins.TypeError",
"<lambda>() takes 0 positional arguments but 1 was given"
],
"ydus[lambda_noargs]._decode(0, ctx=ref_date)": [
"raised",
"builtins.TypeError",
"<lambda>() takes 0 positional arguments but 1 was given"
],
"ydus[lambda_noargs]._decode(1000000000000000000000000000000, ctx=empty)": [
"raised",
"builtins.TypeError",
"<lambda>() takes 0 positional arguments but 1 was given"
],
"ydus[lambda_noargs]._decode(1000000000000000000000000000000, ctx=nested)": [
"raised",
"builtins.TypeError",
"<lambda>() takes 0 positional arguments but 1 was given"
],
"ydus[lambda_noargs]._decode(1000000000000000000000000000000, ctx=none)": [
"raised",
"builtins.TypeError",
"<lambda>() takes 0 positional arguments but 1 was given"
],
"ydus[lambda_noargs]._decode(1000000000000000000000000000000, ctx=ref)": [
"raised",
"builtins.TypeError",
"<lambda>() takes 0 positional arguments but 1 was given"
],
"ydus[lambda_noargs]._decode(1000000000000000000000000000000, ctx=ref_date)": [
"raised",
"builtins.TypeError",
"<lambda>() takes 0 positional arguments but 1 was given"
],
"ydus[lambda_noargs]._decode(40669000001, ctx=empty)": [
"raised",
"builtins.TypeError",
"<lambda>() takes 0 positional arguments but 1 was given"
],
"ydus[lambda_noargs]._decode(40669000001, ctx=nested)": [
"raised",
"builtins.TypeError",
"<lambda>() takes 0 positional arguments but 1 was given"
],
"ydus[lambda_noargs]._decode(40669000001, ctx=none)": [
"raised",
"builtins.TypeError",
"<lambda>() takes 0 positional arguments but 1 was given"
],
"ydus[lambda_noargs]._decode(40669000001, ctx=ref)": [
"raised",
"builtins.TypeError",
"<lambda>() takes 0 positional arguments but 1 was given"
],
"ydus[lambda_noargs]._decode(40669000001, ctx=ref_date)": [
"raised",
"builtins.TypeError",
"<lambda>() takes 0 positional arguments but 1 was given"
],
"ydus[lambda_none]._decode('5', ctx=empty)": [
"raised",
"builtins.AttributeError",
"'NoneType' object has no attribute 'date'"
],
"ydus[lambda_none]._decode('5', ctx=nested)": [
"raised",
"builtins.AttributeError",
"'NoneType' object has no attribute 'date'"
],
"ydus[lambda_none]._decode('5', ctx=none)": [
"raised",
"builtins.AttributeError",
"'NoneType' object has no attribute 'date'"
],
"ydus[lambda_none]._decode('5', ctx=ref)": [
"raised",
"builtins.AttributeError",
"'NoneType' object has no attribute 'date'"
],
"ydus[lambda_none]._decode('5', ctx=ref_date)": [
"raised",
"builtins.AttributeError",
"'NoneType' object has no attribute 'date'"
],
"ydus[lambda_none]._decode(0, ctx=empty)": [
"raised",
"builtins.AttributeError",
"'NoneType' object has no attribute 'date'"
],
"ydus[lambda_none]._decode(0, ctx=nested)": [
"raised",
"builtins.AttributeError",
"'NoneType' object has no attribute 'date'"
],
"ydus[lambda_none]._decode(0, ctx=none)": [
"raised",
"builtins.AttributeError",
"'NoneType' object has no attribute 'date'"
],
"ydus[lambda_none]._decode(0, ctx=ref)": [
"raised",
"builtins.AttributeError",
"'NoneType' object has no attribute 'date'"
],
"ydus[lambda_none]._decode(0, ctx=ref_date)": [
"raised",
"builtins.AttributeError",
"'NoneType' object has no attribute 'date'"
],
"ydus[lambda_none]._decode(1000000000000000000000000000000, ctx=empty)": [
"raised",
"builtins.AttributeError",
"'NoneType' object has no attribute 'date'"
],
"ydus[lambda_none]._decode(1000000000000000000000000000000, ctx=nested)": [
"raised",
"builtins.AttributeError",
"'NoneType' object has no attribute 'date'"
],
"ydus[lambda_none]._decode(1000000000000000000000000000000, ctx=none)": [
"raised",
"builtins.AttributeError",
"'NoneType' object has no attribute 'date'"
],
"ydus[lambda_none]._decode(1000000000000000000000000000000, ctx=ref)": [
"raised",
"builtins.AttributeError",
"'NoneType' object has no attribute 'date'"
],
"ydus[lambda_none]._decode(1000000000000000000000000000000, ctx=ref_date)": [
"raised",
"builtins.AttributeError",
"'NoneType' object has no attribute 'date'"
],
"ydus[lambda_none]._decode(40669000001, ctx=empty)": [
"raised",
"builtins.AttributeError",
"'NoneType' object has no attribute 'date'"
],
"ydus[lambda_none]._decode(40669000001, ctx=nested)": [
"raised",
"builtins.AttributeError",
"'NoneType' object has no attribute 'date'"
],
"ydus[lambda_none]._decode(40669000001, ctx=none)": [
"raised",
"builtins.AttributeError",
"'NoneType' object has no attribute 'date'"
],
"ydus[lambda_none]._decode(40669000001, ctx=ref)": [
"raised",
"builtins.AttributeError",
"'NoneType' object has no attribute 'date'"
],
"ydus[lambda_none]._decode(40669000001, ctx=ref_date)": [
"raised",
"builtins.AttributeError",
"'NoneType' object has no attribute 'date'"
],
"ydus[last]._decode('5')": [
"raised",
"builtins.TypeError",
"unsupported type for timedelta microseconds component: str"
],
"ydus[last]._decode('5', ctx=empty)": [
"raised",
"builtins.TypeError",
"unsupported type for timedelta microseconds component: str"
],
"ydus[last]._decode('5', ctx=nested)": [
"raised",
"builtins.TypeError",
"unsupported type for timedelta microseconds component: str"
],
"ydus[last]._decode('5', ctx=none)": [
"raised",
"builtins.TypeError",
"unsupported type for timedelta microseconds component: str"
],
"ydus[last]._decode('5', ctx=ref)": [
"raised",
"builtins.TypeError",
"unsupported type for timedelta microseconds component: str"
],
"ydus[last]._decode('5', ctx=ref_date)": [
"raised",
"builtins.TypeError",
"unsupported type for timedelta microseconds component: str"
],
"ydus[last]._decode(-1)": [
"returned",
[
"datetime",
"9999-12-30T23:59:59.999999",
"None",
0
]
],
"ydus[last]._decode(-86400000000)": [
"returned",
[
"datetime",
"9999-12-30T00:00:00",
"None",
0
]
],
"ydus[last]._decode(0)": [
"returned",
[
"datetime",
"9999-12-31T00:00:00",
"None",
0
]
],
"ydus[last]._decode(0, ctx=empty)": [
"returned",
[
"datetime",
"9999-12-31T00:00:00",
"None",
0
]
],
"ydus[last]._decode(0, ctx=nested)": [
"returned",
[
"datetime",
"9999-12-31T00:00:00",
"None",
0
]
],
"ydus[last]._decode(0, ctx=none)": [
"returned",
[
"datetime",
"9999-12-31T00:00:00",
"None",
0
]
],
"ydus[last]._decode(0, ctx=ref)": [
"returned",
[
"datetime",
"9999-12-31T00:00:00",
"None",
0
]
],
"ydus[last]._decode(0, ctx=ref_date)": [
"returned",
[
"datetime",
"9999-12-31T00:00:00",
"None",
0
]
],
"ydus[last]._decode(0.4)": [
"returned",
[
"datetime",
"9999-12-31T00:00:00",
"None",
0
]
],
"ydus[last]._decode(1)": [
"returned",
[
"datetime",
"9999-12-31T00:00:00.000001",
"None",
0
]
],
"ydus[last]._decode(1.5)": [
"returned",
[
"datetime",
"9999-12-31T00:00:00.000002",
"None",
0
]
],
"ydus[last]._decode(1000000000000000000000000000000)": [
"raised",
"builtins.OverflowError",
"Python int too large to convert to C int"
],
"ydus[last]._decode(1000000000000000000000000000000, ctx=empty)": [
"raised",
"builtins.OverflowError",
"Python int too large to convert to C int"
],
"ydus[last]._decode(1000000000000000000000000000000, ctx=nested)": [
"raised",
"builtins.OverflowError",
"Python int too large to convert to C int"
],
"ydus[last]._decode(1000000000000000000000000000000, ctx=none)": [
"raised",
"builtins.OverflowError",
"Python int too large to convert to C int"
],
"ydus[last]._decode(1000000000000000000000000000000, ctx=ref)": [
"raised",
"builtins.OverflowError",
"Python int too large to convert to C int"
],
"ydus[last]._decode(1000000000000000000000000000000, ctx=ref_date)": [
"raised",
"builtins.OverflowError",
"Python int too large to convert to C int"
],
"ydus[last]._decode(18446744073709551615)": [
"raised",
"builtins.OverflowError",
"date value out of range"
],
"ydus[last]._decode(40669000000)": [
"returned",
[
"datetime",
"9999-12-31T11:17:49",
"None",
0
]
],
"ydus[last]._decode(40669000001, ctx=empty)": [
"returned",
[
"datetime",
"9999-12-31T11:17:49.000001",
"None",
0
]
],
"ydus[last]._decode(40669000001, ctx=nested)": [
"returned",
[
"datetime",
"9999-12-31T11:17:49.000001",
"None",
0
]
],
"ydus[last]._decode(40669000001, ctx=none)": [
"returned",
[
"datetime",
"9999-12-31T11:17:49.000001",
"None",
0
]
],
"ydus[last]._decode(40669000001, ctx=ref)": [
"returned",
[
"datetime",
"9999-12-31T11:17:49.000001",
"None",
0
]
],
"ydus[last]._decode(40669000001, ctx=ref_date)": [
"returned",
[
"datetime",
"9999-12-31T11:17:49.000001",
"None",
0
]
],
"ydus[last]._decode(4294967296)": [
"returned",
[
"datetime",
"9999-12-31T01:11:34.967296",
"None",
0
]
],
"ydus[last]._decode(86399999999)": [
"returned",
[
"datetime",
"9999-12-31T23:59:59.999999",
"None",
0
]
],
"ydus[last]._decode(86400000000)": [
"raised",
"builtins.OverflowError",
"date value out of range"
],
"ydus[last]._decode(86400000001)": [
"raised",
"builtins.OverflowError",
"date value out of range"
],
"ydus[last]._decode(9223372036854775808)": [
"raised",
"builtins.OverflowError",
"date value out of range"
],
"ydus[last]._decode(None)": [
"raised",
"builtins.TypeError",
"unsupported type for timedelta microseconds component: NoneType"
],
"ydus[last]._decode(True)": [
"returned",
[
"datetime",
"9999-12-31T00:00:00.000001",
"None",
0
]
],
"ydus[last]._decode([5])": [
"raised",
"builtins.TypeError",
"unsupported type for timedelta microseconds component: list"
],
"ydus[last]._decode(b'5')": [
"raised",
"builtins.TypeError",
"unsupported type for timedelta microseconds component: bytes"
],
"ydus[last]._decode(datetime.timedelta(seconds=1))": [
"raised",
"builtins.TypeError",
"unsupported type for timedelta microseconds component: datetime.timedelta"
],
"ydus[last]._decode(inf)": [
"raised",
"builtins.OverflowError",
"cannot convert float infinity to integer"
],
"ydus[last]._decode(nan)": [
"raised",
"builtins.ValueError",
"cannot convert float NaN to integer"
],
"ydus[last]._encode": [
"raised",
"builtins.NotImplementedError",
""
],
"ydus[last].build": [
"raised",
"builtins.NotImplementedError",
""
],
"ydus[last].parse(0)": [
"returned",
[
"datetime",
"9999-12-31T00:00:00",
"None",
0
]
],
"ydus[last].parse(1)": [
"returned",
[
"datetime",
"9999-12-31T00:00:00.000001",
"None",
0
]
],
"ydus[last].parse(18446744073709551615)": [
"raised",
"builtins.OverflowError",
"date value out of range"
],
"ydus[last].parse(40669000000)": [
"returned",
[
"datetime",
"9999-12-31T11:17:49",
"None",
0
]
],
"ydus[last].parse(86399999999)": [
"returned",
[
"datetime",
"9999-12-31T23:59:59.999999",
"None",
0
]
],
"ydus[last].parse(86400000000)": [
"raised",
"builtins.OverflowError",
"date value out of range"
],
"ydus[last].parse(9223372036854775808)": [
"raised",
"builtins.OverflowError",
"date value out of range"
],
"ydus[last].parse(short)": [
"raised",
"construct.core.StreamError",
"Error in path (parsing)\nstream read less than specified amount, expected 8, found 7"
],
"ydus[last].sizeof": [
"returned",
[
"int",
8
]
],
"ydus[logging]._decode(int)": [
"returned",
[
"datetime",
"2001-02-03T00:00:00.000012",
"None",
0
]
],
"ydus[logging]._decode(int).log": [
"date()"
],
"ydus[logging]._decode(logging)": [
"raised",
"builtins.TypeError",
"unsupported type for timedelta microseconds component: LoggingMicroseconds"
],
"ydus[logging]._decode(logging).log": [
"date()"
],
"ydus[midnight]._decode('5')": [
"raised",
"builtins.TypeError",
"unsupported type for timedelta microseconds component: str"
],
"ydus[midnight]._decode('5', ctx=empty)": [
"raised",
"builtins.TypeError",
"unsupported type for timedelta microseconds component: str"
],
"ydus[midnight]._decode('5', ctx=nested)": [
"raised",
"builtins.TypeError",
"unsupported type for timedelta microseconds component: str"
],
"ydus[midnight]._decode('5', ctx=none)": [
"raised",
"builtins.TypeError",
"unsupported type for timedelta microseconds component: str"
],
"ydus[midnight]._decode('5', ctx=ref)": [
"raised",
"builtins.TypeError",
"unsupported type for timedelta microseconds component: str"
],
"ydus[midnight]._decode('5', ctx=ref_date)": [
"raised",
"builtins.TypeError",
"unsupported type for timedelta microseconds component: str"
],
"ydus[midnight]._decode(-1)": [
"returned",
[
"datetime",
"2020-02-28T23:59:59.999999",
"None",
0
]
],
"ydus[midnight]._decode(-86400000000)": [
"returned",
[
"datetime",
"2020-02-28T00:00:00",
"None",
0
]
],
"ydus[midnight]._decode(0)": [
"returned",
[
"datetime",
"2020-02-29T00:00:00",
"None",
0
]
],
"ydus[midnight]._decode(0, ctx=empty)": [
"returned",
[
"datetime",
"2020-02-29T00:00:00",
"None",
0
]
],
"ydus[midnight]._decode(0, ctx=nested)": [
"returned",
[
"datetime",
"2020-02-29T00:00:00",
"None",
0
]
],
"ydus[midnight]._decode(0, ctx=none)": [
"returned",
[
"datetime",
"2020-02-29T00:00:00",
"None",
0
]
],
"ydus[midnight]._decode(0, ctx=ref)": [
"returned",
[
"datetime",
"2020-02-29T00:00:00",
"None",
0
]
],
"ydus[midnight]._decode(0, ctx=ref_date)": [
"returned",
[
"datetime",
"2020-02-29T00:00:00",
"None",
0
]
],
"ydus[midnight]._decode(0.4)": [
"returned",
[
"datetime",
"2020-02-29T00:00:00",
"None",
0
]
],
"ydus[midnight]._decode(1)": [
"returned",
[
"datetime",
"2020-02-29T00:00:00.000001",
"None",
0
]
],
"ydus[midnight]._decode(1.5)": [
"returned",
[
"datetime",
"2020-02-29T00:00:00.000002",
"None",
0
]
],
"ydus[midnight]._decode(1000000000000000000000000000000)": [
"raised",
"builtins.OverflowError",
"Python int too large to convert to C int"
],
"ydus[midnight]._decode(1000000000000000000000000000000, ctx=empty)": [
"raised",
"builtins.OverflowError",
"Python int too large to convert to C int"
],
"ydus[midnight]._decode(1000000000000000000000000000000, ctx=nested)": [
"raised",
"builtins.OverflowError",
"Python int too large to convert to C int"
],
"ydus[midnight]._decode(1000000000000000000000000000000, ctx=none)": [
"raised",
"builtins.OverflowError",
"Python int too large to convert to C int"
],
"ydus[midnight]._decode(1000000000000000000000000000000, ctx=ref)": [
"raised",
"builtins.OverflowError",
"Python int too large to convert to C int"
],
"ydus[midnight]._decode(1000000000000000000000000000000, ctx=ref_date)": [
"raised",
"builtins.OverflowError",
"Python int too large to convert to C int"
],
"ydus[midnight]._decode(18446744073709551615)": [
"raised",
"builtins.OverflowError",
"date value out of range"
],
"ydus[midnight]._decode(40669000000)": [
"returned",
[
"datetime",
"2020-02-29T11:17:49",
"None",
0
]
],
"ydus[midnight]._decode(40669000001, ctx=empty)": [
"returned",
[
"datetime",
"2020-02-29T11:17:49.000001",
"None",
0
]
],
"ydus[midnight]._decode(40669000001, ctx=nested)": [
"returned",
[
"datetime",
"2020-02-29T11:17:49.000001",
"None",
0
]
],
"ydus[midnight]._decode(40669000001, ctx=none)": [
"returned",
[
"datetime",
"2020-02-29T11:17:49.000001",
"None",
0
]
],
"ydus[midnight]._decode(40669000001, ctx=ref)": [
"returned",
[
"datetime",
"2020-02-29T11:17:49.000001",
"None",
0
]
],
"ydus[midnight]._decode(40669000001, ctx=ref_date)": [
"returned",
[
"datetime",
"2020-02-29T11:17:49.000001",
"None",
0
]
],
"ydus[midnight]._decode(4294967296)": [
"returned",
[
"datetime",
"2020-02-29T01:11:34.967296",
"None",
0
]
],
"ydus[midnight]._decode(86399999999)": [
"returned",
[
"datetime",
"2020-02-29T23:59:59.999999",
"None",
0
]
],
"ydus[midnight]._decode(86400000000)": [
"returned",
[
"datetime",
"2020-03-01T00:00:00",
"None",
0
]
],
"ydus[midnight]._decode(86400000001)": [
"returned",
[
"datetime",
"2020-03-01T00:00:00.000001",
"None",
0
]
],
"ydus[midnight]._decode(9223372036854775808)": [
"raised",
"builtins.OverflowError",
"date value out of range"
],
"ydus[midnight]._decode(None)": [
"raised",
"builtins.TypeError",
"unsupported type for timedelta microseconds component: NoneType"
],
"ydus[midnight]._decode(True)": [
"returned",
[
"datetime",
"2020-02-29T00:00:00.000001",
"None",
0
]
],
"ydus[midnight]._decode([5])": [
"raised",
"builtins.TypeError",
"unsupported type for timedelta microseconds component: list"
],
"ydus[midnight]._decode(b'5')": [
"raised",
"builtins.TypeError",
"unsupported type for timedelta microseconds component: bytes"
],
"ydus[midnight]._decode(datetime.timedelta(seconds=1))": [
"raised",
"builtins.TypeError",
"unsupported type for timedelta microseconds component: datetime.timedelta"
],
"ydus[midnight]._decode(inf)": [
"raised",
"builtins.OverflowError",
"cannot convert float infinity to integer"
],
"ydus[midnight]._decode(nan)": [
"raised",
"builtins.ValueError",
"cannot convert float NaN to integer"
],
"ydus[none]._decode('5')": [
"raised",
"builtins.AttributeError",
"'NoneType' object has no attribute 'date'"
],
"ydus[none]._decode('5', ctx=empty)": [
"raised",
"builtins.AttributeError",
"'NoneType' object has no attribute 'date'"
],
"ydus[none]._decode('5', ctx=nested)": [
"raised",
"builtins.AttributeError",
"'NoneType' object has no attribute 'date'"
],
"ydus[none]._decode('5', ctx=none)": [
"raised",
"builtins.AttributeError",
"'NoneType' object has no attribute 'date'"
],
"ydus[none]._decode('5', ctx=ref)": [
"raised",
"builtins.AttributeError",
"'NoneType' object has no attribute 'date'"
],
"ydus[none]._decode('5', ctx=ref_date)": [
"raised",
"builtins.AttributeError",
"'NoneType' object has no attribute 'date'"
],
"ydus[none]._decode(-1)": [
"raised",
"builtins.AttributeError",
"'NoneType' object has no attribute 'date'"
],
"ydus[none]._decode(-86400000000)": [
"raised",
"builtins.AttributeError",
"'NoneType' object has no attribute 'date'"
],
"ydus[none]._decode(0)": [
"raised",
"builtins.AttributeError",
"'NoneType' object has no attribute 'date'"
],
"ydus[none]._decode(0, ctx=empty)": [
"raised",
"builtins.AttributeError",
"'NoneType' object has no attribute 'date'"
],
"ydus[none]._decode(0, ctx=nested)": [
"raised",
"builtins.AttributeError",
"'NoneType' object has no attribute 'date'"
],
"ydus[none]._decode(0, ctx=none)": [
"raised",
"builtins.AttributeError",
"'NoneType' object has no attribute 'date'"
],
"ydus[none]._decode(0, ctx=ref)": [
"raised",
"builtins.AttributeError",
"'NoneType' object has no attribute 'date'"
],
"ydus[none]._decode(0, ctx=ref_date)": [
"raised",
"builtins.AttributeError",
"'NoneType' object has no attribute 'date'"
],
"ydus[none]._decode(0.4)": [
"raised",
"builtins.AttributeError",
"'NoneType' object has no attribute 'date'"
],
"ydus[none]._decode(1)": [
"raised",
"builtins.AttributeError",
"'NoneType' object has no attribute 'date'"
],
"ydus[none]._decode(1.5)": [
"raised",
"builtins.AttributeError",
"'NoneType' object has no attribute 'date'"
],
"ydus[none]._decode(1000000000000000000000000000000)": [
"raised",
"builtins.AttributeError",
"'NoneType' object has no attribute 'date'"
],
"ydus[none]._decode(1000000000000000000000000000000, ctx=empty)": [
"raised",
"builtins.AttributeError",
"'NoneType' object has no attribute 'date'"
],
"ydus[none]._decode(1000000000000000000000000000000, ctx=nested)": [
"raised",
"builtins.AttributeError",
"'NoneType' object has no attribute 'date'"
],
"ydus[none]._decode(1000000000000000000000000000000, ctx=none)": [
"raised",
"builtins.AttributeError",
"'NoneType' object has no attribute 'date'"
],
"ydus[none]._decode(1000000000000000000000000000000, ctx=ref)": [
"raised",
"builtins.AttributeError",
"'NoneType' object has no attribute 'date'"
],
"ydus[none]._decode(1000000000000000000000000000000, ctx=ref_date)": [
"raised",
"builtins.AttributeError",
"'NoneType' object has no attribute 'date'"
],
"ydus[none]._decode(18446744073709551615)": [
"raised",
"builtins.AttributeError",
"'NoneType' object has no attribute 'date'"
],
"ydus[none]._decode(40669000000)": [
"raised",
"builtins.AttributeError",
"'NoneType' object has no attribute 'date'"
],
"ydus[none]._decode(40669000001, ctx=empty)": [
"raised",
"builtins.AttributeError",
"'NoneType' object has no attribute 'date'"
],
"ydus[none]._decode(40669000001, ctx=nested)": [
"raised",
"builtins.AttributeError",
"'NoneType' object has no attribute 'date'"
],
"ydus[none]._decode(40669000001, ctx=none)": [
"raised",
"builtins.AttributeError",
"'NoneType' object has no attribute 'date'"
],
"ydus[none]._decode(40669000001, ctx=ref)": [
"raised",
"builtins.AttributeError",
"'NoneType' object has no attribute 'date'"
],
"ydus[none]._decode(40669000001, ctx=ref_date)": [
"raised",
"builtins.AttributeError",
"'NoneType' object has no attribute 'date'"
],
"ydus[none]._decode(4294967296)": [
"raised",
"builtins.AttributeError",
"'NoneType' object has no attribute 'date'"
],
"ydus[none]._decode(86399999999)": [
"raised",
"builtins.AttributeError",
"'NoneType' object has no attribute 'date'"
],
"ydus[none]._decode(86400000000)": [
"raised",
"builtins.AttributeError",
"'NoneType' object has no attribute 'date'"
],
"ydus[none]._decode(86400000001)": [
"raised",
"builtins.AttributeError",
"'NoneType' object has no attribute 'date'"
],
"ydus[none]._decode(9223372036854775808)": [
"raised",
"builtins.AttributeError",
"'NoneType' object has no attribute 'date'"
],
"ydus[none]._decode(None)": [
"raised",
"builtins.AttributeError",
"'NoneType' object has no attribute 'date'"
],
"ydus[none]._decode(True)": [
"raised",
"builtins.AttributeError",
"'NoneType' object has no attribute 'date'"
],
"ydus[none]._decode([5])": [
"raised",
"builtins.AttributeError",
"'NoneType' object has no attribute 'date'"
],
"ydus[none]._decode(b'5')": [
"raised",
"builtins.AttributeError",
"'NoneType' object has no attribute 'date'"
],
"ydus[none]._decode(datetime.timedelta(seconds=1))": [
"raised",
"builtins.AttributeError",
"'NoneType' object has no attribute 'date'"
],
"ydus[none]._decode(inf)": [
"raised",
"builtins.AttributeError",
"'NoneType' object has no attribute 'date'"
],
"ydus[none]._decode(nan)": [
"raised",
"builtins.AttributeError",
"'NoneType' object has no attribute 'date'"
],
"ydus[none]._encode": [
"raised",
"builtins.NotImplementedError",
""
],
"ydus[none].build": [
"raised",
"builtins.NotImplementedError",
""
],
"ydus[none].parse(0)": [
"raised",
"builtins.AttributeError",
"'NoneType' object has no attribute 'date'"
],
"ydus[none].parse(1)": [
"raised",
"builtins.AttributeError",
"'NoneType' object has no attribute 'date'"
],
"ydus[none].parse(18446744073709551615)": [
"raised",
"builtins.AttributeError",
"'NoneType' object has no attribute 'date'"
],
"ydus[none].parse(40669000000)": [
"raised",
"builtins.AttributeError",
"'NoneType' object has no attribute 'date'"
],
"ydus[none].parse(86399999999)": [
"raised",
"builtins.AttributeError",
"'NoneType' object has no attribute 'date'"
],
"ydus[none].parse(86400000000)": [
"raised",
"builtins.AttributeError",
"'NoneType' object has no attribute 'date'"
],
"ydus[none].parse(9223372036854775808)": [
"raised",
"builtins.AttributeError",
"'NoneType' object has no attribute 'date'"
],
"ydus[none].parse(short)": [
"raised",
"construct.core.StreamError",
"Error in path (parsing)\nstream read less than specified amount, expected 8, found 7"
],
"ydus[none].sizeof": [
"returned",
[
"int",
8
]
],
"ydus[string]._decode('5', ctx=empty)": [
"raised",
"builtins.AttributeError",
"'str' object has no attribute 'date'"
],
"ydus[string]._decode('5', ctx=nested)": [
"raised",
"builtins.AttributeError",
"'str' object has no attribute 'date'"
],
"ydus[string]._decode('5', ctx=none)": [
"raised",
"builtins.AttributeError",
"'str' object has no attribute 'date'"
],
"ydus[string]._decode('5', ctx=ref)": [
"raised",
"builtins.AttributeError",
"'str' object has no attribute 'date'"
],
"ydus[string]._decode('5', ctx=ref_date)": [
"raised",
"builtins.AttributeError",
"'str' object has no attribute 'date'"
],
"ydus[string]._decode(0, ctx=empty)": [
"raised",
"builtins.AttributeError",
"'str' object has no attribute 'date'"
],
"ydus[string]._decode(0, ctx=nested)": [
"raised",
"builtins.AttributeError",
"'str' object has no attribute 'date'"
],
"ydus[string]._decode(0, ctx=none)": [
"raised",
"builtins.AttributeError",
"'str' object has no attribute 'date'"
],
"ydus[string]._decode(0, ctx=ref)": [
"raised",
"builtins.AttributeError",
"'str' object has no attribute 'date'"
],
"ydus[string]._decode(0, ctx=ref_date)": [
"raised",
"builtins.AttributeError",
"'str' object has no attribute 'date'"
],
"ydus[string]._decode(1000000000000000000000000000000, ctx=empty)": [
"raised",
"builtins.AttributeError",
"'str' object has no attribute 'date'"
],
"ydus[string]._decode(1000000000000000000000000000000, ctx=nested)": [
"raised",
"builtins.AttributeError",
"'str' object has no attribute 'date'"
],
"ydus[string]._decode(1000000000000000000000000000000, ctx=none)": [
"raised",
"builtins.AttributeError",
"'str' object has no attribute 'date'"
],
"ydus[string]._decode(1000000000000000000000000000000, ctx=ref)": [
"raised",
"builtins.AttributeError",
"'str' object has no attribute 'date'"
],
"ydus[string]._decode(1000000000000000000000000000000, ctx=ref_date)": [
"raised",
"builtins.AttributeError",
"'str' object has no attribute 'date'"
],
"ydus[string]._decode(40669000001, ctx=empty)": [
"raised",
"builtins.AttributeError",
"'str' object has no attribute 'date'"
],
"ydus[string]._decode(40669000001, ctx=nested)": [
"raised",
"builtins.AttributeError",
"'str' object has no attribute 'date'"
],
"ydus[string]._decode(40669000001, ctx=none)": [
"raised",
"builtins.AttributeError",
"'str' object has no attribute 'date'"
],
"ydus[string]._decode(40669000001, ctx=ref)": [
"raised",
"builtins.AttributeError",
"'str' object has no attribute 'date'"
],
"ydus[string]._decode(40669000001, ctx=ref_date)": [
"raised",
"builtins.AttributeError",
"'str' object has no attribute 'date'"
],
"ydus[this._.ref]._decode('5', ctx=empty)": [
"raised",
"builtins.KeyError",
"'_'"
],
"ydus[this._.ref]._decode('5', ctx=nested)": [
"raised",
"builtins.TypeError",
"unsupported type for timedelta microseconds component: str"
],
"ydus[this._.ref]._decode('5', ctx=none)": [
"raised",
"builtins.TypeError",
"'NoneType' object is not subscriptable"
],
"ydus[this._.ref]._decode('5', ctx=ref)": [
"raised",
"builtins.KeyError",
"'_'"
],
"ydus[this._.ref]._decode('5', ctx=ref_date)": [
"raised",
"builtins.KeyError",
"'_'"
],
"ydus[this._.ref]._decode(0, ctx=empty)": [
"raised",
"builtins.KeyError",
"'_'"
],
"ydus[this._.ref]._decode(0, ctx=nested)": [
"returned",
[
"datetime",
"2016-06-06T00:00:00",
"None",
0
]
],
"ydus[this._.ref]._decode(0, ctx=none)": [
"raised",
"builtins.TypeError",
"'NoneType' object is not subscriptable"
],
"ydus[this._.ref]._decode(0, ctx=ref)": [
"raised",
"builtins.KeyError",
"'_'"
],
"ydus[this._.ref]._decode(0, ctx=ref_date)": [
"raised",
"builtins.KeyError",
"'_'"
],
"ydus[this._.ref]._decode(1000000000000000000000000000000, ctx=empty)": [
"raised",
"builtins.KeyError",
"'_'"
],
"ydus[this._.ref]._decode(1000000000000000000000000000000, ctx=nested)": [
"raised",
"builtins.OverflowError",
"Python int too large to convert to C int"
],
"ydus[this._.ref]._decode(1000000000000000000000000000000, ctx=none)": [
"raised",
"builtins.TypeError",
"'NoneType' object is not subscriptable"
],
"ydus[this._.ref]._decode(1000000000000000000000000000000, ctx=ref)": [
"raised",
"builtins.KeyError",
"'_'"
],
"ydus[this._.ref]._decode(1000000000000000000000000000000, ctx=ref_date)": [
"raised",
"builtins.KeyError",
"'_'"
],
"ydus[this._.ref]._decode(40669000001, ctx=empty)": [
"raised",
"builtins.KeyError",
"'_'"
],
"ydus[this._.ref]._decode(40669000001, ctx=nested)": [
"returned",
[
"datetime",
"2016-06-06T11:17:49.000001",
"None",
0
]
],
"ydus[this._.ref]._decode(40669000001, ctx=none)": [
"raised",
"builtins.TypeError",
"'NoneType' object is not subscriptable"
],
"ydus[this._.ref]._decode(40669000001, ctx=ref)": [
"raised",
"builtins.KeyError",
"'_'"
],
"ydus[this._.ref]._decode(40669000001, ctx=ref_date)": [
"raised",
"builtins.KeyError",
"'_'"
],
"ydus[this.missing]._decode('5', ctx=empty)": [
"raised",
"builtins.KeyError",
"'missing'"
],
"ydus[this.missing]._decode('5', ctx=nested)": [
"raised",
"builtins.KeyError",
"'missing'"
],
"ydus[this.missing]._decode('5', ctx=none)": [
"raised",
"builtins.TypeError",
"'NoneType' object is not subscriptable"
],
"ydus[this.missing]._decode('5', ctx=ref)": [
"raised",
"builtins.KeyError",
"'missing'"
],
"ydus[this.missing]._decode('5', ctx=ref_date)": [
"raised",
"builtins.KeyError",
"'missing'"
],
"ydus[this.missing]._decode(0, ctx=empty)": [
"raised",
"builtins.KeyError",
"'missing'"
],
"ydus[this.missing]._decode(0, ctx=nested)": [
"raised",
"builtins.KeyError",
"'missing'"
],
"ydus[this.missing]._decode(0, ctx=none)": [
"raised",
"builtins.TypeError",
"'NoneType' object is not subscriptable"
],
"ydus[this.missing]._decode(0, ctx=ref)": [
"raised",
"builtins.KeyError",
"'missing'"
],
"ydus[this.missing]._decode(0, ctx=ref_date)": [
"raised",
"builtins.KeyError",
"'missing'"
],
"ydus[this.missing]._decode(1000000000000000000000000000000, ctx=empty)": [
"raised",
"builtins.KeyError",
"'missing'"
],
"ydus[this.missing]._decode(1000000000000000000000000000000, ctx=nested)": [
"raised",
"builtins.KeyError",
"'missing'"
],
"ydus[this.missing]._decode(1000000000000000000000000000000, ctx=none)": [
"raised",
"builtins.TypeError",
"'NoneType' object is not subscriptable"
],
"ydus[this.missing]._decode(1000000000000000000000000000000, ctx=ref)": [
"raised",
"builtins.KeyError",
"'missing'"
],
"ydus[this.missing]._decode(1000000000000000000000000000000, ctx=ref_date)": [
"raised",
"builtins.KeyError",
"'missing'"
],
"ydus[this.missing]._decode(40669000001, ctx=empty)": [
"raised",
"builtins.KeyError",
"'missing'"
],
"ydus[this.missing]._decode(40669000001, ctx=nested)": [
"raised",
"builtins.KeyError",
"'missing'"
],
"ydus[this.missing]._decode(40669000001, ctx=none)": [
"raised",
"builtins.TypeError",
"'NoneType' object is not subscriptable"
],
"ydus[this.missing]._decode(40669000001, ctx=ref)": [
"raised",
"builtins.KeyError",
"'missing'"
],
"ydus[this.missing]._decode(40669000001, ctx=ref_date)": [
"raised",
"builtins.KeyError",
"'missing'"
],
"ydus[this.ref]._decode('5', ctx=empty)": [
"raised",
"builtins.KeyError",
"'ref'"
],
"ydus[this.ref]._decode('5', ctx=nested)": [
"raised",
"builtins.KeyError",
"'ref'"
],
"ydus[this.ref]._decode('5', ctx=none)": [
"raised",
"builtins.TypeError",
"'NoneType' object is not subscriptable"
],
"ydus[this.ref]._decode('5', ctx=ref)": [
"raised",
"builtins.TypeError",
"unsupported type for timedelta microseconds component: str"
],
"ydus[this.ref]._decode('5', ctx=ref_date)": [
"raised",
"builtins.AttributeError",
"'datetime.date' object has no attribute 'date'"
],
"ydus[this.ref]._decode(0, ctx=empty)": [
"raised",
"builtins.KeyError",
"'ref'"
],
"ydus[this.ref]._decode(0, ctx=nested)": [
"raised",
"builtins.KeyError",
"'ref'"
],
"ydus[this.ref]._decode(0, ctx=none)": [
"raised",
"builtins.TypeError",
"'NoneType' object is not subscriptable"
],
"ydus[this.ref]._decode(0, ctx=ref)": [
"returned",
[
"datetime",
"2015-05-05T00:00:00",
"None",
0
]
],
"ydus[this.ref]._decode(0, ctx=ref_date)": [
"raised",
"builtins.AttributeError",
"'datetime.date' object has no attribute 'date'"
],
"ydus[this.ref]._decode(1000000000000000000000000000000, ctx=empty)": [
"raised",
"builtins.KeyError",
"'ref'"
],
"ydus[this.ref]._decode(1000000000000000000000000000000, ctx=nested)": [
"raised",
"builtins.KeyError",
"'ref'"
],
"ydus[this.ref]._decode(1000000000000000000000000000000, ctx=none)": [
"raised",
"builtins.TypeError",
"'NoneType' object is not subscriptable"
],
"ydus[this.ref]._decode(1000000000000000000000000000000, ctx=ref)": [
"raised",
"builtins.OverflowError",
"Python int too large to convert to C int"
],
"ydus[this.ref]._decode(1000000000000000000000000000000, ctx=ref_date)": [
"raised",
"builtins.AttributeError",
"'datetime.date' object has no attribute 'date'"
],
"ydus[this.ref]._decode(40669000001, ctx=empty)": [
"raised",
"builtins.KeyError",
"'ref'"
],
"ydus[this.ref]._decode(40669000001, ctx=nested)": [
"raised",
"builtins.KeyError",
"'ref'"
],
"ydus[this.ref]._decode(40669000001, ctx=none)": [
"raised",
"builtins.TypeError",
"'NoneType' object is not subscriptable"
],
"ydus[this.ref]._decode(40669000001, ctx=ref)": [
"returned",
[
"datetime",
"2015-05-05T11:17:49.000001",
"None",
0
]
],
"ydus[this.ref]._decode(40669000001, ctx=ref_date)": [
"raised",
"builtins.AttributeError",
"'datetime.date' object has no attribute 'date'"
],
"ydus[time]._decode('5', ctx=empty)": [
"raised",
"builtins.AttributeError",
"'datetime.time' object has no attribute 'date'"
],
"ydus[time]._decode('5', ctx=nested)": [
"raised",
"builtins.AttributeError",
"'datetime.time' object has no attribute 'date'"
],
"ydus[time]._decode('5', ctx=none)": [
"raised",
"builtins.AttributeError",
"'datetime.time' object has no attribute 'date'"
],
"ydus[time]._decode('5', ctx=ref)": [
"raised",
"builtins.AttributeError",
"'datetime.time' object has no attribute 'date'"
],
"ydus[time]._decode('5', ctx=ref_date)": [
"raised",
"builtins.AttributeError",
"'datetime.time' object has no attribute 'date'"
],
"ydus[time]._decode(0, ctx=empty)": [
"raised",
"builtins.AttributeError",
"'datetime.time' object has no attribute 'date'"
],
"ydus[time]._decode(0, ctx=nested)": [
"raised",
"builtins.AttributeError",
"'datetime.time' object has no attribute 'date'"
],
"ydus[time]._decode(0, ctx=none)": [
"raised",
"builtins.AttributeError",
"'datetime.time' object has no attribute 'date'"
],
"ydus[time]._decode(0, ctx=ref)": [
"raised",
"builtins.AttributeError",
"'datetime.time' object has no attribute 'date'"
],
"ydus[time]._decode(0, ctx=ref_date)": [
"raised",
"builtins.AttributeError",
"'datetime.time' object has no attribute 'date'"
],
"ydus[time]._decode(1000000000000000000000000000000, ctx=empty)": [
"raised",
"builtins.AttributeError",
"'datetime.time' object has no attribute 'date'"
],
"ydus[time]._decode(1000000000000000000000000000000, ctx=nested)": [
"raised",
"builtins.AttributeError",
"'datetime.time' object has no attribute 'date'"
],
"ydus[time]._decode(1000000000000000000000000000000, ctx=none)": [
"raised",
"builtins.AttributeError",
"'datetime.time' object has no attribute 'date'"
],
"ydus[time]._decode(1000000000000000000000000000000, ctx=ref)": [
"raised",
"builtins.AttributeError",
"'datetime.time' object has no attribute 'date'"
],
"ydus[time]._decode(1000000000000000000000000000000, ctx=ref_date)": [
"raised",
"builtins.AttributeError",
"'datetime.time' object has no attribute 'date'"
],
"ydus[time]._decode(40669000001, ctx=empty)": [
"raised",
"builtins.AttributeError",
"'datetime.time' object has no attribute 'date'"
],
"ydus[time]._decode(40669000001, ctx=nested)": [
"raised",
"builtins.AttributeError",
"'datetime.time' object has no attribute 'date'"
],
"ydus[time]._decode(40669000001, ctx=none)": [
"raised",
"builtins.AttributeError",
"'datetime.time' object has no attribute 'date'"
],
"ydus[time]._decode(40669000001, ctx=ref)": [
"raised",
"builtins.AttributeError",
"'datetime.time' object has no attribute 'date'"
],
"ydus[time]._decode(40669000001, ctx=ref_date)": [
"raised",
"builtins.AttributeError",
"'datetime.time' object has no attribute 'date'"
],
"ydus[type]._decode('5', ctx=empty)": [
"raised",
"builtins.TypeError",
"'Container' object cannot be interpreted as an integer"
],
"ydus[type]._decode('5', ctx=nested)": [
"raised",
"builtins.TypeError",
"'Container' object cannot be interpreted as an integer"
],
"ydus[type]._decode('5', ctx=none)": [
"raised",
"builtins.TypeError",
"'NoneType' object cannot be interpreted as an integer"
],
"ydus[type]._decode('5', ctx=ref)": [
"raised",
"builtins.TypeError",
"'Container' object cannot be interpreted as an integer"
],
"ydus[type]._decode('5', ctx=ref_date)": [
"raised",
"builtins.TypeError",
"'Container' object cannot be interpreted as an integer"
],
"ydus[type]._decode(0, ctx=empty)": [
"raised",
"builtins.TypeError",
"'Container' object cannot be interpreted as an integer"
],
"ydus[type]._decode(0, ctx=nested)": [
"raised",
"builtins.TypeError",
"'Container' object cannot be interpreted as an integer"
],
"ydus[type]._decode(0, ctx=none)": [
"raised",
"builtins.TypeError",
"'NoneType' object cannot be interpreted as an integer"
],
"ydus[type]._decode(0, ctx=ref)": [
"raised",
"builtins.TypeError",
"'Container' object cannot be interpreted as an integer"
],
"ydus[type]._decode(0, ctx=ref_date)": [
"raised",
"builtins.TypeError",
"'Container' object cannot be interpreted as an integer"
],
"ydus[type]._decode(1000000000000000000000000000000, ctx=empty)": [
"raised",
"builtins.TypeError",
"'Container' object cannot be interpreted as an integer"
],
"ydus[type]._decode(1000000000000000000000000000000, ctx=nested)": [
"raised",
"builtins.TypeError",
"'Container' object cannot be interpreted as an integer"
],
"ydus[type]._decode(1000000000000000000000000000000, ctx=none)": [
"raised",
"builtins.TypeError",
"'NoneType' object cannot be interpreted as an integer"
],
"ydus[type]._decode(1000000000000000000000000000000, ctx=ref)": [
"raised",
"builtins.TypeError",
"'Container' object cannot be interpreted as an integer"
],
"ydus[type]._decode(1000000000000000000000000000000, ctx=ref_date)": [
"raised",
"builtins.TypeError",
"'Container' object cannot be interpreted as an integer"
],
"ydus[type]._decode(40669000001, ctx=empty)": [
"raised",
"builtins.TypeError",
"'Container' object cannot be interpreted as an integer"
],
"ydus[type]._decode(40669000001, ctx=nested)": [
"raised",
"builtins.TypeError",
"'Container' object cannot be interpreted as an integer"
],
"ydus[type]._decode(40669000001, ctx=none)": [
"raised",
"builtins.TypeError",
"'NoneType' object cannot be interpreted as an integer"
],
"ydus[type]._decode(40669000001, ctx=ref)": [
"raised",
"builtins.TypeError",
"'Container' object cannot be interpreted as an integer"
],
"ydus[type]._decode(40669000001, ctx=ref_date)": [
"raised",
"builtins.TypeError",
"'Container' object cannot be interpreted as an integer"
]
}
"""


if __name__ == "__main__":
    if "--record" in sys.argv[1:]:
        record()
        print("recorded")
    else:
        test_equivalence()
        print("equivalent:", len(load_expected()), "observations match")
