"""Equivalence check for refactoring 1 (``ceos_alos2.transformers.remove_spares``).

Run as::

    cd /tmp/wt10/e85 && PYTHONPATH=/tmp/wt10/e85 /venv/bin/python _eq/1/equiv.py

``EXPECTED`` below was recorded from the UNCHANGED code (``--record`` prints it);
the script has to pass both with and without ``patch.diff`` applied.
"""

import collections
import pprint
import sys

import numpy as np

from ceos_alos2 import transformers
from ceos_alos2.hierarchy import Group, Variable


def canon(x):
    """type-tagged, order-preserving description of a value"""
    if isinstance(x, Group):
        return ("Group", x.path, x.url, canon(x.data), canon(x.attrs))
    if isinstance(x, Variable):
        return ("Variable", canon(x.dims), canon(x.data), canon(x.attrs))
    if isinstance(x, np.ndarray):
        return ("ndarray", str(x.dtype), x.shape, x.astype("int64").tolist())
    if isinstance(x, dict):
        return (type(x).__name__, [(canon(k), canon(v)) for k, v in x.items()])
    if isinstance(x, (list, tuple)):
        return (type(x).__name__, [canon(v) for v in x])
    return (type(x).__name__, repr(x))


def outcome(func, *args):
    before = canon(args)
    try:
        result = ("ok", canon(func(*args)))
    except Exception as e:  # noqa: BLE001
        result = (
            "raise",
            type(e).__name__,
            str(e),
            type(e.__cause__).__name__,
            type(e.__context__).__name__,
        )
    return result + (("args unchanged", canon(args) == before),)


class MyList(list):
    pass


class MyDict(dict):
    pass


record = {
    "preamble": {"record_sequence_number": 2, "record_length": 4096, "blanks": "x"},
    "scene_id": "ALOS2xxx",
    "spare1": "",
    "geodetic_latitude": (1.5, {"units": "deg"}),
    "spare2": " ",
    "incidence_angle": (
        {"constant_term": (1.0, {"units": "rad"}), "spare": ""},
        {"formula": "a", "blanks1": "kept, inside a tuple"},
    ),
    "image_annotation_segment": {
        "number_of_annotation_points": 0,
        "spare": "",
        "annotations": [
            {"line": 1, "pixel": 2, "annotation_text": "", "blanks": ""},
            {"line": 3, "pixel": 4, "annotation_text": "", "spare77": ""},
        ],
        "system_reserve": "",
    },
    "blanks": "",
    "positions": [[{"spare": 1, "x": 1}], [{"blanks9": 1}, {"y": [{"spare0": 0, "z": ()}]}]],
    "blanks2": "",
}

keys = [
    "spare",
    "spares",
    "spare1",
    "spare12",
    "spare_1",
    "spare1a",
    "spare 1",
    "spare-1",
    "spare1.5",
    "blanks",
    "blanks1",
    "blanks007",
    "blanksx",
    "blank",
    "blank1",
    "spareblanks",
    "spareblanks1",
    "spareblanksx",
    "blanksspare",
    "blanksspare1",
    "sparespare",
    "sparespare1",
    "blanksblanks",
    "spare²",
    "spare١٢",
    "spare①",
    "spare½",
    "Spare1",
    "SPARE",
    "",
    " spare",
    "spare ",
    "aspare1",
    "1",
    "system_reserve",
]

CASES = {
    "empty dict": ({},),
    "empty list": ([],),
    "tests: spares": ({"spare1": "", "spare2": ""},),
    "tests: blanks": ({"blanks1": "", "blanks20": "", "blanks": ""},),
    "tests: false positives": ({"spare_values": "", "blank_page": ""},),
    "tests: nested dict": ({"a": {"b": {"blanks": ""}}},),
    "tests: nested list": ({"a": [{"b": {"blanks": ""}}]},),
    "key zoo": ({k: i for i, k in enumerate(keys)},),
    "key zoo reversed": ({k: i for i, k in enumerate(reversed(keys))},),
    "key zoo nested": ({"a": [{k: [{k: None}] for k in keys}], "spare": {k: 1 for k in keys}},),
    "record": (record,),
    "top-level list": ([{"spare": 1, "a": 2}, {"b": {"blanks3": 1}}, 3, "spare", None],),
    "list of lists": ([[{"spare": 1}], [[{"blanks": 2, "c": 3}]], []],),
    "tuple is opaque": (({"spare": 1},),),
    "tuple value is opaque": ({"a": ({"spare": 1}, [{"blanks": 1}])},),
    "scalar int": (1,),
    "scalar none": (None,),
    "scalar str": ("spare1",),
    "scalar bytes": (b"blanks",),
    "set is opaque": ({"a": frozenset({"spare"})},),
    "ordered dict": (collections.OrderedDict([("b", 1), ("spare", 2), ("a", {"blanks": 1})]),),
    "dict subclass": (MyDict(a=MyDict(spare=1, b=MyList([MyDict(blanks=1, c=2)]))),),
    "list subclass": (MyList([{"spare": 1}, MyList([{"x": 1, "blanks1": 1}])]),),
    "int key": ({1: "a"},),
    "int key after spare": ({"spare": 1, 2: "a"},),
    "none key later than nested int key": ({"a": {1: 2}, None: 1},),
    "nested int key only": ({"a": {"b": 1}, "c": [{"d": 1}, {2.5: 1}]},),
    "bytes key": ({b"spare": 1},),
    "tuple key": ({("spare",): 1},),
    "order": ({"z": 1, "spare3": 0, "y": {"blanks": 0, "q": 1, "p": 2}, "x": [3, 2, 1]},),
    "deep": ({"a": {"a": {"a": {"a": {"a": [[[[{"spare": 1, "a": {"blanks": 1}}]]]]}}}}},),
}

# BEGIN EXPECTED
# fmt: off
EXPECTED = {'empty dict': ('ok', ('dict', []), ('args unchanged', True)),
 'empty list': ('ok', ('list', []), ('args unchanged', True)),
 'tests: spares': ('ok', ('dict', []), ('args unchanged', True)),
 'tests: blanks': ('ok', ('dict', []), ('args unchanged', True)),
 'tests: false positives': ('ok',
                            ('dict',
                             [(('str', "'spare_values'"), ('str', "''")),
                              (('str', "'blank_page'"), ('str', "''"))]),
                            ('args unchanged', True)),
 'tests: nested dict': ('ok',
                        ('dict', [(('str', "'a'"), ('dict', [(('str', "'b'"), ('dict', []))]))]),
                        ('args unchanged', True)),
 'tests: nested list': ('ok',
                        ('dict',
                         [(('str', "'a'"),
                           ('list', [('dict', [(('str', "'b'"), ('dict', []))])]))]),
                        ('args unchanged', True)),
 'key zoo': ('ok',
             ('dict',
              [(('str', "'spares'"), ('int', '1')),
               (('str', "'spare_1'"), ('int', '4')),
               (('str', "'spare1a'"), ('int', '5')),
               (('str', "'spare 1'"), ('int', '6')),
               (('str', "'spare-1'"), ('int', '7')),
               (('str', "'spare1.5'"), ('int', '8')),
               (('str', "'blanksx'"), ('int', '12')),
               (('str', "'blank'"), ('int', '13')),
               (('str', "'blank1'"), ('int', '14')),
               (('str', "'spareblanksx'"), ('int', '17')),
               (('str', "'blanksspare'"), ('int', '18')),
               (('str', "'blanksspare1'"), ('int', '19')),
               (('str', "'sparespare'"), ('int', '20')),
               (('str', "'sparespare1'"), ('int', '21')),
               (('str', "'blanksblanks'"), ('int', '22')),
               (('str', "'spare½'"), ('int', '26')),
               (('str', "'Spare1'"), ('int', '27')),
               (('str', "'SPARE'"), ('int', '28')),
               (('str', "''"), ('int', '29')),
               (('str', "' spare'"), ('int', '30')),
               (('str', "'spare '"), ('int', '31')),
               (('str', "'aspare1'"), ('int', '32')),
               (('str', "'1'"), ('int', '33')),
               (('str', "'system_reserve'"), ('int', '34'))]),
             ('args unchanged', True)),
 'key zoo reversed': ('ok',
                      ('dict',
                       [(('str', "'system_reserve'"), ('int', '0')),
                        (('str', "'1'"), ('int', '1')),
                        (('str', "'aspare1'"), ('int', '2')),
                        (('str', "'spare '"), ('int', '3')),
                        (('str', "' spare'"), ('int', '4')),
                        (('str', "''"), ('int', '5')),
                        (('str', "'SPARE'"), ('int', '6')),
                        (('str', "'Spare1'"), ('int', '7')),
                        (('str', "'spare½'"), ('int', '8')),
                        (('str', "'blanksblanks'"), ('int', '12')),
                        (('str', "'sparespare1'"), ('int', '13')),
                        (('str', "'sparespare'"), ('int', '14')),
                        (('str', "'blanksspare1'"), ('int', '15')),
                        (('str', "'blanksspare'"), ('int', '16')),
                        (('str', "'spareblanksx'"), ('int', '17')),
                        (('str', "'blank1'"), ('int', '20')),
                        (('str', "'blank'"), ('int', '21')),
                        (('str', "'blanksx'"), ('int', '22')),
                        (('str', "'spare1.5'"), ('int', '26')),
                        (('str', "'spare-1'"), ('int', '27')),
                        (('str', "'spare 1'"), ('int', '28')),
                        (('str', "'spare1a'"), ('int', '29')),
                        (('str', "'spare_1'"), ('int', '30')),
                        (('str', "'spares'"), ('int', '33'))]),
                      ('args unchanged', True)),
 'key zoo nested': ('ok',
                    ('dict',
                     [(('str', "'a'"),
                       ('list',
                        [('dict',
                          [(('str', "'spares'"),
                            ('list', [('dict', [(('str', "'spares'"), ('NoneType', 'None'))])])),
                           (('str', "'spare_1'"),
                            ('list', [('dict', [(('str', "'spare_1'"), ('NoneType', 'None'))])])),
                           (('str', "'spare1a'"),
                            ('list', [('dict', [(('str', "'spare1a'"), ('NoneType', 'None'))])])),
                           (('str', "'spare 1'"),
                            ('list', [('dict', [(('str', "'spare 1'"), ('NoneType', 'None'))])])),
                           (('str', "'spare-1'"),
                            ('list', [('dict', [(('str', "'spare-1'"), ('NoneType', 'None'))])])),
                           (('str', "'spare1.5'"),
                            ('list', [('dict', [(('str', "'spare1.5'"), ('NoneType', 'None'))])])),
                           (('str', "'blanksx'"),
                            ('list', [('dict', [(('str', "'blanksx'"), ('NoneType', 'None'))])])),
                           (('str', "'blank'"),
                            ('list', [('dict', [(('str', "'blank'"), ('NoneType', 'None'))])])),
                           (('str', "'blank1'"),
                            ('list', [('dict', [(('str', "'blank1'"), ('NoneType', 'None'))])])),
                           (('str', "'spareblanksx'"),
                            ('list',
                             [('dict', [(('str', "'spareblanksx'"), ('NoneType', 'None'))])])),
                           (('str', "'blanksspare'"),
                            ('list',
                             [('dict', [(('str', "'blanksspare'"), ('NoneType', 'None'))])])),
                           (('str', "'blanksspare1'"),
                            ('list',
                             [('dict', [(('str', "'blanksspare1'"), ('NoneType', 'None'))])])),
                           (('str', "'sparespare'"),
                            ('list',
                             [('dict', [(('str', "'sparespare'"), ('NoneType', 'None'))])])),
                           (('str', "'sparespare1'"),
                            ('list',
                             [('dict', [(('str', "'sparespare1'"), ('NoneType', 'None'))])])),
                           (('str', "'blanksblanks'"),
                            ('list',
                             [('dict', [(('str', "'blanksblanks'"), ('NoneType', 'None'))])])),
                           (('str', "'spare½'"),
                            ('list', [('dict', [(('str', "'spare½'"), ('NoneType', 'None'))])])),
                           (('str', "'Spare1'"),
                            ('list', [('dict', [(('str', "'Spare1'"), ('NoneType', 'None'))])])),
                           (('str', "'SPARE'"),
                            ('list', [('dict', [(('str', "'SPARE'"), ('NoneType', 'None'))])])),
                           (('str', "''"),
                            ('list', [('dict', [(('str', "''"), ('NoneType', 'None'))])])),
                           (('str', "' spare'"),
                            ('list', [('dict', [(('str', "' spare'"), ('NoneType', 'None'))])])),
                           (('str', "'spare '"),
                            ('list', [('dict', [(('str', "'spare '"), ('NoneType', 'None'))])])),
                           (('str', "'aspare1'"),
                            ('list', [('dict', [(('str', "'aspare1'"), ('NoneType', 'None'))])])),
                           (('str', "'1'"),
                            ('list', [('dict', [(('str', "'1'"), ('NoneType', 'None'))])])),
                           (('str', "'system_reserve'"),
                            ('list',
                             [('dict',
                               [(('str', "'system_reserve'"), ('NoneType', 'None'))])]))])]))]),
                    ('args unchanged', True)),
 'record': ('ok',
            ('dict',
             [(('str', "'preamble'"),
               ('dict',
                [(('str', "'record_sequence_number'"), ('int', '2')),
                 (('str', "'record_length'"), ('int', '4096'))])),
              (('str', "'scene_id'"), ('str', "'ALOS2xxx'")),
              (('str', "'geodetic_latitude'"),
               ('tuple', [('float', '1.5'), ('dict', [(('str', "'units'"), ('str', "'deg'"))])])),
              (('str', "'incidence_angle'"),
               ('tuple',
                [('dict',
                  [(('str', "'constant_term'"),
                    ('tuple',
                     [('float', '1.0'), ('dict', [(('str', "'units'"), ('str', "'rad'"))])])),
                   (('str', "'spare'"), ('str', "''"))]),
                 ('dict',
                  [(('str', "'formula'"), ('str', "'a'")),
                   (('str', "'blanks1'"), ('str', "'kept, inside a tuple'"))])])),
              (('str', "'image_annotation_segment'"),
               ('dict',
                [(('str', "'number_of_annotation_points'"), ('int', '0')),
                 (('str', "'annotations'"),
                  ('list',
                   [('dict',
                     [(('str', "'line'"), ('int', '1')),
                      (('str', "'pixel'"), ('int', '2')),
                      (('str', "'annotation_text'"), ('str', "''"))]),
                    ('dict',
                     [(('str', "'line'"), ('int', '3')),
                      (('str', "'pixel'"), ('int', '4')),
                      (('str', "'annotation_text'"), ('str', "''"))])])),
                 (('str', "'system_reserve'"), ('str', "''"))])),
              (('str', "'positions'"),
               ('list',
                [('list', [('dict', [(('str', "'x'"), ('int', '1'))])]),
                 ('list',
                  [('dict', []),
                   ('dict',
                    [(('str', "'y'"),
                      ('list', [('dict', [(('str', "'z'"), ('tuple', []))])]))])])]))]),
            ('args unchanged', True)),
 'top-level list': ('ok',
                    ('list',
                     [('dict', [(('str', "'a'"), ('int', '2'))]),
                      ('dict', [(('str', "'b'"), ('dict', []))]),
                      ('int', '3'),
                      ('str', "'spare'"),
                      ('NoneType', 'None')]),
                    ('args unchanged', True)),
 'list of lists': ('ok',
                   ('list',
                    [('list', [('dict', [])]),
                     ('list', [('list', [('dict', [(('str', "'c'"), ('int', '3'))])])]),
                     ('list', [])]),
                   ('args unchanged', True)),
 'tuple is opaque': ('ok',
                     ('tuple', [('dict', [(('str', "'spare'"), ('int', '1'))])]),
                     ('args unchanged', True)),
 'tuple value is opaque': ('ok',
                           ('dict',
                            [(('str', "'a'"),
                              ('tuple',
                               [('dict', [(('str', "'spare'"), ('int', '1'))]),
                                ('list', [('dict', [(('str', "'blanks'"), ('int', '1'))])])]))]),
                           ('args unchanged', True)),
 'scalar int': ('ok', ('int', '1'), ('args unchanged', True)),
 'scalar none': ('ok', ('NoneType', 'None'), ('args unchanged', True)),
 'scalar str': ('ok', ('str', "'spare1'"), ('args unchanged', True)),
 'scalar bytes': ('ok', ('bytes', "b'blanks'"), ('args unchanged', True)),
 'set is opaque': ('ok',
                   ('dict', [(('str', "'a'"), ('frozenset', "frozenset({'spare'})"))]),
                   ('args unchanged', True)),
 'ordered dict': ('ok',
                  ('dict', [(('str', "'b'"), ('int', '1')), (('str', "'a'"), ('dict', []))]),
                  ('args unchanged', True)),
 'dict subclass': ('ok',
                   ('dict',
                    [(('str', "'a'"),
                      ('dict',
                       [(('str', "'b'"),
                         ('list', [('dict', [(('str', "'c'"), ('int', '2'))])]))]))]),
                   ('args unchanged', True)),
 'list subclass': ('ok',
                   ('list', [('dict', []), ('list', [('dict', [(('str', "'x'"), ('int', '1'))])])]),
                   ('args unchanged', True)),
 'int key': ('raise',
             'AttributeError',
             "'int' object has no attribute 'startswith'",
             'NoneType',
             'NoneType',
             ('args unchanged', True)),
 'int key after spare': ('raise',
                         'AttributeError',
                         "'int' object has no attribute 'startswith'",
                         'NoneType',
                         'NoneType',
                         ('args unchanged', True)),
 'none key later than nested int key': ('raise',
                                        'AttributeError',
                                        "'NoneType' object has no attribute 'startswith'",
                                        'NoneType',
                                        'NoneType',
                                        ('args unchanged', True)),
 'nested int key only': ('raise',
                         'AttributeError',
                         "'float' object has no attribute 'startswith'",
                         'NoneType',
                         'NoneType',
                         ('args unchanged', True)),
 'bytes key': ('raise',
               'TypeError',
               "a bytes-like object is required, not 'str'",
               'NoneType',
               'NoneType',
               ('args unchanged', True)),
 'tuple key': ('raise',
               'AttributeError',
               "'tuple' object has no attribute 'startswith'",
               'NoneType',
               'NoneType',
               ('args unchanged', True)),
 'order': ('ok',
           ('dict',
            [(('str', "'z'"), ('int', '1')),
             (('str', "'y'"),
              ('dict', [(('str', "'q'"), ('int', '1')), (('str', "'p'"), ('int', '2'))])),
             (('str', "'x'"), ('list', [('int', '3'), ('int', '2'), ('int', '1')]))]),
           ('args unchanged', True)),
 'deep': ('ok',
          ('dict',
           [(('str', "'a'"),
             ('dict',
              [(('str', "'a'"),
                ('dict',
                 [(('str', "'a'"),
                   ('dict',
                    [(('str', "'a'"),
                      ('dict',
                       [(('str', "'a'"),
                         ('list',
                          [('list',
                            [('list',
                              [('list',
                                [('dict', [(('str', "'a'"), ('dict', []))])])])])]))]))]))]))]))]),
          ('args unchanged', True))}
# fmt: on
# END EXPECTED


def compute():
    return {name: outcome(transformers.remove_spares, *args) for name, args in CASES.items()}


def check_identity():
    # leaves are passed through as the very same objects, containers are rebuilt
    leaf = object()
    arr = np.arange(3)
    tup = ({"spare": 1},)
    inner = {"leaf": leaf, "spare": 0}
    lst = [inner, arr]
    data = {"a": inner, "b": lst, "c": tup, "d": arr, "blanks": leaf}
    result = transformers.remove_spares(data)

    assert type(result) is dict and result is not data
    assert list(result) == ["a", "b", "c", "d"]
    assert result["a"] is not inner and result["a"] == {"leaf": leaf}
    assert result["a"]["leaf"] is leaf
    assert result["b"] is not lst and type(result["b"]) is list
    assert result["b"][0] is not inner and result["b"][0] is not result["a"]
    assert result["b"][1] is arr and result["d"] is arr
    assert result["c"] is tup
    assert inner == {"leaf": leaf, "spare": 0} and len(data) == 5

    # results of two calls are independent of each other
    first = transformers.remove_spares(data)
    second = transformers.remove_spares(data)
    first["a"]["new"] = 1
    first["b"].append(1)
    assert "new" not in second["a"] and len(second["b"]) == 2
    assert "new" not in inner and len(lst) == 2

    # scalars are returned as is
    assert transformers.remove_spares(leaf) is leaf
    assert transformers.remove_spares(tup) is tup

    # still usable as a pipeline stage
    from tlz.functoolz import curry, pipe

    assert pipe({"spare": 1, "a": 2}, curry(transformers.remove_spares)) == {"a": 2}
    assert transformers.remove_spares.__name__ == "remove_spares"
    assert transformers.remove_spares(mapping={"blanks": 1}) == {}


if __name__ == "__main__":
    actual = compute()
    if "--record" in sys.argv:
        pprint.pprint(actual, width=100, sort_dicts=False)
        sys.exit(0)

    failed = [name for name in CASES if actual[name] != EXPECTED[name]]
    for name in failed:
        print("MISMATCH", name)
        print("  expected:", EXPECTED[name])
        print("  actual:  ", actual[name])
    assert set(EXPECTED) == set(CASES)
    assert not failed, failed
    assert any(v[0] == "raise" for v in actual.values())
    check_identity()
    print(f"ok: {len(CASES)} recorded cases + identity checks")
