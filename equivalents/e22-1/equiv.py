#!/usr/bin/env python
"""Equivalence check for refactoring 1: ``ceos_alos2.sar_image.io.read_metadata``.

Run as

    cd /tmp/wt4/e22 && PYTHONPATH=/tmp/wt4/e22 /venv/bin/python _eq/1/equiv.py

(or through pytest: ``python -m pytest -q -p no:cacheprovider _eq/1/equiv.py``).

Every case builds a synthetic CEOS SAR image file in memory, runs
``read_metadata`` on a file object that logs every request it receives and
compares

- the result (types, a digest of the full ``repr`` and a readable summary), or
  the exception type and message, and
- the exact sequence of I/O requests (``read(n)`` and how many bytes came back)

with the values in ``EXPECTED``, which were recorded with the UNCHANGED code
(``equiv.py --record`` prints the table).
"""

import hashlib
import io as stdio
import pprint
import struct
import sys

from construct import Int8ub, Seek, Struct, Tell, this

from ceos_alos2.sar_image import io as sio
from ceos_alos2.sar_image.file_descriptor import file_descriptor_record

SIGNAL_PREFIX = 544
PROCESSED_PREFIX = 192


# --------------------------------------------------------------------------
# synthetic files
# --------------------------------------------------------------------------
def leaf_offsets(struct_, base=0):
    offset = base
    for sc in struct_.subcons:
        size = sc.sizeof()
        inner = getattr(sc, "subcon", None)
        if isinstance(inner, Struct):
            yield from leaf_offsets(inner, offset)
        else:
            yield sc.name, (offset, size)
        offset += size


DESCRIPTOR_FIELDS = dict(leaf_offsets(file_descriptor_record))


def preamble(seq, record_type, length):
    return struct.pack(">IBBBBI", seq, 50, record_type, 18, 20, length)


def make_descriptor(n_records, record_length, **fields):
    buf = bytearray(b" " * 720)
    buf[:12] = preamble(1, 192, 720)
    values = {
        "number_of_sar_data_records": n_records,
        "sar_data_record_length": record_length,
        "number_of_lines_per_dataset": n_records,
        "number_of_data_groups_per_line": 4,
        "sar_data_format_type_code": "IU2",
        "interleaving_id": "BSQ",
        "maximum_data_range_of_pixel": 65535,
        **fields,
    }
    for name, value in values.items():
        offset, size = DESCRIPTOR_FIELDS[name]
        text = str(value)
        text = text.rjust(size) if isinstance(value, int) else text.ljust(size)
        assert len(text) == size, (name, value)
        buf[offset : offset + size] = text.encode("ascii")
    return bytes(buf)


def make_record(kind, seq, record_length):
    record_type, prefix = {"signal": (10, SIGNAL_PREFIX), "processed": (11, PROCESSED_PREFIX)}[kind]
    buf = bytearray(record_length)
    buf[:12] = preamble(seq + 1, record_type, record_length)
    struct.pack_into(">IIIIII", buf, 12, seq + 1, 1, 0, (record_length - prefix) // 2, 0, seq % 2)
    struct.pack_into(">III", buf, 36, 2020, 32 + seq, 1000 * seq + 7)
    struct.pack_into(">HHHH", buf, 48, 2, 0, seq % 2, 1)
    struct.pack_into(">II", buf, 56, 2_000_000 + seq, 3)
    if kind == "signal":
        struct.pack_into(">HHIIII", buf, 64, 1, 0, 27, 5, 6, 7)
        struct.pack_into(">Q", buf, 84, 1_000_000 * seq + 13)
        struct.pack_into(">II", buf, 92, 40 + seq, seq % 2)
        struct.pack_into(">I", buf, 128, 1)
        struct.pack_into(">II", buf, 132, 35_000_000 + seq, 139_000_000 + seq)
        buf[224:230] = b"spare\x00"
        struct.pack_into(">I", buf, 284, 710)
        buf[288:293] = b"aux\x00\x01"
    else:
        struct.pack_into(">III", buf, 64, 800_000, 850_000 + seq, 900_000)
        struct.pack_into(">I", buf, 128, seq)
        struct.pack_into(">II", buf, 132, 35_000_000 + seq, 35_500_000 + seq)
    for i in range(prefix, record_length):
        buf[i] = (seq * 31 + i) % 251
    return bytes(buf)


def make_file(kind, n_records, n_columns=4, declared_records=None, declared_length=None):
    prefix = SIGNAL_PREFIX if kind == "signal" else PROCESSED_PREFIX
    record_length = prefix + 2 * n_columns
    descriptor = make_descriptor(
        n_records if declared_records is None else declared_records,
        record_length if declared_length is None else declared_length,
    )
    return descriptor + b"".join(make_record(kind, seq, record_length) for seq in range(n_records))


class LoggedFile:
    """file object that records the requests it gets (and what it answered)"""

    def __init__(self, content):
        self._f = stdio.BytesIO(content)
        self.log = []

    def read(self, size=-1):
        entry = ["read", size, None]
        self.log.append(entry)
        data = self._f.read(size)
        entry[2] = len(data)
        return data

    def seek(self, *args):
        self.log.append(["seek", *args])
        return self._f.seek(*args)

    def tell(self):
        self.log.append(["tell"])
        return self._f.tell()


# --------------------------------------------------------------------------
# outcome capture
# --------------------------------------------------------------------------
def digest(obj):
    return hashlib.sha256(repr(obj).encode()).hexdigest()[:16]


def summarize(result):
    header, metadata = result
    records = [
        (m.get("record_start"), m["data"]["start"], m["data"]["stop"], m.get("sar_image_data_line_number"))
        for m in metadata
    ]
    return {
        "types": [type(result).__name__, type(header).__name__, type(metadata).__name__]
        + sorted({type(m).__name__ for m in metadata}),
        "n_records": header["number_of_sar_data_records"],
        "record_length": header["sar_data_record_length"],
        "header": digest(header),
        "metadata": digest(metadata),
        "records": records,
    }


def run(content, *args, **kwargs):
    f = LoggedFile(content)
    try:
        outcome = {"result": summarize(sio.read_metadata(f, *args, **kwargs))}
    except Exception as e:  # noqa: BLE001
        outcome = {"error": f"{type(e).__name__}: {e}"}
    outcome["io"] = [tuple(entry) for entry in f.log]
    return outcome


# --------------------------------------------------------------------------
# cases
# --------------------------------------------------------------------------
def real_cases():
    for kind in ("signal", "processed"):
        for n_records in (0, 1, 2, 3, 5, 7):
            content = make_file(kind, n_records)
            for rpc in (1, 2, 3, 4, 5, 7, 8, 1024):
                yield f"{kind}-n{n_records}-rpc{rpc}", (content, rpc), {}
            yield f"{kind}-n{n_records}-kw3", (content,), {"records_per_chunk": 3}
            yield f"{kind}-n{n_records}-default", (content,), {}

    content = make_file("signal", 5)
    # odd chunk sizes
    yield "rpc-none", (content, None), {}
    yield "rpc-zero", (content, 0), {}
    yield "rpc-negative", (content, -2), {}
    yield "rpc-float", (content, 2.0), {}
    yield "rpc-float-fraction", (content, 2.5), {}
    yield "rpc-str", (content, "2"), {}
    yield "rpc-bool", (content, True), {}
    yield "n0-rpc-zero", (make_file("signal", 0), 0), {}

    # broken files
    yield "empty-file", (b"", 2), {}
    yield "short-descriptor", (content[:500], 2), {}
    yield "descriptor-only", (content[:720], 2), {}
    yield "truncated-mid-record", (content[: 720 + 552 * 3 + 100], 2), {}
    yield "truncated-mid-record-rpc1", (content[: 720 + 552 * 3 + 100], 1), {}
    yield "truncated-on-record-boundary", (content[: 720 + 552 * 3], 2), {}
    yield "truncated-on-chunk-boundary", (content[: 720 + 552 * 2], 2), {}
    yield "declares-more-records", (make_file("signal", 3, declared_records=6), 2), {}
    yield "declares-fewer-records", (make_file("signal", 6, declared_records=3), 2), {}
    yield "declares-blank-counts", (make_file("signal", 3, declared_records="      "), 2), {}
    yield "declares-longer-records", (make_file("signal", 4, declared_length=600), 2), {}
    yield "declares-shorter-records", (make_file("signal", 4, declared_length=276), 2), {}
    yield "declares-zero-length", (make_file("signal", 4, declared_length=0), 2), {}

    bad_type = bytearray(make_file("processed", 4))
    bad_type[720 + 200 * 2 + 5] = 99  # record type of the third record
    yield "unknown-record-type-second-chunk", (bytes(bad_type), 2), {}
    yield "unknown-record-type-inside-chunk", (bytes(bad_type), 4), {}
    yield "unknown-record-type-third-chunk", (bytes(bad_type), 1), {}

    mixed = make_file("signal", 2) + make_file("signal", 2)[720:]
    mixed = make_descriptor(4, 552) + mixed[720:]
    yield "four-signal-records", (mixed, 3), {}


def dummy_cases():
    """the module-level hooks the unit tests replace must still be honoured"""
    dummy_header = {"number_of_sar_data_records": 3, "sar_data_record_length": 17}
    content = (
        b"\x03\x0E"
        + b"\x00\x00\x00\x01\x00\x0B\x00\x00\x00\x00\x00\x11\x03\x00\x00\x00\x00"
        + b"\x00\x00\x00\x02\x00\x0B\x00\x00\x00\x00\x00\x11\x04\x00\x00\x00\x00"
        + b"\x00\x00\x00\x03\x00\x0B\x00\x00\x00\x00\x00\x11\x05\x00\x00\x00\x00"
    )
    dummy_record_types = {
        11: Struct(
            "preamble" / sio.record_preamble,
            "record_start" / Tell,
            "a" / Int8ub,
            "data" / Struct("start" / Tell, "stop" / Seek(this.start + 4)),
        ),
    }

    def dummy_read_file_descriptor(f):
        f.read(2)

        return dict(dummy_header)

    calls = []
    original_parse_chunk = sio.parse_chunk
    original_adjust_offsets = sio.adjust_offsets

    def spying_parse_chunk(content, element_size):
        calls.append(("parse_chunk", len(content), element_size))
        return original_parse_chunk(content, element_size)

    def spying_adjust_offsets(records, offset):
        calls.append(("adjust_offsets", len(records), offset))
        return original_adjust_offsets(records, offset)

    saved = (sio.read_file_descriptor, sio.record_types, sio.parse_chunk, sio.adjust_offsets)
    sio.read_file_descriptor = dummy_read_file_descriptor
    sio.record_types = dummy_record_types
    sio.parse_chunk = spying_parse_chunk
    sio.adjust_offsets = spying_adjust_offsets
    try:
        for rpc in (1, 2, 3, 4):
            calls.clear()
            outcome = run(content, records_per_chunk=rpc)
            outcome["calls"] = list(calls)
            yield f"dummy-rpc{rpc}", outcome
    finally:
        sio.read_file_descriptor, sio.record_types, sio.parse_chunk, sio.adjust_offsets = saved


def untouched_helpers():
    """neighbouring functions of the same module, for good measure"""
    content = make_file("processed", 3)[720:]
    parsed = sio.parse_chunk(content, 200)
    yield "parse_chunk", {"digest": digest(sio.to_dict(parsed)), "type": type(parsed).__name__}
    adjusted = sio.adjust_offsets(parsed, 720)
    yield "adjust_offsets", {
        "same-objects": all(a is b for a, b in zip(parsed, adjusted)),
        "digest": digest(sio.to_dict(adjusted)),
    }
    f = LoggedFile(make_file("signal", 1))
    header = sio.read_file_descriptor(f)
    yield "read_file_descriptor", {"digest": digest(sio.to_dict(header)), "io": [tuple(e) for e in f.log]}


def collect():
    outcomes = {}
    for name, args, kwargs in real_cases():
        content, *rest = args
        outcomes[name] = run(content, *rest, **kwargs)
    for name, outcome in dummy_cases():
        outcomes[name] = outcome
    for name, outcome in untouched_helpers():
        outcomes[name] = outcome
    return outcomes


# recorded with the unchanged code: `equiv.py --record`
# >>> EXPECTED
# fmt: off
EXPECTED = {'signal-n0-rpc1': {'result': {'types': ['tuple', 'dict', 'list'],
                               'n_records': 0,
                               'record_length': 552,
                               'header': 'd81c88ec1a69adb2',
                               'metadata': '4f53cda18c2baa0c',
                               'records': []},
                    'io': [('read', 720, 720)]},
 'signal-n0-rpc2': {'result': {'types': ['tuple', 'dict', 'list'],
                               'n_records': 0,
                               'record_length': 552,
                               'header': 'd81c88ec1a69adb2',
                               'metadata': '4f53cda18c2baa0c',
                               'records': []},
                    'io': [('read', 720, 720)]},
 'signal-n0-rpc3': {'result': {'types': ['tuple', 'dict', 'list'],
                               'n_records': 0,
                               'record_length': 552,
                               'header': 'd81c88ec1a69adb2',
                               'metadata': '4f53cda18c2baa0c',
                               'records': []},
                    'io': [('read', 720, 720)]},
 'signal-n0-rpc4': {'result': {'types': ['tuple', 'dict', 'list'],
                               'n_records': 0,
                               'record_length': 552,
                               'header': 'd81c88ec1a69adb2',
                               'metadata': '4f53cda18c2baa0c',
                               'records': []},
                    'io': [('read', 720, 720)]},
 'signal-n0-rpc5': {'result': {'types': ['tuple', 'dict', 'list'],
                               'n_records': 0,
                               'record_length': 552,
                               'header': 'd81c88ec1a69adb2',
                               'metadata': '4f53cda18c2baa0c',
                               'records': []},
                    'io': [('read', 720, 720)]},
 'signal-n0-rpc7': {'result': {'types': ['tuple', 'dict', 'list'],
                               'n_records': 0,
                               'record_length': 552,
                               'header': 'd81c88ec1a69adb2',
                               'metadata': '4f53cda18c2baa0c',
                               'records': []},
                    'io': [('read', 720, 720)]},
 'signal-n0-rpc8': {'result': {'types': ['tuple', 'dict', 'list'],
                               'n_records': 0,
                               'record_length': 552,
                               'header': 'd81c88ec1a69adb2',
                               'metadata': '4f53cda18c2baa0c',
                               'records': []},
                    'io': [('read', 720, 720)]},
 'signal-n0-rpc1024': {'result': {'types': ['tuple', 'dict', 'list'],
                                  'n_records': 0,
                                  'record_length': 552,
                                  'header': 'd81c88ec1a69adb2',
                                  'metadata': '4f53cda18c2baa0c',
                                  'records': []},
                       'io': [('read', 720, 720)]},
 'signal-n0-kw3': {'result': {'types': ['tuple', 'dict', 'list'],
                              'n_records': 0,
                              'record_length': 552,
                              'header': 'd81c88ec1a69adb2',
                              'metadata': '4f53cda18c2baa0c',
                              'records': []},
                   'io': [('read', 720, 720)]},
 'signal-n0-default': {'result': {'types': ['tuple', 'dict', 'list'],
                                  'n_records': 0,
                                  'record_length': 552,
                                  'header': 'd81c88ec1a69adb2',
                                  'metadata': '4f53cda18c2baa0c',
                                  'records': []},
                       'io': [('read', 720, 720)]},
 'signal-n1-rpc1': {'result': {'types': ['tuple', 'dict', 'list', 'dict'],
                               'n_records': 1,
                               'record_length': 552,
                               'header': '028f40092632da90',
                               'metadata': '55a3e542f8d4ec22',
                               'records': [(720, 1264, 1272, 1)]},
                    'io': [('read', 720, 720), ('read', 552, 552)]},
 'signal-n1-rpc2': {'result': {'types': ['tuple', 'dict', 'list', 'dict'],
                               'n_records': 1,
                               'record_length': 552,
                               'header': '028f40092632da90',
                               'metadata': '55a3e542f8d4ec22',
                               'records': [(720, 1264, 1272, 1)]},
                    'io': [('read', 720, 720), ('read', 552, 552)]},
 'signal-n1-rpc3': {'result': {'types': ['tuple', 'dict', 'list', 'dict'],
                               'n_records': 1,
                               'record_length': 552,
                               'header': '028f40092632da90',
                               'metadata': '55a3e542f8d4ec22',
                               'records': [(720, 1264, 1272, 1)]},
                    'io': [('read', 720, 720), ('read', 552, 552)]},
 'signal-n1-rpc4': {'result': {'types': ['tuple', 'dict', 'list', 'dict'],
                               'n_records': 1,
                               'record_length': 552,
                               'header': '028f40092632da90',
                               'metadata': '55a3e542f8d4ec22',
                               'records': [(720, 1264, 1272, 1)]},
                    'io': [('read', 720, 720), ('read', 552, 552)]},
 'signal-n1-rpc5': {'result': {'types': ['tuple', 'dict', 'list', 'dict'],
                               'n_records': 1,
                               'record_length': 552,
                               'header': '028f40092632da90',
                               'metadata': '55a3e542f8d4ec22',
                               'records': [(720, 1264, 1272, 1)]},
                    'io': [('read', 720, 720), ('read', 552, 552)]},
 'signal-n1-rpc7': {'result': {'types': ['tuple', 'dict', 'list', 'dict'],
                               'n_records': 1,
                               'record_length': 552,
                               'header': '028f40092632da90',
                               'metadata': '55a3e542f8d4ec22',
                               'records': [(720, 1264, 1272, 1)]},
                    'io': [('read', 720, 720), ('read', 552, 552)]},
 'signal-n1-rpc8': {'result': {'types': ['tuple', 'dict', 'list', 'dict'],
                               'n_records': 1,
                               'record_length': 552,
                               'header': '028f40092632da90',
                               'metadata': '55a3e542f8d4ec22',
                               'records': [(720, 1264, 1272, 1)]},
                    'io': [('read', 720, 720), ('read', 552, 552)]},
 'signal-n1-rpc1024': {'result': {'types': ['tuple', 'dict', 'list', 'dict'],
                                  'n_records': 1,
                                  'record_length': 552,
                                  'header': '028f40092632da90',
                                  'metadata': '55a3e542f8d4ec22',
                                  'records': [(720, 1264, 1272, 1)]},
                       'io': [('read', 720, 720), ('read', 552, 552)]},
 'signal-n1-kw3': {'result': {'types': ['tuple', 'dict', 'list', 'dict'],
                              'n_records': 1,
                              'record_length': 552,
                              'header': '028f40092632da90',
                              'metadata': '55a3e542f8d4ec22',
                              'records': [(720, 1264, 1272, 1)]},
                   'io': [('read', 720, 720), ('read', 552, 552)]},
 'signal-n1-default': {'result': {'types': ['tuple', 'dict', 'list', 'dict'],
                                  'n_records': 1,
                                  'record_length': 552,
                                  'header': '028f40092632da90',
                                  'metadata': '55a3e542f8d4ec22',
                                  'records': [(720, 1264, 1272, 1)]},
                       'io': [('read', 720, 720), ('read', 552, 552)]},
 'signal-n2-rpc1': {'result': {'types': ['tuple', 'dict', 'list', 'dict'],
                               'n_records': 2,
                               'record_length': 552,
                               'header': '24eb2054f9bdb2f4',
                               'metadata': 'f1847a59fcc3b67c',
                               'records': [(720, 1264, 1272, 1), (1272, 1816, 1824, 2)]},
                    'io': [('read', 720, 720), ('read', 552, 552), ('read', 552, 552)]},
 'signal-n2-rpc2': {'result': {'types': ['tuple', 'dict', 'list', 'dict'],
                               'n_records': 2,
                               'record_length': 552,
                               'header': '24eb2054f9bdb2f4',
                               'metadata': 'f1847a59fcc3b67c',
                               'records': [(720, 1264, 1272, 1), (1272, 1816, 1824, 2)]},
                    'io': [('read', 720, 720), ('read', 1104, 1104)]},
 'signal-n2-rpc3': {'result': {'types': ['tuple', 'dict', 'list', 'dict'],
                               'n_records': 2,
                               'record_length': 552,
                               'header': '24eb2054f9bdb2f4',
                               'metadata': 'f1847a59fcc3b67c',
                               'records': [(720, 1264, 1272, 1), (1272, 1816, 1824, 2)]},
                    'io': [('read', 720, 720), ('read', 1104, 1104)]},
 'signal-n2-rpc4': {'result': {'types': ['tuple', 'dict', 'list', 'dict'],
                               'n_records': 2,
                               'record_length': 552,
                               'header': '24eb2054f9bdb2f4',
                               'metadata': 'f1847a59fcc3b67c',
                               'records': [(720, 1264, 1272, 1), (1272, 1816, 1824, 2)]},
                    'io': [('read', 720, 720), ('read', 1104, 1104)]},
 'signal-n2-rpc5': {'result': {'types': ['tuple', 'dict', 'list', 'dict'],
                               'n_records': 2,
                               'record_length': 552,
                               'header': '24eb2054f9bdb2f4',
                               'metadata': 'f1847a59fcc3b67c',
                               'records': [(720, 1264, 1272, 1), (1272, 1816, 1824, 2)]},
                    'io': [('read', 720, 720), ('read', 1104, 1104)]},
 'signal-n2-rpc7': {'result': {'types': ['tuple', 'dict', 'list', 'dict'],
                               'n_records': 2,
                               'record_length': 552,
                               'header': '24eb2054f9bdb2f4',
                               'metadata': 'f1847a59fcc3b67c',
                               'records': [(720, 1264, 1272, 1), (1272, 1816, 1824, 2)]},
                    'io': [('read', 720, 720), ('read', 1104, 1104)]},
 'signal-n2-rpc8': {'result': {'types': ['tuple', 'dict', 'list', 'dict'],
                               'n_records': 2,
                               'record_length': 552,
                               'header': '24eb2054f9bdb2f4',
                               'metadata': 'f1847a59fcc3b67c',
                               'records': [(720, 1264, 1272, 1), (1272, 1816, 1824, 2)]},
                    'io': [('read', 720, 720), ('read', 1104, 1104)]},
 'signal-n2-rpc1024': {'result': {'types': ['tuple', 'dict', 'list', 'dict'],
                                  'n_records': 2,
                                  'record_length': 552,
                                  'header': '24eb2054f9bdb2f4',
                                  'metadata': 'f1847a59fcc3b67c',
                                  'records': [(720, 1264, 1272, 1), (1272, 1816, 1824, 2)]},
                       'io': [('read', 720, 720), ('read', 1104, 1104)]},
 'signal-n2-kw3': {'result': {'types': ['tuple', 'dict', 'list', 'dict'],
                              'n_records': 2,
                              'record_length': 552,
                              'header': '24eb2054f9bdb2f4',
                              'metadata': 'f1847a59fcc3b67c',
                              'records': [(720, 1264, 1272, 1), (1272, 1816, 1824, 2)]},
                   'io': [('read', 720, 720), ('read', 1104, 1104)]},
 'signal-n2-default': {'result': {'types': ['tuple', 'dict', 'list', 'dict'],
                                  'n_records': 2,
                                  'record_length': 552,
                                  'header': '24eb2054f9bdb2f4',
                                  'metadata': 'f1847a59fcc3b67c',
                                  'records': [(720, 1264, 1272, 1), (1272, 1816, 1824, 2)]},
                       'io': [('read', 720, 720), ('read', 1104, 1104)]},
 'signal-n3-rpc1': {'result': {'types': ['tuple', 'dict', 'list', 'dict'],
                               'n_records': 3,
                               'record_length': 552,
                               'header': '2c824486375e2794',
                               'metadata': 'c99b64043f5cd3b3',
                               'records': [(720, 1264, 1272, 1), (1272, 1816, 1824, 2), (1824, 2368, 2376, 3)]},
                    'io': [('read', 720, 720), ('read', 552, 552), ('read', 552, 552), ('read', 552, 552)]},
 'signal-n3-rpc2': {'result': {'types': ['tuple', 'dict', 'list', 'dict'],
                               'n_records': 3,
                               'record_length': 552,
                               'header': '2c824486375e2794',
                               'metadata': 'c99b64043f5cd3b3',
                               'records': [(720, 1264, 1272, 1), (1272, 1816, 1824, 2), (1824, 2368, 2376, 3)]},
                    'io': [('read', 720, 720), ('read', 1104, 1104), ('read', 552, 552)]},
 'signal-n3-rpc3': {'result': {'types': ['tuple', 'dict', 'list', 'dict'],
                               'n_records': 3,
                               'record_length': 552,
                               'header': '2c824486375e2794',
                               'metadata': 'c99b64043f5cd3b3',
                               'records': [(720, 1264, 1272, 1), (1272, 1816, 1824, 2), (1824, 2368, 2376, 3)]},
                    'io': [('read', 720, 720), ('read', 1656, 1656)]},
 'signal-n3-rpc4': {'result': {'types': ['tuple', 'dict', 'list', 'dict'],
                               'n_records': 3,
                               'record_length': 552,
                               'header': '2c824486375e2794',
                               'metadata': 'c99b64043f5cd3b3',
                               'records': [(720, 1264, 1272, 1), (1272, 1816, 1824, 2), (1824, 2368, 2376, 3)]},
                    'io': [('read', 720, 720), ('read', 1656, 1656)]},
 'signal-n3-rpc5': {'result': {'types': ['tuple', 'dict', 'list', 'dict'],
                               'n_records': 3,
                               'record_length': 552,
                               'header': '2c824486375e2794',
                               'metadata': 'c99b64043f5cd3b3',
                               'records': [(720, 1264, 1272, 1), (1272, 1816, 1824, 2), (1824, 2368, 2376, 3)]},
                    'io': [('read', 720, 720), ('read', 1656, 1656)]},
 'signal-n3-rpc7': {'result': {'types': ['tuple', 'dict', 'list', 'dict'],
                               'n_records': 3,
                               'record_length': 552,
                               'header': '2c824486375e2794',
                               'metadata': 'c99b64043f5cd3b3',
                               'records': [(720, 1264, 1272, 1), (1272, 1816, 1824, 2), (1824, 2368, 2376, 3)]},
                    'io': [('read', 720, 720), ('read', 1656, 1656)]},
 'signal-n3-rpc8': {'result': {'types': ['tuple', 'dict', 'list', 'dict'],
                               'n_records': 3,
                               'record_length': 552,
                               'header': '2c824486375e2794',
                               'metadata': 'c99b64043f5cd3b3',
                               'records': [(720, 1264, 1272, 1), (1272, 1816, 1824, 2), (1824, 2368, 2376, 3)]},
                    'io': [('read', 720, 720), ('read', 1656, 1656)]},
 'signal-n3-rpc1024': {'result': {'types': ['tuple', 'dict', 'list', 'dict'],
                                  'n_records': 3,
                                  'record_length': 552,
                                  'header': '2c824486375e2794',
                                  'metadata': 'c99b64043f5cd3b3',
                                  'records': [(720, 1264, 1272, 1), (1272, 1816, 1824, 2), (1824, 2368, 2376, 3)]},
                       'io': [('read', 720, 720), ('read', 1656, 1656)]},
 'signal-n3-kw3': {'result': {'types': ['tuple', 'dict', 'list', 'dict'],
                              'n_records': 3,
                              'record_length': 552,
                              'header': '2c824486375e2794',
                              'metadata': 'c99b64043f5cd3b3',
                              'records': [(720, 1264, 1272, 1), (1272, 1816, 1824, 2), (1824, 2368, 2376, 3)]},
                   'io': [('read', 720, 720), ('read', 1656, 1656)]},
 'signal-n3-default': {'result': {'types': ['tuple', 'dict', 'list', 'dict'],
                                  'n_records': 3,
                                  'record_length': 552,
                                  'header': '2c824486375e2794',
                                  'metadata': 'c99b64043f5cd3b3',
                                  'records': [(720, 1264, 1272, 1), (1272, 1816, 1824, 2), (1824, 2368, 2376, 3)]},
                       'io': [('read', 720, 720), ('read', 1656, 1656)]},
 'signal-n5-rpc1': {'result': {'types': ['tuple', 'dict', 'list', 'dict'],
                               'n_records': 5,
                               'record_length': 552,
                               'header': 'e935b8b34803bfe0',
                               'metadata': '1234b09f77d0556f',
                               'records': [(720, 1264, 1272, 1), (1272, 1816, 1824, 2), (1824, 2368, 2376, 3), (2376, 2920, 2928, 4), (2928, 3472, 3480, 5)]},
                    'io': [('read', 720, 720), ('read', 552, 552), ('read', 552, 552), ('read', 552, 552), ('read', 552, 552), ('read', 552, 552)]},
 'signal-n5-rpc2': {'result': {'types': ['tuple', 'dict', 'list', 'dict'],
                               'n_records': 5,
                               'record_length': 552,
                               'header': 'e935b8b34803bfe0',
                               'metadata': '1234b09f77d0556f',
                               'records': [(720, 1264, 1272, 1), (1272, 1816, 1824, 2), (1824, 2368, 2376, 3), (2376, 2920, 2928, 4), (2928, 3472, 3480, 5)]},
                    'io': [('read', 720, 720), ('read', 1104, 1104), ('read', 1104, 1104), ('read', 552, 552)]},
 'signal-n5-rpc3': {'result': {'types': ['tuple', 'dict', 'list', 'dict'],
                               'n_records': 5,
                               'record_length': 552,
                               'header': 'e935b8b34803bfe0',
                               'metadata': '1234b09f77d0556f',
                               'records': [(720, 1264, 1272, 1), (1272, 1816, 1824, 2), (1824, 2368, 2376, 3), (2376, 2920, 2928, 4), (2928, 3472, 3480, 5)]},
                    'io': [('read', 720, 720), ('read', 1656, 1656), ('read', 1104, 1104)]},
 'signal-n5-rpc4': {'result': {'types': ['tuple', 'dict', 'list', 'dict'],
                               'n_records': 5,
                               'record_length': 552,
                               'header': 'e935b8b34803bfe0',
                               'metadata': '1234b09f77d0556f',
                               'records': [(720, 1264, 1272, 1), (1272, 1816, 1824, 2), (1824, 2368, 2376, 3), (2376, 2920, 2928, 4), (2928, 3472, 3480, 5)]},
                    'io': [('read', 720, 720), ('read', 2208, 2208), ('read', 552, 552)]},
 'signal-n5-rpc5': {'result': {'types': ['tuple', 'dict', 'list', 'dict'],
                               'n_records': 5,
                               'record_length': 552,
                               'header': 'e935b8b34803bfe0',
                               'metadata': '1234b09f77d0556f',
                               'records': [(720, 1264, 1272, 1), (1272, 1816, 1824, 2), (1824, 2368, 2376, 3), (2376, 2920, 2928, 4), (2928, 3472, 3480, 5)]},
                    'io': [('read', 720, 720), ('read', 2760, 2760)]},
 'signal-n5-rpc7': {'result': {'types': ['tuple', 'dict', 'list', 'dict'],
                               'n_records': 5,
                               'record_length': 552,
                               'header': 'e935b8b34803bfe0',
                               'metadata': '1234b09f77d0556f',
                               'records': [(720, 1264, 1272, 1), (1272, 1816, 1824, 2), (1824, 2368, 2376, 3), (2376, 2920, 2928, 4), (2928, 3472, 3480, 5)]},
                    'io': [('read', 720, 720), ('read', 2760, 2760)]},
 'signal-n5-rpc8': {'result': {'types': ['tuple', 'dict', 'list', 'dict'],
                               'n_records': 5,
                               'record_length': 552,
                               'header': 'e935b8b34803bfe0',
                               'metadata': '1234b09f77d0556f',
                               'records': [(720, 1264, 1272, 1), (1272, 1816, 1824, 2), (1824, 2368, 2376, 3), (2376, 2920, 2928, 4), (2928, 3472, 3480, 5)]},
                    'io': [('read', 720, 720), ('read', 2760, 2760)]},
 'signal-n5-rpc1024': {'result': {'types': ['tuple', 'dict', 'list', 'dict'],
                                  'n_records': 5,
                                  'record_length': 552,
                                  'header': 'e935b8b34803bfe0',
                                  'metadata': '1234b09f77d0556f',
                                  'records': [(720, 1264, 1272, 1), (1272, 1816, 1824, 2), (1824, 2368, 2376, 3), (2376, 2920, 2928, 4),
                                              (2928, 3472, 3480, 5)]},
                       'io': [('read', 720, 720), ('read', 2760, 2760)]},
 'signal-n5-kw3': {'result': {'types': ['tuple', 'dict', 'list', 'dict'],
                              'n_records': 5,
                              'record_length': 552,
                              'header': 'e935b8b34803bfe0',
                              'metadata': '1234b09f77d0556f',
                              'records': [(720, 1264, 1272, 1), (1272, 1816, 1824, 2), (1824, 2368, 2376, 3), (2376, 2920, 2928, 4), (2928, 3472, 3480, 5)]},
                   'io': [('read', 720, 720), ('read', 1656, 1656), ('read', 1104, 1104)]},
 'signal-n5-default': {'result': {'types': ['tuple', 'dict', 'list', 'dict'],
                                  'n_records': 5,
                                  'record_length': 552,
                                  'header': 'e935b8b34803bfe0',
                                  'metadata': '1234b09f77d0556f',
                                  'records': [(720, 1264, 1272, 1), (1272, 1816, 1824, 2), (1824, 2368, 2376, 3), (2376, 2920, 2928, 4),
                                              (2928, 3472, 3480, 5)]},
                       'io': [('read', 720, 720), ('read', 2760, 2760)]},
 'signal-n7-rpc1': {'result': {'types': ['tuple', 'dict', 'list', 'dict'],
                               'n_records': 7,
                               'record_length': 552,
                               'header': '08b6b77701bbbe15',
                               'metadata': 'b1f5f6bb63325cca',
                               'records': [(720, 1264, 1272, 1), (1272, 1816, 1824, 2), (1824, 2368, 2376, 3), (2376, 2920, 2928, 4), (2928, 3472, 3480, 5),
                                           (3480, 4024, 4032, 6), (4032, 4576, 4584, 7)]},
                    'io': [('read', 720, 720), ('read', 552, 552), ('read', 552, 552), ('read', 552, 552), ('read', 552, 552), ('read', 552, 552),
                           ('read', 552, 552), ('read', 552, 552)]},
 'signal-n7-rpc2': {'result': {'types': ['tuple', 'dict', 'list', 'dict'],
                               'n_records': 7,
                               'record_length': 552,
                               'header': '08b6b77701bbbe15',
                               'metadata': 'b1f5f6bb63325cca',
                               'records': [(720, 1264, 1272, 1), (1272, 1816, 1824, 2), (1824, 2368, 2376, 3), (2376, 2920, 2928, 4), (2928, 3472, 3480, 5),
                                           (3480, 4024, 4032, 6), (4032, 4576, 4584, 7)]},
                    'io': [('read', 720, 720), ('read', 1104, 1104), ('read', 1104, 1104), ('read', 1104, 1104), ('read', 552, 552)]},
 'signal-n7-rpc3': {'result': {'types': ['tuple', 'dict', 'list', 'dict'],
                               'n_records': 7,
                               'record_length': 552,
                               'header': '08b6b77701bbbe15',
                               'metadata': 'b1f5f6bb63325cca',
                               'records': [(720, 1264, 1272, 1), (1272, 1816, 1824, 2), (1824, 2368, 2376, 3), (2376, 2920, 2928, 4), (2928, 3472, 3480, 5),
                                           (3480, 4024, 4032, 6), (4032, 4576, 4584, 7)]},
                    'io': [('read', 720, 720), ('read', 1656, 1656), ('read', 1656, 1656), ('read', 552, 552)]},
 'signal-n7-rpc4': {'result': {'types': ['tuple', 'dict', 'list', 'dict'],
                               'n_records': 7,
                               'record_length': 552,
                               'header': '08b6b77701bbbe15',
                               'metadata': 'b1f5f6bb63325cca',
                               'records': [(720, 1264, 1272, 1), (1272, 1816, 1824, 2), (1824, 2368, 2376, 3), (2376, 2920, 2928, 4), (2928, 3472, 3480, 5),
                                           (3480, 4024, 4032, 6), (4032, 4576, 4584, 7)]},
                    'io': [('read', 720, 720), ('read', 2208, 2208), ('read', 1656, 1656)]},
 'signal-n7-rpc5': {'result': {'types': ['tuple', 'dict', 'list', 'dict'],
                               'n_records': 7,
                               'record_length': 552,
                               'header': '08b6b77701bbbe15',
                               'metadata': 'b1f5f6bb63325cca',
                               'records': [(720, 1264, 1272, 1), (1272, 1816, 1824, 2), (1824, 2368, 2376, 3), (2376, 2920, 2928, 4), (2928, 3472, 3480, 5),
                                           (3480, 4024, 4032, 6), (4032, 4576, 4584, 7)]},
                    'io': [('read', 720, 720), ('read', 2760, 2760), ('read', 1104, 1104)]},
 'signal-n7-rpc7': {'result': {'types': ['tuple', 'dict', 'list', 'dict'],
                               'n_records': 7,
                               'record_length': 552,
                               'header': '08b6b77701bbbe15',
                               'metadata': 'b1f5f6bb63325cca',
                               'records': [(720, 1264, 1272, 1), (1272, 1816, 1824, 2), (1824, 2368, 2376, 3), (2376, 2920, 2928, 4), (2928, 3472, 3480, 5),
                                           (3480, 4024, 4032, 6), (4032, 4576, 4584, 7)]},
                    'io': [('read', 720, 720), ('read', 3864, 3864)]},
 'signal-n7-rpc8': {'result': {'types': ['tuple', 'dict', 'list', 'dict'],
                               'n_records': 7,
                               'record_length': 552,
                               'header': '08b6b77701bbbe15',
                               'metadata': 'b1f5f6bb63325cca',
                               'records': [(720, 1264, 1272, 1), (1272, 1816, 1824, 2), (1824, 2368, 2376, 3), (2376, 2920, 2928, 4), (2928, 3472, 3480, 5),
                                           (3480, 4024, 4032, 6), (4032, 4576, 4584, 7)]},
                    'io': [('read', 720, 720), ('read', 3864, 3864)]},
 'signal-n7-rpc1024': {'result': {'types': ['tuple', 'dict', 'list', 'dict'],
                                  'n_records': 7,
                                  'record_length': 552,
                                  'header': '08b6b77701bbbe15',
                                  'metadata': 'b1f5f6bb63325cca',
                                  'records': [(720, 1264, 1272, 1), (1272, 1816, 1824, 2), (1824, 2368, 2376, 3), (2376, 2920, 2928, 4), (2928, 3472, 3480, 5),
                                              (3480, 4024, 4032, 6), (4032, 4576, 4584, 7)]},
                       'io': [('read', 720, 720), ('read', 3864, 3864)]},
 'signal-n7-kw3': {'result': {'types': ['tuple', 'dict', 'list', 'dict'],
                              'n_records': 7,
                              'record_length': 552,
                              'header': '08b6b77701bbbe15',
                              'metadata': 'b1f5f6bb63325cca',
                              'records': [(720, 1264, 1272, 1), (1272, 1816, 1824, 2), (1824, 2368, 2376, 3), (2376, 2920, 2928, 4), (2928, 3472, 3480, 5),
                                          (3480, 4024, 4032, 6), (4032, 4576, 4584, 7)]},
                   'io': [('read', 720, 720), ('read', 1656, 1656), ('read', 1656, 1656), ('read', 552, 552)]},
 'signal-n7-default': {'result': {'types': ['tuple', 'dict', 'list', 'dict'],
                                  'n_records': 7,
                                  'record_length': 552,
                                  'header': '08b6b77701bbbe15',
                                  'metadata': 'b1f5f6bb63325cca',
                                  'records': [(720, 1264, 1272, 1), (1272, 1816, 1824, 2), (1824, 2368, 2376, 3), (2376, 2920, 2928, 4), (2928, 3472, 3480, 5),
                                              (3480, 4024, 4032, 6), (4032, 4576, 4584, 7)]},
                       'io': [('read', 720, 720), ('read', 3864, 3864)]},
 'processed-n0-rpc1': {'result': {'types': ['tuple', 'dict', 'list'],
                                  'n_records': 0,
                                  'record_length': 200,
                                  'header': 'bd5fe66416df036d',
                                  'metadata': '4f53cda18c2baa0c',
                                  'records': []},
                       'io': [('read', 720, 720)]},
 'processed-n0-rpc2': {'result': {'types': ['tuple', 'dict', 'list'],
                                  'n_records': 0,
                                  'record_length': 200,
                                  'header': 'bd5fe66416df036d',
                                  'metadata': '4f53cda18c2baa0c',
                                  'records': []},
                       'io': [('read', 720, 720)]},
 'processed-n0-rpc3': {'result': {'types': ['tuple', 'dict', 'list'],
                                  'n_records': 0,
                                  'record_length': 200,
                                  'header': 'bd5fe66416df036d',
                                  'metadata': '4f53cda18c2baa0c',
                                  'records': []},
                       'io': [('read', 720, 720)]},
 'processed-n0-rpc4': {'result': {'types': ['tuple', 'dict', 'list'],
                                  'n_records': 0,
                                  'record_length': 200,
                                  'header': 'bd5fe66416df036d',
                                  'metadata': '4f53cda18c2baa0c',
                                  'records': []},
                       'io': [('read', 720, 720)]},
 'processed-n0-rpc5': {'result': {'types': ['tuple', 'dict', 'list'],
                                  'n_records': 0,
                                  'record_length': 200,
                                  'header': 'bd5fe66416df036d',
                                  'metadata': '4f53cda18c2baa0c',
                                  'records': []},
                       'io': [('read', 720, 720)]},
 'processed-n0-rpc7': {'result': {'types': ['tuple', 'dict', 'list'],
                                  'n_records': 0,
                                  'record_length': 200,
                                  'header': 'bd5fe66416df036d',
                                  'metadata': '4f53cda18c2baa0c',
                                  'records': []},
                       'io': [('read', 720, 720)]},
 'processed-n0-rpc8': {'result': {'types': ['tuple', 'dict', 'list'],
                                  'n_records': 0,
                                  'record_length': 200,
                                  'header': 'bd5fe66416df036d',
                                  'metadata': '4f53cda18c2baa0c',
                                  'records': []},
                       'io': [('read', 720, 720)]},
 'processed-n0-rpc1024': {'result': {'types': ['tuple', 'dict', 'list'],
                                     'n_records': 0,
                                     'record_length': 200,
                                     'header': 'bd5fe66416df036d',
                                     'metadata': '4f53cda18c2baa0c',
                                     'records': []},
                          'io': [('read', 720, 720)]},
 'processed-n0-kw3': {'result': {'types': ['tuple', 'dict', 'list'],
                                 'n_records': 0,
                                 'record_length': 200,
                                 'header': 'bd5fe66416df036d',
                                 'metadata': '4f53cda18c2baa0c',
                                 'records': []},
                      'io': [('read', 720, 720)]},
 'processed-n0-default': {'result': {'types': ['tuple', 'dict', 'list'],
                                     'n_records': 0,
                                     'record_length': 200,
                                     'header': 'bd5fe66416df036d',
                                     'metadata': '4f53cda18c2baa0c',
                                     'records': []},
                          'io': [('read', 720, 720)]},
 'processed-n1-rpc1': {'result': {'types': ['tuple', 'dict', 'list', 'dict'],
                                  'n_records': 1,
                                  'record_length': 200,
                                  'header': 'fb96b28aed24734a',
                                  'metadata': '2dba62181e5e099e',
                                  'records': [(720, 912, 920, 1)]},
                       'io': [('read', 720, 720), ('read', 200, 200)]},
 'processed-n1-rpc2': {'result': {'types': ['tuple', 'dict', 'list', 'dict'],
                                  'n_records': 1,
                                  'record_length': 200,
                                  'header': 'fb96b28aed24734a',
                                  'metadata': '2dba62181e5e099e',
                                  'records': [(720, 912, 920, 1)]},
                       'io': [('read', 720, 720), ('read', 200, 200)]},
 'processed-n1-rpc3': {'result': {'types': ['tuple', 'dict', 'list', 'dict'],
                                  'n_records': 1,
                                  'record_length': 200,
                                  'header': 'fb96b28aed24734a',
                                  'metadata': '2dba62181e5e099e',
                                  'records': [(720, 912, 920, 1)]},
                       'io': [('read', 720, 720), ('read', 200, 200)]},
 'processed-n1-rpc4': {'result': {'types': ['tuple', 'dict', 'list', 'dict'],
                                  'n_records': 1,
                                  'record_length': 200,
                                  'header': 'fb96b28aed24734a',
                                  'metadata': '2dba62181e5e099e',
                                  'records': [(720, 912, 920, 1)]},
                       'io': [('read', 720, 720), ('read', 200, 200)]},
 'processed-n1-rpc5': {'result': {'types': ['tuple', 'dict', 'list', 'dict'],
                                  'n_records': 1,
                                  'record_length': 200,
                                  'header': 'fb96b28aed24734a',
                                  'metadata': '2dba62181e5e099e',
                                  'records': [(720, 912, 920, 1)]},
                       'io': [('read', 720, 720), ('read', 200, 200)]},
 'processed-n1-rpc7': {'result': {'types': ['tuple', 'dict', 'list', 'dict'],
                                  'n_records': 1,
                                  'record_length': 200,
                                  'header': 'fb96b28aed24734a',
                                  'metadata': '2dba62181e5e099e',
                                  'records': [(720, 912, 920, 1)]},
                       'io': [('read', 720, 720), ('read', 200, 200)]},
 'processed-n1-rpc8': {'result': {'types': ['tuple', 'dict', 'list', 'dict'],
                                  'n_records': 1,
                                  'record_length': 200,
                                  'header': 'fb96b28aed24734a',
                                  'metadata': '2dba62181e5e099e',
                                  'records': [(720, 912, 920, 1)]},
                       'io': [('read', 720, 720), ('read', 200, 200)]},
 'processed-n1-rpc1024': {'result': {'types': ['tuple', 'dict', 'list', 'dict'],
                                     'n_records': 1,
                                     'record_length': 200,
                                     'header': 'fb96b28aed24734a',
                                     'metadata': '2dba62181e5e099e',
                                     'records': [(720, 912, 920, 1)]},
                          'io': [('read', 720, 720), ('read', 200, 200)]},
 'processed-n1-kw3': {'result': {'types': ['tuple', 'dict', 'list', 'dict'],
                                 'n_records': 1,
                                 'record_length': 200,
                                 'header': 'fb96b28aed24734a',
                                 'metadata': '2dba62181e5e099e',
                                 'records': [(720, 912, 920, 1)]},
                      'io': [('read', 720, 720), ('read', 200, 200)]},
 'processed-n1-default': {'result': {'types': ['tuple', 'dict', 'list', 'dict'],
                                     'n_records': 1,
                                     'record_length': 200,
                                     'header': 'fb96b28aed24734a',
                                     'metadata': '2dba62181e5e099e',
                                     'records': [(720, 912, 920, 1)]},
                          'io': [('read', 720, 720), ('read', 200, 200)]},
 'processed-n2-rpc1': {'result': {'types': ['tuple', 'dict', 'list', 'dict'],
                                  'n_records': 2,
                                  'record_length': 200,
                                  'header': 'a2478b9838c97897',
                                  'metadata': 'c188db6facc78240',
                                  'records': [(720, 912, 920, 1), (920, 1112, 1120, 2)]},
                       'io': [('read', 720, 720), ('read', 200, 200), ('read', 200, 200)]},
 'processed-n2-rpc2': {'result': {'types': ['tuple', 'dict', 'list', 'dict'],
                                  'n_records': 2,
                                  'record_length': 200,
                                  'header': 'a2478b9838c97897',
                                  'metadata': 'c188db6facc78240',
                                  'records': [(720, 912, 920, 1), (920, 1112, 1120, 2)]},
                       'io': [('read', 720, 720), ('read', 400, 400)]},
 'processed-n2-rpc3': {'result': {'types': ['tuple', 'dict', 'list', 'dict'],
                                  'n_records': 2,
                                  'record_length': 200,
                                  'header': 'a2478b9838c97897',
                                  'metadata': 'c188db6facc78240',
                                  'records': [(720, 912, 920, 1), (920, 1112, 1120, 2)]},
                       'io': [('read', 720, 720), ('read', 400, 400)]},
 'processed-n2-rpc4': {'result': {'types': ['tuple', 'dict', 'list', 'dict'],
                                  'n_records': 2,
                                  'record_length': 200,
                                  'header': 'a2478b9838c97897',
                                  'metadata': 'c188db6facc78240',
                                  'records': [(720, 912, 920, 1), (920, 1112, 1120, 2)]},
                       'io': [('read', 720, 720), ('read', 400, 400)]},
 'processed-n2-rpc5': {'result': {'types': ['tuple', 'dict', 'list', 'dict'],
                                  'n_records': 2,
                                  'record_length': 200,
                                  'header': 'a2478b9838c97897',
                                  'metadata': 'c188db6facc78240',
                                  'records': [(720, 912, 920, 1), (920, 1112, 1120, 2)]},
                       'io': [('read', 720, 720), ('read', 400, 400)]},
 'processed-n2-rpc7': {'result': {'types': ['tuple', 'dict', 'list', 'dict'],
                                  'n_records': 2,
                                  'record_length': 200,
                                  'header': 'a2478b9838c97897',
                                  'metadata': 'c188db6facc78240',
                                  'records': [(720, 912, 920, 1), (920, 1112, 1120, 2)]},
                       'io': [('read', 720, 720), ('read', 400, 400)]},
 'processed-n2-rpc8': {'result': {'types': ['tuple', 'dict', 'list', 'dict'],
                                  'n_records': 2,
                                  'record_length': 200,
                                  'header': 'a2478b9838c97897',
                                  'metadata': 'c188db6facc78240',
                                  'records': [(720, 912, 920, 1), (920, 1112, 1120, 2)]},
                       'io': [('read', 720, 720), ('read', 400, 400)]},
 'processed-n2-rpc1024': {'result': {'types': ['tuple', 'dict', 'list', 'dict'],
                                     'n_records': 2,
                                     'record_length': 200,
                                     'header': 'a2478b9838c97897',
                                     'metadata': 'c188db6facc78240',
                                     'records': [(720, 912, 920, 1), (920, 1112, 1120, 2)]},
                          'io': [('read', 720, 720), ('read', 400, 400)]},
 'processed-n2-kw3': {'result': {'types': ['tuple', 'dict', 'list', 'dict'],
                                 'n_records': 2,
                                 'record_length': 200,
                                 'header': 'a2478b9838c97897',
                                 'metadata': 'c188db6facc78240',
                                 'records': [(720, 912, 920, 1), (920, 1112, 1120, 2)]},
                      'io': [('read', 720, 720), ('read', 400, 400)]},
 'processed-n2-default': {'result': {'types': ['tuple', 'dict', 'list', 'dict'],
                                     'n_records': 2,
                                     'record_length': 200,
                                     'header': 'a2478b9838c97897',
                                     'metadata': 'c188db6facc78240',
                                     'records': [(720, 912, 920, 1), (920, 1112, 1120, 2)]},
                          'io': [('read', 720, 720), ('read', 400, 400)]},
 'processed-n3-rpc1': {'result': {'types': ['tuple', 'dict', 'list', 'dict'],
                                  'n_records': 3,
                                  'record_length': 200,
                                  'header': '17e20aee93bf5343',
                                  'metadata': '6619f36e43f8cd9e',
                                  'records': [(720, 912, 920, 1), (920, 1112, 1120, 2), (1120, 1312, 1320, 3)]},
                       'io': [('read', 720, 720), ('read', 200, 200), ('read', 200, 200), ('read', 200, 200)]},
 'processed-n3-rpc2': {'result': {'types': ['tuple', 'dict', 'list', 'dict'],
                                  'n_records': 3,
                                  'record_length': 200,
                                  'header': '17e20aee93bf5343',
                                  'metadata': '6619f36e43f8cd9e',
                                  'records': [(720, 912, 920, 1), (920, 1112, 1120, 2), (1120, 1312, 1320, 3)]},
                       'io': [('read', 720, 720), ('read', 400, 400), ('read', 200, 200)]},
 'processed-n3-rpc3': {'result': {'types': ['tuple', 'dict', 'list', 'dict'],
                                  'n_records': 3,
                                  'record_length': 200,
                                  'header': '17e20aee93bf5343',
                                  'metadata': '6619f36e43f8cd9e',
                                  'records': [(720, 912, 920, 1), (920, 1112, 1120, 2), (1120, 1312, 1320, 3)]},
                       'io': [('read', 720, 720), ('read', 600, 600)]},
 'processed-n3-rpc4': {'result': {'types': ['tuple', 'dict', 'list', 'dict'],
                                  'n_records': 3,
                                  'record_length': 200,
                                  'header': '17e20aee93bf5343',
                                  'metadata': '6619f36e43f8cd9e',
                                  'records': [(720, 912, 920, 1), (920, 1112, 1120, 2), (1120, 1312, 1320, 3)]},
                       'io': [('read', 720, 720), ('read', 600, 600)]},
 'processed-n3-rpc5': {'result': {'types': ['tuple', 'dict', 'list', 'dict'],
                                  'n_records': 3,
                                  'record_length': 200,
                                  'header': '17e20aee93bf5343',
                                  'metadata': '6619f36e43f8cd9e',
                                  'records': [(720, 912, 920, 1), (920, 1112, 1120, 2), (1120, 1312, 1320, 3)]},
                       'io': [('read', 720, 720), ('read', 600, 600)]},
 'processed-n3-rpc7': {'result': {'types': ['tuple', 'dict', 'list', 'dict'],
                                  'n_records': 3,
                                  'record_length': 200,
                                  'header': '17e20aee93bf5343',
                                  'metadata': '6619f36e43f8cd9e',
                                  'records': [(720, 912, 920, 1), (920, 1112, 1120, 2), (1120, 1312, 1320, 3)]},
                       'io': [('read', 720, 720), ('read', 600, 600)]},
 'processed-n3-rpc8': {'result': {'types': ['tuple', 'dict', 'list', 'dict'],
                                  'n_records': 3,
                                  'record_length': 200,
                                  'header': '17e20aee93bf5343',
                                  'metadata': '6619f36e43f8cd9e',
                                  'records': [(720, 912, 920, 1), (920, 1112, 1120, 2), (1120, 1312, 1320, 3)]},
                       'io': [('read', 720, 720), ('read', 600, 600)]},
 'processed-n3-rpc1024': {'result': {'types': ['tuple', 'dict', 'list', 'dict'],
                                     'n_records': 3,
                                     'record_length': 200,
                                     'header': '17e20aee93bf5343',
                                     'metadata': '6619f36e43f8cd9e',
                                     'records': [(720, 912, 920, 1), (920, 1112, 1120, 2), (1120, 1312, 1320, 3)]},
                          'io': [('read', 720, 720), ('read', 600, 600)]},
 'processed-n3-kw3': {'result': {'types': ['tuple', 'dict', 'list', 'dict'],
                                 'n_records': 3,
                                 'record_length': 200,
                                 'header': '17e20aee93bf5343',
                                 'metadata': '6619f36e43f8cd9e',
                                 'records': [(720, 912, 920, 1), (920, 1112, 1120, 2), (1120, 1312, 1320, 3)]},
                      'io': [('read', 720, 720), ('read', 600, 600)]},
 'processed-n3-default': {'result': {'types': ['tuple', 'dict', 'list', 'dict'],
                                     'n_records': 3,
                                     'record_length': 200,
                                     'header': '17e20aee93bf5343',
                                     'metadata': '6619f36e43f8cd9e',
                                     'records': [(720, 912, 920, 1), (920, 1112, 1120, 2), (1120, 1312, 1320, 3)]},
                          'io': [('read', 720, 720), ('read', 600, 600)]},
 'processed-n5-rpc1': {'result': {'types': ['tuple', 'dict', 'list', 'dict'],
                                  'n_records': 5,
                                  'record_length': 200,
                                  'header': 'ae7d45d15b93f7da',
                                  'metadata': '169fdc86bf9cca5a',
                                  'records': [(720, 912, 920, 1), (920, 1112, 1120, 2), (1120, 1312, 1320, 3), (1320, 1512, 1520, 4), (1520, 1712, 1720, 5)]},
                       'io': [('read', 720, 720), ('read', 200, 200), ('read', 200, 200), ('read', 200, 200), ('read', 200, 200), ('read', 200, 200)]},
 'processed-n5-rpc2': {'result': {'types': ['tuple', 'dict', 'list', 'dict'],
                                  'n_records': 5,
                                  'record_length': 200,
                                  'header': 'ae7d45d15b93f7da',
                                  'metadata': '169fdc86bf9cca5a',
                                  'records': [(720, 912, 920, 1), (920, 1112, 1120, 2), (1120, 1312, 1320, 3), (1320, 1512, 1520, 4), (1520, 1712, 1720, 5)]},
                       'io': [('read', 720, 720), ('read', 400, 400), ('read', 400, 400), ('read', 200, 200)]},
 'processed-n5-rpc3': {'result': {'types': ['tuple', 'dict', 'list', 'dict'],
                                  'n_records': 5,
                                  'record_length': 200,
                                  'header': 'ae7d45d15b93f7da',
                                  'metadata': '169fdc86bf9cca5a',
                                  'records': [(720, 912, 920, 1), (920, 1112, 1120, 2), (1120, 1312, 1320, 3), (1320, 1512, 1520, 4), (1520, 1712, 1720, 5)]},
                       'io': [('read', 720, 720), ('read', 600, 600), ('read', 400, 400)]},
 'processed-n5-rpc4': {'result': {'types': ['tuple', 'dict', 'list', 'dict'],
                                  'n_records': 5,
                                  'record_length': 200,
                                  'header': 'ae7d45d15b93f7da',
                                  'metadata': '169fdc86bf9cca5a',
                                  'records': [(720, 912, 920, 1), (920, 1112, 1120, 2), (1120, 1312, 1320, 3), (1320, 1512, 1520, 4), (1520, 1712, 1720, 5)]},
                       'io': [('read', 720, 720), ('read', 800, 800), ('read', 200, 200)]},
 'processed-n5-rpc5': {'result': {'types': ['tuple', 'dict', 'list', 'dict'],
                                  'n_records': 5,
                                  'record_length': 200,
                                  'header': 'ae7d45d15b93f7da',
                                  'metadata': '169fdc86bf9cca5a',
                                  'records': [(720, 912, 920, 1), (920, 1112, 1120, 2), (1120, 1312, 1320, 3), (1320, 1512, 1520, 4), (1520, 1712, 1720, 5)]},
                       'io': [('read', 720, 720), ('read', 1000, 1000)]},
 'processed-n5-rpc7': {'result': {'types': ['tuple', 'dict', 'list', 'dict'],
                                  'n_records': 5,
                                  'record_length': 200,
                                  'header': 'ae7d45d15b93f7da',
                                  'metadata': '169fdc86bf9cca5a',
                                  'records': [(720, 912, 920, 1), (920, 1112, 1120, 2), (1120, 1312, 1320, 3), (1320, 1512, 1520, 4), (1520, 1712, 1720, 5)]},
                       'io': [('read', 720, 720), ('read', 1000, 1000)]},
 'processed-n5-rpc8': {'result': {'types': ['tuple', 'dict', 'list', 'dict'],
                                  'n_records': 5,
                                  'record_length': 200,
                                  'header': 'ae7d45d15b93f7da',
                                  'metadata': '169fdc86bf9cca5a',
                                  'records': [(720, 912, 920, 1), (920, 1112, 1120, 2), (1120, 1312, 1320, 3), (1320, 1512, 1520, 4), (1520, 1712, 1720, 5)]},
                       'io': [('read', 720, 720), ('read', 1000, 1000)]},
 'processed-n5-rpc1024': {'result': {'types': ['tuple', 'dict', 'list', 'dict'],
                                     'n_records': 5,
                                     'record_length': 200,
                                     'header': 'ae7d45d15b93f7da',
                                     'metadata': '169fdc86bf9cca5a',
                                     'records': [(720, 912, 920, 1), (920, 1112, 1120, 2), (1120, 1312, 1320, 3), (1320, 1512, 1520, 4),
                                                 (1520, 1712, 1720, 5)]},
                          'io': [('read', 720, 720), ('read', 1000, 1000)]},
 'processed-n5-kw3': {'result': {'types': ['tuple', 'dict', 'list', 'dict'],
                                 'n_records': 5,
                                 'record_length': 200,
                                 'header': 'ae7d45d15b93f7da',
                                 'metadata': '169fdc86bf9cca5a',
                                 'records': [(720, 912, 920, 1), (920, 1112, 1120, 2), (1120, 1312, 1320, 3), (1320, 1512, 1520, 4), (1520, 1712, 1720, 5)]},
                      'io': [('read', 720, 720), ('read', 600, 600), ('read', 400, 400)]},
 'processed-n5-default': {'result': {'types': ['tuple', 'dict', 'list', 'dict'],
                                     'n_records': 5,
                                     'record_length': 200,
                                     'header': 'ae7d45d15b93f7da',
                                     'metadata': '169fdc86bf9cca5a',
                                     'records': [(720, 912, 920, 1), (920, 1112, 1120, 2), (1120, 1312, 1320, 3), (1320, 1512, 1520, 4),
                                                 (1520, 1712, 1720, 5)]},
                          'io': [('read', 720, 720), ('read', 1000, 1000)]},
 'processed-n7-rpc1': {'result': {'types': ['tuple', 'dict', 'list', 'dict'],
                                  'n_records': 7,
                                  'record_length': 200,
                                  'header': 'fd808115a30b1c9f',
                                  'metadata': '8a95e1ca47385e5c',
                                  'records': [(720, 912, 920, 1), (920, 1112, 1120, 2), (1120, 1312, 1320, 3), (1320, 1512, 1520, 4), (1520, 1712, 1720, 5),
                                              (1720, 1912, 1920, 6), (1920, 2112, 2120, 7)]},
                       'io': [('read', 720, 720), ('read', 200, 200), ('read', 200, 200), ('read', 200, 200), ('read', 200, 200), ('read', 200, 200),
                              ('read', 200, 200), ('read', 200, 200)]},
 'processed-n7-rpc2': {'result': {'types': ['tuple', 'dict', 'list', 'dict'],
                                  'n_records': 7,
                                  'record_length': 200,
                                  'header': 'fd808115a30b1c9f',
                                  'metadata': '8a95e1ca47385e5c',
                                  'records': [(720, 912, 920, 1), (920, 1112, 1120, 2), (1120, 1312, 1320, 3), (1320, 1512, 1520, 4), (1520, 1712, 1720, 5),
                                              (1720, 1912, 1920, 6), (1920, 2112, 2120, 7)]},
                       'io': [('read', 720, 720), ('read', 400, 400), ('read', 400, 400), ('read', 400, 400), ('read', 200, 200)]},
 'processed-n7-rpc3': {'result': {'types': ['tuple', 'dict', 'list', 'dict'],
                                  'n_records': 7,
                                  'record_length': 200,
                                  'header': 'fd808115a30b1c9f',
                                  'metadata': '8a95e1ca47385e5c',
                                  'records': [(720, 912, 920, 1), (920, 1112, 1120, 2), (1120, 1312, 1320, 3), (1320, 1512, 1520, 4), (1520, 1712, 1720, 5),
                                              (1720, 1912, 1920, 6), (1920, 2112, 2120, 7)]},
                       'io': [('read', 720, 720), ('read', 600, 600), ('read', 600, 600), ('read', 200, 200)]},
 'processed-n7-rpc4': {'result': {'types': ['tuple', 'dict', 'list', 'dict'],
                                  'n_records': 7,
                                  'record_length': 200,
                                  'header': 'fd808115a30b1c9f',
                                  'metadata': '8a95e1ca47385e5c',
                                  'records': [(720, 912, 920, 1), (920, 1112, 1120, 2), (1120, 1312, 1320, 3), (1320, 1512, 1520, 4), (1520, 1712, 1720, 5),
                                              (1720, 1912, 1920, 6), (1920, 2112, 2120, 7)]},
                       'io': [('read', 720, 720), ('read', 800, 800), ('read', 600, 600)]},
 'processed-n7-rpc5': {'result': {'types': ['tuple', 'dict', 'list', 'dict'],
                                  'n_records': 7,
                                  'record_length': 200,
                                  'header': 'fd808115a30b1c9f',
                                  'metadata': '8a95e1ca47385e5c',
                                  'records': [(720, 912, 920, 1), (920, 1112, 1120, 2), (1120, 1312, 1320, 3), (1320, 1512, 1520, 4), (1520, 1712, 1720, 5),
                                              (1720, 1912, 1920, 6), (1920, 2112, 2120, 7)]},
                       'io': [('read', 720, 720), ('read', 1000, 1000), ('read', 400, 400)]},
 'processed-n7-rpc7': {'result': {'types': ['tuple', 'dict', 'list', 'dict'],
                                  'n_records': 7,
                                  'record_length': 200,
                                  'header': 'fd808115a30b1c9f',
                                  'metadata': '8a95e1ca47385e5c',
                                  'records': [(720, 912, 920, 1), (920, 1112, 1120, 2), (1120, 1312, 1320, 3), (1320, 1512, 1520, 4), (1520, 1712, 1720, 5),
                                              (1720, 1912, 1920, 6), (1920, 2112, 2120, 7)]},
                       'io': [('read', 720, 720), ('read', 1400, 1400)]},
 'processed-n7-rpc8': {'result': {'types': ['tuple', 'dict', 'list', 'dict'],
                                  'n_records': 7,
                                  'record_length': 200,
                                  'header': 'fd808115a30b1c9f',
                                  'metadata': '8a95e1ca47385e5c',
                                  'records': [(720, 912, 920, 1), (920, 1112, 1120, 2), (1120, 1312, 1320, 3), (1320, 1512, 1520, 4), (1520, 1712, 1720, 5),
                                              (1720, 1912, 1920, 6), (1920, 2112, 2120, 7)]},
                       'io': [('read', 720, 720), ('read', 1400, 1400)]},
 'processed-n7-rpc1024': {'result': {'types': ['tuple', 'dict', 'list', 'dict'],
                                     'n_records': 7,
                                     'record_length': 200,
                                     'header': 'fd808115a30b1c9f',
                                     'metadata': '8a95e1ca47385e5c',
                                     'records': [(720, 912, 920, 1), (920, 1112, 1120, 2), (1120, 1312, 1320, 3), (1320, 1512, 1520, 4), (1520, 1712, 1720, 5),
                                                 (1720, 1912, 1920, 6), (1920, 2112, 2120, 7)]},
                          'io': [('read', 720, 720), ('read', 1400, 1400)]},
 'processed-n7-kw3': {'result': {'types': ['tuple', 'dict', 'list', 'dict'],
                                 'n_records': 7,
                                 'record_length': 200,
                                 'header': 'fd808115a30b1c9f',
                                 'metadata': '8a95e1ca47385e5c',
                                 'records': [(720, 912, 920, 1), (920, 1112, 1120, 2), (1120, 1312, 1320, 3), (1320, 1512, 1520, 4), (1520, 1712, 1720, 5),
                                             (1720, 1912, 1920, 6), (1920, 2112, 2120, 7)]},
                      'io': [('read', 720, 720), ('read', 600, 600), ('read', 600, 600), ('read', 200, 200)]},
 'processed-n7-default': {'result': {'types': ['tuple', 'dict', 'list', 'dict'],
                                     'n_records': 7,
                                     'record_length': 200,
                                     'header': 'fd808115a30b1c9f',
                                     'metadata': '8a95e1ca47385e5c',
                                     'records': [(720, 912, 920, 1), (920, 1112, 1120, 2), (1120, 1312, 1320, 3), (1320, 1512, 1520, 4), (1520, 1712, 1720, 5),
                                                 (1720, 1912, 1920, 6), (1920, 2112, 2120, 7)]},
                          'io': [('read', 720, 720), ('read', 1400, 1400)]},
 'rpc-none': {'error': "TypeError: unsupported operand type(s) for /: 'int' and 'NoneType'", 'io': [('read', 720, 720)]},
 'rpc-zero': {'error': 'ZeroDivisionError: division by zero', 'io': [('read', 720, 720)]},
 'rpc-negative': {'result': {'types': ['tuple', 'dict', 'list'],
                             'n_records': 5,
                             'record_length': 552,
                             'header': 'e935b8b34803bfe0',
                             'metadata': '4f53cda18c2baa0c',
                             'records': []},
                  'io': [('read', 720, 720)]},
 'rpc-float': {'error': "TypeError: argument should be integer or None, not 'float'", 'io': [('read', 720, 720), ('read', 1104.0, None)]},
 'rpc-float-fraction': {'error': "TypeError: argument should be integer or None, not 'float'", 'io': [('read', 720, 720), ('read', 1380.0, None)]},
 'rpc-str': {'error': "TypeError: unsupported operand type(s) for /: 'int' and 'str'", 'io': [('read', 720, 720)]},
 'rpc-bool': {'result': {'types': ['tuple', 'dict', 'list', 'dict'],
                         'n_records': 5,
                         'record_length': 552,
                         'header': 'e935b8b34803bfe0',
                         'metadata': '1234b09f77d0556f',
                         'records': [(720, 1264, 1272, 1), (1272, 1816, 1824, 2), (1824, 2368, 2376, 3), (2376, 2920, 2928, 4), (2928, 3472, 3480, 5)]},
              'io': [('read', 720, 720), ('read', 552, 552), ('read', 552, 552), ('read', 552, 552), ('read', 552, 552), ('read', 552, 552)]},
 'n0-rpc-zero': {'error': 'ZeroDivisionError: division by zero', 'io': [('read', 720, 720)]},
 'empty-file': {'error': 'StreamError: Error in path (parsing) -> preamble -> record_sequence_number\n'
                         'stream read less than specified amount, expected 4, found 0',
                'io': [('read', 720, 0)]},
 'short-descriptor': {'error': 'StreamError: Error in path (parsing) -> scansar_burst_data_information -> blanks\n'
                               'stream read less than specified amount, expected 260, found 40',
                      'io': [('read', 720, 500)]},
 'descriptor-only': {'error': 'StreamError: Error in path (parsing) -> record_sequence_number\nstream read less than specified amount, expected 4, found 0',
                     'io': [('read', 720, 720), ('read', 1104, 0)]},
 'truncated-mid-record': {'error': 'ValueError: sizes mismatch: chunksize is 552 but got 652 bytes',
                          'io': [('read', 720, 720), ('read', 1104, 1104), ('read', 1104, 652)]},
 'truncated-mid-record-rpc1': {'error': 'ValueError: sizes mismatch: chunksize is 0 but got 100 bytes',
                               'io': [('read', 720, 720), ('read', 552, 552), ('read', 552, 552), ('read', 552, 552), ('read', 552, 100)]},
 'truncated-on-record-boundary': {'error': 'StreamError: Error in path (parsing) -> record_sequence_number\n'
                                           'stream read less than specified amount, expected 4, found 0',
                                  'io': [('read', 720, 720), ('read', 1104, 1104), ('read', 1104, 552), ('read', 552, 0)]},
 'truncated-on-chunk-boundary': {'error': 'StreamError: Error in path (parsing) -> record_sequence_number\n'
                                          'stream read less than specified amount, expected 4, found 0',
                                 'io': [('read', 720, 720), ('read', 1104, 1104), ('read', 1104, 0)]},
 'declares-more-records': {'error': 'StreamError: Error in path (parsing) -> record_sequence_number\n'
                                    'stream read less than specified amount, expected 4, found 0',
                           'io': [('read', 720, 720), ('read', 1104, 1104), ('read', 1104, 552), ('read', 1104, 0)]},
 'declares-fewer-records': {'result': {'types': ['tuple', 'dict', 'list', 'dict'],
                                       'n_records': 3,
                                       'record_length': 552,
                                       'header': '2c824486375e2794',
                                       'metadata': 'c99b64043f5cd3b3',
                                       'records': [(720, 1264, 1272, 1), (1272, 1816, 1824, 2), (1824, 2368, 2376, 3)]},
                            'io': [('read', 720, 720), ('read', 1104, 1104), ('read', 552, 552)]},
 'declares-blank-counts': {'result': {'types': ['tuple', 'dict', 'list'],
                                      'n_records': -1,
                                      'record_length': 552,
                                      'header': 'c74bf11970c66b21',
                                      'metadata': '4f53cda18c2baa0c',
                                      'records': []},
                           'io': [('read', 720, 720)]},
 'declares-longer-records': {'error': 'ValueError: sizes mismatch: chunksize is 600 but got 1008 bytes',
                             'io': [('read', 720, 720), ('read', 1200, 1200), ('read', 1200, 1008)]},
 'declares-shorter-records': {'error': 'StreamError: Error in path (parsing) -> preamble -> record_sequence_number\n'
                                       'stream read less than specified amount, expected 4, found 0',
                              'io': [('read', 720, 720), ('read', 552, 552)]},
 'declares-zero-length': {'error': 'ZeroDivisionError: integer division or modulo by zero', 'io': [('read', 720, 720), ('read', 0, 0)]},
 'unknown-record-type-second-chunk': {'error': 'ValueError: unknown record type code: 99', 'io': [('read', 720, 720), ('read', 400, 400), ('read', 400, 400)]},
 'unknown-record-type-inside-chunk': {'result': {'types': ['tuple', 'dict', 'list', 'dict'],
                                                 'n_records': 4,
                                                 'record_length': 200,
                                                 'header': 'f06e25f6f3018de0',
                                                 'metadata': '6a3d98b26df1ab7b',
                                                 'records': [(720, 912, 920, 1), (920, 1112, 1120, 2), (1120, 1312, 1320, 3), (1320, 1512, 1520, 4)]},
                                      'io': [('read', 720, 720), ('read', 800, 800)]},
 'unknown-record-type-third-chunk': {'error': 'ValueError: unknown record type code: 99',
                                     'io': [('read', 720, 720), ('read', 200, 200), ('read', 200, 200), ('read', 200, 200)]},
 'four-signal-records': {'result': {'types': ['tuple', 'dict', 'list', 'dict'],
                                    'n_records': 4,
                                    'record_length': 552,
                                    'header': 'f421009892d5a9f5',
                                    'metadata': 'c8b8241390a052ed',
                                    'records': [(720, 1264, 1272, 1), (1272, 1816, 1824, 2), (1824, 2368, 2376, 1), (2376, 2920, 2928, 2)]},
                         'io': [('read', 720, 720), ('read', 1656, 1656), ('read', 552, 552)]},
 'dummy-rpc1': {'result': {'types': ['tuple', 'dict', 'list', 'dict'],
                           'n_records': 3,
                           'record_length': 17,
                           'header': '7610cfaece6e5a65',
                           'metadata': '0b09c18cca204998',
                           'records': [(732, 733, 737, None), (749, 750, 754, None), (766, 767, 771, None)]},
                'io': [('read', 2, 2), ('read', 17, 17), ('read', 17, 17), ('read', 17, 17)],
                'calls': [('parse_chunk', 17, 17), ('adjust_offsets', 1, 720), ('parse_chunk', 17, 17), ('adjust_offsets', 1, 737), ('parse_chunk', 17, 17),
                          ('adjust_offsets', 1, 754)]},
 'dummy-rpc2': {'result': {'types': ['tuple', 'dict', 'list', 'dict'],
                           'n_records': 3,
                           'record_length': 17,
                           'header': '7610cfaece6e5a65',
                           'metadata': '0b09c18cca204998',
                           'records': [(732, 733, 737, None), (749, 750, 754, None), (766, 767, 771, None)]},
                'io': [('read', 2, 2), ('read', 34, 34), ('read', 17, 17)],
                'calls': [('parse_chunk', 34, 17), ('adjust_offsets', 2, 720), ('parse_chunk', 17, 17), ('adjust_offsets', 1, 754)]},
 'dummy-rpc3': {'result': {'types': ['tuple', 'dict', 'list', 'dict'],
                           'n_records': 3,
                           'record_length': 17,
                           'header': '7610cfaece6e5a65',
                           'metadata': '0b09c18cca204998',
                           'records': [(732, 733, 737, None), (749, 750, 754, None), (766, 767, 771, None)]},
                'io': [('read', 2, 2), ('read', 51, 51)],
                'calls': [('parse_chunk', 51, 17), ('adjust_offsets', 3, 720)]},
 'dummy-rpc4': {'result': {'types': ['tuple', 'dict', 'list', 'dict'],
                           'n_records': 3,
                           'record_length': 17,
                           'header': '7610cfaece6e5a65',
                           'metadata': '0b09c18cca204998',
                           'records': [(732, 733, 737, None), (749, 750, 754, None), (766, 767, 771, None)]},
                'io': [('read', 2, 2), ('read', 51, 51)],
                'calls': [('parse_chunk', 51, 17), ('adjust_offsets', 3, 720)]},
 'parse_chunk': {'digest': '0ca2ab49394852f4', 'type': 'list'},
 'adjust_offsets': {'same-objects': True, 'digest': '6619f36e43f8cd9e'},
 'read_file_descriptor': {'digest': '028f40092632da90', 'io': [('read', 720, 720)]}}
# fmt: on
# <<< EXPECTED


def compare():
    actual = collect()
    failures = []
    if list(actual) != list(EXPECTED):
        failures.append(("<case names>", list(EXPECTED), list(actual)))
    for name, expected in EXPECTED.items():
        if actual.get(name) != expected:
            failures.append((name, expected, actual.get(name)))
    return actual, failures


def test_equivalence():
    _, failures = compare()
    assert not failures, pprint.pformat(failures)


if __name__ == "__main__":
    if "--record" in sys.argv:
        print("EXPECTED = " + pprint.pformat(collect(), width=160, compact=True, sort_dicts=False))
        raise SystemExit(0)

    actual, failures = compare()
    for name, expected, got in failures:
        print(f"MISMATCH {name}\n  expected: {expected}\n  actual:   {got}")
    n_errors = sum("error" in outcome for outcome in actual.values())
    print(
        f"{sio.__file__}: {len(actual)} cases ({n_errors} raising),"
        f" {len(failures)} mismatches"
    )
    raise SystemExit(1 if failures else 0)
