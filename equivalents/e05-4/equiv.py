"""Equivalence check for refactoring 4 (ceos_alos2/volume_directory/metadata.py and
``open`` in ceos_alos2/io.py).

Run as

    cd <worktree> && PYTHONPATH=<worktree> /venv/bin/python _eq/4/equiv.py

The expected values below were recorded with the UNCHANGED code (clean HEAD); the
script has to pass both with and without ``patch.diff`` applied.
"""

import struct

import fsspec

from ceos_alos2 import io as top_io
from ceos_alos2 import sar_image
from ceos_alos2.hierarchy import Group
from ceos_alos2.volume_directory import io as vd_io
from ceos_alos2.volume_directory import metadata, structure


def describe(exc):
    chain = []
    current = exc
    while current.__cause__ is not None or current.__context__ is not None:
        kind = "cause" if current.__cause__ is not None else "context"
        current = current.__cause__ if current.__cause__ is not None else current.__context__
        chain.append((kind, type(current).__name__))
    return (type(exc).__name__, exc.args, chain)


def outcome(func, *args, **kwargs):
    try:
        # Group is a dataclass: its repr shows path, url, data and attrs (recursively),
        # and the repr of a dict also records the order of the keys
        return repr(("ok", func(*args, **kwargs)))
    except Exception as e:
        return repr(("raise", describe(e)))


# ---------------------------------------------------------------- metadata functions


class Key:
    """hashable non-string key"""

    def __repr__(self):
        return "Key()"


key = Key()

METADATA_CASES = [
    # --- transform_volume_descriptor
    ("transform_volume_descriptor", {}),
    (
        "transform_volume_descriptor",
        {
            "preamble": {"a": 1},
            "ascii_ebcdic_flag": "A",
            "blanks": "",
            "superstructure_format_control_document_id": "CEOS-SAR",
            "software_release_and_revision_level": "001.001",
            "physical_volume_id": "pv",
            "logical_volume_id": "lv",
            "volume_set_id": "vs",
            "total_number_of_physical_volumes_in_logical_volume": 1,
            "logical_volume_creation_datetime": "2020101117233798",
            "logical_volume_generation_country": "JAPAN",
            "logical_volume_generating_agency": "JAXA",
            "number_of_file_pointer_records": 4,
            "spare": "",
            "local_use_segment": "",
            "not_in_any_table": 5,
        },
    ),
    # renaming makes two keys collide: later value, earlier position
    (
        "transform_volume_descriptor",
        {"creation_country": "first", "x": 1, "logical_volume_generation_country": "second"},
    ),
    ("transform_volume_descriptor", {"creation_datetime": "2020101117233798"}),
    ("transform_volume_descriptor", {"logical_volume_creation_datetime": "20201011"}),
    ("transform_volume_descriptor", {"logical_volume_creation_datetime": "not a date"}),
    ("transform_volume_descriptor", {"logical_volume_creation_datetime": None}),
    ("transform_volume_descriptor", {"logical_volume_creation_datetime": 2020101117233798}),
    ("transform_volume_descriptor", {key: 1, 2: "two", None: 3, ("spare",): 4}),
    ("transform_volume_descriptor", None),
    ("transform_volume_descriptor", [("a", 1)]),
    ("transform_volume_descriptor", "preamble"),
    # --- transform_text
    ("transform_text", {}),
    (
        "transform_text",
        {
            "preamble": {},
            "ascii_ebcdic_flag": "A",
            "blanks": "",
            "product_id": "PRODUCT:WWDR1.5RUA",
            "location_and_datetime_of_product_creation": "JAXA  20201011",
            "physical_tape_id": "tape",
            "scene_id": "ORBIT:ALOS2225333200-180726",
            "scene_location_id": "",
        },
    ),
    ("transform_text", {"product_creation": 1, "location_and_datetime_of_product_creation": 2}),
    ("transform_text", {"spare": "kept here", key: "k"}),
    ("transform_text", None),
    ("transform_text", 5),
    # --- transform_record
    ("transform_record", {}),
    (
        "transform_record",
        {
            "volume_descriptor": {"a": 1},
            "file_descriptors": [{"b": 2}, {"c": 3}],
            "text_record": {"d": 4},
        },
    ),
    (
        "transform_record",
        {
            "text_record": {"blanks": "", "location_and_datetime_of_product_creation": "b"},
            "volume_descriptor": {
                "preamble": "a",
                "logical_volume_generation_country": "a",
                "logical_volume_creation_datetime": "2020101117233798",
            },
        },
    ),
    # the same key in both records and a top-level scalar / dict that is not transformed
    (
        "transform_record",
        {
            "top": 1,
            "volume_descriptor": {"a": 1, "scene_id": "vd"},
            "extra": {"a": 2, "blanks": "not removed here"},
            "text_record": {"scene_id": "text", "top": 2},
        },
    ),
    ("transform_record", {"volume_descriptor": {"logical_volume_creation_datetime": "x"}}),
    ("transform_record", {"volume_descriptor": None}),
    ("transform_record", {"text_record": ["a"]}),
    ("transform_record", {"file_descriptors": None, "volume_descriptor": {}}),
    ("transform_record", None),
    ("transform_record", [1, 2]),
]

# BEGIN METADATA (recorded on clean HEAD)
EXPECTED_METADATA = [
    "('ok', {})",
    "('ok', {'control_document_id': 'CEOS-SAR', 'software_version': '001.001', 'physical_volume_id': 'pv', 'logical_volume_id': 'lv', 'volume_set_id': 'vs', 'creation_datetime': '2020-10-11T17:23:37.980000', 'creation_country': 'JAPAN', 'creation_agency': 'JAXA', 'not_in_any_table': 5})",
    "('ok', {'creation_country': 'second', 'x': 1})",
    "('ok', {'creation_datetime': '2020-10-11T17:23:37.980000'})",
    '(\'raise\', (\'ValueError\', ("time data \'20201011\' does not match format \'%Y%m%d%H%M%S%f\'",), []))',
    '(\'raise\', (\'ValueError\', ("time data \'not a date\' does not match format \'%Y%m%d%H%M%S%f\'",), []))',
    "('raise', ('TypeError', ('strptime() argument 1 must be str, not None',), []))",
    "('raise', ('TypeError', ('strptime() argument 1 must be str, not int',), []))",
    "('ok', {Key(): 1, 2: 'two', None: 3, ('spare',): 4})",
    '(\'raise\', (\'AttributeError\', ("\'NoneType\' object has no attribute \'items\'",), []))',
    '(\'raise\', (\'AttributeError\', ("\'list\' object has no attribute \'items\'",), []))',
    '(\'raise\', (\'AttributeError\', ("\'str\' object has no attribute \'items\'",), []))',
    "('ok', {})",
    "('ok', {'product_id': 'PRODUCT:WWDR1.5RUA', 'product_creation': 'JAXA  20201011', 'scene_id': 'ORBIT:ALOS2225333200-180726', 'scene_location_id': ''})",
    "('ok', {'product_creation': 2})",
    "('ok', {'spare': 'kept here', Key(): 'k'})",
    '(\'raise\', (\'AttributeError\', ("\'NoneType\' object has no attribute \'items\'",), []))',
    '(\'raise\', (\'AttributeError\', ("\'int\' object has no attribute \'items\'",), []))',
    "('ok', Group(path='/', url=None, data={}, attrs={}))",
    "('ok', Group(path='/', url=None, data={}, attrs={'a': 1, 'd': 4}))",
    "('ok', Group(path='/', url=None, data={}, attrs={'product_creation': 'b', 'creation_country': 'a', 'creation_datetime': '2020-10-11T17:23:37.980000'}))",
    "('ok', Group(path='/', url=None, data={}, attrs={'top': 2, 'a': 2, 'scene_id': 'text', 'blanks': 'not removed here'}))",
    '(\'raise\', (\'ValueError\', ("time data \'x\' does not match format \'%Y%m%d%H%M%S%f\'",), []))',
    '(\'raise\', (\'AttributeError\', ("\'NoneType\' object has no attribute \'items\'",), []))',
    '(\'raise\', (\'AttributeError\', ("\'list\' object has no attribute \'items\'",), []))',
    "('ok', Group(path='/', url=None, data={}, attrs={}))",
    '(\'raise\', (\'AttributeError\', ("\'NoneType\' object has no attribute \'items\'",), []))',
    '(\'raise\', (\'AttributeError\', ("\'list\' object has no attribute \'items\'",), []))',
]
# END METADATA


def observe_metadata():
    return [outcome(getattr(metadata, name), arg) for name, arg in METADATA_CASES]


# ------------------------------------------------- a synthetic volume directory file


def build(record, values):
    data = b""
    for field in record.subcons:
        size = field.sizeof()
        if field.name == "preamble":
            data += struct.pack(">IBBBBI", 1, 192, 192, 18, 18, 360)
        else:
            data += str(values.get(field.name, "")).ljust(size).encode("ascii")
    return data


def volume_directory_bytes(creation_datetime="2020101117233798"):
    descriptor = build(
        structure.volume_descriptor,
        {
            "ascii_ebcdic_flag": "A",
            "superstructure_format_control_document_id": "CEOS-SAR",
            "superstructure_format_control_document_revision_level": "A",
            "superstructure_record_format_revision_level": "A",
            "software_release_and_revision_level": "001.001",
            "physical_volume_id": "PV",
            "logical_volume_id": "LV",
            "volume_set_id": "ALOS2",
            "total_number_of_physical_volumes_in_logical_volume": 1,
            "logical_volume_creation_datetime": creation_datetime,
            "logical_volume_generation_country": "JAPAN",
            "logical_volume_generating_agency": "JAXA",
            "logical_volume_generating_facility": "SCMO",
            "number_of_file_pointer_records": 2,
            "number_of_text_records_in_volume_directory": 1,
        },
    )
    pointers = b"".join(
        build(
            structure.file_descriptor,
            {"referenced_file_number": n, "referenced_file_name_id": f"file{n}"},
        )
        for n in (1, 2)
    )
    text = build(
        structure.text_record,
        {
            "product_id": "PRODUCT:WWDR1.5RUA",
            "location_and_datetime_of_product_creation": "PROCESS:JAPAN-JAXA-SCMO  20201011 172337",
            "physical_tape_id": "TAPE",
            "scene_id": "ORBIT:ALOS2225333200-180726",
            "scene_location_id": "SCENE:",
        },
    )
    return descriptor + pointers + text


def observe_volume_directory():
    mapper = fsspec.get_mapper("memory://eq4-volume-directory")
    mapper["VOL-good"] = volume_directory_bytes()
    mapper["VOL-bad-date"] = volume_directory_bytes(creation_datetime="20201011")
    mapper["VOL-truncated"] = volume_directory_bytes()[:1000]

    return [
        outcome(vd_io.open_volume_directory, mapper, name)
        for name in ["VOL-good", "VOL-bad-date", "VOL-truncated", "VOL-missing"]
    ]


# BEGIN VOLDIR (recorded on clean HEAD)
EXPECTED_VOLDIR = [
    "('ok', Group(path='/', url=None, data={}, attrs={'control_document_id': 'CEOS-SAR', 'control_document_revision_level': 'A', 'record_format_revision_level': 'A', 'software_version': '001.001', 'physical_volume_id': 'PV', 'logical_volume_id': 'LV', 'volume_set_id': 'ALOS2', 'creation_datetime': '2020-10-11T17:23:37.980000', 'creation_country': 'JAPAN', 'creation_agency': 'JAXA', 'creation_facility': 'SCMO', 'product_id': 'PRODUCT:WWDR1.5RUA', 'product_creation': 'PROCESS:JAPAN-JAXA-SCMO  20201011 172337', 'scene_id': 'ORBIT:ALOS2225333200-180726', 'scene_location_id': 'SCENE:'}))",
    '(\'raise\', (\'ValueError\', ("time data \'20201011\' does not match format \'%Y%m%d%H%M%S%f\'",), []))',
    "('raise', ('StreamError', ('Error in path (parsing) -> file_descriptors -> local_use_segment\\nstream read less than specified amount, expected 100, found 20',), []))",
    "('raise', ('FileNotFoundError', ('Cannot open VOL-missing',), [('cause', 'KeyError'), ('cause', 'FileNotFoundError'), ('cause', 'KeyError')]))",
]
# END VOLDIR


# --------------------------------------------------------------------- ceos_alos2.open
#
# no real product is available, so the readers of the summary, the SAR leader and the
# images are replaced by fakes that record how they are called; the volume directory
# is read for real from the synthetic file.


def observe_open():
    results = []
    calls = []

    def fake_open_summary(mapper, path):
        calls.append(("open_summary", mapper.root, path))
        files = Group(
            path="data_files",
            url=None,
            data={},
            attrs={
                "volume_directory": "VOL-good",
                "sar_leader": "LED-x",
                "sar_imagery": list(state["imagery"]),
                "sar_trailer": "TRL-x",
            },
        )
        product_info = Group(path="product_info", url=None, data={"data_files": files}, attrs={})
        return Group("summary", None, {"product_information": product_info}, attrs={"s": 1})

    def fake_open_sar_leader(mapper, path):
        calls.append(("open_sar_leader", mapper.root, path))
        return Group("metadata", None, {}, attrs={"leader": path})

    # same signature as the real function
    def fake_open_image(mapper, path, *, use_cache=True, create_cache=False, records_per_chunk=None):
        calls.append(
            ("open_image", mapper.root, path, use_cache, create_cache, records_per_chunk)
        )
        if path == "IMG-type-error":
            raise TypeError("genuine type error")
        if path == "IMG-os-error":
            raise OSError("cannot read")
        # two files may end up with the same group name
        return Group(path=path.split("+")[0], url=mapper.root, data={}, attrs={"file": path})

    saved = (top_io.open_summary, top_io.open_sar_leader, sar_image.open_image)
    top_io.open_summary = fake_open_summary
    top_io.open_sar_leader = fake_open_sar_leader
    sar_image.open_image = fake_open_image
    state = {}
    try:
        mapper = fsspec.get_mapper("memory://eq4-product")
        mapper["VOL-good"] = volume_directory_bytes()

        scenarios = [
            (["IMG-HH", "IMG-HV"], {}),
            ([], {}),
            (["IMG-HH"], {"records_per_chunk": 7, "create_cache": True, "use_cache": False}),
            (["IMG-VV", "IMG-HH", "IMG-VV+again"], {"storage_options": {}}),
            (["IMG-HH", "IMG-type-error", "IMG-HV"], {}),
            (["IMG-os-error", "IMG-HV"], {"use_cache": False}),
            (["IMG-HH"], {"unknown_option": 1}),
        ]
        for imagery, kwargs in scenarios:
            state["imagery"] = imagery
            del calls[:]
            result = outcome(top_io.open, "memory://eq4-product", **kwargs)
            results.append(repr((result, list(calls))))
    finally:
        top_io.open_summary, top_io.open_sar_leader, sar_image.open_image = saved

    return results


# BEGIN OPEN (recorded on clean HEAD)
EXPECTED_OPEN = [
    '("(\'ok\', Group(path=\'/\', url=\'/eq4-product\', data={\'summary\': Group(path=\'/summary\', url=\'/eq4-product\', data={\'product_information\': Group(path=\'/summary/product_information\', url=\'/eq4-product\', data={\'data_files\': Group(path=\'/summary/product_information/data_files\', url=\'/eq4-product\', data={}, attrs={\'volume_directory\': \'VOL-good\', \'sar_leader\': \'LED-x\', \'sar_imagery\': [\'IMG-HH\', \'IMG-HV\'], \'sar_trailer\': \'TRL-x\'})}, attrs={})}, attrs={\'s\': 1}), \'metadata\': Group(path=\'/metadata\', url=\'/eq4-product\', data={}, attrs={\'leader\': \'LED-x\'}), \'imagery\': Group(path=\'/imagery\', url=\'/eq4-product\', data={\'IMG-HH\': Group(path=\'/imagery/IMG-HH\', url=\'/eq4-product\', data={}, attrs={\'file\': \'IMG-HH\'}), \'IMG-HV\': Group(path=\'/imagery/IMG-HV\', url=\'/eq4-product\', data={}, attrs={\'file\': \'IMG-HV\'})}, attrs={})}, attrs={\'control_document_id\': \'CEOS-SAR\', \'control_document_revision_level\': \'A\', \'record_format_revision_level\': \'A\', \'software_version\': \'001.001\', \'physical_volume_id\': \'PV\', \'logical_volume_id\': \'LV\', \'volume_set_id\': \'ALOS2\', \'creation_datetime\': \'2020-10-11T17:23:37.980000\', \'creation_country\': \'JAPAN\', \'creation_agency\': \'JAXA\', \'creation_facility\': \'SCMO\', \'product_id\': \'PRODUCT:WWDR1.5RUA\', \'product_creation\': \'PROCESS:JAPAN-JAXA-SCMO  20201011 172337\', \'scene_id\': \'ORBIT:ALOS2225333200-180726\', \'scene_location_id\': \'SCENE:\', \'reference_document\': \'https://www.eorc.jaxa.jp/ALOS-2/en/doc/fdata/PALSAR-2_xx_Format_CEOS_E_f.pdf\'}))", [(\'open_summary\', \'/eq4-product\', \'summary.txt\'), (\'open_sar_leader\', \'/eq4-product\', \'LED-x\'), (\'open_image\', \'/eq4-product\', \'IMG-HH\', True, False, 1024), (\'open_image\', \'/eq4-product\', \'IMG-HV\', True, False, 1024)])',
    '("(\'ok\', Group(path=\'/\', url=\'/eq4-product\', data={\'summary\': Group(path=\'/summary\', url=\'/eq4-product\', data={\'product_information\': Group(path=\'/summary/product_information\', url=\'/eq4-product\', data={\'data_files\': Group(path=\'/summary/product_information/data_files\', url=\'/eq4-product\', data={}, attrs={\'volume_directory\': \'VOL-good\', \'sar_leader\': \'LED-x\', \'sar_imagery\': [], \'sar_trailer\': \'TRL-x\'})}, attrs={})}, attrs={\'s\': 1}), \'metadata\': Group(path=\'/metadata\', url=\'/eq4-product\', data={}, attrs={\'leader\': \'LED-x\'}), \'imagery\': Group(path=\'/imagery\', url=\'/eq4-product\', data={}, attrs={})}, attrs={\'control_document_id\': \'CEOS-SAR\', \'control_document_revision_level\': \'A\', \'record_format_revision_level\': \'A\', \'software_version\': \'001.001\', \'physical_volume_id\': \'PV\', \'logical_volume_id\': \'LV\', \'volume_set_id\': \'ALOS2\', \'creation_datetime\': \'2020-10-11T17:23:37.980000\', \'creation_country\': \'JAPAN\', \'creation_agency\': \'JAXA\', \'creation_facility\': \'SCMO\', \'product_id\': \'PRODUCT:WWDR1.5RUA\', \'product_creation\': \'PROCESS:JAPAN-JAXA-SCMO  20201011 172337\', \'scene_id\': \'ORBIT:ALOS2225333200-180726\', \'scene_location_id\': \'SCENE:\', \'reference_document\': \'https://www.eorc.jaxa.jp/ALOS-2/en/doc/fdata/PALSAR-2_xx_Format_CEOS_E_f.pdf\'}))", [(\'open_summary\', \'/eq4-product\', \'summary.txt\'), (\'open_sar_leader\', \'/eq4-product\', \'LED-x\')])',
    '("(\'ok\', Group(path=\'/\', url=\'/eq4-product\', data={\'summary\': Group(path=\'/summary\', url=\'/eq4-product\', data={\'product_information\': Group(path=\'/summary/product_information\', url=\'/eq4-product\', data={\'data_files\': Group(path=\'/summary/product_information/data_files\', url=\'/eq4-product\', data={}, attrs={\'volume_directory\': \'VOL-good\', \'sar_leader\': \'LED-x\', \'sar_imagery\': [\'IMG-HH\'], \'sar_trailer\': \'TRL-x\'})}, attrs={})}, attrs={\'s\': 1}), \'metadata\': Group(path=\'/metadata\', url=\'/eq4-product\', data={}, attrs={\'leader\': \'LED-x\'}), \'imagery\': Group(path=\'/imagery\', url=\'/eq4-product\', data={\'IMG-HH\': Group(path=\'/imagery/IMG-HH\', url=\'/eq4-product\', data={}, attrs={\'file\': \'IMG-HH\'})}, attrs={})}, attrs={\'control_document_id\': \'CEOS-SAR\', \'control_document_revision_level\': \'A\', \'record_format_revision_level\': \'A\', \'software_version\': \'001.001\', \'physical_volume_id\': \'PV\', \'logical_volume_id\': \'LV\', \'volume_set_id\': \'ALOS2\', \'creation_datetime\': \'2020-10-11T17:23:37.980000\', \'creation_country\': \'JAPAN\', \'creation_agency\': \'JAXA\', \'creation_facility\': \'SCMO\', \'product_id\': \'PRODUCT:WWDR1.5RUA\', \'product_creation\': \'PROCESS:JAPAN-JAXA-SCMO  20201011 172337\', \'scene_id\': \'ORBIT:ALOS2225333200-180726\', \'scene_location_id\': \'SCENE:\', \'reference_document\': \'https://www.eorc.jaxa.jp/ALOS-2/en/doc/fdata/PALSAR-2_xx_Format_CEOS_E_f.pdf\'}))", [(\'open_summary\', \'/eq4-product\', \'summary.txt\'), (\'open_sar_leader\', \'/eq4-product\', \'LED-x\'), (\'open_image\', \'/eq4-product\', \'IMG-HH\', False, True, 7)])',
    '("(\'ok\', Group(path=\'/\', url=\'/eq4-product\', data={\'summary\': Group(path=\'/summary\', url=\'/eq4-product\', data={\'product_information\': Group(path=\'/summary/product_information\', url=\'/eq4-product\', data={\'data_files\': Group(path=\'/summary/product_information/data_files\', url=\'/eq4-product\', data={}, attrs={\'volume_directory\': \'VOL-good\', \'sar_leader\': \'LED-x\', \'sar_imagery\': [\'IMG-VV\', \'IMG-HH\', \'IMG-VV+again\'], \'sar_trailer\': \'TRL-x\'})}, attrs={})}, attrs={\'s\': 1}), \'metadata\': Group(path=\'/metadata\', url=\'/eq4-product\', data={}, attrs={\'leader\': \'LED-x\'}), \'imagery\': Group(path=\'/imagery\', url=\'/eq4-product\', data={\'IMG-VV\': Group(path=\'/imagery/IMG-VV\', url=\'/eq4-product\', data={}, attrs={\'file\': \'IMG-VV+again\'}), \'IMG-HH\': Group(path=\'/imagery/IMG-HH\', url=\'/eq4-product\', data={}, attrs={\'file\': \'IMG-HH\'})}, attrs={})}, attrs={\'control_document_id\': \'CEOS-SAR\', \'control_document_revision_level\': \'A\', \'record_format_revision_level\': \'A\', \'software_version\': \'001.001\', \'physical_volume_id\': \'PV\', \'logical_volume_id\': \'LV\', \'volume_set_id\': \'ALOS2\', \'creation_datetime\': \'2020-10-11T17:23:37.980000\', \'creation_country\': \'JAPAN\', \'creation_agency\': \'JAXA\', \'creation_facility\': \'SCMO\', \'product_id\': \'PRODUCT:WWDR1.5RUA\', \'product_creation\': \'PROCESS:JAPAN-JAXA-SCMO  20201011 172337\', \'scene_id\': \'ORBIT:ALOS2225333200-180726\', \'scene_location_id\': \'SCENE:\', \'reference_document\': \'https://www.eorc.jaxa.jp/ALOS-2/en/doc/fdata/PALSAR-2_xx_Format_CEOS_E_f.pdf\'}))", [(\'open_summary\', \'/eq4-product\', \'summary.txt\'), (\'open_sar_leader\', \'/eq4-product\', \'LED-x\'), (\'open_image\', \'/eq4-product\', \'IMG-VV\', True, False, 1024), (\'open_image\', \'/eq4-product\', \'IMG-HH\', True, False, 1024), (\'open_image\', \'/eq4-product\', \'IMG-VV+again\', True, False, 1024)])',
    '("(\'raise\', (\'TypeError\', (\'genuine type error\',), []))", [(\'open_summary\', \'/eq4-product\', \'summary.txt\'), (\'open_sar_leader\', \'/eq4-product\', \'LED-x\'), (\'open_image\', \'/eq4-product\', \'IMG-HH\', True, False, 1024), (\'open_image\', \'/eq4-product\', \'IMG-type-error\', True, False, 1024)])',
    '("(\'raise\', (\'OSError\', (\'cannot read\',), []))", [(\'open_summary\', \'/eq4-product\', \'summary.txt\'), (\'open_sar_leader\', \'/eq4-product\', \'LED-x\'), (\'open_image\', \'/eq4-product\', \'IMG-os-error\', False, False, 1024)])',
    '(\'(\\\'raise\\\', (\\\'TypeError\\\', ("open() got an unexpected keyword argument \\\'unknown_option\\\'",), []))\', [])',
]
# END OPEN


RECORDED = {
    "METADATA": ("EXPECTED_METADATA", observe_metadata),
    "VOLDIR": ("EXPECTED_VOLDIR", observe_volume_directory),
    "OPEN": ("EXPECTED_OPEN", observe_open),
}

if __name__ == "__main__":
    for label, observed, expected in [
        ("metadata", observe_metadata(), EXPECTED_METADATA),
        ("volume directory", observe_volume_directory(), EXPECTED_VOLDIR),
        ("open", observe_open(), EXPECTED_OPEN),
    ]:
        assert len(observed) == len(expected) > 0, (label, len(observed), len(expected))
        for index, (actual, wanted) in enumerate(zip(observed, expected)):
            assert (
                actual == wanted
            ), f"{label} #{index}:\n  actual:   {actual}\n  expected: {wanted}"

    # the inputs are not modified
    mapping = {"preamble": 1, "logical_volume_creation_datetime": "2020101117233798"}
    snapshot = dict(mapping)
    metadata.transform_volume_descriptor(mapping)
    assert mapping == snapshot and list(mapping) == list(snapshot)

    print(
        f"ok: {len(EXPECTED_METADATA)} metadata cases, {len(EXPECTED_VOLDIR)} volume"
        f" directories, {len(EXPECTED_OPEN)} open scenarios"
    )
