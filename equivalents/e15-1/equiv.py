"""Equivalence check for refactoring 1: sar_leader/metadata.py (transform_metadata, fix_attitude_time)

Self-contained.  Run as a script

    cd /tmp/wt3/e15 && PYTHONPATH=/tmp/wt3/e15 /venv/bin/python _eq/1/equiv.py

(exit status 0 = all cases equal the recorded outcomes) or through pytest

    cd /tmp/wt3/e15 && PYTHONPATH=/tmp/wt3/e15 /venv/bin/python -m pytest -q -p no:cacheprovider _eq/1/equiv.py

``EXPECTED`` at the bottom was recorded with ``equiv.py --record`` from the UNCHANGED code
(clean HEAD).  Every case stores either the canonical text of the result (types, order and
values of everything reachable, optionally also which containers are shared) or, if that text
is long, its sha256; raising cases store exception type and message.
"""
# ruff: noqa
# fmt: off
import hashlib
import io as _io
import pprint
import random
import struct as _struct
import sys

import construct as C
import numpy as np

import ceos_alos2
from ceos_alos2 import datatypes as D
from ceos_alos2.hierarchy import Group, Variable

# --------------------------------------------------------------------------
# canonical, type-preserving text form of arbitrary results
# --------------------------------------------------------------------------


def canon(obj):
    """Convert a result into plain nested tuples that record types, order and values."""
    if isinstance(obj, Group):
        return (
            "Group",
            ("path", obj.path),
            ("url", obj.url),
            ("attrs", canon(obj.attrs)),
            ("data", [(name, canon(value)) for name, value in obj.data.items()]),
        )
    if isinstance(obj, Variable):
        return ("Variable", canon(obj.dims), canon(obj.data), canon(obj.attrs))
    if isinstance(obj, np.ndarray):
        if obj.dtype.kind in "mM":
            values = obj.astype("int64").tolist()
        else:
            values = obj.tolist()
        return ("ndarray", str(obj.dtype), tuple(obj.shape), repr(values))
    if isinstance(obj, np.generic):
        return ("npscalar", type(obj).__name__, str(obj.dtype), repr(obj.item()))
    if isinstance(obj, dict):
        return (type(obj).__name__, [(canon(k), canon(v)) for k, v in obj.items()])
    if isinstance(obj, (list, tuple)):
        return (type(obj).__name__, [canon(v) for v in obj])
    if isinstance(obj, (bool, int, float, complex, str, bytes, type(None))):
        return (type(obj).__name__, repr(obj))
    if callable(obj):
        return ("callable", type(obj).__name__)
    return ("object", type(obj).__name__, repr(obj))


def aliasing(obj):
    """Record which mutable containers inside a result are the same object.

    Returns the list of groups (as lists of paths) of dict / list objects that occur more
    than once in the result.
    """
    seen = {}

    def visit(value, path):
        if isinstance(value, Group):
            visit(value.attrs, path + ("@attrs",))
            visit(value.data, path + ("@data",))
        elif isinstance(value, Variable):
            visit(value.dims, path + ("@dims",))
            visit(value.data, path + ("@vdata",))
            visit(value.attrs, path + ("@attrs",))
        elif isinstance(value, dict):
            seen.setdefault(id(value), []).append(path)
            for k, v in value.items():
                visit(v, path + (k,))
        elif isinstance(value, (list, tuple)):
            if isinstance(value, list):
                seen.setdefault(id(value), []).append(path)
            for i, v in enumerate(value):
                visit(v, path + (i,))
        elif isinstance(value, np.ndarray):
            seen.setdefault(id(value), []).append(path)

    visit(obj, ())
    return sorted(paths for paths in seen.values() if len(paths) > 1)


def outcome(thunk, with_aliasing=False):
    """Run a case and describe what happened: the result or the exception."""
    try:
        result = thunk()
    except Exception as e:  # noqa: BLE001
        text = pprint.pformat(("raises", type(e).__name__, str(e)), width=100)
    else:
        described = ("returns", canon(result))
        if with_aliasing:
            described += (("aliasing", aliasing(result)),)
        text = pprint.pformat(described, width=100)
    if len(text) > 700:
        digest = hashlib.sha256(text.encode()).hexdigest()
        return f"sha256:{digest}:len={len(text)}"
    return text


# --------------------------------------------------------------------------
# synthetic CEOS bytes for any of the library's construct definitions
# --------------------------------------------------------------------------


def _evaluate(value, ctx):
    return value(ctx) if callable(value) else value


class Synth:
    """Generate bytes which the given construct definition parses.

    Walks the definition; leaves are filled with seeded pseudo random ASCII text of the
    declared width.  ``overrides`` maps a path suffix (tuple of member names) to the value to
    write. ``blank`` is the probability of leaving a numeric / text leaf blank.
    """

    def __init__(self, seed, overrides=None, blank=0.0):
        self.rng = random.Random(seed)
        self.overrides = dict(overrides or {})
        self.blank = blank

    def lookup(self, path):
        names = tuple(p for p in path if isinstance(p, str))
        for n in range(len(names)):
            if names[n:] in self.overrides:
                return True, self.overrides[names[n:]]
        return False, None

    @staticmethod
    def _width(sc, ctx):
        # datatypes.* adapters wrap construct.PaddedString = StringEncoded(FixedSized(n, ...))
        return _evaluate(sc.subcon.subcon.length, ctx)

    def _fit(self, text, n, right=False):
        if len(text) > n:
            text = text[:n]
        return (text.rjust(n) if right else text.ljust(n)).encode("ascii")

    def integer(self, n, path):
        found, value = self.lookup(path)
        if found:
            return self._fit(str(value), n, right=True)
        if self.rng.random() < self.blank:
            return b" " * n
        digits = self.rng.randint(1, max(1, min(n, 5)))
        return self._fit(str(self.rng.randrange(10**digits)), n, right=True)

    def floating(self, n, path):
        found, value = self.lookup(path)
        if found:
            if isinstance(value, str):
                return self._fit(value, n, right=True)
        elif self.rng.random() < self.blank:
            return b" " * n
        else:
            value = self.rng.uniform(-1000, 1000)
        if n >= 14:
            text = f"{value:.{n - 9}E}"
        else:
            text = f"{value:.2f}"
        if len(text) > n:
            text = f"{value:.0f}"
        return self._fit(text, n, right=True)

    def text(self, n, path):
        found, value = self.lookup(path)
        if found:
            return self._fit(str(value), n)
        if self.rng.random() < self.blank or n <= 0:
            return b" " * max(n, 0)
        length = self.rng.randint(1, min(n, 12))
        letters = "".join(self.rng.choice("ABCDEFGHIJKLMNOPQRSTUVWXYZ0123456789") for _ in range(length))
        return self._fit(letters, n)

    def build(self, sc, ctx=None, path=()):
        if ctx is None:
            ctx = C.Container(_parsing=True, _building=False, _sizing=False, _params=C.Container())
        if isinstance(sc, C.Renamed):
            return self.build(sc.subcon, ctx, path)
        if isinstance(sc, C.Struct):
            inner = C.Container(
                _=ctx,
                _params=ctx._params,
                _root=None,
                _parsing=True,
                _building=False,
                _sizing=False,
                _io=None,
                _index=ctx.get("_index", None),
            )
            inner._root = inner._.get("_root", ctx)
            out = b""
            for member in sc.subcons:
                chunk = self.build(member, inner, path + (member.name,))
                inner[member.name] = member._parsereport(_io.BytesIO(chunk), inner, "synth")
                out += chunk
            return out
        if isinstance(sc, C.Array):
            count = _evaluate(sc.count, ctx)
            return b"".join(self.build(sc.subcon, ctx, path + (i,)) for i in range(count))
        if isinstance(sc, C.Enum):
            found, value = self.lookup(path)
            if not found:
                value = self.rng.choice(sorted(sc.encmapping.values(), key=str))
            n = self._width(sc.subcon, ctx)
            return self._fit(str(value), n, right=isinstance(sc.subcon, D.AsciiInteger))
        if isinstance(sc, D.AsciiInteger):
            return self.integer(self._width(sc, ctx), path)
        if isinstance(sc, D.AsciiFloat):
            return self.floating(self._width(sc, ctx), path)
        if isinstance(sc, D.PaddedString):
            return self.text(self._width(sc, ctx), path)
        if isinstance(sc, C.FormatField):
            found, value = self.lookup(path)
            if not found:
                value = self.rng.randrange(1, 200)
            return _struct.pack(sc.fmtstr, value)
        if isinstance(sc, C.Adapter):  # Metadata, Factor, AsciiComplex
            return self.build(sc.subcon, ctx, path)
        raise NotImplementedError(f"{type(sc).__name__} at {path}")


# --------------------------------------------------------------------------
# driver
# --------------------------------------------------------------------------


def run_cases(cases):
    results = {}
    for name, thunk, *flags in cases:
        if name in results:
            raise RuntimeError(f"duplicate case name {name}")
        results[name] = outcome(thunk, with_aliasing=bool(flags and flags[0]))
    return results


def check(cases, expected):
    actual = run_cases(cases)
    problems = []
    for name in sorted(set(actual) | set(expected)):
        if actual.get(name) != expected.get(name):
            problems.append(
                f"--- case {name!r}\n    expected: {expected.get(name)}\n    actual:   {actual.get(name)}"
            )
    return actual, problems


def main(cases, expected):
    print("library under test:", ceos_alos2.__file__)
    if "--record" in sys.argv:
        print("EXPECTED = " + pprint.pformat(run_cases(cases), width=110, sort_dicts=False))
        return 0
    actual, problems = check(cases, expected)
    for problem in problems:
        print(problem)
    n_raise = sum(1 for v in actual.values() if v.startswith("('raises'"))
    print(f"{len(actual)} cases ({n_raise} raising), {len(problems)} mismatches")
    return 1 if problems else 0


# --------------------------------------------------------------------------
# cases
# --------------------------------------------------------------------------

import copy

import fsspec

from ceos_alos2.sar_leader import io as leader_io
from ceos_alos2.sar_leader import metadata
from ceos_alos2.sar_leader.attitude import attitude_record
from ceos_alos2.sar_leader.data_quality_summary import data_quality_summary_record
from ceos_alos2.sar_leader.dataset_summary import dataset_summary_record
from ceos_alos2.sar_leader.facility_related_data import (
    facility_related_data_5_record,
    facility_related_data_record,
)
from ceos_alos2.sar_leader.map_projection import map_projection_record
from ceos_alos2.sar_leader.platform_position import platform_position_record
from ceos_alos2.sar_leader.radiometric_data import radiometric_data_record
from ceos_alos2.sar_leader.structure import sar_leader_record
from ceos_alos2.utils import to_dict


def leader_overrides(n_projections=1, designator="UTM-PROJECTION", n_points=3, n_channels=2):
    overrides = {
        ("file_descriptor", "map_projection", "number_of_records"): n_projections,
        ("map_projection_designator",): designator,
        ("scene_center_time",): "20110716012345678",
        ("datetime_of_first_point", "date"): "2011 07 16",
        ("datetime_of_first_point", "seconds_of_day"): 4321.5,
        ("attitude", "preamble", "record_length"): 16 + n_points * 120 + 24,
        ("attitude", "number_of_points"): n_points,
        ("number_of_channels",): n_channels,
        ("millisecond_of_day",): 1234,
        ("day_of_year",): 197,
    }
    for i in range(1, 6):
        overrides[(f"facility_related_data_{i}", "preamble", "record_length")] = 66 + 10 * i
    return overrides


def leader_bytes(seed, blank=0.0, **kwargs):
    return Synth(seed, leader_overrides(**kwargs), blank=blank).build(sar_leader_record)


def record(definition, seed, overrides=None, blank=0.0):
    raw = Synth(seed, overrides, blank=blank).build(definition)
    return to_dict(definition.parse(raw))


def records(seed, blank=0.0):
    """One parsed (but not yet transformed) mapping per record type."""
    ov = leader_overrides()
    ov[("preamble", "record_length")] = 16 + 3 * 120 + 24
    ov[("number_of_points",)] = 3
    return {
        "dataset_summary": record(dataset_summary_record, seed, ov, blank),
        "map_projection": [record(map_projection_record, seed + 1, ov, blank)],
        "platform_position": record(platform_position_record, seed + 2, ov, blank),
        "attitude": record(attitude_record, seed + 3, ov, blank),
        "radiometric_data": record(radiometric_data_record, seed + 4, ov, blank),
        "data_quality_summary": record(data_quality_summary_record, seed + 5, ov, blank),
        "facility_related_data_1": record(
            facility_related_data_record, seed + 6, {("record_length",): 80}, blank
        ),
        "facility_related_data_5": record(facility_related_data_5_record, seed + 7, ov, blank),
    }


class RecordingMapper(dict):
    """dict-like store that logs every access, to compare the I/O requests."""

    def __init__(self, *args, **kwargs):
        super().__init__(*args, **kwargs)
        self.log = []

    def __getitem__(self, key):
        self.log.append(("getitem", key))
        return super().__getitem__(key)

    def __contains__(self, key):
        self.log.append(("contains", key))
        return super().__contains__(key)

    def get(self, key, default=None):
        self.log.append(("get", key))
        return super().get(key, default)


def time_group(values, unit="ns", attrs=None, dims="points"):
    data = np.asarray(values, dtype=f"timedelta64[{unit}]")
    return Group(
        path=None,
        url=None,
        data={"time": Variable(dims, data, attrs if attrs is not None else {})},
        attrs={"coordinates": ["time"]},
    )


def position_group(first_point="2011-07-16T00:00:00", **extra):
    attrs = {"datetime_of_first_point": first_point} if first_point is not None else {}
    return Group(path=None, url=None, data={}, attrs=attrs | extra)


def attitude_group(**sections):
    return Group(path=None, url=None, data=sections, attrs={})


def fix_cases():
    def run(group):
        def thunk():
            before = copy.deepcopy(group)
            result = metadata.fix_attitude_time(group)
            return {
                "same_object": result is group,
                "result": result,
                "input_before": before,
                "input_after": group,
            }

        return thunk

    day = 86_400_000_000_000
    full = {
        "platform_position": position_group(),
        "attitude": attitude_group(
            attitude=time_group([196 * day + 10_000_000, 196 * day + 11_000_000]),
            rates=time_group([196 * day + 10_000_000, 196 * day + 11_000_000], attrs={"a": 1}),
        ),
    }
    yield "fix/dict/both", run(dict(full))
    yield "fix/group/both", run(Group(path=None, url=None, data=dict(full), attrs={"x": 1}))
    yield "fix/dict/empty", run({})
    yield "fix/dict/only-attitude", run({"attitude": full["attitude"]})
    yield "fix/dict/only-position", run({"platform_position": full["platform_position"]})
    yield "fix/group/only-attitude", run(
        Group(path=None, url=None, data={"attitude": full["attitude"]}, attrs={})
    )
    yield "fix/dict/other-keys", run({"dataset_summary": position_group(), "attitudes": 1})
    yield "fix/dict/no-sections", run(
        {"platform_position": position_group(), "attitude": attitude_group()}
    )
    yield "fix/dict/no-sections-missing-attr", run(
        {"platform_position": position_group(None), "attitude": attitude_group()}
    )
    yield "fix/dict/missing-attr", run(
        {"platform_position": position_group(None, other="2011"), "attitude": full["attitude"]}
    )
    yield "fix/dict/variables-are-skipped", run(
        {
            "platform_position": position_group("1999-12-31T23:59:59.5"),
            "attitude": attitude_group(
                time=Variable("points", np.asarray([1, 2], dtype="timedelta64[ns]"), {}),
                attitude=time_group([5 * day], attrs={"units": "x"}),
            ),
        }
    )
    yield "fix/dict/section-without-time", run(
        {
            "platform_position": position_group(),
            "attitude": attitude_group(
                attitude=time_group([day]),
                rates=Group(path=None, url=None, data={}, attrs={}),
            ),
        }
    )
    yield "fix/dict/millisecond-deltas", run(
        {
            "platform_position": position_group("2020-02-29"),
            "attitude": attitude_group(attitude=time_group([1, 86_400_000, 31_536_000_000], "ms")),
        }
    )
    yield "fix/dict/day-deltas-2d", run(
        {
            "platform_position": position_group("2024"),
            "attitude": attitude_group(
                attitude=time_group([[0, 1], [365, 366]], "D", dims=["a", "b"])
            ),
        }
    )
    yield "fix/dict/empty-time", run(
        {
            "platform_position": position_group("2011-07-16"),
            "attitude": attitude_group(attitude=time_group([])),
        }
    )
    yield "fix/dict/bad-year", run(
        {
            "platform_position": position_group("abcd-07-16"),
            "attitude": attitude_group(attitude=time_group([1])),
        }
    )
    yield "fix/dict/short-year", run(
        {
            "platform_position": position_group("19"),
            "attitude": attitude_group(attitude=time_group([1])),
        }
    )
    yield "fix/dict/year-not-a-string", run(
        {
            "platform_position": position_group(2011),
            "attitude": attitude_group(attitude=time_group([1])),
        }
    )
    yield "fix/dict/integer-time", run(
        {
            "platform_position": position_group(),
            "attitude": attitude_group(
                attitude=Group(
                    path=None,
                    url=None,
                    data={"time": Variable("points", np.asarray([1, 2]), {})},
                    attrs={},
                )
            ),
        }
    )
    yield "fix/dict/float-time", run(
        {
            "platform_position": position_group(),
            "attitude": attitude_group(
                attitude=Group(
                    path=None,
                    url=None,
                    data={"time": Variable("points", np.asarray([1.5, 2.5]), {})},
                    attrs={},
                )
            ),
        }
    )
    yield "fix/dict/attitude-is-dict", run(
        {"platform_position": position_group(), "attitude": {"attitude": time_group([1])}}
    )
    yield "fix/dict/position-is-dict", run(
        {
            "platform_position": {"datetime_of_first_point": "2011"},
            "attitude": attitude_group(attitude=time_group([1])),
        }
    )
    yield "fix/none", run(None)
    yield "fix/list", run(["platform_position", "attitude"])
    yield "fix/string", run("platform_position attitude")


def transform_cases():
    def run(mapping):
        return lambda: metadata.transform_metadata(mapping)

    yield "transform/empty", run({})
    yield "transform/only-ignored", run(
        {
            "file_descriptor": {"a": 1},
            "facility_related_data_1": {"a": 1},
            "facility_related_data_2": {"a": 1},
            "facility_related_data_3": {"a": 1},
            "facility_related_data_4": {"a": 1},
        }
    )
    yield "transform/falsy-values", run(
        {
            "dataset_summary": {},
            "map_projection": [],
            "platform_position": None,
            "attitude": 0,
            "radiometric_data": "",
            "data_quality_summary": (),
            "facility_related_data_5": {},
            "unknown": {},
        }
    )
    yield "transform/unknown-key-group", run(
        {"unknown": Group(path=None, url=None, data={}, attrs={"k": 1})}
    )
    yield "transform/unknown-key-dict", run({"unknown": {"k": 1}})
    yield "transform/non-string-keys", run({1: position_group(), ("a", 2): position_group()})
    yield "transform/none", run(None)
    yield "transform/list", run([("dataset_summary", {})])
    yield "transform/renamed", run({"facility_related_data_5": {"prf_switching_flag": 0}})
    yield "transform/rename-collision-1", run(
        {
            "facility_related_data_5": {"prf_switching_flag": 0},
            "transformations": Group(path=None, url=None, data={}, attrs={"marker": 1}),
        }
    )
    yield "transform/rename-collision-2", run(
        {
            "transformations": Group(path=None, url=None, data={}, attrs={"marker": 1}),
            "facility_related_data_5": {"prf_switching_flag": 1},
        }
    )
    yield "transform/bad-scene-center-time", run(
        {"dataset_summary": {"scene_center_time": "2011-07-16"}}
    )
    yield "transform/record5-is-list", run({"facility_related_data_5": [1, 2]})
    yield "transform/map-projection-is-dict", run(
        {"map_projection": {"map_projection_designator": "UTM-X"}}
    )
    yield "transform/map-projection-is-int", run({"map_projection": 5})

    for seed in (10, 20, 30):
        full = records(seed)
        yield f"transform/full/{seed}", run(dict(full)), True
        yield f"transform/full/{seed}/reversed", run(dict(reversed(list(full.items())))), True
        for name in full:
            yield f"transform/single/{seed}/{name}", run({name: full[name]})
        yield f"transform/no-position/{seed}", run(
            {k: v for k, v in full.items() if k != "platform_position"}
        )
        yield f"transform/no-attitude/{seed}", run(
            {k: v for k, v in full.items() if k != "attitude"}
        )
        yield f"transform/attitude-and-position/{seed}", run(
            {k: v for k, v in full.items() if k in ("attitude", "platform_position")}
        )

        two = dict(full)
        other = record(map_projection_record, seed + 100, {("map_projection_designator",): "LCC-X"})
        two["map_projection"] = [other, full["map_projection"][0]]
        yield f"transform/two-projections/{seed}", run(two)
        two_tuple = dict(two, map_projection=tuple(two["map_projection"]))
        yield f"transform/projections-tuple/{seed}", run(two_tuple)
        lazy = dict(two, map_projection=iter(two["map_projection"]))
        yield f"transform/projections-iterator/{seed}", run(lazy)

    blanks = records(77, blank=0.4)
    yield "transform/full/blanks", run(blanks), True
    for designator in ("UPS-A", "MER-B", "LCC-C", "XYZ-D", "utm-e"):
        mapping = {
            "map_projection": [
                record(map_projection_record, 5, {("map_projection_designator",): designator})
            ]
        }
        yield f"transform/designator/{designator}", run(mapping)
    yield "transform/designator/without-dash", run(
        {
            "map_projection": [
                record(map_projection_record, 5, {("map_projection_designator",): "UTM"})
            ]
        }
    )

    # the input is not modified
    def untouched():
        full = records(40)
        before = copy.deepcopy(full)
        metadata.transform_metadata(full)
        return canon(before) == canon(full), list(full)

    yield "transform/input-untouched", untouched


def io_cases():
    def open_(data, path="LED-1"):
        def thunk():
            mapper = RecordingMapper()
            if data is not None:
                dict.__setitem__(mapper, "LED-1", data)
            try:
                result = leader_io.open_sar_leader(mapper, path)
            except Exception as e:  # noqa: BLE001
                cause = type(e.__cause__).__name__ if e.__cause__ is not None else None
                result = ("raises", type(e).__name__, str(e), cause)
            return {"log": mapper.log, "result": result}

        return thunk

    yield "io/missing", open_(None)
    yield "io/wrong-name", open_(leader_bytes(1), path="LED-2")
    yield "io/empty-file", open_(b"")
    yield "io/truncated", open_(leader_bytes(1)[:5000])
    for seed, kwargs in (
        (1, {}),
        (2, {"n_projections": 0}),
        (3, {"n_projections": 2, "designator": "UPS-POLAR"}),
        (4, {"n_points": 0, "n_channels": 0}),
        (5, {"n_points": 7, "n_channels": 8, "designator": "MER-CATOR"}),
        (6, {"n_points": 1, "n_channels": 1, "designator": "LCC-X"}),
        (7, {"n_points": 2, "n_channels": 0, "designator": "utm-lowercase"}),
    ):
        yield f"io/leader/{seed}", open_(leader_bytes(seed, **kwargs)), True
    yield "io/leader/blanks", open_(leader_bytes(8, blank=0.3)), True
    yield "io/leader/trailing-bytes", open_(leader_bytes(9) + b"trailing")

    def memory():
        fs = fsspec.filesystem("memory")
        fs.pipe("/equiv-1/LED-A", leader_bytes(11))
        mapper = fsspec.get_mapper("memory://equiv-1")
        return leader_io.open_sar_leader(mapper, "LED-A")

    yield "io/fsspec-memory", memory

    def memory_missing():
        mapper = fsspec.get_mapper("memory://equiv-1-missing")
        return leader_io.open_sar_leader(mapper, "LED-A")

    yield "io/fsspec-memory-missing", memory_missing


def cases():
    yield from fix_cases()
    yield from transform_cases()
    yield from io_cases()


# --------------------------------------------------------------------------
# outcomes recorded from the unchanged code
# --------------------------------------------------------------------------

EXPECTED = {'fix/dict/both': 'sha256:c0a8409d581d0e9c48d1628505613e29c429d3e9ce9fd22da019a9b4eb9e5fb1:len=4169',
 'fix/group/both': 'sha256:7b6826d8aacffe74d527dcabdaa311a90c88a011d4daf7faf73449b1ec9b28ec:len=4685',
 'fix/dict/empty': "('returns',\n"
                   " ('dict',\n"
                   '  [((\'str\', "\'same_object\'"), (\'bool\', \'True\')),\n'
                   '   ((\'str\', "\'result\'"), (\'dict\', [])),\n'
                   '   ((\'str\', "\'input_before\'"), (\'dict\', [])),\n'
                   '   ((\'str\', "\'input_after\'"), (\'dict\', []))]))',
 'fix/dict/only-attitude': 'sha256:92b26ca688563937eab3803ed48ce5f586280a126aa0f31c64b151bfe89e668f:len=3455',
 'fix/dict/only-position': 'sha256:30b8613e821d7d7f2546036a2a693164e7794829a9688e01b0e0f38bf4c4a411:len=926',
 'fix/group/only-attitude': 'sha256:097e7b11a863ba3e7d9b55ca482293bb7d51ab6c8698350434e45c5b204589e2:len=3824',
 'fix/dict/other-keys': 'sha256:9f39270b7a99979464ea4574a1e14a752f97166c5f9c049ee81b77fc8ba52ef7:len=1058',
 'fix/dict/no-sections': 'sha256:b44631ddc1daf320b1fa2b3d57364211352327fdc77dd2da686e2f1c2d91468a:len=1280',
 'fix/dict/no-sections-missing-attr': '(\'raises\', \'KeyError\', "\'datetime_of_first_point\'")',
 'fix/dict/missing-attr': '(\'raises\', \'KeyError\', "\'datetime_of_first_point\'")',
 'fix/dict/variables-are-skipped': 'sha256:c4927255b1bccf15d850f490ff339b75a2602274216562fb69caa9fbb88213b7:len=3309',
 'fix/dict/section-without-time': '(\'raises\', \'KeyError\', "\'time\'")',
 'fix/dict/millisecond-deltas': 'sha256:5a76a0f8d99df36cb9244a67396fa6edb8db83376735e0ed129080fabb338c7b:len=2810',
 'fix/dict/day-deltas-2d': 'sha256:cda0ad31cbf05d27f8c1d1e5346def6f232ba0264f2612af502cab1f801b2e87:len=2914',
 'fix/dict/empty-time': 'sha256:393db270315d688b986212b1d56b136d053c839ac25bb546a51fcdc026a9b619:len=2562',
 'fix/dict/bad-year': '(\'raises\', \'ValueError\', \'Error parsing datetime string "abcd-01-01" at position '
                      "0')",
 'fix/dict/short-year': 'sha256:b85e8f90cd8a689a34bc2d63dfa2be63470dd44bc205774cb2105c63c1a0a440:len=2579',
 'fix/dict/year-not-a-string': '(\'raises\', \'TypeError\', "\'int\' object is not subscriptable")',
 'fix/dict/integer-time': 'sha256:e082f34502f112f6fc0fd8f561fd046e88463f6aa5997faea94644eca1576d27:len=2519',
 'fix/dict/float-time': "('raises',\n"
                        " 'UFuncTypeError',\n"
                        ' "ufunc \'add\' cannot use operands with types dtype(\'<M8[ns]\') and '
                        'dtype(\'float64\')")',
 'fix/dict/attitude-is-dict': '(\'raises\', \'AttributeError\', "\'dict\' object has no attribute '
                              '\'groups\'")',
 'fix/dict/position-is-dict': '(\'raises\', \'AttributeError\', "\'dict\' object has no attribute '
                              '\'attrs\'")',
 'fix/none': '(\'raises\', \'TypeError\', "argument of type \'NoneType\' is not iterable")',
 'fix/list': "('raises', 'TypeError', 'list indices must be integers or slices, not str')",
 'fix/string': '(\'raises\', \'TypeError\', "string indices must be integers, not \'str\'")',
 'transform/empty': "('returns', ('Group', ('path', '/'), ('url', None), ('attrs', ('dict', [])), ('data', "
                    '[])))',
 'transform/only-ignored': "('returns', ('Group', ('path', '/'), ('url', None), ('attrs', ('dict', [])), "
                           "('data', [])))",
 'transform/falsy-values': "('returns', ('Group', ('path', '/'), ('url', None), ('attrs', ('dict', [])), "
                           "('data', [])))",
 'transform/unknown-key-group': "('returns', ('Group', ('path', '/'), ('url', None), ('attrs', ('dict', "
                                "[])), ('data', [])))",
 'transform/unknown-key-dict': "('returns',\n"
                               " ('Group',\n"
                               "  ('path', '/'),\n"
                               "  ('url', None),\n"
                               "  ('attrs', ('dict', [])),\n"
                               '  (\'data\', [(\'unknown\', (\'dict\', [((\'str\', "\'k\'"), (\'int\', '
                               "'1'))]))])))",
 'transform/non-string-keys': "('returns', ('Group', ('path', '/'), ('url', None), ('attrs', ('dict', [])), "
                              "('data', [])))",
 'transform/none': '(\'raises\', \'AttributeError\', "\'NoneType\' object has no attribute \'items\'")',
 'transform/list': '(\'raises\', \'AttributeError\', "\'list\' object has no attribute \'items\'")',
 'transform/renamed': "('returns',\n"
                      " ('Group',\n"
                      "  ('path', '/'),\n"
                      "  ('url', None),\n"
                      "  ('attrs', ('dict', [])),\n"
                      "  ('data',\n"
                      "   [('transformations',\n"
                      "     ('Group',\n"
                      "      ('path', '/transformations'),\n"
                      "      ('url', None),\n"
                      '      (\'attrs\', (\'dict\', [((\'str\', "\'prf_switching\'"), (\'bool\', '
                      "'False'))])),\n"
                      "      ('data', [])))])))",
 'transform/rename-collision-1': "('returns',\n"
                                 " ('Group',\n"
                                 "  ('path', '/'),\n"
                                 "  ('url', None),\n"
                                 "  ('attrs', ('dict', [])),\n"
                                 "  ('data',\n"
                                 "   [('transformations',\n"
                                 "     ('Group',\n"
                                 "      ('path', '/transformations'),\n"
                                 "      ('url', None),\n"
                                 '      (\'attrs\', (\'dict\', [((\'str\', "\'prf_switching\'"), (\'bool\', '
                                 "'False'))])),\n"
                                 "      ('data', [])))])))",
 'transform/rename-collision-2': "('returns',\n"
                                 " ('Group',\n"
                                 "  ('path', '/'),\n"
                                 "  ('url', None),\n"
                                 "  ('attrs', ('dict', [])),\n"
                                 "  ('data',\n"
                                 "   [('transformations',\n"
                                 "     ('Group',\n"
                                 "      ('path', '/transformations'),\n"
                                 "      ('url', None),\n"
                                 '      (\'attrs\', (\'dict\', [((\'str\', "\'prf_switching\'"), (\'bool\', '
                                 "'True'))])),\n"
                                 "      ('data', [])))])))",
 'transform/bad-scene-center-time': '(\'raises\', \'ValueError\', "time data \'2011-07-16\' does not match '
                                    'format \'%Y%m%d%H%M%S%f\'")',
 'transform/record5-is-list': '(\'raises\', \'AttributeError\', "\'list\' object has no attribute '
                              '\'items\'")',
 'transform/map-projection-is-dict': '(\'raises\', \'AttributeError\', "\'str\' object has no attribute '
                                     '\'items\'")',
 'transform/map-projection-is-int': '(\'raises\', \'TypeError\', "\'int\' object is not iterable")',
 'transform/full/10': 'sha256:088b7b4a4476f76c1dbe9cd8ab1dca3c4f356c4228468dfc733d4e0a211f27ec:len=65901',
 'transform/full/10/reversed': 'sha256:e4f0fff5051bac53cb05bbcca72b5c051eaee2673639d510b7920614fccf2b1a:len=65901',
 'transform/single/10/dataset_summary': 'sha256:b66db1e3be837c5745d83d269009bb0f78f5df5bfd76c28d120cd81b5f13af9e:len=16299',
 'transform/single/10/map_projection': 'sha256:0eeec326ab5c868839373a5594abdf2a0d6c756bb2e3d4874f7adb9317681a34:len=10763',
 'transform/single/10/platform_position': 'sha256:6cdb23f64edcedaea392310ddd58c1f39353c3ae9f61cd1102d09d105863e2a3:len=14647',
 'transform/single/10/attitude': 'sha256:f7ebcda09c4bab7dab42f971c347a9878abe17990001ea803d8994a5f27a6c90:len=4028',
 'transform/single/10/radiometric_data': 'sha256:85377f80d1a49cc8d629492d654f6750c32441e6dd8c762a858eef7fc6e0e5e5:len=2838',
 'transform/single/10/data_quality_summary': 'sha256:5fcd94f6242d3eafce472672cc1787c842e2b19fb9850d50444725c89249607a:len=6007',
 'transform/single/10/facility_related_data_1': "('returns', ('Group', ('path', '/'), ('url', None), "
                                                "('attrs', ('dict', [])), ('data', [])))",
 'transform/single/10/facility_related_data_5': 'sha256:22a4ec256abe8b95ad9ce439441ae53c16cee0f27ca52e601619f6b042cce3b5:len=10572',
 'transform/no-position/10': 'sha256:83349c30fa49b1a0c033726f652301fef0f56f20ab67d5f86803da1edb31c2df:len=50022',
 'transform/no-attitude/10': 'sha256:2460b1b7dd23cfa6747fe4c806da60c508fbbb6ec4f4fef8bbd4c9dbe0bdd4bd:len=60641',
 'transform/attitude-and-position/10': 'sha256:4a25b7e53b25308d8d74710908917c3506de05ed32b7c3179498758f05fc5a4d:len=18588',
 'transform/two-projections/10': 'sha256:794bfaee738ba80591a769a928ba0397ad03a015aa8c4d05ff5a18df08d76a1c:len=65091',
 'transform/projections-tuple/10': 'sha256:794bfaee738ba80591a769a928ba0397ad03a015aa8c4d05ff5a18df08d76a1c:len=65091',
 'transform/projections-iterator/10': 'sha256:794bfaee738ba80591a769a928ba0397ad03a015aa8c4d05ff5a18df08d76a1c:len=65091',
 'transform/full/20': 'sha256:48c4dec0e99e964270b1746215f9d39badf00d099d1447087c03f481fd71d11d:len=65891',
 'transform/full/20/reversed': 'sha256:308a5495bfd17adb1ea951b4fa95f2c5d179bc5eb4e360d3a53d0009db1a17ff:len=65891',
 'transform/single/20/dataset_summary': 'sha256:99e134266dfb353a4ee25927437b9b864de4bbec9003609dfbbb66c102080e68:len=16258',
 'transform/single/20/map_projection': 'sha256:9a9272c3c957bea70a0e9f7245c78f8d2334429bd370f5655b25059cd2b30287:len=10759',
 'transform/single/20/platform_position': 'sha256:4d1788c539e3551a7a95182e3a2852d2bdfbf92b6216089920aee9be6c0f0578:len=14651',
 'transform/single/20/attitude': 'sha256:08c1d05e9fbf13dc1692422ae98af6f8645cad08156334ff67b181c0ef22a597:len=4036',
 'transform/single/20/radiometric_data': 'sha256:c2c9d61e681f96bee7c62b1eaf24b3f2cf37b72da0bd224d4f014ca93640f640:len=2842',
 'transform/single/20/data_quality_summary': 'sha256:2bfd0961458e83dc78878d818891bec9541bf25b4ea45b2cccb6bbed557ade5a:len=6014',
 'transform/single/20/facility_related_data_1': "('returns', ('Group', ('path', '/'), ('url', None), "
                                                "('attrs', ('dict', [])), ('data', [])))",
 'transform/single/20/facility_related_data_5': 'sha256:6dceafc9d56a923f21033717612160b736954f7ef16de864979bae47df226f27:len=10584',
 'transform/no-position/20': 'sha256:b6f75bdd24f266d41ad175a4f098c6ac2c5d6b6b8f5475f3d48de40bd83e5606:len=50008',
 'transform/no-attitude/20': 'sha256:841c2e46cae48eda020e47eac6cd542f83f55fa1ad9220ad9bc9a43d9f279996:len=60623',
 'transform/attitude-and-position/20': 'sha256:946c945ed239c28c57d867b18c42241890fa214ebdb49029adc87f302745399c:len=18600',
 'transform/two-projections/20': 'sha256:352181878cb2346895fcb369798e445888e896e9f0aec7253a80934f0f0f7092:len=65065',
 'transform/projections-tuple/20': 'sha256:352181878cb2346895fcb369798e445888e896e9f0aec7253a80934f0f0f7092:len=65065',
 'transform/projections-iterator/20': 'sha256:352181878cb2346895fcb369798e445888e896e9f0aec7253a80934f0f0f7092:len=65065',
 'transform/full/30': 'sha256:a07104f855affffe8fd67507b081b560815bea3fc8c785760cc77bb184cfb1f5:len=65924',
 'transform/full/30/reversed': 'sha256:3631c83b439810d917d0f469c10f94809d286e3bbd0a5dc9c541bc909f731c46:len=65924',
 'transform/single/30/dataset_summary': 'sha256:9c074ed82b843e2fe3d8cf1b4765ef082e2cfc941e36e1cef1fc1422294f7e42:len=16290',
 'transform/single/30/map_projection': 'sha256:2db72d3e1e26d61047263ffe9f2216ea2ff4784855b999d90af118f25cfa97d7:len=10762',
 'transform/single/30/platform_position': 'sha256:4f2da8e2e5388aa6d439ede3e51bb9c9ba74667cccae59affba9122a579037bb:len=14650',
 'transform/single/30/attitude': 'sha256:66605910c5eb51ddd9ee6eb01016cd7bd4ad6c3ce37c160349954806b1b5b5b5:len=4028',
 'transform/single/30/radiometric_data': 'sha256:0f886b54b383e0e97692add41d6dbced17d36ecb3ce4ab0a91ee1a3ff93a899e:len=2857',
 'transform/single/30/data_quality_summary': 'sha256:bc55366fa75d3a574e2dce4500603667248a38bed4d68bd5738af69020ac503d:len=6012',
 'transform/single/30/facility_related_data_1': "('returns', ('Group', ('path', '/'), ('url', None), "
                                                "('attrs', ('dict', [])), ('data', [])))",
 'transform/single/30/facility_related_data_5': 'sha256:d357324f51c2e06d21da46f0e1ae703fc6639fdba3ea528352e5d5ef434b4b72:len=10578',
 'transform/no-position/30': 'sha256:72ddf0f5dfb1656ffb441f003573b9c5e639c46ea4c6c25a8c637f9dc9d27c10:len=50042',
 'transform/no-attitude/30': 'sha256:8783ca7c80551a640a0f559e0de51affd59e7de47147e065a6b3c1a96b925911:len=60664',
 'transform/attitude-and-position/30': 'sha256:ae11eb537c26614b4cffe5840fd2792288324bfdbd40dc8897e931e4b724e32a:len=18591',
 'transform/two-projections/30': 'sha256:304126b9283fd9f1c58f2713fcfb546fda3c3ee985d5490a0737c63d37b19c6f:len=65101',
 'transform/projections-tuple/30': 'sha256:304126b9283fd9f1c58f2713fcfb546fda3c3ee985d5490a0737c63d37b19c6f:len=65101',
 'transform/projections-iterator/30': 'sha256:304126b9283fd9f1c58f2713fcfb546fda3c3ee985d5490a0737c63d37b19c6f:len=65101',
 'transform/full/blanks': 'sha256:f331ad75121b8ca7243b012b002234e722365e339ed50b94ac90bf1082e33ff6:len=64043',
 'transform/designator/UPS-A': 'sha256:f27033c20f3cc549bfd4a37e275bc9d972eb94b9759fc93d55d2ebbf9da28489:len=10713',
 'transform/designator/MER-B': 'sha256:98448c05329c76fe802ff2b190eeba6cded93a7bbb98580c2caf24a49ceef170:len=11260',
 'transform/designator/LCC-C': 'sha256:98448c05329c76fe802ff2b190eeba6cded93a7bbb98580c2caf24a49ceef170:len=11260',
 'transform/designator/XYZ-D': 'sha256:77272c507d973c5c9068069eaeed0dfbcefc2321dc3912ace02744a255c63326:len=9758',
 'transform/designator/utm-e': 'sha256:4bdcf7426137d6b128c4238a948bca6761a94d3b6d49a073430b96774ec3e2fe:len=10764',
 'transform/designator/without-dash': "('raises', 'ValueError', 'not enough values to unpack (expected 2, "
                                      "got 1)')",
 'transform/input-untouched': "('returns',\n"
                              " ('tuple',\n"
                              "  [('bool', 'True'),\n"
                              "   ('list',\n"
                              '    [(\'str\', "\'dataset_summary\'"),\n'
                              '     (\'str\', "\'map_projection\'"),\n'
                              '     (\'str\', "\'platform_position\'"),\n'
                              '     (\'str\', "\'attitude\'"),\n'
                              '     (\'str\', "\'radiometric_data\'"),\n'
                              '     (\'str\', "\'data_quality_summary\'"),\n'
                              '     (\'str\', "\'facility_related_data_1\'"),\n'
                              '     (\'str\', "\'facility_related_data_5\'")])]))',
 'io/missing': "('returns',\n"
               " ('dict',\n"
               '  [((\'str\', "\'log\'"), (\'list\', [(\'tuple\', [(\'str\', "\'getitem\'"), (\'str\', '
               '"\'LED-1\'")])])),\n'
               '   ((\'str\', "\'result\'"),\n'
               "    ('tuple',\n"
               '     [(\'str\', "\'raises\'"),\n'
               '      (\'str\', "\'FileNotFoundError\'"),\n'
               '      (\'str\', "\'Cannot open LED-1\'"),\n'
               '      (\'str\', "\'KeyError\'")]))]))',
 'io/wrong-name': "('returns',\n"
                  " ('dict',\n"
                  '  [((\'str\', "\'log\'"), (\'list\', [(\'tuple\', [(\'str\', "\'getitem\'"), (\'str\', '
                  '"\'LED-2\'")])])),\n'
                  '   ((\'str\', "\'result\'"),\n'
                  "    ('tuple',\n"
                  '     [(\'str\', "\'raises\'"),\n'
                  '      (\'str\', "\'FileNotFoundError\'"),\n'
                  '      (\'str\', "\'Cannot open LED-2\'"),\n'
                  '      (\'str\', "\'KeyError\'")]))]))',
 'io/empty-file': "('returns',\n"
                  " ('dict',\n"
                  '  [((\'str\', "\'log\'"), (\'list\', [(\'tuple\', [(\'str\', "\'getitem\'"), (\'str\', '
                  '"\'LED-1\'")])])),\n'
                  '   ((\'str\', "\'result\'"),\n'
                  "    ('tuple',\n"
                  '     [(\'str\', "\'raises\'"),\n'
                  '      (\'str\', "\'StreamError\'"),\n'
                  "      ('str',\n"
                  '       "\'Error in path (parsing) -> file_descriptor -> preamble -> '
                  'record_sequence_number\\\\nstream "\n'
                  '       "read less than specified amount, expected 4, found 0\'"),\n'
                  "      ('NoneType', 'None')]))]))",
 'io/truncated': "('returns',\n"
                 " ('dict',\n"
                 '  [((\'str\', "\'log\'"), (\'list\', [(\'tuple\', [(\'str\', "\'getitem\'"), (\'str\', '
                 '"\'LED-1\'")])])),\n'
                 '   ((\'str\', "\'result\'"),\n'
                 "    ('tuple',\n"
                 '     [(\'str\', "\'raises\'"),\n'
                 '      (\'str\', "\'StreamError\'"),\n'
                 "      ('str',\n"
                 '       "\'Error in path (parsing) -> map_projection -> map_projection_general_information '
                 '-> "\n'
                 "       'distance_of_platform_at_input_scene_center_from_geocenter\\\\nstream read less "
                 "than '\n"
                 '       "specified amount, expected 16, found 12\'"),\n'
                 "      ('NoneType', 'None')]))]))",
 'io/leader/1': 'sha256:3b7be3ffc2237f07aa740164108ba2f425e6552cbee9130a9ca1dbae0ce3fda0:len=70921',
 'io/leader/2': 'sha256:cd97673fc4c26a1b90bff711f63d2846416145edc30de1dc5b98ecece28e9a2d:len=59129',
 'io/leader/3': 'sha256:de53f7d24b244516915d1325b19730aab2b889d140288983c1d00c053d882083:len=70790',
 'io/leader/4': "('returns',\n"
                " ('dict',\n"
                '  [((\'str\', "\'log\'"), (\'list\', [(\'tuple\', [(\'str\', "\'getitem\'"), (\'str\', '
                '"\'LED-1\'")])])),\n'
                '   ((\'str\', "\'result\'"),\n'
                "    ('tuple',\n"
                '     [(\'str\', "\'raises\'"),\n'
                '      (\'str\', "\'AttributeError\'"),\n'
                '      (\'str\', \'"\\\'list\\\' object has no attribute \\\'keys\\\'"\'),\n'
                "      ('NoneType', 'None')]))]),\n"
                " ('aliasing', []))",
 'io/leader/5': 'sha256:091bc8c6d5144eb0e65c34c8e64010560a6a7e5eb31eff57ef0975f8b0747c56:len=75425',
 'io/leader/6': 'sha256:58e214b933b2b7afa4c3bb5e851322bbfb7efe7a2286dbe3bca0f2a57b1c32fc:len=70646',
 'io/leader/7': "('returns',\n"
                " ('dict',\n"
                '  [((\'str\', "\'log\'"), (\'list\', [(\'tuple\', [(\'str\', "\'getitem\'"), (\'str\', '
                '"\'LED-1\'")])])),\n'
                '   ((\'str\', "\'result\'"),\n'
                "    ('tuple',\n"
                '     [(\'str\', "\'raises\'"),\n'
                '      (\'str\', "\'AttributeError\'"),\n'
                '      (\'str\', \'"\\\'list\\\' object has no attribute \\\'keys\\\'"\'),\n'
                "      ('NoneType', 'None')]))]),\n"
                " ('aliasing', []))",
 'io/leader/blanks': 'sha256:8b84ec8df95f128262644833791e1754576359b4d5a42e16d05a0054ce0b2d42:len=69340',
 'io/leader/trailing-bytes': 'sha256:d2f41f3c6045fa75edf1f48810f3358fbf24ea53680423538bafdc80f4ad54c3:len=69385',
 'io/fsspec-memory': 'sha256:83e78fa1007974ae086d9fe2f9b89910529b284262519eaf608d41bc309dbd43:len=64627',
 'io/fsspec-memory-missing': "('raises', 'FileNotFoundError', 'Cannot open LED-A')"}


def test_equivalence():
    actual, problems = check(list(cases()), EXPECTED)
    assert len(actual) == len(EXPECTED)
    assert not problems, "\n".join(problems)


if __name__ == "__main__":
    sys.exit(main(list(cases()), EXPECTED))
