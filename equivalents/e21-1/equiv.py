"""Equivalence check for refactoring 1 (``Array.__getitem__`` in ceos_alos2/array.py).

Runs ``Array.__getitem__`` over a spread of row / column indexers, chunk sizes, type
codes and malformed inputs on a recording file system, and compares the results (values,
dtypes, shapes, exception types and messages, and the exact sequence of open / seek /
read requests) with what the unchanged code produced.

Run as ``PYTHONPATH=<worktree> python equiv.py`` (exit status 0 = equivalent) or with pytest.
"""

import io
import pprint
import sys

import numpy as np


def canon(obj):
    """Canonical, type-preserving text form of a result."""
    if isinstance(obj, BaseException):
        return f"raise {type(obj).__module__}.{type(obj).__qualname__}: {obj}"
    if isinstance(obj, np.ndarray):
        return f"ndarray[{obj.dtype.str}{obj.shape}]{obj.tolist()!r}"
    if isinstance(obj, np.generic):
        return f"{type(obj).__name__}({obj.item()!r})"
    if isinstance(obj, dict):
        items = ", ".join(f"{canon(k)}: {canon(v)}" for k, v in obj.items())
        return f"{type(obj).__name__}{{{items}}}"
    if isinstance(obj, (list, tuple)):
        return f"{type(obj).__name__}({', '.join(canon(v) for v in obj)})"
    return f"{type(obj).__name__}:{obj!r}"


def attempt(func, *args, **kwargs):
    try:
        return canon(func(*args, **kwargs))
    except Exception as e:  # noqa: BLE001
        return canon(e)


class RecordingFile:
    def __init__(self, content, log):
        self._buffer = io.BytesIO(content)
        self._log = log

    def __enter__(self):
        self._log.append("enter")
        return self

    def __exit__(self, *exc_info):
        self._log.append("exit")
        return False

    def seek(self, *args, **kwargs):
        self._log.append(("seek", args, kwargs))
        return self._buffer.seek(*args, **kwargs)

    def read(self, *args, **kwargs):
        self._log.append(("read", args, kwargs))
        return self._buffer.read(*args, **kwargs)


class RecordingFS:
    """minimal file system: records every request made by the code under test"""

    def __init__(self, files):
        self.files = files
        self.log = []

    def open(self, *args, **kwargs):
        self.log.append(("open", args, kwargs))
        return RecordingFile(self.files[args[0]], self.log)

    def take_log(self):
        log, self.log = self.log, []
        return repr(log)


from ceos_alos2.array import Array  # noqa: E402


def make_file(data, raw_dtype, gap=20, row_sizes=None):
    """encode rows with a metadata gap in front of each row, like the image file records"""
    rows = [np.ascontiguousarray(row).astype(raw_dtype).tobytes() for row in data]
    content = b""
    byte_ranges = []
    for row in rows:
        content += b"\xff" * gap
        byte_ranges.append((len(content), len(content) + len(row)))
        content += row
    return content, byte_ranges


def make_array(content, byte_ranges, shape, dtype, type_code, records_per_chunk):
    fs = RecordingFS({"image-file": content})
    arr = Array(
        fs=fs,
        url="image-file",
        byte_ranges=byte_ranges,
        shape=shape,
        dtype=dtype,
        type_code=type_code,
        records_per_chunk=records_per_chunk,
    )
    return fs, arr


ROW_INDEXERS = {
    "0": 0,
    "2": 2,
    "-1": -1,
    "True": True,
    "np.int64(1)": np.int64(1),
    "all": slice(None),
    "2:": slice(2, None),
    ":2": slice(None, 2),
    "-2:": slice(-2, None),
    "::2": slice(None, None, 2),
    "1:4:2": slice(1, 4, 2),
    "::-1": slice(None, None, -1),
    "-1::-2": slice(-1, None, -2),
    "0:0": slice(0, 0),
    "4:1": slice(4, 1),
    "10:": slice(10, None),
    "[0,2]": [0, 2],
    "[3,1,1]": [3, 1, 1],
    "[0,1]": [0, 1],
    "[0]": [0],
    "[-1,0]": [-1, 0],
    "[]": [],
    "array[4,0]": np.array([4, 0]),
    "(1,3)": (1, 3),
    "range(1,4)": range(1, 4),
    "7": 7,
    "-6": -6,
    "[0,9]": [0, 9],
    "1.5": 1.5,
    "None": None,
    "'a'": "a",
    "[[0,1]]": [[0, 1]],
}

COLUMN_INDEXERS = {
    "all": slice(None),
    "3": 3,
    "-1": -1,
    "2:": slice(2, None),
    ":-2": slice(None, -2),
    "::3": slice(None, None, 3),
    "::-1": slice(None, None, -1),
    "0:0": slice(0, 0),
    "[1,5]": [1, 5],
    "25": 25,
    "newaxis": None,
    "ellipsis": Ellipsis,
}


def getitem(fs, arr, indexers):
    result = attempt(lambda: arr[indexers])
    return f"{result} || io={fs.take_log()}"


def collect():
    results = {}

    data = np.arange(100, dtype="uint16").reshape(5, 20)
    content, byte_ranges = make_file(data, ">u2")

    # rows x columns x chunk sizes
    for rpc in (None, 1, 2, 3, 5, 7, -1, "auto", "80B", "1B", np.int64(2)):
        fs, arr = make_array(content, byte_ranges, data.shape, "uint16", "IU2", rpc)
        for rname, rows in ROW_INDEXERS.items():
            results[f"iu2 rpc={rpc!r} [{rname}, all]"] = getitem(fs, arr, (rows, slice(None)))
            if rpc != 2:
                continue
            for cname, cols in COLUMN_INDEXERS.items():
                results[f"iu2 rpc={rpc!r} [{rname}, {cname}]"] = getitem(fs, arr, (rows, cols))
            # only a row indexer / too many indexers / list of indexers
            results[f"iu2 rpc={rpc!r} [{rname},]"] = getitem(fs, arr, (rows,))
            results[f"iu2 rpc={rpc!r} [{rname}, 1, 2]"] = getitem(fs, arr, (rows, 1, 2))
            results[f"iu2 rpc={rpc!r} list[{rname}, 1:3]"] = getitem(fs, arr, [rows, slice(1, 3)])

    # indexers that are not sequences of indexers
    fs, arr = make_array(content, byte_ranges, data.shape, "uint16", "IU2", 2)
    for name, indexers in {
        "()": (),
        "[]": [],
        "2": 2,
        "slice": slice(None),
        "None": None,
        "str": "ab",
        "dict": {0: 1},
        "array": np.array([1, 2]),
    }.items():
        results[f"odd indexers {name}"] = getitem(fs, arr, indexers)

    # complex data
    cdata = (np.arange(24) + 1j * np.arange(24, 0, -1)).reshape(4, 6).astype("complex64")
    raw = np.empty(cdata.shape, dtype=[("real", ">f4"), ("imag", ">f4")])
    raw["real"] = cdata.real
    raw["imag"] = cdata.imag
    ccontent, cranges = make_file(raw, raw.dtype, gap=7)
    for rpc in (1, 3, 4, None):
        fs, arr = make_array(ccontent, cranges, cdata.shape, "complex64", "C*8", rpc)
        for rname in ("0", "-1", "all", "::-1", "1:4:2", "[3,1,1]", "0:0", "[]", "7"):
            for cname in ("all", "3", "::3"):
                key = f"c8 rpc={rpc!r} [{rname}, {cname}]"
                results[key] = getitem(fs, arr, (ROW_INDEXERS[rname], COLUMN_INDEXERS[cname]))

    # declared shape / dtype only matter for empty selections
    for shape, dtype in (
        ((5, 20), "float32"),
        ((5, 3, 2), "uint16"),
        ((5,), "int8"),
        ((), "uint16"),
        (None, "uint16"),
        ((5, 20), "no-such-dtype"),
        ((5, -1), "uint16"),
    ):
        fs, arr = make_array(content, byte_ranges, shape, dtype, "IU2", None)
        for rname in ("0:0", "[]", "1", "all"):
            indexer = ROW_INDEXERS.get(rname, 1)
            key = f"declared shape={shape!r} dtype={dtype!r} [{rname}]"
            results[key] = getitem(fs, arr, (indexer,))
            results[key + " cols"] = getitem(fs, arr, (indexer, slice(None, 2)))

    # type codes: unknown ones fail while the file is open, but only if something is read
    for type_code in ("IU2", "C*8", "F*4", None, ["IU2"]):
        fs, arr = make_array(content, byte_ranges, data.shape, "uint16", type_code, 2)
        for rname in ("0", "all", "0:0", "[3,1,1]", "7"):
            key = f"type_code={type_code!r} [{rname}]"
            results[key] = getitem(fs, arr, (ROW_INDEXERS[rname], slice(None)))

    # ragged rows, truncated file, row size not a multiple of the item size
    ragged = [(20, 60), (80, 100), (140, 180)]
    fs, arr = make_array(content, ragged, (3, 20), "uint16", "IU2", 2)
    for rname in ("all", "0", "[0,2]", "[0,1]", "2:", "::-1"):
        results[f"ragged [{rname}]"] = getitem(fs, arr, (ROW_INDEXERS[rname], slice(None)))

    fs, arr = make_array(content[:150], byte_ranges, data.shape, "uint16", "IU2", 2)
    for rname in ("all", "0", "2", "-1", "2:", "[3,1,1]"):
        results[f"truncated [{rname}]"] = getitem(fs, arr, (ROW_INDEXERS[rname], slice(None)))

    odd = [(20, 25), (30, 35)]
    fs, arr = make_array(content, odd, (2, 2), "uint16", "IU2", 1)
    for rname in ("all", "0", "0:0"):
        results[f"odd row size [{rname}]"] = getitem(fs, arr, (ROW_INDEXERS[rname], slice(None)))

    # overlapping / unordered byte ranges and no rows at all
    overlapping = [(100, 140), (20, 60), (40, 80), (20, 60)]
    for rpc in (1, 2, 3, None):
        fs, arr = make_array(content, overlapping, (4, 20), "uint16", "IU2", rpc)
        for rname in ("all", "::-1", "[3,1,1]", "2", "1:4:2"):
            key = f"overlapping rpc={rpc!r} [{rname}]"
            results[key] = getitem(fs, arr, (ROW_INDEXERS[rname], slice(None, 4)))

    for rpc in (None, 2, -1):
        fs, arr = make_array(content, [], (0, 20), "uint16", "IU2", rpc)
        for rname in ("all", "0", "[]", "::-1", "[0]"):
            key = f"no rows rpc={rpc!r} [{rname}]"
            results[key] = getitem(fs, arr, (ROW_INDEXERS.get(rname, [0]), slice(None)))

    # missing file: the open itself fails
    fs, arr = make_array(content, byte_ranges, data.shape, "uint16", "IU2", 2)
    arr.url = "other-file"
    for rname in ("all", "0", "7", "0:0"):
        results[f"missing file [{rname}]"] = getitem(fs, arr, (ROW_INDEXERS[rname], slice(None)))

    # results are fresh, writable, native arrays of the expected class
    fs, arr = make_array(content, byte_ranges, data.shape, "uint16", "IU2", 2)
    for rname in ("all", "0", "0:0", "[0,2]"):
        out = arr[(ROW_INDEXERS[rname], slice(None))]
        results[f"flags [{rname}]"] = repr(
            (type(out).__name__, out.flags.writeable, out.flags.c_contiguous, out.dtype.byteorder)
        )
    fs.take_log()

    return results


# recorded from the unchanged code (HEAD 405b008) with `python equiv.py --record`
EXPECTED = {'iu2 rpc=None [0, all]': 'ndarray[<u2(20,)][0, 1, 2, 3, 4, 5, 6, 7, 8, 9, 10, 11, 12, 13, 14, 15, 16, 17, '
                          "18, 19] || io=[('open', ('image-file',), {'mode': 'rb'}), 'enter', ('seek', "
                          "(20,), {}), ('read', (280,), {}), 'exit']",
 'iu2 rpc=None [2, all]': 'ndarray[<u2(20,)][40, 41, 42, 43, 44, 45, 46, 47, 48, 49, 50, 51, 52, 53, 54, 55, '
                          "56, 57, 58, 59] || io=[('open', ('image-file',), {'mode': 'rb'}), 'enter', "
                          "('seek', (20,), {}), ('read', (280,), {}), 'exit']",
 'iu2 rpc=None [-1, all]': 'ndarray[<u2(20,)][80, 81, 82, 83, 84, 85, 86, 87, 88, 89, 90, 91, 92, 93, 94, '
                           "95, 96, 97, 98, 99] || io=[('open', ('image-file',), {'mode': 'rb'}), 'enter', "
                           "('seek', (20,), {}), ('read', (280,), {}), 'exit']",
 'iu2 rpc=None [True, all]': 'ndarray[<u2(20,)][20, 21, 22, 23, 24, 25, 26, 27, 28, 29, 30, 31, 32, 33, 34, '
                             "35, 36, 37, 38, 39] || io=[('open', ('image-file',), {'mode': 'rb'}), 'enter', "
                             "('seek', (20,), {}), ('read', (280,), {}), 'exit']",
 'iu2 rpc=None [np.int64(1), all]': "raise builtins.TypeError: 'numpy.int64' object is not iterable || io=[]",
 'iu2 rpc=None [all, all]': 'ndarray[<u2(5, 20)][[0, 1, 2, 3, 4, 5, 6, 7, 8, 9, 10, 11, 12, 13, 14, 15, 16, '
                            '17, 18, 19], [20, 21, 22, 23, 24, 25, 26, 27, 28, 29, 30, 31, 32, 33, 34, 35, '
                            '36, 37, 38, 39], [40, 41, 42, 43, 44, 45, 46, 47, 48, 49, 50, 51, 52, 53, 54, '
                            '55, 56, 57, 58, 59], [60, 61, 62, 63, 64, 65, 66, 67, 68, 69, 70, 71, 72, 73, '
                            '74, 75, 76, 77, 78, 79], [80, 81, 82, 83, 84, 85, 86, 87, 88, 89, 90, 91, 92, '
                            "93, 94, 95, 96, 97, 98, 99]] || io=[('open', ('image-file',), {'mode': 'rb'}), "
                            "'enter', ('seek', (20,), {}), ('read', (280,), {}), 'exit']",
 'iu2 rpc=None [2:, all]': 'ndarray[<u2(3, 20)][[40, 41, 42, 43, 44, 45, 46, 47, 48, 49, 50, 51, 52, 53, 54, '
                           '55, 56, 57, 58, 59], [60, 61, 62, 63, 64, 65, 66, 67, 68, 69, 70, 71, 72, 73, '
                           '74, 75, 76, 77, 78, 79], [80, 81, 82, 83, 84, 85, 86, 87, 88, 89, 90, 91, 92, '
                           "93, 94, 95, 96, 97, 98, 99]] || io=[('open', ('image-file',), {'mode': 'rb'}), "
                           "'enter', ('seek', (20,), {}), ('read', (280,), {}), 'exit']",
 'iu2 rpc=None [:2, all]': 'ndarray[<u2(2, 20)][[0, 1, 2, 3, 4, 5, 6, 7, 8, 9, 10, 11, 12, 13, 14, 15, 16, '
                           '17, 18, 19], [20, 21, 22, 23, 24, 25, 26, 27, 28, 29, 30, 31, 32, 33, 34, 35, '
                           "36, 37, 38, 39]] || io=[('open', ('image-file',), {'mode': 'rb'}), 'enter', "
                           "('seek', (20,), {}), ('read', (280,), {}), 'exit']",
 'iu2 rpc=None [-2:, all]': 'ndarray[<u2(2, 20)][[60, 61, 62, 63, 64, 65, 66, 67, 68, 69, 70, 71, 72, 73, '
                            '74, 75, 76, 77, 78, 79], [80, 81, 82, 83, 84, 85, 86, 87, 88, 89, 90, 91, 92, '
                            "93, 94, 95, 96, 97, 98, 99]] || io=[('open', ('image-file',), {'mode': 'rb'}), "
                            "'enter', ('seek', (20,), {}), ('read', (280,), {}), 'exit']",
 'iu2 rpc=None [::2, all]': 'ndarray[<u2(3, 20)][[0, 1, 2, 3, 4, 5, 6, 7, 8, 9, 10, 11, 12, 13, 14, 15, 16, '
                            '17, 18, 19], [40, 41, 42, 43, 44, 45, 46, 47, 48, 49, 50, 51, 52, 53, 54, 55, '
                            '56, 57, 58, 59], [80, 81, 82, 83, 84, 85, 86, 87, 88, 89, 90, 91, 92, 93, 94, '
                            "95, 96, 97, 98, 99]] || io=[('open', ('image-file',), {'mode': 'rb'}), 'enter', "
                            "('seek', (20,), {}), ('read', (280,), {}), 'exit']",
 'iu2 rpc=None [1:4:2, all]': 'ndarray[<u2(2, 20)][[20, 21, 22, 23, 24, 25, 26, 27, 28, 29, 30, 31, 32, 33, '
                              '34, 35, 36, 37, 38, 39], [60, 61, 62, 63, 64, 65, 66, 67, 68, 69, 70, 71, 72, '
                              "73, 74, 75, 76, 77, 78, 79]] || io=[('open', ('image-file',), {'mode': "
                              "'rb'}), 'enter', ('seek', (20,), {}), ('read', (280,), {}), 'exit']",
 'iu2 rpc=None [::-1, all]': 'ndarray[<u2(5, 20)][[80, 81, 82, 83, 84, 85, 86, 87, 88, 89, 90, 91, 92, 93, '
                             '94, 95, 96, 97, 98, 99], [60, 61, 62, 63, 64, 65, 66, 67, 68, 69, 70, 71, 72, '
                             '73, 74, 75, 76, 77, 78, 79], [40, 41, 42, 43, 44, 45, 46, 47, 48, 49, 50, 51, '
                             '52, 53, 54, 55, 56, 57, 58, 59], [20, 21, 22, 23, 24, 25, 26, 27, 28, 29, 30, '
                             '31, 32, 33, 34, 35, 36, 37, 38, 39], [0, 1, 2, 3, 4, 5, 6, 7, 8, 9, 10, 11, '
                             "12, 13, 14, 15, 16, 17, 18, 19]] || io=[('open', ('image-file',), {'mode': "
                             "'rb'}), 'enter', ('seek', (20,), {}), ('read', (280,), {}), 'exit']",
 'iu2 rpc=None [-1::-2, all]': 'ndarray[<u2(3, 20)][[80, 81, 82, 83, 84, 85, 86, 87, 88, 89, 90, 91, 92, 93, '
                               '94, 95, 96, 97, 98, 99], [40, 41, 42, 43, 44, 45, 46, 47, 48, 49, 50, 51, '
                               '52, 53, 54, 55, 56, 57, 58, 59], [0, 1, 2, 3, 4, 5, 6, 7, 8, 9, 10, 11, 12, '
                               "13, 14, 15, 16, 17, 18, 19]] || io=[('open', ('image-file',), {'mode': "
                               "'rb'}), 'enter', ('seek', (20,), {}), ('read', (280,), {}), 'exit']",
 'iu2 rpc=None [0:0, all]': "ndarray[<u2(0, 20)][] || io=[('open', ('image-file',), {'mode': 'rb'}), "
                            "'enter', 'exit']",
 'iu2 rpc=None [4:1, all]': "ndarray[<u2(0, 20)][] || io=[('open', ('image-file',), {'mode': 'rb'}), "
                            "'enter', 'exit']",
 'iu2 rpc=None [10:, all]': "ndarray[<u2(0, 20)][] || io=[('open', ('image-file',), {'mode': 'rb'}), "
                            "'enter', 'exit']",
 'iu2 rpc=None [[0,2], all]': 'ndarray[<u2(2, 20)][[0, 1, 2, 3, 4, 5, 6, 7, 8, 9, 10, 11, 12, 13, 14, 15, '
                              '16, 17, 18, 19], [40, 41, 42, 43, 44, 45, 46, 47, 48, 49, 50, 51, 52, 53, 54, '
                              "55, 56, 57, 58, 59]] || io=[('open', ('image-file',), {'mode': 'rb'}), "
                              "'enter', ('seek', (20,), {}), ('read', (280,), {}), 'exit']",
 'iu2 rpc=None [[3,1,1], all]': 'ndarray[<u2(3, 20)][[60, 61, 62, 63, 64, 65, 66, 67, 68, 69, 70, 71, 72, '
                                '73, 74, 75, 76, 77, 78, 79], [20, 21, 22, 23, 24, 25, 26, 27, 28, 29, 30, '
                                '31, 32, 33, 34, 35, 36, 37, 38, 39], [20, 21, 22, 23, 24, 25, 26, 27, 28, '
                                "29, 30, 31, 32, 33, 34, 35, 36, 37, 38, 39]] || io=[('open', "
                                "('image-file',), {'mode': 'rb'}), 'enter', ('seek', (20,), {}), ('read', "
                                "(280,), {}), 'exit']",
 'iu2 rpc=None [[0,1], all]': 'ndarray[<u2(2, 20)][[0, 1, 2, 3, 4, 5, 6, 7, 8, 9, 10, 11, 12, 13, 14, 15, '
                              '16, 17, 18, 19], [20, 21, 22, 23, 24, 25, 26, 27, 28, 29, 30, 31, 32, 33, 34, '
                              "35, 36, 37, 38, 39]] || io=[('open', ('image-file',), {'mode': 'rb'}), "
                              "'enter', ('seek', (20,), {}), ('read', (280,), {}), 'exit']",
 'iu2 rpc=None [[0], all]': 'ndarray[<u2(1, 20)][[0, 1, 2, 3, 4, 5, 6, 7, 8, 9, 10, 11, 12, 13, 14, 15, 16, '
                            "17, 18, 19]] || io=[('open', ('image-file',), {'mode': 'rb'}), 'enter', "
                            "('seek', (20,), {}), ('read', (280,), {}), 'exit']",
 'iu2 rpc=None [[-1,0], all]': 'ndarray[<u2(2, 20)][[80, 81, 82, 83, 84, 85, 86, 87, 88, 89, 90, 91, 92, 93, '
                               '94, 95, 96, 97, 98, 99], [0, 1, 2, 3, 4, 5, 6, 7, 8, 9, 10, 11, 12, 13, 14, '
                               "15, 16, 17, 18, 19]] || io=[('open', ('image-file',), {'mode': 'rb'}), "
                               "'enter', ('seek', (20,), {}), ('read', (280,), {}), 'exit']",
 'iu2 rpc=None [[], all]': "ndarray[<u2(0, 20)][] || io=[('open', ('image-file',), {'mode': 'rb'}), 'enter', "
                           "'exit']",
 'iu2 rpc=None [array[4,0], all]': 'ndarray[<u2(2, 20)][[80, 81, 82, 83, 84, 85, 86, 87, 88, 89, 90, 91, 92, '
                                   '93, 94, 95, 96, 97, 98, 99], [0, 1, 2, 3, 4, 5, 6, 7, 8, 9, 10, 11, 12, '
                                   "13, 14, 15, 16, 17, 18, 19]] || io=[('open', ('image-file',), {'mode': "
                                   "'rb'}), 'enter', ('seek', (20,), {}), ('read', (280,), {}), 'exit']",
 'iu2 rpc=None [(1,3), all]': 'ndarray[<u2(2, 20)][[20, 21, 22, 23, 24, 25, 26, 27, 28, 29, 30, 31, 32, 33, '
                              '34, 35, 36, 37, 38, 39], [60, 61, 62, 63, 64, 65, 66, 67, 68, 69, 70, 71, 72, '
                              "73, 74, 75, 76, 77, 78, 79]] || io=[('open', ('image-file',), {'mode': "
                              "'rb'}), 'enter', ('seek', (20,), {}), ('read', (280,), {}), 'exit']",
 'iu2 rpc=None [range(1,4), all]': 'ndarray[<u2(3, 20)][[20, 21, 22, 23, 24, 25, 26, 27, 28, 29, 30, 31, 32, '
                                   '33, 34, 35, 36, 37, 38, 39], [40, 41, 42, 43, 44, 45, 46, 47, 48, 49, '
                                   '50, 51, 52, 53, 54, 55, 56, 57, 58, 59], [60, 61, 62, 63, 64, 65, 66, '
                                   "67, 68, 69, 70, 71, 72, 73, 74, 75, 76, 77, 78, 79]] || io=[('open', "
                                   "('image-file',), {'mode': 'rb'}), 'enter', ('seek', (20,), {}), ('read', "
                                   "(280,), {}), 'exit']",
 'iu2 rpc=None [7, all]': 'raise builtins.IndexError: list index out of range || io=[]',
 'iu2 rpc=None [-6, all]': 'raise builtins.IndexError: list index out of range || io=[]',
 'iu2 rpc=None [[0,9], all]': 'raise builtins.IndexError: list index out of range || io=[]',
 'iu2 rpc=None [1.5, all]': "raise builtins.TypeError: 'float' object is not iterable || io=[]",
 'iu2 rpc=None [None, all]': "raise builtins.TypeError: 'NoneType' object is not iterable || io=[]",
 "iu2 rpc=None ['a', all]": 'raise builtins.TypeError: list indices must be integers or slices, not str || '
                            'io=[]',
 'iu2 rpc=None [[[0,1]], all]': 'raise builtins.TypeError: list indices must be integers or slices, not list '
                                '|| io=[]',
 'iu2 rpc=1 [0, all]': 'ndarray[<u2(20,)][0, 1, 2, 3, 4, 5, 6, 7, 8, 9, 10, 11, 12, 13, 14, 15, 16, 17, 18, '
                       "19] || io=[('open', ('image-file',), {'mode': 'rb'}), 'enter', ('seek', (20,), {}), "
                       "('read', (40,), {}), 'exit']",
 'iu2 rpc=1 [2, all]': 'ndarray[<u2(20,)][40, 41, 42, 43, 44, 45, 46, 47, 48, 49, 50, 51, 52, 53, 54, 55, '
                       "56, 57, 58, 59] || io=[('open', ('image-file',), {'mode': 'rb'}), 'enter', ('seek', "
                       "(140,), {}), ('read', (40,), {}), 'exit']",
 'iu2 rpc=1 [-1, all]': 'ndarray[<u2(20,)][80, 81, 82, 83, 84, 85, 86, 87, 88, 89, 90, 91, 92, 93, 94, 95, '
                        "96, 97, 98, 99] || io=[('open', ('image-file',), {'mode': 'rb'}), 'enter', ('seek', "
                        "(260,), {}), ('read', (40,), {}), 'exit']",
 'iu2 rpc=1 [True, all]': 'ndarray[<u2(20,)][20, 21, 22, 23, 24, 25, 26, 27, 28, 29, 30, 31, 32, 33, 34, 35, '
                          "36, 37, 38, 39] || io=[('open', ('image-file',), {'mode': 'rb'}), 'enter', "
                          "('seek', (80,), {}), ('read', (40,), {}), 'exit']",
 'iu2 rpc=1 [np.int64(1), all]': "raise builtins.TypeError: 'numpy.int64' object is not iterable || io=[]",
 'iu2 rpc=1 [all, all]': 'ndarray[<u2(5, 20)][[0, 1, 2, 3, 4, 5, 6, 7, 8, 9, 10, 11, 12, 13, 14, 15, 16, 17, '
                         '18, 19], [20, 21, 22, 23, 24, 25, 26, 27, 28, 29, 30, 31, 32, 33, 34, 35, 36, 37, '
                         '38, 39], [40, 41, 42, 43, 44, 45, 46, 47, 48, 49, 50, 51, 52, 53, 54, 55, 56, 57, '
                         '58, 59], [60, 61, 62, 63, 64, 65, 66, 67, 68, 69, 70, 71, 72, 73, 74, 75, 76, 77, '
                         '78, 79], [80, 81, 82, 83, 84, 85, 86, 87, 88, 89, 90, 91, 92, 93, 94, 95, 96, 97, '
                         "98, 99]] || io=[('open', ('image-file',), {'mode': 'rb'}), 'enter', ('seek', "
                         "(20,), {}), ('read', (40,), {}), ('seek', (80,), {}), ('read', (40,), {}), "
                         "('seek', (140,), {}), ('read', (40,), {}), ('seek', (200,), {}), ('read', (40,), "
                         "{}), ('seek', (260,), {}), ('read', (40,), {}), 'exit']",
 'iu2 rpc=1 [2:, all]': 'ndarray[<u2(3, 20)][[40, 41, 42, 43, 44, 45, 46, 47, 48, 49, 50, 51, 52, 53, 54, '
                        '55, 56, 57, 58, 59], [60, 61, 62, 63, 64, 65, 66, 67, 68, 69, 70, 71, 72, 73, 74, '
                        '75, 76, 77, 78, 79], [80, 81, 82, 83, 84, 85, 86, 87, 88, 89, 90, 91, 92, 93, 94, '
                        "95, 96, 97, 98, 99]] || io=[('open', ('image-file',), {'mode': 'rb'}), 'enter', "
                        "('seek', (140,), {}), ('read', (40,), {}), ('seek', (200,), {}), ('read', (40,), "
                        "{}), ('seek', (260,), {}), ('read', (40,), {}), 'exit']",
 'iu2 rpc=1 [:2, all]': 'ndarray[<u2(2, 20)][[0, 1, 2, 3, 4, 5, 6, 7, 8, 9, 10, 11, 12, 13, 14, 15, 16, 17, '
                        '18, 19], [20, 21, 22, 23, 24, 25, 26, 27, 28, 29, 30, 31, 32, 33, 34, 35, 36, 37, '
                        "38, 39]] || io=[('open', ('image-file',), {'mode': 'rb'}), 'enter', ('seek', (20,), "
                        "{}), ('read', (40,), {}), ('seek', (80,), {}), ('read', (40,), {}), 'exit']",
 'iu2 rpc=1 [-2:, all]': 'ndarray[<u2(2, 20)][[60, 61, 62, 63, 64, 65, 66, 67, 68, 69, 70, 71, 72, 73, 74, '
                         '75, 76, 77, 78, 79], [80, 81, 82, 83, 84, 85, 86, 87, 88, 89, 90, 91, 92, 93, 94, '
                         "95, 96, 97, 98, 99]] || io=[('open', ('image-file',), {'mode': 'rb'}), 'enter', "
                         "('seek', (200,), {}), ('read', (40,), {}), ('seek', (260,), {}), ('read', (40,), "
                         "{}), 'exit']",
 'iu2 rpc=1 [::2, all]': 'ndarray[<u2(3, 20)][[0, 1, 2, 3, 4, 5, 6, 7, 8, 9, 10, 11, 12, 13, 14, 15, 16, 17, '
                         '18, 19], [40, 41, 42, 43, 44, 45, 46, 47, 48, 49, 50, 51, 52, 53, 54, 55, 56, 57, '
                         '58, 59], [80, 81, 82, 83, 84, 85, 86, 87, 88, 89, 90, 91, 92, 93, 94, 95, 96, 97, '
                         "98, 99]] || io=[('open', ('image-file',), {'mode': 'rb'}), 'enter', ('seek', "
                         "(20,), {}), ('read', (40,), {}), ('seek', (140,), {}), ('read', (40,), {}), "
                         "('seek', (260,), {}), ('read', (40,), {}), 'exit']",
 'iu2 rpc=1 [1:4:2, all]': 'ndarray[<u2(2, 20)][[20, 21, 22, 23, 24, 25, 26, 27, 28, 29, 30, 31, 32, 33, 34, '
                           '35, 36, 37, 38, 39], [60, 61, 62, 63, 64, 65, 66, 67, 68, 69, 70, 71, 72, 73, '
                           "74, 75, 76, 77, 78, 79]] || io=[('open', ('image-file',), {'mode': 'rb'}), "
                           "'enter', ('seek', (80,), {}), ('read', (40,), {}), ('seek', (200,), {}), "
                           "('read', (40,), {}), 'exit']",
 'iu2 rpc=1 [::-1, all]': 'ndarray[<u2(5, 20)][[80, 81, 82, 83, 84, 85, 86, 87, 88, 89, 90, 91, 92, 93, 94, '
                          '95, 96, 97, 98, 99], [60, 61, 62, 63, 64, 65, 66, 67, 68, 69, 70, 71, 72, 73, 74, '
                          '75, 76, 77, 78, 79], [40, 41, 42, 43, 44, 45, 46, 47, 48, 49, 50, 51, 52, 53, 54, '
                          '55, 56, 57, 58, 59], [20, 21, 22, 23, 24, 25, 26, 27, 28, 29, 30, 31, 32, 33, 34, '
                          '35, 36, 37, 38, 39], [0, 1, 2, 3, 4, 5, 6, 7, 8, 9, 10, 11, 12, 13, 14, 15, 16, '
                          "17, 18, 19]] || io=[('open', ('image-file',), {'mode': 'rb'}), 'enter', ('seek', "
                          "(260,), {}), ('read', (40,), {}), ('seek', (200,), {}), ('read', (40,), {}), "
                          "('seek', (140,), {}), ('read', (40,), {}), ('seek', (80,), {}), ('read', (40,), "
                          "{}), ('seek', (20,), {}), ('read', (40,), {}), 'exit']",
 'iu2 rpc=1 [-1::-2, all]': 'ndarray[<u2(3, 20)][[80, 81, 82, 83, 84, 85, 86, 87, 88, 89, 90, 91, 92, 93, '
                            '94, 95, 96, 97, 98, 99], [40, 41, 42, 43, 44, 45, 46, 47, 48, 49, 50, 51, 52, '
                            '53, 54, 55, 56, 57, 58, 59], [0, 1, 2, 3, 4, 5, 6, 7, 8, 9, 10, 11, 12, 13, 14, '
                            "15, 16, 17, 18, 19]] || io=[('open', ('image-file',), {'mode': 'rb'}), 'enter', "
                            "('seek', (260,), {}), ('read', (40,), {}), ('seek', (140,), {}), ('read', "
                            "(40,), {}), ('seek', (20,), {}), ('read', (40,), {}), 'exit']",
 'iu2 rpc=1 [0:0, all]': "ndarray[<u2(0, 20)][] || io=[('open', ('image-file',), {'mode': 'rb'}), 'enter', "
                         "'exit']",
 'iu2 rpc=1 [4:1, all]': "ndarray[<u2(0, 20)][] || io=[('open', ('image-file',), {'mode': 'rb'}), 'enter', "
                         "'exit']",
 'iu2 rpc=1 [10:, all]': "ndarray[<u2(0, 20)][] || io=[('open', ('image-file',), {'mode': 'rb'}), 'enter', "
                         "'exit']",
 'iu2 rpc=1 [[0,2], all]': 'ndarray[<u2(2, 20)][[0, 1, 2, 3, 4, 5, 6, 7, 8, 9, 10, 11, 12, 13, 14, 15, 16, '
                           '17, 18, 19], [40, 41, 42, 43, 44, 45, 46, 47, 48, 49, 50, 51, 52, 53, 54, 55, '
                           "56, 57, 58, 59]] || io=[('open', ('image-file',), {'mode': 'rb'}), 'enter', "
                           "('seek', (20,), {}), ('read', (40,), {}), ('seek', (140,), {}), ('read', (40,), "
                           "{}), 'exit']",
 'iu2 rpc=1 [[3,1,1], all]': 'ndarray[<u2(3, 20)][[60, 61, 62, 63, 64, 65, 66, 67, 68, 69, 70, 71, 72, 73, '
                             '74, 75, 76, 77, 78, 79], [20, 21, 22, 23, 24, 25, 26, 27, 28, 29, 30, 31, 32, '
                             '33, 34, 35, 36, 37, 38, 39], [20, 21, 22, 23, 24, 25, 26, 27, 28, 29, 30, 31, '
                             "32, 33, 34, 35, 36, 37, 38, 39]] || io=[('open', ('image-file',), {'mode': "
                             "'rb'}), 'enter', ('seek', (200,), {}), ('read', (40,), {}), ('seek', (80,), "
                             "{}), ('read', (40,), {}), 'exit']",
 'iu2 rpc=1 [[0,1], all]': 'ndarray[<u2(2, 20)][[0, 1, 2, 3, 4, 5, 6, 7, 8, 9, 10, 11, 12, 13, 14, 15, 16, '
                           '17, 18, 19], [20, 21, 22, 23, 24, 25, 26, 27, 28, 29, 30, 31, 32, 33, 34, 35, '
                           "36, 37, 38, 39]] || io=[('open', ('image-file',), {'mode': 'rb'}), 'enter', "
                           "('seek', (20,), {}), ('read', (40,), {}), ('seek', (80,), {}), ('read', (40,), "
                           "{}), 'exit']",
 'iu2 rpc=1 [[0], all]': 'ndarray[<u2(1, 20)][[0, 1, 2, 3, 4, 5, 6, 7, 8, 9, 10, 11, 12, 13, 14, 15, 16, 17, '
                         "18, 19]] || io=[('open', ('image-file',), {'mode': 'rb'}), 'enter', ('seek', "
                         "(20,), {}), ('read', (40,), {}), 'exit']",
 'iu2 rpc=1 [[-1,0], all]': 'ndarray[<u2(2, 20)][[80, 81, 82, 83, 84, 85, 86, 87, 88, 89, 90, 91, 92, 93, '
                            '94, 95, 96, 97, 98, 99], [0, 1, 2, 3, 4, 5, 6, 7, 8, 9, 10, 11, 12, 13, 14, 15, '
                            "16, 17, 18, 19]] || io=[('open', ('image-file',), {'mode': 'rb'}), 'enter', "
                            "('seek', (260,), {}), ('read', (40,), {}), ('seek', (20,), {}), ('read', (40,), "
                            "{}), 'exit']",
 'iu2 rpc=1 [[], all]': "ndarray[<u2(0, 20)][] || io=[('open', ('image-file',), {'mode': 'rb'}), 'enter', "
                        "'exit']",
 'iu2 rpc=1 [array[4,0], all]': 'ndarray[<u2(2, 20)][[80, 81, 82, 83, 84, 85, 86, 87, 88, 89, 90, 91, 92, '
                                '93, 94, 95, 96, 97, 98, 99], [0, 1, 2, 3, 4, 5, 6, 7, 8, 9, 10, 11, 12, 13, '
                                "14, 15, 16, 17, 18, 19]] || io=[('open', ('image-file',), {'mode': 'rb'}), "
                                "'enter', ('seek', (260,), {}), ('read', (40,), {}), ('seek', (20,), {}), "
                                "('read', (40,), {}), 'exit']",
 'iu2 rpc=1 [(1,3), all]': 'ndarray[<u2(2, 20)][[20, 21, 22, 23, 24, 25, 26, 27, 28, 29, 30, 31, 32, 33, 34, '
                           '35, 36, 37, 38, 39], [60, 61, 62, 63, 64, 65, 66, 67, 68, 69, 70, 71, 72, 73, '
                           "74, 75, 76, 77, 78, 79]] || io=[('open', ('image-file',), {'mode': 'rb'}), "
                           "'enter', ('seek', (80,), {}), ('read', (40,), {}), ('seek', (200,), {}), "
                           "('read', (40,), {}), 'exit']",
 'iu2 rpc=1 [range(1,4), all]': 'ndarray[<u2(3, 20)][[20, 21, 22, 23, 24, 25, 26, 27, 28, 29, 30, 31, 32, '
                                '33, 34, 35, 36, 37, 38, 39], [40, 41, 42, 43, 44, 45, 46, 47, 48, 49, 50, '
                                '51, 52, 53, 54, 55, 56, 57, 58, 59], [60, 61, 62, 63, 64, 65, 66, 67, 68, '
                                "69, 70, 71, 72, 73, 74, 75, 76, 77, 78, 79]] || io=[('open', "
                                "('image-file',), {'mode': 'rb'}), 'enter', ('seek', (80,), {}), ('read', "
                                "(40,), {}), ('seek', (140,), {}), ('read', (40,), {}), ('seek', (200,), "
                                "{}), ('read', (40,), {}), 'exit']",
 'iu2 rpc=1 [7, all]': 'raise builtins.IndexError: list index out of range || io=[]',
 'iu2 rpc=1 [-6, all]': 'raise builtins.IndexError: list index out of range || io=[]',
 'iu2 rpc=1 [[0,9], all]': 'raise builtins.IndexError: list index out of range || io=[]',
 'iu2 rpc=1 [1.5, all]': "raise builtins.TypeError: 'float' object is not iterable || io=[]",
 'iu2 rpc=1 [None, all]': "raise builtins.TypeError: 'NoneType' object is not iterable || io=[]",
 "iu2 rpc=1 ['a', all]": 'raise builtins.TypeError: list indices must be integers or slices, not str || '
                         'io=[]',
 'iu2 rpc=1 [[[0,1]], all]': 'raise builtins.TypeError: list indices must be integers or slices, not list || '
                             'io=[]',
 'iu2 rpc=2 [0, all]': 'ndarray[<u2(20,)][0, 1, 2, 3, 4, 5, 6, 7, 8, 9, 10, 11, 12, 13, 14, 15, 16, 17, 18, '
                       "19] || io=[('open', ('image-file',), {'mode': 'rb'}), 'enter', ('seek', (20,), {}), "
                       "('read', (100,), {}), 'exit']",
 'iu2 rpc=2 [0, 3]': "uint16(3) || io=[('open', ('image-file',), {'mode': 'rb'}), 'enter', ('seek', (20,), "
                     "{}), ('read', (100,), {}), 'exit']",
 'iu2 rpc=2 [0, -1]': "uint16(19) || io=[('open', ('image-file',), {'mode': 'rb'}), 'enter', ('seek', (20,), "
                      "{}), ('read', (100,), {}), 'exit']",
 'iu2 rpc=2 [0, 2:]': 'ndarray[<u2(18,)][2, 3, 4, 5, 6, 7, 8, 9, 10, 11, 12, 13, 14, 15, 16, 17, 18, 19] || '
                      "io=[('open', ('image-file',), {'mode': 'rb'}), 'enter', ('seek', (20,), {}), ('read', "
                      "(100,), {}), 'exit']",
 'iu2 rpc=2 [0, :-2]': 'ndarray[<u2(18,)][0, 1, 2, 3, 4, 5, 6, 7, 8, 9, 10, 11, 12, 13, 14, 15, 16, 17] || '
                       "io=[('open', ('image-file',), {'mode': 'rb'}), 'enter', ('seek', (20,), {}), "
                       "('read', (100,), {}), 'exit']",
 'iu2 rpc=2 [0, ::3]': "ndarray[<u2(7,)][0, 3, 6, 9, 12, 15, 18] || io=[('open', ('image-file',), {'mode': "
                       "'rb'}), 'enter', ('seek', (20,), {}), ('read', (100,), {}), 'exit']",
 'iu2 rpc=2 [0, ::-1]': 'ndarray[<u2(20,)][19, 18, 17, 16, 15, 14, 13, 12, 11, 10, 9, 8, 7, 6, 5, 4, 3, 2, '
                        "1, 0] || io=[('open', ('image-file',), {'mode': 'rb'}), 'enter', ('seek', (20,), "
                        "{}), ('read', (100,), {}), 'exit']",
 'iu2 rpc=2 [0, 0:0]': "ndarray[<u2(0,)][] || io=[('open', ('image-file',), {'mode': 'rb'}), 'enter', "
                       "('seek', (20,), {}), ('read', (100,), {}), 'exit']",
 'iu2 rpc=2 [0, [1,5]]': "ndarray[<u2(2,)][1, 5] || io=[('open', ('image-file',), {'mode': 'rb'}), 'enter', "
                         "('seek', (20,), {}), ('read', (100,), {}), 'exit']",
 'iu2 rpc=2 [0, 25]': 'raise builtins.IndexError: index 25 is out of bounds for axis 1 with size 20 || '
                      "io=[('open', ('image-file',), {'mode': 'rb'}), 'enter', ('seek', (20,), {}), ('read', "
                      "(100,), {}), 'exit']",
 'iu2 rpc=2 [0, newaxis]': 'ndarray[<u2(1, 20)][[0, 1, 2, 3, 4, 5, 6, 7, 8, 9, 10, 11, 12, 13, 14, 15, 16, '
                           "17, 18, 19]] || io=[('open', ('image-file',), {'mode': 'rb'}), 'enter', ('seek', "
                           "(20,), {}), ('read', (100,), {}), 'exit']",
 'iu2 rpc=2 [0, ellipsis]': 'ndarray[<u2(20,)][0, 1, 2, 3, 4, 5, 6, 7, 8, 9, 10, 11, 12, 13, 14, 15, 16, 17, '
                            "18, 19] || io=[('open', ('image-file',), {'mode': 'rb'}), 'enter', ('seek', "
                            "(20,), {}), ('read', (100,), {}), 'exit']",
 'iu2 rpc=2 [0,]': 'ndarray[<u2(20,)][0, 1, 2, 3, 4, 5, 6, 7, 8, 9, 10, 11, 12, 13, 14, 15, 16, 17, 18, 19] '
                   "|| io=[('open', ('image-file',), {'mode': 'rb'}), 'enter', ('seek', (20,), {}), ('read', "
                   "(100,), {}), 'exit']",
 'iu2 rpc=2 [0, 1, 2]': 'raise builtins.IndexError: too many indices for array: array is 2-dimensional, but '
                        "3 were indexed || io=[('open', ('image-file',), {'mode': 'rb'}), 'enter', ('seek', "
                        "(20,), {}), ('read', (100,), {}), 'exit']",
 'iu2 rpc=2 list[0, 1:3]': "ndarray[<u2(2,)][1, 2] || io=[('open', ('image-file',), {'mode': 'rb'}), "
                           "'enter', ('seek', (20,), {}), ('read', (100,), {}), 'exit']",
 'iu2 rpc=2 [2, all]': 'ndarray[<u2(20,)][40, 41, 42, 43, 44, 45, 46, 47, 48, 49, 50, 51, 52, 53, 54, 55, '
                       "56, 57, 58, 59] || io=[('open', ('image-file',), {'mode': 'rb'}), 'enter', ('seek', "
                       "(140,), {}), ('read', (100,), {}), 'exit']",
 'iu2 rpc=2 [2, 3]': "uint16(43) || io=[('open', ('image-file',), {'mode': 'rb'}), 'enter', ('seek', (140,), "
                     "{}), ('read', (100,), {}), 'exit']",
 'iu2 rpc=2 [2, -1]': "uint16(59) || io=[('open', ('image-file',), {'mode': 'rb'}), 'enter', ('seek', "
                      "(140,), {}), ('read', (100,), {}), 'exit']",
 'iu2 rpc=2 [2, 2:]': 'ndarray[<u2(18,)][42, 43, 44, 45, 46, 47, 48, 49, 50, 51, 52, 53, 54, 55, 56, 57, 58, '
                      "59] || io=[('open', ('image-file',), {'mode': 'rb'}), 'enter', ('seek', (140,), {}), "
                      "('read', (100,), {}), 'exit']",
 'iu2 rpc=2 [2, :-2]': 'ndarray[<u2(18,)][40, 41, 42, 43, 44, 45, 46, 47, 48, 49, 50, 51, 52, 53, 54, 55, '
                       "56, 57] || io=[('open', ('image-file',), {'mode': 'rb'}), 'enter', ('seek', (140,), "
                       "{}), ('read', (100,), {}), 'exit']",
 'iu2 rpc=2 [2, ::3]': "ndarray[<u2(7,)][40, 43, 46, 49, 52, 55, 58] || io=[('open', ('image-file',), "
                       "{'mode': 'rb'}), 'enter', ('seek', (140,), {}), ('read', (100,), {}), 'exit']",
 'iu2 rpc=2 [2, ::-1]': 'ndarray[<u2(20,)][59, 58, 57, 56, 55, 54, 53, 52, 51, 50, 49, 48, 47, 46, 45, 44, '
                        "43, 42, 41, 40] || io=[('open', ('image-file',), {'mode': 'rb'}), 'enter', ('seek', "
                        "(140,), {}), ('read', (100,), {}), 'exit']",
 'iu2 rpc=2 [2, 0:0]': "ndarray[<u2(0,)][] || io=[('open', ('image-file',), {'mode': 'rb'}), 'enter', "
                       "('seek', (140,), {}), ('read', (100,), {}), 'exit']",
 'iu2 rpc=2 [2, [1,5]]': "ndarray[<u2(2,)][41, 45] || io=[('open', ('image-file',), {'mode': 'rb'}), "
                         "'enter', ('seek', (140,), {}), ('read', (100,), {}), 'exit']",
 'iu2 rpc=2 [2, 25]': 'raise builtins.IndexError: index 25 is out of bounds for axis 1 with size 20 || '
                      "io=[('open', ('image-file',), {'mode': 'rb'}), 'enter', ('seek', (140,), {}), "
                      "('read', (100,), {}), 'exit']",
 'iu2 rpc=2 [2, newaxis]': 'ndarray[<u2(1, 20)][[40, 41, 42, 43, 44, 45, 46, 47, 48, 49, 50, 51, 52, 53, 54, '
                           "55, 56, 57, 58, 59]] || io=[('open', ('image-file',), {'mode': 'rb'}), 'enter', "
                           "('seek', (140,), {}), ('read', (100,), {}), 'exit']",
 'iu2 rpc=2 [2, ellipsis]': 'ndarray[<u2(20,)][40, 41, 42, 43, 44, 45, 46, 47, 48, 49, 50, 51, 52, 53, 54, '
                            "55, 56, 57, 58, 59] || io=[('open', ('image-file',), {'mode': 'rb'}), 'enter', "
                            "('seek', (140,), {}), ('read', (100,), {}), 'exit']",
 'iu2 rpc=2 [2,]': 'ndarray[<u2(20,)][40, 41, 42, 43, 44, 45, 46, 47, 48, 49, 50, 51, 52, 53, 54, 55, 56, '
                   "57, 58, 59] || io=[('open', ('image-file',), {'mode': 'rb'}), 'enter', ('seek', (140,), "
                   "{}), ('read', (100,), {}), 'exit']",
 'iu2 rpc=2 [2, 1, 2]': 'raise builtins.IndexError: too many indices for array: array is 2-dimensional, but '
                        "3 were indexed || io=[('open', ('image-file',), {'mode': 'rb'}), 'enter', ('seek', "
                        "(140,), {}), ('read', (100,), {}), 'exit']",
 'iu2 rpc=2 list[2, 1:3]': "ndarray[<u2(2,)][41, 42] || io=[('open', ('image-file',), {'mode': 'rb'}), "
                           "'enter', ('seek', (140,), {}), ('read', (100,), {}), 'exit']",
 'iu2 rpc=2 [-1, all]': 'ndarray[<u2(20,)][80, 81, 82, 83, 84, 85, 86, 87, 88, 89, 90, 91, 92, 93, 94, 95, '
                        "96, 97, 98, 99] || io=[('open', ('image-file',), {'mode': 'rb'}), 'enter', ('seek', "
                        "(260,), {}), ('read', (40,), {}), 'exit']",
 'iu2 rpc=2 [-1, 3]': "uint16(83) || io=[('open', ('image-file',), {'mode': 'rb'}), 'enter', ('seek', "
                      "(260,), {}), ('read', (40,), {}), 'exit']",
 'iu2 rpc=2 [-1, -1]': "uint16(99) || io=[('open', ('image-file',), {'mode': 'rb'}), 'enter', ('seek', "
                       "(260,), {}), ('read', (40,), {}), 'exit']",
 'iu2 rpc=2 [-1, 2:]': 'ndarray[<u2(18,)][82, 83, 84, 85, 86, 87, 88, 89, 90, 91, 92, 93, 94, 95, 96, 97, '
                       "98, 99] || io=[('open', ('image-file',), {'mode': 'rb'}), 'enter', ('seek', (260,), "
                       "{}), ('read', (40,), {}), 'exit']",
 'iu2 rpc=2 [-1, :-2]': 'ndarray[<u2(18,)][80, 81, 82, 83, 84, 85, 86, 87, 88, 89, 90, 91, 92, 93, 94, 95, '
                        "96, 97] || io=[('open', ('image-file',), {'mode': 'rb'}), 'enter', ('seek', (260,), "
                        "{}), ('read', (40,), {}), 'exit']",
 'iu2 rpc=2 [-1, ::3]': "ndarray[<u2(7,)][80, 83, 86, 89, 92, 95, 98] || io=[('open', ('image-file',), "
                        "{'mode': 'rb'}), 'enter', ('seek', (260,), {}), ('read', (40,), {}), 'exit']",
 'iu2 rpc=2 [-1, ::-1]': 'ndarray[<u2(20,)][99, 98, 97, 96, 95, 94, 93, 92, 91, 90, 89, 88, 87, 86, 85, 84, '
                         "83, 82, 81, 80] || io=[('open', ('image-file',), {'mode': 'rb'}), 'enter', "
                         "('seek', (260,), {}), ('read', (40,), {}), 'exit']",
 'iu2 rpc=2 [-1, 0:0]': "ndarray[<u2(0,)][] || io=[('open', ('image-file',), {'mode': 'rb'}), 'enter', "
                        "('seek', (260,), {}), ('read', (40,), {}), 'exit']",
 'iu2 rpc=2 [-1, [1,5]]': "ndarray[<u2(2,)][81, 85] || io=[('open', ('image-file',), {'mode': 'rb'}), "
                          "'enter', ('seek', (260,), {}), ('read', (40,), {}), 'exit']",
 'iu2 rpc=2 [-1, 25]': 'raise builtins.IndexError: index 25 is out of bounds for axis 1 with size 20 || '
                       "io=[('open', ('image-file',), {'mode': 'rb'}), 'enter', ('seek', (260,), {}), "
                       "('read', (40,), {}), 'exit']",
 'iu2 rpc=2 [-1, newaxis]': 'ndarray[<u2(1, 20)][[80, 81, 82, 83, 84, 85, 86, 87, 88, 89, 90, 91, 92, 93, '
                            "94, 95, 96, 97, 98, 99]] || io=[('open', ('image-file',), {'mode': 'rb'}), "
                            "'enter', ('seek', (260,), {}), ('read', (40,), {}), 'exit']",
 'iu2 rpc=2 [-1, ellipsis]': 'ndarray[<u2(20,)][80, 81, 82, 83, 84, 85, 86, 87, 88, 89, 90, 91, 92, 93, 94, '
                             "95, 96, 97, 98, 99] || io=[('open', ('image-file',), {'mode': 'rb'}), 'enter', "
                             "('seek', (260,), {}), ('read', (40,), {}), 'exit']",
 'iu2 rpc=2 [-1,]': 'ndarray[<u2(20,)][80, 81, 82, 83, 84, 85, 86, 87, 88, 89, 90, 91, 92, 93, 94, 95, 96, '
                    "97, 98, 99] || io=[('open', ('image-file',), {'mode': 'rb'}), 'enter', ('seek', (260,), "
                    "{}), ('read', (40,), {}), 'exit']",
 'iu2 rpc=2 [-1, 1, 2]': 'raise builtins.IndexError: too many indices for array: array is 2-dimensional, but '
                         "3 were indexed || io=[('open', ('image-file',), {'mode': 'rb'}), 'enter', ('seek', "
                         "(260,), {}), ('read', (40,), {}), 'exit']",
 'iu2 rpc=2 list[-1, 1:3]': "ndarray[<u2(2,)][81, 82] || io=[('open', ('image-file',), {'mode': 'rb'}), "
                            "'enter', ('seek', (260,), {}), ('read', (40,), {}), 'exit']",
 'iu2 rpc=2 [True, all]': 'ndarray[<u2(20,)][20, 21, 22, 23, 24, 25, 26, 27, 28, 29, 30, 31, 32, 33, 34, 35, '
                          "36, 37, 38, 39] || io=[('open', ('image-file',), {'mode': 'rb'}), 'enter', "
                          "('seek', (20,), {}), ('read', (100,), {}), 'exit']",
 'iu2 rpc=2 [True, 3]': "uint16(23) || io=[('open', ('image-file',), {'mode': 'rb'}), 'enter', ('seek', "
                        "(20,), {}), ('read', (100,), {}), 'exit']",
 'iu2 rpc=2 [True, -1]': "uint16(39) || io=[('open', ('image-file',), {'mode': 'rb'}), 'enter', ('seek', "
                         "(20,), {}), ('read', (100,), {}), 'exit']",
 'iu2 rpc=2 [True, 2:]': 'ndarray[<u2(18,)][22, 23, 24, 25, 26, 27, 28, 29, 30, 31, 32, 33, 34, 35, 36, 37, '
                         "38, 39] || io=[('open', ('image-file',), {'mode': 'rb'}), 'enter', ('seek', (20,), "
                         "{}), ('read', (100,), {}), 'exit']",
 'iu2 rpc=2 [True, :-2]': 'ndarray[<u2(18,)][20, 21, 22, 23, 24, 25, 26, 27, 28, 29, 30, 31, 32, 33, 34, 35, '
                          "36, 37] || io=[('open', ('image-file',), {'mode': 'rb'}), 'enter', ('seek', "
                          "(20,), {}), ('read', (100,), {}), 'exit']",
 'iu2 rpc=2 [True, ::3]': "ndarray[<u2(7,)][20, 23, 26, 29, 32, 35, 38] || io=[('open', ('image-file',), "
                          "{'mode': 'rb'}), 'enter', ('seek', (20,), {}), ('read', (100,), {}), 'exit']",
 'iu2 rpc=2 [True, ::-1]': 'ndarray[<u2(20,)][39, 38, 37, 36, 35, 34, 33, 32, 31, 30, 29, 28, 27, 26, 25, '
                           "24, 23, 22, 21, 20] || io=[('open', ('image-file',), {'mode': 'rb'}), 'enter', "
                           "('seek', (20,), {}), ('read', (100,), {}), 'exit']",
 'iu2 rpc=2 [True, 0:0]': "ndarray[<u2(0,)][] || io=[('open', ('image-file',), {'mode': 'rb'}), 'enter', "
                          "('seek', (20,), {}), ('read', (100,), {}), 'exit']",
 'iu2 rpc=2 [True, [1,5]]': "ndarray[<u2(2,)][21, 25] || io=[('open', ('image-file',), {'mode': 'rb'}), "
                            "'enter', ('seek', (20,), {}), ('read', (100,), {}), 'exit']",
 'iu2 rpc=2 [True, 25]': 'raise builtins.IndexError: index 25 is out of bounds for axis 1 with size 20 || '
                         "io=[('open', ('image-file',), {'mode': 'rb'}), 'enter', ('seek', (20,), {}), "
                         "('read', (100,), {}), 'exit']",
 'iu2 rpc=2 [True, newaxis]': 'ndarray[<u2(1, 20)][[20, 21, 22, 23, 24, 25, 26, 27, 28, 29, 30, 31, 32, 33, '
                              "34, 35, 36, 37, 38, 39]] || io=[('open', ('image-file',), {'mode': 'rb'}), "
                              "'enter', ('seek', (20,), {}), ('read', (100,), {}), 'exit']",
 'iu2 rpc=2 [True, ellipsis]': 'ndarray[<u2(20,)][20, 21, 22, 23, 24, 25, 26, 27, 28, 29, 30, 31, 32, 33, '
                               "34, 35, 36, 37, 38, 39] || io=[('open', ('image-file',), {'mode': 'rb'}), "
                               "'enter', ('seek', (20,), {}), ('read', (100,), {}), 'exit']",
 'iu2 rpc=2 [True,]': 'ndarray[<u2(20,)][20, 21, 22, 23, 24, 25, 26, 27, 28, 29, 30, 31, 32, 33, 34, 35, 36, '
                      "37, 38, 39] || io=[('open', ('image-file',), {'mode': 'rb'}), 'enter', ('seek', "
                      "(20,), {}), ('read', (100,), {}), 'exit']",
 'iu2 rpc=2 [True, 1, 2]': 'raise builtins.IndexError: too many indices for array: array is 2-dimensional, '
                           "but 3 were indexed || io=[('open', ('image-file',), {'mode': 'rb'}), 'enter', "
                           "('seek', (20,), {}), ('read', (100,), {}), 'exit']",
 'iu2 rpc=2 list[True, 1:3]': "ndarray[<u2(2,)][21, 22] || io=[('open', ('image-file',), {'mode': 'rb'}), "
                              "'enter', ('seek', (20,), {}), ('read', (100,), {}), 'exit']",
 'iu2 rpc=2 [np.int64(1), all]': "raise builtins.TypeError: 'numpy.int64' object is not iterable || io=[]",
 'iu2 rpc=2 [np.int64(1), 3]': "raise builtins.TypeError: 'numpy.int64' object is not iterable || io=[]",
 'iu2 rpc=2 [np.int64(1), -1]': "raise builtins.TypeError: 'numpy.int64' object is not iterable || io=[]",
 'iu2 rpc=2 [np.int64(1), 2:]': "raise builtins.TypeError: 'numpy.int64' object is not iterable || io=[]",
 'iu2 rpc=2 [np.int64(1), :-2]': "raise builtins.TypeError: 'numpy.int64' object is not iterable || io=[]",
 'iu2 rpc=2 [np.int64(1), ::3]': "raise builtins.TypeError: 'numpy.int64' object is not iterable || io=[]",
 'iu2 rpc=2 [np.int64(1), ::-1]': "raise builtins.TypeError: 'numpy.int64' object is not iterable || io=[]",
 'iu2 rpc=2 [np.int64(1), 0:0]': "raise builtins.TypeError: 'numpy.int64' object is not iterable || io=[]",
 'iu2 rpc=2 [np.int64(1), [1,5]]': "raise builtins.TypeError: 'numpy.int64' object is not iterable || io=[]",
 'iu2 rpc=2 [np.int64(1), 25]': "raise builtins.TypeError: 'numpy.int64' object is not iterable || io=[]",
 'iu2 rpc=2 [np.int64(1), newaxis]': "raise builtins.TypeError: 'numpy.int64' object is not iterable || "
                                     'io=[]',
 'iu2 rpc=2 [np.int64(1), ellipsis]': "raise builtins.TypeError: 'numpy.int64' object is not iterable || "
                                      'io=[]',
 'iu2 rpc=2 [np.int64(1),]': "raise builtins.TypeError: 'numpy.int64' object is not iterable || io=[]",
 'iu2 rpc=2 [np.int64(1), 1, 2]': "raise builtins.TypeError: 'numpy.int64' object is not iterable || io=[]",
 'iu2 rpc=2 list[np.int64(1), 1:3]': "raise builtins.TypeError: 'numpy.int64' object is not iterable || "
                                     'io=[]',
 'iu2 rpc=2 [all, all]': 'ndarray[<u2(5, 20)][[0, 1, 2, 3, 4, 5, 6, 7, 8, 9, 10, 11, 12, 13, 14, 15, 16, 17, '
                         '18, 19], [20, 21, 22, 23, 24, 25, 26, 27, 28, 29, 30, 31, 32, 33, 34, 35, 36, 37, '
                         '38, 39], [40, 41, 42, 43, 44, 45, 46, 47, 48, 49, 50, 51, 52, 53, 54, 55, 56, 57, '
                         '58, 59], [60, 61, 62, 63, 64, 65, 66, 67, 68, 69, 70, 71, 72, 73, 74, 75, 76, 77, '
                         '78, 79], [80, 81, 82, 83, 84, 85, 86, 87, 88, 89, 90, 91, 92, 93, 94, 95, 96, 97, '
                         "98, 99]] || io=[('open', ('image-file',), {'mode': 'rb'}), 'enter', ('seek', "
                         "(20,), {}), ('read', (100,), {}), ('seek', (140,), {}), ('read', (100,), {}), "
                         "('seek', (260,), {}), ('read', (40,), {}), 'exit']",
 'iu2 rpc=2 [all, 3]': "ndarray[<u2(5,)][3, 23, 43, 63, 83] || io=[('open', ('image-file',), {'mode': "
                       "'rb'}), 'enter', ('seek', (20,), {}), ('read', (100,), {}), ('seek', (140,), {}), "
                       "('read', (100,), {}), ('seek', (260,), {}), ('read', (40,), {}), 'exit']",
 'iu2 rpc=2 [all, -1]': "ndarray[<u2(5,)][19, 39, 59, 79, 99] || io=[('open', ('image-file',), {'mode': "
                        "'rb'}), 'enter', ('seek', (20,), {}), ('read', (100,), {}), ('seek', (140,), {}), "
                        "('read', (100,), {}), ('seek', (260,), {}), ('read', (40,), {}), 'exit']",
 'iu2 rpc=2 [all, 2:]': 'ndarray[<u2(5, 18)][[2, 3, 4, 5, 6, 7, 8, 9, 10, 11, 12, 13, 14, 15, 16, 17, 18, '
                        '19], [22, 23, 24, 25, 26, 27, 28, 29, 30, 31, 32, 33, 34, 35, 36, 37, 38, 39], [42, '
                        '43, 44, 45, 46, 47, 48, 49, 50, 51, 52, 53, 54, 55, 56, 57, 58, 59], [62, 63, 64, '
                        '65, 66, 67, 68, 69, 70, 71, 72, 73, 74, 75, 76, 77, 78, 79], [82, 83, 84, 85, 86, '
                        "87, 88, 89, 90, 91, 92, 93, 94, 95, 96, 97, 98, 99]] || io=[('open', "
                        "('image-file',), {'mode': 'rb'}), 'enter', ('seek', (20,), {}), ('read', (100,), "
                        "{}), ('seek', (140,), {}), ('read', (100,), {}), ('seek', (260,), {}), ('read', "
                        "(40,), {}), 'exit']",
 'iu2 rpc=2 [all, :-2]': 'ndarray[<u2(5, 18)][[0, 1, 2, 3, 4, 5, 6, 7, 8, 9, 10, 11, 12, 13, 14, 15, 16, '
                         '17], [20, 21, 22, 23, 24, 25, 26, 27, 28, 29, 30, 31, 32, 33, 34, 35, 36, 37], '
                         '[40, 41, 42, 43, 44, 45, 46, 47, 48, 49, 50, 51, 52, 53, 54, 55, 56, 57], [60, 61, '
                         '62, 63, 64, 65, 66, 67, 68, 69, 70, 71, 72, 73, 74, 75, 76, 77], [80, 81, 82, 83, '
                         "84, 85, 86, 87, 88, 89, 90, 91, 92, 93, 94, 95, 96, 97]] || io=[('open', "
                         "('image-file',), {'mode': 'rb'}), 'enter', ('seek', (20,), {}), ('read', (100,), "
                         "{}), ('seek', (140,), {}), ('read', (100,), {}), ('seek', (260,), {}), ('read', "
                         "(40,), {}), 'exit']",
 'iu2 rpc=2 [all, ::3]': 'ndarray[<u2(5, 7)][[0, 3, 6, 9, 12, 15, 18], [20, 23, 26, 29, 32, 35, 38], [40, '
                         '43, 46, 49, 52, 55, 58], [60, 63, 66, 69, 72, 75, 78], [80, 83, 86, 89, 92, 95, '
                         "98]] || io=[('open', ('image-file',), {'mode': 'rb'}), 'enter', ('seek', (20,), "
                         "{}), ('read', (100,), {}), ('seek', (140,), {}), ('read', (100,), {}), ('seek', "
                         "(260,), {}), ('read', (40,), {}), 'exit']",
 'iu2 rpc=2 [all, ::-1]': 'ndarray[<u2(5, 20)][[19, 18, 17, 16, 15, 14, 13, 12, 11, 10, 9, 8, 7, 6, 5, 4, 3, '
                          '2, 1, 0], [39, 38, 37, 36, 35, 34, 33, 32, 31, 30, 29, 28, 27, 26, 25, 24, 23, '
                          '22, 21, 20], [59, 58, 57, 56, 55, 54, 53, 52, 51, 50, 49, 48, 47, 46, 45, 44, 43, '
                          '42, 41, 40], [79, 78, 77, 76, 75, 74, 73, 72, 71, 70, 69, 68, 67, 66, 65, 64, 63, '
                          '62, 61, 60], [99, 98, 97, 96, 95, 94, 93, 92, 91, 90, 89, 88, 87, 86, 85, 84, 83, '
                          "82, 81, 80]] || io=[('open', ('image-file',), {'mode': 'rb'}), 'enter', ('seek', "
                          "(20,), {}), ('read', (100,), {}), ('seek', (140,), {}), ('read', (100,), {}), "
                          "('seek', (260,), {}), ('read', (40,), {}), 'exit']",
 'iu2 rpc=2 [all, 0:0]': "ndarray[<u2(5, 0)][[], [], [], [], []] || io=[('open', ('image-file',), {'mode': "
                         "'rb'}), 'enter', ('seek', (20,), {}), ('read', (100,), {}), ('seek', (140,), {}), "
                         "('read', (100,), {}), ('seek', (260,), {}), ('read', (40,), {}), 'exit']",
 'iu2 rpc=2 [all, [1,5]]': 'ndarray[<u2(5, 2)][[1, 5], [21, 25], [41, 45], [61, 65], [81, 85]] || '
                           "io=[('open', ('image-file',), {'mode': 'rb'}), 'enter', ('seek', (20,), {}), "
                           "('read', (100,), {}), ('seek', (140,), {}), ('read', (100,), {}), ('seek', "
                           "(260,), {}), ('read', (40,), {}), 'exit']",
 'iu2 rpc=2 [all, 25]': 'raise builtins.IndexError: index 25 is out of bounds for axis 1 with size 20 || '
                        "io=[('open', ('image-file',), {'mode': 'rb'}), 'enter', ('seek', (20,), {}), "
                        "('read', (100,), {}), ('seek', (140,), {}), ('read', (100,), {}), ('seek', (260,), "
                        "{}), ('read', (40,), {}), 'exit']",
 'iu2 rpc=2 [all, newaxis]': 'ndarray[<u2(5, 1, 20)][[[0, 1, 2, 3, 4, 5, 6, 7, 8, 9, 10, 11, 12, 13, 14, 15, '
                             '16, 17, 18, 19]], [[20, 21, 22, 23, 24, 25, 26, 27, 28, 29, 30, 31, 32, 33, '
                             '34, 35, 36, 37, 38, 39]], [[40, 41, 42, 43, 44, 45, 46, 47, 48, 49, 50, 51, '
                             '52, 53, 54, 55, 56, 57, 58, 59]], [[60, 61, 62, 63, 64, 65, 66, 67, 68, 69, '
                             '70, 71, 72, 73, 74, 75, 76, 77, 78, 79]], [[80, 81, 82, 83, 84, 85, 86, 87, '
                             "88, 89, 90, 91, 92, 93, 94, 95, 96, 97, 98, 99]]] || io=[('open', "
                             "('image-file',), {'mode': 'rb'}), 'enter', ('seek', (20,), {}), ('read', "
                             "(100,), {}), ('seek', (140,), {}), ('read', (100,), {}), ('seek', (260,), {}), "
                             "('read', (40,), {}), 'exit']",
 'iu2 rpc=2 [all, ellipsis]': 'ndarray[<u2(5, 20)][[0, 1, 2, 3, 4, 5, 6, 7, 8, 9, 10, 11, 12, 13, 14, 15, '
                              '16, 17, 18, 19], [20, 21, 22, 23, 24, 25, 26, 27, 28, 29, 30, 31, 32, 33, 34, '
                              '35, 36, 37, 38, 39], [40, 41, 42, 43, 44, 45, 46, 47, 48, 49, 50, 51, 52, 53, '
                              '54, 55, 56, 57, 58, 59], [60, 61, 62, 63, 64, 65, 66, 67, 68, 69, 70, 71, 72, '
                              '73, 74, 75, 76, 77, 78, 79], [80, 81, 82, 83, 84, 85, 86, 87, 88, 89, 90, 91, '
                              "92, 93, 94, 95, 96, 97, 98, 99]] || io=[('open', ('image-file',), {'mode': "
                              "'rb'}), 'enter', ('seek', (20,), {}), ('read', (100,), {}), ('seek', (140,), "
                              "{}), ('read', (100,), {}), ('seek', (260,), {}), ('read', (40,), {}), 'exit']",
 'iu2 rpc=2 [all,]': 'ndarray[<u2(5, 20)][[0, 1, 2, 3, 4, 5, 6, 7, 8, 9, 10, 11, 12, 13, 14, 15, 16, 17, 18, '
                     '19], [20, 21, 22, 23, 24, 25, 26, 27, 28, 29, 30, 31, 32, 33, 34, 35, 36, 37, 38, 39], '
                     '[40, 41, 42, 43, 44, 45, 46, 47, 48, 49, 50, 51, 52, 53, 54, 55, 56, 57, 58, 59], [60, '
                     '61, 62, 63, 64, 65, 66, 67, 68, 69, 70, 71, 72, 73, 74, 75, 76, 77, 78, 79], [80, 81, '
                     '82, 83, 84, 85, 86, 87, 88, 89, 90, 91, 92, 93, 94, 95, 96, 97, 98, 99]] || '
                     "io=[('open', ('image-file',), {'mode': 'rb'}), 'enter', ('seek', (20,), {}), ('read', "
                     "(100,), {}), ('seek', (140,), {}), ('read', (100,), {}), ('seek', (260,), {}), "
                     "('read', (40,), {}), 'exit']",
 'iu2 rpc=2 [all, 1, 2]': 'raise builtins.IndexError: too many indices for array: array is 2-dimensional, '
                          "but 3 were indexed || io=[('open', ('image-file',), {'mode': 'rb'}), 'enter', "
                          "('seek', (20,), {}), ('read', (100,), {}), ('seek', (140,), {}), ('read', (100,), "
                          "{}), ('seek', (260,), {}), ('read', (40,), {}), 'exit']",
 'iu2 rpc=2 list[all, 1:3]': 'ndarray[<u2(5, 2)][[1, 2], [21, 22], [41, 42], [61, 62], [81, 82]] || '
                             "io=[('open', ('image-file',), {'mode': 'rb'}), 'enter', ('seek', (20,), {}), "
                             "('read', (100,), {}), ('seek', (140,), {}), ('read', (100,), {}), ('seek', "
                             "(260,), {}), ('read', (40,), {}), 'exit']",
 'iu2 rpc=2 [2:, all]': 'ndarray[<u2(3, 20)][[40, 41, 42, 43, 44, 45, 46, 47, 48, 49, 50, 51, 52, 53, 54, '
                        '55, 56, 57, 58, 59], [60, 61, 62, 63, 64, 65, 66, 67, 68, 69, 70, 71, 72, 73, 74, '
                        '75, 76, 77, 78, 79], [80, 81, 82, 83, 84, 85, 86, 87, 88, 89, 90, 91, 92, 93, 94, '
                        "95, 96, 97, 98, 99]] || io=[('open', ('image-file',), {'mode': 'rb'}), 'enter', "
                        "('seek', (140,), {}), ('read', (100,), {}), ('seek', (260,), {}), ('read', (40,), "
                        "{}), 'exit']",
 'iu2 rpc=2 [2:, 3]': "ndarray[<u2(3,)][43, 63, 83] || io=[('open', ('image-file',), {'mode': 'rb'}), "
                      "'enter', ('seek', (140,), {}), ('read', (100,), {}), ('seek', (260,), {}), ('read', "
                      "(40,), {}), 'exit']",
 'iu2 rpc=2 [2:, -1]': "ndarray[<u2(3,)][59, 79, 99] || io=[('open', ('image-file',), {'mode': 'rb'}), "
                       "'enter', ('seek', (140,), {}), ('read', (100,), {}), ('seek', (260,), {}), ('read', "
                       "(40,), {}), 'exit']",
 'iu2 rpc=2 [2:, 2:]': 'ndarray[<u2(3, 18)][[42, 43, 44, 45, 46, 47, 48, 49, 50, 51, 52, 53, 54, 55, 56, 57, '
                       '58, 59], [62, 63, 64, 65, 66, 67, 68, 69, 70, 71, 72, 73, 74, 75, 76, 77, 78, 79], '
                       '[82, 83, 84, 85, 86, 87, 88, 89, 90, 91, 92, 93, 94, 95, 96, 97, 98, 99]] || '
                       "io=[('open', ('image-file',), {'mode': 'rb'}), 'enter', ('seek', (140,), {}), "
                       "('read', (100,), {}), ('seek', (260,), {}), ('read', (40,), {}), 'exit']",
 'iu2 rpc=2 [2:, :-2]': 'ndarray[<u2(3, 18)][[40, 41, 42, 43, 44, 45, 46, 47, 48, 49, 50, 51, 52, 53, 54, '
                        '55, 56, 57], [60, 61, 62, 63, 64, 65, 66, 67, 68, 69, 70, 71, 72, 73, 74, 75, 76, '
                        '77], [80, 81, 82, 83, 84, 85, 86, 87, 88, 89, 90, 91, 92, 93, 94, 95, 96, 97]] || '
                        "io=[('open', ('image-file',), {'mode': 'rb'}), 'enter', ('seek', (140,), {}), "
                        "('read', (100,), {}), ('seek', (260,), {}), ('read', (40,), {}), 'exit']",
 'iu2 rpc=2 [2:, ::3]': 'ndarray[<u2(3, 7)][[40, 43, 46, 49, 52, 55, 58], [60, 63, 66, 69, 72, 75, 78], [80, '
                        "83, 86, 89, 92, 95, 98]] || io=[('open', ('image-file',), {'mode': 'rb'}), 'enter', "
                        "('seek', (140,), {}), ('read', (100,), {}), ('seek', (260,), {}), ('read', (40,), "
                        "{}), 'exit']",
 'iu2 rpc=2 [2:, ::-1]': 'ndarray[<u2(3, 20)][[59, 58, 57, 56, 55, 54, 53, 52, 51, 50, 49, 48, 47, 46, 45, '
                         '44, 43, 42, 41, 40], [79, 78, 77, 76, 75, 74, 73, 72, 71, 70, 69, 68, 67, 66, 65, '
                         '64, 63, 62, 61, 60], [99, 98, 97, 96, 95, 94, 93, 92, 91, 90, 89, 88, 87, 86, 85, '
                         "84, 83, 82, 81, 80]] || io=[('open', ('image-file',), {'mode': 'rb'}), 'enter', "
                         "('seek', (140,), {}), ('read', (100,), {}), ('seek', (260,), {}), ('read', (40,), "
                         "{}), 'exit']",
 'iu2 rpc=2 [2:, 0:0]': "ndarray[<u2(3, 0)][[], [], []] || io=[('open', ('image-file',), {'mode': 'rb'}), "
                        "'enter', ('seek', (140,), {}), ('read', (100,), {}), ('seek', (260,), {}), ('read', "
                        "(40,), {}), 'exit']",
 'iu2 rpc=2 [2:, [1,5]]': "ndarray[<u2(3, 2)][[41, 45], [61, 65], [81, 85]] || io=[('open', ('image-file',), "
                          "{'mode': 'rb'}), 'enter', ('seek', (140,), {}), ('read', (100,), {}), ('seek', "
                          "(260,), {}), ('read', (40,), {}), 'exit']",
 'iu2 rpc=2 [2:, 25]': 'raise builtins.IndexError: index 25 is out of bounds for axis 1 with size 20 || '
                       "io=[('open', ('image-file',), {'mode': 'rb'}), 'enter', ('seek', (140,), {}), "
                       "('read', (100,), {}), ('seek', (260,), {}), ('read', (40,), {}), 'exit']",
 'iu2 rpc=2 [2:, newaxis]': 'ndarray[<u2(3, 1, 20)][[[40, 41, 42, 43, 44, 45, 46, 47, 48, 49, 50, 51, 52, '
                            '53, 54, 55, 56, 57, 58, 59]], [[60, 61, 62, 63, 64, 65, 66, 67, 68, 69, 70, 71, '
                            '72, 73, 74, 75, 76, 77, 78, 79]], [[80, 81, 82, 83, 84, 85, 86, 87, 88, 89, 90, '
                            "91, 92, 93, 94, 95, 96, 97, 98, 99]]] || io=[('open', ('image-file',), {'mode': "
                            "'rb'}), 'enter', ('seek', (140,), {}), ('read', (100,), {}), ('seek', (260,), "
                            "{}), ('read', (40,), {}), 'exit']",
 'iu2 rpc=2 [2:, ellipsis]': 'ndarray[<u2(3, 20)][[40, 41, 42, 43, 44, 45, 46, 47, 48, 49, 50, 51, 52, 53, '
                             '54, 55, 56, 57, 58, 59], [60, 61, 62, 63, 64, 65, 66, 67, 68, 69, 70, 71, 72, '
                             '73, 74, 75, 76, 77, 78, 79], [80, 81, 82, 83, 84, 85, 86, 87, 88, 89, 90, 91, '
                             "92, 93, 94, 95, 96, 97, 98, 99]] || io=[('open', ('image-file',), {'mode': "
                             "'rb'}), 'enter', ('seek', (140,), {}), ('read', (100,), {}), ('seek', (260,), "
                             "{}), ('read', (40,), {}), 'exit']",
 'iu2 rpc=2 [2:,]': 'ndarray[<u2(3, 20)][[40, 41, 42, 43, 44, 45, 46, 47, 48, 49, 50, 51, 52, 53, 54, 55, '
                    '56, 57, 58, 59], [60, 61, 62, 63, 64, 65, 66, 67, 68, 69, 70, 71, 72, 73, 74, 75, 76, '
                    '77, 78, 79], [80, 81, 82, 83, 84, 85, 86, 87, 88, 89, 90, 91, 92, 93, 94, 95, 96, 97, '
                    "98, 99]] || io=[('open', ('image-file',), {'mode': 'rb'}), 'enter', ('seek', (140,), "
                    "{}), ('read', (100,), {}), ('seek', (260,), {}), ('read', (40,), {}), 'exit']",
 'iu2 rpc=2 [2:, 1, 2]': 'raise builtins.IndexError: too many indices for array: array is 2-dimensional, but '
                         "3 were indexed || io=[('open', ('image-file',), {'mode': 'rb'}), 'enter', ('seek', "
                         "(140,), {}), ('read', (100,), {}), ('seek', (260,), {}), ('read', (40,), {}), "
                         "'exit']",
 'iu2 rpc=2 list[2:, 1:3]': "ndarray[<u2(3, 2)][[41, 42], [61, 62], [81, 82]] || io=[('open', "
                            "('image-file',), {'mode': 'rb'}), 'enter', ('seek', (140,), {}), ('read', "
                            "(100,), {}), ('seek', (260,), {}), ('read', (40,), {}), 'exit']",
 'iu2 rpc=2 [:2, all]': 'ndarray[<u2(2, 20)][[0, 1, 2, 3, 4, 5, 6, 7, 8, 9, 10, 11, 12, 13, 14, 15, 16, 17, '
                        '18, 19], [20, 21, 22, 23, 24, 25, 26, 27, 28, 29, 30, 31, 32, 33, 34, 35, 36, 37, '
                        "38, 39]] || io=[('open', ('image-file',), {'mode': 'rb'}), 'enter', ('seek', (20,), "
                        "{}), ('read', (100,), {}), 'exit']",
 'iu2 rpc=2 [:2, 3]': "ndarray[<u2(2,)][3, 23] || io=[('open', ('image-file',), {'mode': 'rb'}), 'enter', "
                      "('seek', (20,), {}), ('read', (100,), {}), 'exit']",
 'iu2 rpc=2 [:2, -1]': "ndarray[<u2(2,)][19, 39] || io=[('open', ('image-file',), {'mode': 'rb'}), 'enter', "
                       "('seek', (20,), {}), ('read', (100,), {}), 'exit']",
 'iu2 rpc=2 [:2, 2:]': 'ndarray[<u2(2, 18)][[2, 3, 4, 5, 6, 7, 8, 9, 10, 11, 12, 13, 14, 15, 16, 17, 18, '
                       '19], [22, 23, 24, 25, 26, 27, 28, 29, 30, 31, 32, 33, 34, 35, 36, 37, 38, 39]] || '
                       "io=[('open', ('image-file',), {'mode': 'rb'}), 'enter', ('seek', (20,), {}), "
                       "('read', (100,), {}), 'exit']",
 'iu2 rpc=2 [:2, :-2]': 'ndarray[<u2(2, 18)][[0, 1, 2, 3, 4, 5, 6, 7, 8, 9, 10, 11, 12, 13, 14, 15, 16, 17], '
                        '[20, 21, 22, 23, 24, 25, 26, 27, 28, 29, 30, 31, 32, 33, 34, 35, 36, 37]] || '
                        "io=[('open', ('image-file',), {'mode': 'rb'}), 'enter', ('seek', (20,), {}), "
                        "('read', (100,), {}), 'exit']",
 'iu2 rpc=2 [:2, ::3]': 'ndarray[<u2(2, 7)][[0, 3, 6, 9, 12, 15, 18], [20, 23, 26, 29, 32, 35, 38]] || '
                        "io=[('open', ('image-file',), {'mode': 'rb'}), 'enter', ('seek', (20,), {}), "
                        "('read', (100,), {}), 'exit']",
 'iu2 rpc=2 [:2, ::-1]': 'ndarray[<u2(2, 20)][[19, 18, 17, 16, 15, 14, 13, 12, 11, 10, 9, 8, 7, 6, 5, 4, 3, '
                         '2, 1, 0], [39, 38, 37, 36, 35, 34, 33, 32, 31, 30, 29, 28, 27, 26, 25, 24, 23, 22, '
                         "21, 20]] || io=[('open', ('image-file',), {'mode': 'rb'}), 'enter', ('seek', "
                         "(20,), {}), ('read', (100,), {}), 'exit']",
 'iu2 rpc=2 [:2, 0:0]': "ndarray[<u2(2, 0)][[], []] || io=[('open', ('image-file',), {'mode': 'rb'}), "
                        "'enter', ('seek', (20,), {}), ('read', (100,), {}), 'exit']",
 'iu2 rpc=2 [:2, [1,5]]': "ndarray[<u2(2, 2)][[1, 5], [21, 25]] || io=[('open', ('image-file',), {'mode': "
                          "'rb'}), 'enter', ('seek', (20,), {}), ('read', (100,), {}), 'exit']",
 'iu2 rpc=2 [:2, 25]': 'raise builtins.IndexError: index 25 is out of bounds for axis 1 with size 20 || '
                       "io=[('open', ('image-file',), {'mode': 'rb'}), 'enter', ('seek', (20,), {}), "
                       "('read', (100,), {}), 'exit']",
 'iu2 rpc=2 [:2, newaxis]': 'ndarray[<u2(2, 1, 20)][[[0, 1, 2, 3, 4, 5, 6, 7, 8, 9, 10, 11, 12, 13, 14, 15, '
                            '16, 17, 18, 19]], [[20, 21, 22, 23, 24, 25, 26, 27, 28, 29, 30, 31, 32, 33, 34, '
                            "35, 36, 37, 38, 39]]] || io=[('open', ('image-file',), {'mode': 'rb'}), "
                            "'enter', ('seek', (20,), {}), ('read', (100,), {}), 'exit']",
 'iu2 rpc=2 [:2, ellipsis]': 'ndarray[<u2(2, 20)][[0, 1, 2, 3, 4, 5, 6, 7, 8, 9, 10, 11, 12, 13, 14, 15, 16, '
                             '17, 18, 19], [20, 21, 22, 23, 24, 25, 26, 27, 28, 29, 30, 31, 32, 33, 34, 35, '
                             "36, 37, 38, 39]] || io=[('open', ('image-file',), {'mode': 'rb'}), 'enter', "
                             "('seek', (20,), {}), ('read', (100,), {}), 'exit']",
 'iu2 rpc=2 [:2,]': 'ndarray[<u2(2, 20)][[0, 1, 2, 3, 4, 5, 6, 7, 8, 9, 10, 11, 12, 13, 14, 15, 16, 17, 18, '
                    '19], [20, 21, 22, 23, 24, 25, 26, 27, 28, 29, 30, 31, 32, 33, 34, 35, 36, 37, 38, 39]] '
                    "|| io=[('open', ('image-file',), {'mode': 'rb'}), 'enter', ('seek', (20,), {}), "
                    "('read', (100,), {}), 'exit']",
 'iu2 rpc=2 [:2, 1, 2]': 'raise builtins.IndexError: too many indices for array: array is 2-dimensional, but '
                         "3 were indexed || io=[('open', ('image-file',), {'mode': 'rb'}), 'enter', ('seek', "
                         "(20,), {}), ('read', (100,), {}), 'exit']",
 'iu2 rpc=2 list[:2, 1:3]': "ndarray[<u2(2, 2)][[1, 2], [21, 22]] || io=[('open', ('image-file',), {'mode': "
                            "'rb'}), 'enter', ('seek', (20,), {}), ('read', (100,), {}), 'exit']",
 'iu2 rpc=2 [-2:, all]': 'ndarray[<u2(2, 20)][[60, 61, 62, 63, 64, 65, 66, 67, 68, 69, 70, 71, 72, 73, 74, '
                         '75, 76, 77, 78, 79], [80, 81, 82, 83, 84, 85, 86, 87, 88, 89, 90, 91, 92, 93, 94, '
                         "95, 96, 97, 98, 99]] || io=[('open', ('image-file',), {'mode': 'rb'}), 'enter', "
                         "('seek', (140,), {}), ('read', (100,), {}), ('seek', (260,), {}), ('read', (40,), "
                         "{}), 'exit']",
 'iu2 rpc=2 [-2:, 3]': "ndarray[<u2(2,)][63, 83] || io=[('open', ('image-file',), {'mode': 'rb'}), 'enter', "
                       "('seek', (140,), {}), ('read', (100,), {}), ('seek', (260,), {}), ('read', (40,), "
                       "{}), 'exit']",
 'iu2 rpc=2 [-2:, -1]': "ndarray[<u2(2,)][79, 99] || io=[('open', ('image-file',), {'mode': 'rb'}), 'enter', "
                        "('seek', (140,), {}), ('read', (100,), {}), ('seek', (260,), {}), ('read', (40,), "
                        "{}), 'exit']",
 'iu2 rpc=2 [-2:, 2:]': 'ndarray[<u2(2, 18)][[62, 63, 64, 65, 66, 67, 68, 69, 70, 71, 72, 73, 74, 75, 76, '
                        '77, 78, 79], [82, 83, 84, 85, 86, 87, 88, 89, 90, 91, 92, 93, 94, 95, 96, 97, 98, '
                        "99]] || io=[('open', ('image-file',), {'mode': 'rb'}), 'enter', ('seek', (140,), "
                        "{}), ('read', (100,), {}), ('seek', (260,), {}), ('read', (40,), {}), 'exit']",
 'iu2 rpc=2 [-2:, :-2]': 'ndarray[<u2(2, 18)][[60, 61, 62, 63, 64, 65, 66, 67, 68, 69, 70, 71, 72, 73, 74, '
                         '75, 76, 77], [80, 81, 82, 83, 84, 85, 86, 87, 88, 89, 90, 91, 92, 93, 94, 95, 96, '
                         "97]] || io=[('open', ('image-file',), {'mode': 'rb'}), 'enter', ('seek', (140,), "
                         "{}), ('read', (100,), {}), ('seek', (260,), {}), ('read', (40,), {}), 'exit']",
 'iu2 rpc=2 [-2:, ::3]': 'ndarray[<u2(2, 7)][[60, 63, 66, 69, 72, 75, 78], [80, 83, 86, 89, 92, 95, 98]] || '
                         "io=[('open', ('image-file',), {'mode': 'rb'}), 'enter', ('seek', (140,), {}), "
                         "('read', (100,), {}), ('seek', (260,), {}), ('read', (40,), {}), 'exit']",
 'iu2 rpc=2 [-2:, ::-1]': 'ndarray[<u2(2, 20)][[79, 78, 77, 76, 75, 74, 73, 72, 71, 70, 69, 68, 67, 66, 65, '
                          '64, 63, 62, 61, 60], [99, 98, 97, 96, 95, 94, 93, 92, 91, 90, 89, 88, 87, 86, 85, '
                          "84, 83, 82, 81, 80]] || io=[('open', ('image-file',), {'mode': 'rb'}), 'enter', "
                          "('seek', (140,), {}), ('read', (100,), {}), ('seek', (260,), {}), ('read', (40,), "
                          "{}), 'exit']",
 'iu2 rpc=2 [-2:, 0:0]': "ndarray[<u2(2, 0)][[], []] || io=[('open', ('image-file',), {'mode': 'rb'}), "
                         "'enter', ('seek', (140,), {}), ('read', (100,), {}), ('seek', (260,), {}), "
                         "('read', (40,), {}), 'exit']",
 'iu2 rpc=2 [-2:, [1,5]]': "ndarray[<u2(2, 2)][[61, 65], [81, 85]] || io=[('open', ('image-file',), {'mode': "
                           "'rb'}), 'enter', ('seek', (140,), {}), ('read', (100,), {}), ('seek', (260,), "
                           "{}), ('read', (40,), {}), 'exit']",
 'iu2 rpc=2 [-2:, 25]': 'raise builtins.IndexError: index 25 is out of bounds for axis 1 with size 20 || '
                        "io=[('open', ('image-file',), {'mode': 'rb'}), 'enter', ('seek', (140,), {}), "
                        "('read', (100,), {}), ('seek', (260,), {}), ('read', (40,), {}), 'exit']",
 'iu2 rpc=2 [-2:, newaxis]': 'ndarray[<u2(2, 1, 20)][[[60, 61, 62, 63, 64, 65, 66, 67, 68, 69, 70, 71, 72, '
                             '73, 74, 75, 76, 77, 78, 79]], [[80, 81, 82, 83, 84, 85, 86, 87, 88, 89, 90, '
                             "91, 92, 93, 94, 95, 96, 97, 98, 99]]] || io=[('open', ('image-file',), "
                             "{'mode': 'rb'}), 'enter', ('seek', (140,), {}), ('read', (100,), {}), ('seek', "
                             "(260,), {}), ('read', (40,), {}), 'exit']",
 'iu2 rpc=2 [-2:, ellipsis]': 'ndarray[<u2(2, 20)][[60, 61, 62, 63, 64, 65, 66, 67, 68, 69, 70, 71, 72, 73, '
                              '74, 75, 76, 77, 78, 79], [80, 81, 82, 83, 84, 85, 86, 87, 88, 89, 90, 91, 92, '
                              "93, 94, 95, 96, 97, 98, 99]] || io=[('open', ('image-file',), {'mode': "
                              "'rb'}), 'enter', ('seek', (140,), {}), ('read', (100,), {}), ('seek', (260,), "
                              "{}), ('read', (40,), {}), 'exit']",
 'iu2 rpc=2 [-2:,]': 'ndarray[<u2(2, 20)][[60, 61, 62, 63, 64, 65, 66, 67, 68, 69, 70, 71, 72, 73, 74, 75, '
                     '76, 77, 78, 79], [80, 81, 82, 83, 84, 85, 86, 87, 88, 89, 90, 91, 92, 93, 94, 95, 96, '
                     "97, 98, 99]] || io=[('open', ('image-file',), {'mode': 'rb'}), 'enter', ('seek', "
                     "(140,), {}), ('read', (100,), {}), ('seek', (260,), {}), ('read', (40,), {}), 'exit']",
 'iu2 rpc=2 [-2:, 1, 2]': 'raise builtins.IndexError: too many indices for array: array is 2-dimensional, '
                          "but 3 were indexed || io=[('open', ('image-file',), {'mode': 'rb'}), 'enter', "
                          "('seek', (140,), {}), ('read', (100,), {}), ('seek', (260,), {}), ('read', (40,), "
                          "{}), 'exit']",
 'iu2 rpc=2 list[-2:, 1:3]': "ndarray[<u2(2, 2)][[61, 62], [81, 82]] || io=[('open', ('image-file',), "
                             "{'mode': 'rb'}), 'enter', ('seek', (140,), {}), ('read', (100,), {}), ('seek', "
                             "(260,), {}), ('read', (40,), {}), 'exit']",
 'iu2 rpc=2 [::2, all]': 'ndarray[<u2(3, 20)][[0, 1, 2, 3, 4, 5, 6, 7, 8, 9, 10, 11, 12, 13, 14, 15, 16, 17, '
                         '18, 19], [40, 41, 42, 43, 44, 45, 46, 47, 48, 49, 50, 51, 52, 53, 54, 55, 56, 57, '
                         '58, 59], [80, 81, 82, 83, 84, 85, 86, 87, 88, 89, 90, 91, 92, 93, 94, 95, 96, 97, '
                         "98, 99]] || io=[('open', ('image-file',), {'mode': 'rb'}), 'enter', ('seek', "
                         "(20,), {}), ('read', (100,), {}), ('seek', (140,), {}), ('read', (100,), {}), "
                         "('seek', (260,), {}), ('read', (40,), {}), 'exit']",
 'iu2 rpc=2 [::2, 3]': "ndarray[<u2(3,)][3, 43, 83] || io=[('open', ('image-file',), {'mode': 'rb'}), "
                       "'enter', ('seek', (20,), {}), ('read', (100,), {}), ('seek', (140,), {}), ('read', "
                       "(100,), {}), ('seek', (260,), {}), ('read', (40,), {}), 'exit']",
 'iu2 rpc=2 [::2, -1]': "ndarray[<u2(3,)][19, 59, 99] || io=[('open', ('image-file',), {'mode': 'rb'}), "
                        "'enter', ('seek', (20,), {}), ('read', (100,), {}), ('seek', (140,), {}), ('read', "
                        "(100,), {}), ('seek', (260,), {}), ('read', (40,), {}), 'exit']",
 'iu2 rpc=2 [::2, 2:]': 'ndarray[<u2(3, 18)][[2, 3, 4, 5, 6, 7, 8, 9, 10, 11, 12, 13, 14, 15, 16, 17, 18, '
                        '19], [42, 43, 44, 45, 46, 47, 48, 49, 50, 51, 52, 53, 54, 55, 56, 57, 58, 59], [82, '
                        '83, 84, 85, 86, 87, 88, 89, 90, 91, 92, 93, 94, 95, 96, 97, 98, 99]] || '
                        "io=[('open', ('image-file',), {'mode': 'rb'}), 'enter', ('seek', (20,), {}), "
                        "('read', (100,), {}), ('seek', (140,), {}), ('read', (100,), {}), ('seek', (260,), "
                        "{}), ('read', (40,), {}), 'exit']",
 'iu2 rpc=2 [::2, :-2]': 'ndarray[<u2(3, 18)][[0, 1, 2, 3, 4, 5, 6, 7, 8, 9, 10, 11, 12, 13, 14, 15, 16, '
                         '17], [40, 41, 42, 43, 44, 45, 46, 47, 48, 49, 50, 51, 52, 53, 54, 55, 56, 57], '
                         '[80, 81, 82, 83, 84, 85, 86, 87, 88, 89, 90, 91, 92, 93, 94, 95, 96, 97]] || '
                         "io=[('open', ('image-file',), {'mode': 'rb'}), 'enter', ('seek', (20,), {}), "
                         "('read', (100,), {}), ('seek', (140,), {}), ('read', (100,), {}), ('seek', (260,), "
                         "{}), ('read', (40,), {}), 'exit']",
 'iu2 rpc=2 [::2, ::3]': 'ndarray[<u2(3, 7)][[0, 3, 6, 9, 12, 15, 18], [40, 43, 46, 49, 52, 55, 58], [80, '
                         "83, 86, 89, 92, 95, 98]] || io=[('open', ('image-file',), {'mode': 'rb'}), "
                         "'enter', ('seek', (20,), {}), ('read', (100,), {}), ('seek', (140,), {}), ('read', "
                         "(100,), {}), ('seek', (260,), {}), ('read', (40,), {}), 'exit']",
 'iu2 rpc=2 [::2, ::-1]': 'ndarray[<u2(3, 20)][[19, 18, 17, 16, 15, 14, 13, 12, 11, 10, 9, 8, 7, 6, 5, 4, 3, '
                          '2, 1, 0], [59, 58, 57, 56, 55, 54, 53, 52, 51, 50, 49, 48, 47, 46, 45, 44, 43, '
                          '42, 41, 40], [99, 98, 97, 96, 95, 94, 93, 92, 91, 90, 89, 88, 87, 86, 85, 84, 83, '
                          "82, 81, 80]] || io=[('open', ('image-file',), {'mode': 'rb'}), 'enter', ('seek', "
                          "(20,), {}), ('read', (100,), {}), ('seek', (140,), {}), ('read', (100,), {}), "
                          "('seek', (260,), {}), ('read', (40,), {}), 'exit']",
 'iu2 rpc=2 [::2, 0:0]': "ndarray[<u2(3, 0)][[], [], []] || io=[('open', ('image-file',), {'mode': 'rb'}), "
                         "'enter', ('seek', (20,), {}), ('read', (100,), {}), ('seek', (140,), {}), ('read', "
                         "(100,), {}), ('seek', (260,), {}), ('read', (40,), {}), 'exit']",
 'iu2 rpc=2 [::2, [1,5]]': "ndarray[<u2(3, 2)][[1, 5], [41, 45], [81, 85]] || io=[('open', ('image-file',), "
                           "{'mode': 'rb'}), 'enter', ('seek', (20,), {}), ('read', (100,), {}), ('seek', "
                           "(140,), {}), ('read', (100,), {}), ('seek', (260,), {}), ('read', (40,), {}), "
                           "'exit']",
 'iu2 rpc=2 [::2, 25]': 'raise builtins.IndexError: index 25 is out of bounds for axis 1 with size 20 || '
                        "io=[('open', ('image-file',), {'mode': 'rb'}), 'enter', ('seek', (20,), {}), "
                        "('read', (100,), {}), ('seek', (140,), {}), ('read', (100,), {}), ('seek', (260,), "
                        "{}), ('read', (40,), {}), 'exit']",
 'iu2 rpc=2 [::2, newaxis]': 'ndarray[<u2(3, 1, 20)][[[0, 1, 2, 3, 4, 5, 6, 7, 8, 9, 10, 11, 12, 13, 14, 15, '
                             '16, 17, 18, 19]], [[40, 41, 42, 43, 44, 45, 46, 47, 48, 49, 50, 51, 52, 53, '
                             '54, 55, 56, 57, 58, 59]], [[80, 81, 82, 83, 84, 85, 86, 87, 88, 89, 90, 91, '
                             "92, 93, 94, 95, 96, 97, 98, 99]]] || io=[('open', ('image-file',), {'mode': "
                             "'rb'}), 'enter', ('seek', (20,), {}), ('read', (100,), {}), ('seek', (140,), "
                             "{}), ('read', (100,), {}), ('seek', (260,), {}), ('read', (40,), {}), 'exit']",
 'iu2 rpc=2 [::2, ellipsis]': 'ndarray[<u2(3, 20)][[0, 1, 2, 3, 4, 5, 6, 7, 8, 9, 10, 11, 12, 13, 14, 15, '
                              '16, 17, 18, 19], [40, 41, 42, 43, 44, 45, 46, 47, 48, 49, 50, 51, 52, 53, 54, '
                              '55, 56, 57, 58, 59], [80, 81, 82, 83, 84, 85, 86, 87, 88, 89, 90, 91, 92, 93, '
                              "94, 95, 96, 97, 98, 99]] || io=[('open', ('image-file',), {'mode': 'rb'}), "
                              "'enter', ('seek', (20,), {}), ('read', (100,), {}), ('seek', (140,), {}), "
                              "('read', (100,), {}), ('seek', (260,), {}), ('read', (40,), {}), 'exit']",
 'iu2 rpc=2 [::2,]': 'ndarray[<u2(3, 20)][[0, 1, 2, 3, 4, 5, 6, 7, 8, 9, 10, 11, 12, 13, 14, 15, 16, 17, 18, '
                     '19], [40, 41, 42, 43, 44, 45, 46, 47, 48, 49, 50, 51, 52, 53, 54, 55, 56, 57, 58, 59], '
                     '[80, 81, 82, 83, 84, 85, 86, 87, 88, 89, 90, 91, 92, 93, 94, 95, 96, 97, 98, 99]] || '
                     "io=[('open', ('image-file',), {'mode': 'rb'}), 'enter', ('seek', (20,), {}), ('read', "
                     "(100,), {}), ('seek', (140,), {}), ('read', (100,), {}), ('seek', (260,), {}), "
                     "('read', (40,), {}), 'exit']",
 'iu2 rpc=2 [::2, 1, 2]': 'raise builtins.IndexError: too many indices for array: array is 2-dimensional, '
                          "but 3 were indexed || io=[('open', ('image-file',), {'mode': 'rb'}), 'enter', "
                          "('seek', (20,), {}), ('read', (100,), {}), ('seek', (140,), {}), ('read', (100,), "
                          "{}), ('seek', (260,), {}), ('read', (40,), {}), 'exit']",
 'iu2 rpc=2 list[::2, 1:3]': "ndarray[<u2(3, 2)][[1, 2], [41, 42], [81, 82]] || io=[('open', "
                             "('image-file',), {'mode': 'rb'}), 'enter', ('seek', (20,), {}), ('read', "
                             "(100,), {}), ('seek', (140,), {}), ('read', (100,), {}), ('seek', (260,), {}), "
                             "('read', (40,), {}), 'exit']",
 'iu2 rpc=2 [1:4:2, all]': 'ndarray[<u2(2, 20)][[20, 21, 22, 23, 24, 25, 26, 27, 28, 29, 30, 31, 32, 33, 34, '
                           '35, 36, 37, 38, 39], [60, 61, 62, 63, 64, 65, 66, 67, 68, 69, 70, 71, 72, 73, '
                           "74, 75, 76, 77, 78, 79]] || io=[('open', ('image-file',), {'mode': 'rb'}), "
                           "'enter', ('seek', (20,), {}), ('read', (100,), {}), ('seek', (140,), {}), "
                           "('read', (100,), {}), 'exit']",
 'iu2 rpc=2 [1:4:2, 3]': "ndarray[<u2(2,)][23, 63] || io=[('open', ('image-file',), {'mode': 'rb'}), "
                         "'enter', ('seek', (20,), {}), ('read', (100,), {}), ('seek', (140,), {}), ('read', "
                         "(100,), {}), 'exit']",
 'iu2 rpc=2 [1:4:2, -1]': "ndarray[<u2(2,)][39, 79] || io=[('open', ('image-file',), {'mode': 'rb'}), "
                          "'enter', ('seek', (20,), {}), ('read', (100,), {}), ('seek', (140,), {}), "
                          "('read', (100,), {}), 'exit']",
 'iu2 rpc=2 [1:4:2, 2:]': 'ndarray[<u2(2, 18)][[22, 23, 24, 25, 26, 27, 28, 29, 30, 31, 32, 33, 34, 35, 36, '
                          '37, 38, 39], [62, 63, 64, 65, 66, 67, 68, 69, 70, 71, 72, 73, 74, 75, 76, 77, 78, '
                          "79]] || io=[('open', ('image-file',), {'mode': 'rb'}), 'enter', ('seek', (20,), "
                          "{}), ('read', (100,), {}), ('seek', (140,), {}), ('read', (100,), {}), 'exit']",
 'iu2 rpc=2 [1:4:2, :-2]': 'ndarray[<u2(2, 18)][[20, 21, 22, 23, 24, 25, 26, 27, 28, 29, 30, 31, 32, 33, 34, '
                           '35, 36, 37], [60, 61, 62, 63, 64, 65, 66, 67, 68, 69, 70, 71, 72, 73, 74, 75, '
                           "76, 77]] || io=[('open', ('image-file',), {'mode': 'rb'}), 'enter', ('seek', "
                           "(20,), {}), ('read', (100,), {}), ('seek', (140,), {}), ('read', (100,), {}), "
                           "'exit']",
 'iu2 rpc=2 [1:4:2, ::3]': 'ndarray[<u2(2, 7)][[20, 23, 26, 29, 32, 35, 38], [60, 63, 66, 69, 72, 75, 78]] '
                           "|| io=[('open', ('image-file',), {'mode': 'rb'}), 'enter', ('seek', (20,), {}), "
                           "('read', (100,), {}), ('seek', (140,), {}), ('read', (100,), {}), 'exit']",
 'iu2 rpc=2 [1:4:2, ::-1]': 'ndarray[<u2(2, 20)][[39, 38, 37, 36, 35, 34, 33, 32, 31, 30, 29, 28, 27, 26, '
                            '25, 24, 23, 22, 21, 20], [79, 78, 77, 76, 75, 74, 73, 72, 71, 70, 69, 68, 67, '
                            "66, 65, 64, 63, 62, 61, 60]] || io=[('open', ('image-file',), {'mode': 'rb'}), "
                            "'enter', ('seek', (20,), {}), ('read', (100,), {}), ('seek', (140,), {}), "
                            "('read', (100,), {}), 'exit']",
 'iu2 rpc=2 [1:4:2, 0:0]': "ndarray[<u2(2, 0)][[], []] || io=[('open', ('image-file',), {'mode': 'rb'}), "
                           "'enter', ('seek', (20,), {}), ('read', (100,), {}), ('seek', (140,), {}), "
                           "('read', (100,), {}), 'exit']",
 'iu2 rpc=2 [1:4:2, [1,5]]': "ndarray[<u2(2, 2)][[21, 25], [61, 65]] || io=[('open', ('image-file',), "
                             "{'mode': 'rb'}), 'enter', ('seek', (20,), {}), ('read', (100,), {}), ('seek', "
                             "(140,), {}), ('read', (100,), {}), 'exit']",
 'iu2 rpc=2 [1:4:2, 25]': 'raise builtins.IndexError: index 25 is out of bounds for axis 1 with size 20 || '
                          "io=[('open', ('image-file',), {'mode': 'rb'}), 'enter', ('seek', (20,), {}), "
                          "('read', (100,), {}), ('seek', (140,), {}), ('read', (100,), {}), 'exit']",
 'iu2 rpc=2 [1:4:2, newaxis]': 'ndarray[<u2(2, 1, 20)][[[20, 21, 22, 23, 24, 25, 26, 27, 28, 29, 30, 31, 32, '
                               '33, 34, 35, 36, 37, 38, 39]], [[60, 61, 62, 63, 64, 65, 66, 67, 68, 69, 70, '
                               "71, 72, 73, 74, 75, 76, 77, 78, 79]]] || io=[('open', ('image-file',), "
                               "{'mode': 'rb'}), 'enter', ('seek', (20,), {}), ('read', (100,), {}), "
                               "('seek', (140,), {}), ('read', (100,), {}), 'exit']",
 'iu2 rpc=2 [1:4:2, ellipsis]': 'ndarray[<u2(2, 20)][[20, 21, 22, 23, 24, 25, 26, 27, 28, 29, 30, 31, 32, '
                                '33, 34, 35, 36, 37, 38, 39], [60, 61, 62, 63, 64, 65, 66, 67, 68, 69, 70, '
                                "71, 72, 73, 74, 75, 76, 77, 78, 79]] || io=[('open', ('image-file',), "
                                "{'mode': 'rb'}), 'enter', ('seek', (20,), {}), ('read', (100,), {}), "
                                "('seek', (140,), {}), ('read', (100,), {}), 'exit']",
 'iu2 rpc=2 [1:4:2,]': 'ndarray[<u2(2, 20)][[20, 21, 22, 23, 24, 25, 26, 27, 28, 29, 30, 31, 32, 33, 34, 35, '
                       '36, 37, 38, 39], [60, 61, 62, 63, 64, 65, 66, 67, 68, 69, 70, 71, 72, 73, 74, 75, '
                       "76, 77, 78, 79]] || io=[('open', ('image-file',), {'mode': 'rb'}), 'enter', ('seek', "
                       "(20,), {}), ('read', (100,), {}), ('seek', (140,), {}), ('read', (100,), {}), "
                       "'exit']",
 'iu2 rpc=2 [1:4:2, 1, 2]': 'raise builtins.IndexError: too many indices for array: array is 2-dimensional, '
                            "but 3 were indexed || io=[('open', ('image-file',), {'mode': 'rb'}), 'enter', "
                            "('seek', (20,), {}), ('read', (100,), {}), ('seek', (140,), {}), ('read', "
                            "(100,), {}), 'exit']",
 'iu2 rpc=2 list[1:4:2, 1:3]': "ndarray[<u2(2, 2)][[21, 22], [61, 62]] || io=[('open', ('image-file',), "
                               "{'mode': 'rb'}), 'enter', ('seek', (20,), {}), ('read', (100,), {}), "
                               "('seek', (140,), {}), ('read', (100,), {}), 'exit']",
 'iu2 rpc=2 [::-1, all]': 'ndarray[<u2(5, 20)][[80, 81, 82, 83, 84, 85, 86, 87, 88, 89, 90, 91, 92, 93, 94, '
                          '95, 96, 97, 98, 99], [60, 61, 62, 63, 64, 65, 66, 67, 68, 69, 70, 71, 72, 73, 74, '
                          '75, 76, 77, 78, 79], [40, 41, 42, 43, 44, 45, 46, 47, 48, 49, 50, 51, 52, 53, 54, '
                          '55, 56, 57, 58, 59], [20, 21, 22, 23, 24, 25, 26, 27, 28, 29, 30, 31, 32, 33, 34, '
                          '35, 36, 37, 38, 39], [0, 1, 2, 3, 4, 5, 6, 7, 8, 9, 10, 11, 12, 13, 14, 15, 16, '
                          "17, 18, 19]] || io=[('open', ('image-file',), {'mode': 'rb'}), 'enter', ('seek', "
                          "(260,), {}), ('read', (40,), {}), ('seek', (140,), {}), ('read', (100,), {}), "
                          "('seek', (20,), {}), ('read', (100,), {}), 'exit']",
 'iu2 rpc=2 [::-1, 3]': "ndarray[<u2(5,)][83, 63, 43, 23, 3] || io=[('open', ('image-file',), {'mode': "
                        "'rb'}), 'enter', ('seek', (260,), {}), ('read', (40,), {}), ('seek', (140,), {}), "
                        "('read', (100,), {}), ('seek', (20,), {}), ('read', (100,), {}), 'exit']",
 'iu2 rpc=2 [::-1, -1]': "ndarray[<u2(5,)][99, 79, 59, 39, 19] || io=[('open', ('image-file',), {'mode': "
                         "'rb'}), 'enter', ('seek', (260,), {}), ('read', (40,), {}), ('seek', (140,), {}), "
                         "('read', (100,), {}), ('seek', (20,), {}), ('read', (100,), {}), 'exit']",
 'iu2 rpc=2 [::-1, 2:]': 'ndarray[<u2(5, 18)][[82, 83, 84, 85, 86, 87, 88, 89, 90, 91, 92, 93, 94, 95, 96, '
                         '97, 98, 99], [62, 63, 64, 65, 66, 67, 68, 69, 70, 71, 72, 73, 74, 75, 76, 77, 78, '
                         '79], [42, 43, 44, 45, 46, 47, 48, 49, 50, 51, 52, 53, 54, 55, 56, 57, 58, 59], '
                         '[22, 23, 24, 25, 26, 27, 28, 29, 30, 31, 32, 33, 34, 35, 36, 37, 38, 39], [2, 3, '
                         "4, 5, 6, 7, 8, 9, 10, 11, 12, 13, 14, 15, 16, 17, 18, 19]] || io=[('open', "
                         "('image-file',), {'mode': 'rb'}), 'enter', ('seek', (260,), {}), ('read', (40,), "
                         "{}), ('seek', (140,), {}), ('read', (100,), {}), ('seek', (20,), {}), ('read', "
                         "(100,), {}), 'exit']",
 'iu2 rpc=2 [::-1, :-2]': 'ndarray[<u2(5, 18)][[80, 81, 82, 83, 84, 85, 86, 87, 88, 89, 90, 91, 92, 93, 94, '
                          '95, 96, 97], [60, 61, 62, 63, 64, 65, 66, 67, 68, 69, 70, 71, 72, 73, 74, 75, 76, '
                          '77], [40, 41, 42, 43, 44, 45, 46, 47, 48, 49, 50, 51, 52, 53, 54, 55, 56, 57], '
                          '[20, 21, 22, 23, 24, 25, 26, 27, 28, 29, 30, 31, 32, 33, 34, 35, 36, 37], [0, 1, '
                          "2, 3, 4, 5, 6, 7, 8, 9, 10, 11, 12, 13, 14, 15, 16, 17]] || io=[('open', "
                          "('image-file',), {'mode': 'rb'}), 'enter', ('seek', (260,), {}), ('read', (40,), "
                          "{}), ('seek', (140,), {}), ('read', (100,), {}), ('seek', (20,), {}), ('read', "
                          "(100,), {}), 'exit']",
 'iu2 rpc=2 [::-1, ::3]': 'ndarray[<u2(5, 7)][[80, 83, 86, 89, 92, 95, 98], [60, 63, 66, 69, 72, 75, 78], '
                          '[40, 43, 46, 49, 52, 55, 58], [20, 23, 26, 29, 32, 35, 38], [0, 3, 6, 9, 12, 15, '
                          "18]] || io=[('open', ('image-file',), {'mode': 'rb'}), 'enter', ('seek', (260,), "
                          "{}), ('read', (40,), {}), ('seek', (140,), {}), ('read', (100,), {}), ('seek', "
                          "(20,), {}), ('read', (100,), {}), 'exit']",
 'iu2 rpc=2 [::-1, ::-1]': 'ndarray[<u2(5, 20)][[99, 98, 97, 96, 95, 94, 93, 92, 91, 90, 89, 88, 87, 86, 85, '
                           '84, 83, 82, 81, 80], [79, 78, 77, 76, 75, 74, 73, 72, 71, 70, 69, 68, 67, 66, '
                           '65, 64, 63, 62, 61, 60], [59, 58, 57, 56, 55, 54, 53, 52, 51, 50, 49, 48, 47, '
                           '46, 45, 44, 43, 42, 41, 40], [39, 38, 37, 36, 35, 34, 33, 32, 31, 30, 29, 28, '
                           '27, 26, 25, 24, 23, 22, 21, 20], [19, 18, 17, 16, 15, 14, 13, 12, 11, 10, 9, 8, '
                           "7, 6, 5, 4, 3, 2, 1, 0]] || io=[('open', ('image-file',), {'mode': 'rb'}), "
                           "'enter', ('seek', (260,), {}), ('read', (40,), {}), ('seek', (140,), {}), "
                           "('read', (100,), {}), ('seek', (20,), {}), ('read', (100,), {}), 'exit']",
 'iu2 rpc=2 [::-1, 0:0]': "ndarray[<u2(5, 0)][[], [], [], [], []] || io=[('open', ('image-file',), {'mode': "
                          "'rb'}), 'enter', ('seek', (260,), {}), ('read', (40,), {}), ('seek', (140,), {}), "
                          "('read', (100,), {}), ('seek', (20,), {}), ('read', (100,), {}), 'exit']",
 'iu2 rpc=2 [::-1, [1,5]]': 'ndarray[<u2(5, 2)][[81, 85], [61, 65], [41, 45], [21, 25], [1, 5]] || '
                            "io=[('open', ('image-file',), {'mode': 'rb'}), 'enter', ('seek', (260,), {}), "
                            "('read', (40,), {}), ('seek', (140,), {}), ('read', (100,), {}), ('seek', "
                            "(20,), {}), ('read', (100,), {}), 'exit']",
 'iu2 rpc=2 [::-1, 25]': 'raise builtins.IndexError: index 25 is out of bounds for axis 1 with size 20 || '
                         "io=[('open', ('image-file',), {'mode': 'rb'}), 'enter', ('seek', (260,), {}), "
                         "('read', (40,), {}), ('seek', (140,), {}), ('read', (100,), {}), ('seek', (20,), "
                         "{}), ('read', (100,), {}), 'exit']",
 'iu2 rpc=2 [::-1, newaxis]': 'ndarray[<u2(5, 1, 20)][[[80, 81, 82, 83, 84, 85, 86, 87, 88, 89, 90, 91, 92, '
                              '93, 94, 95, 96, 97, 98, 99]], [[60, 61, 62, 63, 64, 65, 66, 67, 68, 69, 70, '
                              '71, 72, 73, 74, 75, 76, 77, 78, 79]], [[40, 41, 42, 43, 44, 45, 46, 47, 48, '
                              '49, 50, 51, 52, 53, 54, 55, 56, 57, 58, 59]], [[20, 21, 22, 23, 24, 25, 26, '
                              '27, 28, 29, 30, 31, 32, 33, 34, 35, 36, 37, 38, 39]], [[0, 1, 2, 3, 4, 5, 6, '
                              "7, 8, 9, 10, 11, 12, 13, 14, 15, 16, 17, 18, 19]]] || io=[('open', "
                              "('image-file',), {'mode': 'rb'}), 'enter', ('seek', (260,), {}), ('read', "
                              "(40,), {}), ('seek', (140,), {}), ('read', (100,), {}), ('seek', (20,), {}), "
                              "('read', (100,), {}), 'exit']",
 'iu2 rpc=2 [::-1, ellipsis]': 'ndarray[<u2(5, 20)][[80, 81, 82, 83, 84, 85, 86, 87, 88, 89, 90, 91, 92, 93, '
                               '94, 95, 96, 97, 98, 99], [60, 61, 62, 63, 64, 65, 66, 67, 68, 69, 70, 71, '
                               '72, 73, 74, 75, 76, 77, 78, 79], [40, 41, 42, 43, 44, 45, 46, 47, 48, 49, '
                               '50, 51, 52, 53, 54, 55, 56, 57, 58, 59], [20, 21, 22, 23, 24, 25, 26, 27, '
                               '28, 29, 30, 31, 32, 33, 34, 35, 36, 37, 38, 39], [0, 1, 2, 3, 4, 5, 6, 7, 8, '
                               "9, 10, 11, 12, 13, 14, 15, 16, 17, 18, 19]] || io=[('open', ('image-file',), "
                               "{'mode': 'rb'}), 'enter', ('seek', (260,), {}), ('read', (40,), {}), "
                               "('seek', (140,), {}), ('read', (100,), {}), ('seek', (20,), {}), ('read', "
                               "(100,), {}), 'exit']",
 'iu2 rpc=2 [::-1,]': 'ndarray[<u2(5, 20)][[80, 81, 82, 83, 84, 85, 86, 87, 88, 89, 90, 91, 92, 93, 94, 95, '
                      '96, 97, 98, 99], [60, 61, 62, 63, 64, 65, 66, 67, 68, 69, 70, 71, 72, 73, 74, 75, 76, '
                      '77, 78, 79], [40, 41, 42, 43, 44, 45, 46, 47, 48, 49, 50, 51, 52, 53, 54, 55, 56, 57, '
                      '58, 59], [20, 21, 22, 23, 24, 25, 26, 27, 28, 29, 30, 31, 32, 33, 34, 35, 36, 37, 38, '
                      '39], [0, 1, 2, 3, 4, 5, 6, 7, 8, 9, 10, 11, 12, 13, 14, 15, 16, 17, 18, 19]] || '
                      "io=[('open', ('image-file',), {'mode': 'rb'}), 'enter', ('seek', (260,), {}), "
                      "('read', (40,), {}), ('seek', (140,), {}), ('read', (100,), {}), ('seek', (20,), {}), "
                      "('read', (100,), {}), 'exit']",
 'iu2 rpc=2 [::-1, 1, 2]': 'raise builtins.IndexError: too many indices for array: array is 2-dimensional, '
                           "but 3 were indexed || io=[('open', ('image-file',), {'mode': 'rb'}), 'enter', "
                           "('seek', (260,), {}), ('read', (40,), {}), ('seek', (140,), {}), ('read', "
                           "(100,), {}), ('seek', (20,), {}), ('read', (100,), {}), 'exit']",
 'iu2 rpc=2 list[::-1, 1:3]': 'ndarray[<u2(5, 2)][[81, 82], [61, 62], [41, 42], [21, 22], [1, 2]] || '
                              "io=[('open', ('image-file',), {'mode': 'rb'}), 'enter', ('seek', (260,), {}), "
                              "('read', (40,), {}), ('seek', (140,), {}), ('read', (100,), {}), ('seek', "
                              "(20,), {}), ('read', (100,), {}), 'exit']",
 'iu2 rpc=2 [-1::-2, all]': 'ndarray[<u2(3, 20)][[80, 81, 82, 83, 84, 85, 86, 87, 88, 89, 90, 91, 92, 93, '
                            '94, 95, 96, 97, 98, 99], [40, 41, 42, 43, 44, 45, 46, 47, 48, 49, 50, 51, 52, '
                            '53, 54, 55, 56, 57, 58, 59], [0, 1, 2, 3, 4, 5, 6, 7, 8, 9, 10, 11, 12, 13, 14, '
                            "15, 16, 17, 18, 19]] || io=[('open', ('image-file',), {'mode': 'rb'}), 'enter', "
                            "('seek', (260,), {}), ('read', (40,), {}), ('seek', (140,), {}), ('read', "
                            "(100,), {}), ('seek', (20,), {}), ('read', (100,), {}), 'exit']",
 'iu2 rpc=2 [-1::-2, 3]': "ndarray[<u2(3,)][83, 43, 3] || io=[('open', ('image-file',), {'mode': 'rb'}), "
                          "'enter', ('seek', (260,), {}), ('read', (40,), {}), ('seek', (140,), {}), "
                          "('read', (100,), {}), ('seek', (20,), {}), ('read', (100,), {}), 'exit']",
 'iu2 rpc=2 [-1::-2, -1]': "ndarray[<u2(3,)][99, 59, 19] || io=[('open', ('image-file',), {'mode': 'rb'}), "
                           "'enter', ('seek', (260,), {}), ('read', (40,), {}), ('seek', (140,), {}), "
                           "('read', (100,), {}), ('seek', (20,), {}), ('read', (100,), {}), 'exit']",
 'iu2 rpc=2 [-1::-2, 2:]': 'ndarray[<u2(3, 18)][[82, 83, 84, 85, 86, 87, 88, 89, 90, 91, 92, 93, 94, 95, 96, '
                           '97, 98, 99], [42, 43, 44, 45, 46, 47, 48, 49, 50, 51, 52, 53, 54, 55, 56, 57, '
                           '58, 59], [2, 3, 4, 5, 6, 7, 8, 9, 10, 11, 12, 13, 14, 15, 16, 17, 18, 19]] || '
                           "io=[('open', ('image-file',), {'mode': 'rb'}), 'enter', ('seek', (260,), {}), "
                           "('read', (40,), {}), ('seek', (140,), {}), ('read', (100,), {}), ('seek', (20,), "
                           "{}), ('read', (100,), {}), 'exit']",
 'iu2 rpc=2 [-1::-2, :-2]': 'ndarray[<u2(3, 18)][[80, 81, 82, 83, 84, 85, 86, 87, 88, 89, 90, 91, 92, 93, '
                            '94, 95, 96, 97], [40, 41, 42, 43, 44, 45, 46, 47, 48, 49, 50, 51, 52, 53, 54, '
                            '55, 56, 57], [0, 1, 2, 3, 4, 5, 6, 7, 8, 9, 10, 11, 12, 13, 14, 15, 16, 17]] || '
                            "io=[('open', ('image-file',), {'mode': 'rb'}), 'enter', ('seek', (260,), {}), "
                            "('read', (40,), {}), ('seek', (140,), {}), ('read', (100,), {}), ('seek', "
                            "(20,), {}), ('read', (100,), {}), 'exit']",
 'iu2 rpc=2 [-1::-2, ::3]': 'ndarray[<u2(3, 7)][[80, 83, 86, 89, 92, 95, 98], [40, 43, 46, 49, 52, 55, 58], '
                            "[0, 3, 6, 9, 12, 15, 18]] || io=[('open', ('image-file',), {'mode': 'rb'}), "
                            "'enter', ('seek', (260,), {}), ('read', (40,), {}), ('seek', (140,), {}), "
                            "('read', (100,), {}), ('seek', (20,), {}), ('read', (100,), {}), 'exit']",
 'iu2 rpc=2 [-1::-2, ::-1]': 'ndarray[<u2(3, 20)][[99, 98, 97, 96, 95, 94, 93, 92, 91, 90, 89, 88, 87, 86, '
                             '85, 84, 83, 82, 81, 80], [59, 58, 57, 56, 55, 54, 53, 52, 51, 50, 49, 48, 47, '
                             '46, 45, 44, 43, 42, 41, 40], [19, 18, 17, 16, 15, 14, 13, 12, 11, 10, 9, 8, 7, '
                             "6, 5, 4, 3, 2, 1, 0]] || io=[('open', ('image-file',), {'mode': 'rb'}), "
                             "'enter', ('seek', (260,), {}), ('read', (40,), {}), ('seek', (140,), {}), "
                             "('read', (100,), {}), ('seek', (20,), {}), ('read', (100,), {}), 'exit']",
 'iu2 rpc=2 [-1::-2, 0:0]': "ndarray[<u2(3, 0)][[], [], []] || io=[('open', ('image-file',), {'mode': "
                            "'rb'}), 'enter', ('seek', (260,), {}), ('read', (40,), {}), ('seek', (140,), "
                            "{}), ('read', (100,), {}), ('seek', (20,), {}), ('read', (100,), {}), 'exit']",
 'iu2 rpc=2 [-1::-2, [1,5]]': "ndarray[<u2(3, 2)][[81, 85], [41, 45], [1, 5]] || io=[('open', "
                              "('image-file',), {'mode': 'rb'}), 'enter', ('seek', (260,), {}), ('read', "
                              "(40,), {}), ('seek', (140,), {}), ('read', (100,), {}), ('seek', (20,), {}), "
                              "('read', (100,), {}), 'exit']",
 'iu2 rpc=2 [-1::-2, 25]': 'raise builtins.IndexError: index 25 is out of bounds for axis 1 with size 20 || '
                           "io=[('open', ('image-file',), {'mode': 'rb'}), 'enter', ('seek', (260,), {}), "
                           "('read', (40,), {}), ('seek', (140,), {}), ('read', (100,), {}), ('seek', (20,), "
                           "{}), ('read', (100,), {}), 'exit']",
 'iu2 rpc=2 [-1::-2, newaxis]': 'ndarray[<u2(3, 1, 20)][[[80, 81, 82, 83, 84, 85, 86, 87, 88, 89, 90, 91, '
                                '92, 93, 94, 95, 96, 97, 98, 99]], [[40, 41, 42, 43, 44, 45, 46, 47, 48, 49, '
                                '50, 51, 52, 53, 54, 55, 56, 57, 58, 59]], [[0, 1, 2, 3, 4, 5, 6, 7, 8, 9, '
                                "10, 11, 12, 13, 14, 15, 16, 17, 18, 19]]] || io=[('open', ('image-file',), "
                                "{'mode': 'rb'}), 'enter', ('seek', (260,), {}), ('read', (40,), {}), "
                                "('seek', (140,), {}), ('read', (100,), {}), ('seek', (20,), {}), ('read', "
                                "(100,), {}), 'exit']",
 'iu2 rpc=2 [-1::-2, ellipsis]': 'ndarray[<u2(3, 20)][[80, 81, 82, 83, 84, 85, 86, 87, 88, 89, 90, 91, 92, '
                                 '93, 94, 95, 96, 97, 98, 99], [40, 41, 42, 43, 44, 45, 46, 47, 48, 49, 50, '
                                 '51, 52, 53, 54, 55, 56, 57, 58, 59], [0, 1, 2, 3, 4, 5, 6, 7, 8, 9, 10, '
                                 "11, 12, 13, 14, 15, 16, 17, 18, 19]] || io=[('open', ('image-file',), "
                                 "{'mode': 'rb'}), 'enter', ('seek', (260,), {}), ('read', (40,), {}), "
                                 "('seek', (140,), {}), ('read', (100,), {}), ('seek', (20,), {}), ('read', "
                                 "(100,), {}), 'exit']",
 'iu2 rpc=2 [-1::-2,]': 'ndarray[<u2(3, 20)][[80, 81, 82, 83, 84, 85, 86, 87, 88, 89, 90, 91, 92, 93, 94, '
                        '95, 96, 97, 98, 99], [40, 41, 42, 43, 44, 45, 46, 47, 48, 49, 50, 51, 52, 53, 54, '
                        '55, 56, 57, 58, 59], [0, 1, 2, 3, 4, 5, 6, 7, 8, 9, 10, 11, 12, 13, 14, 15, 16, 17, '
                        "18, 19]] || io=[('open', ('image-file',), {'mode': 'rb'}), 'enter', ('seek', "
                        "(260,), {}), ('read', (40,), {}), ('seek', (140,), {}), ('read', (100,), {}), "
                        "('seek', (20,), {}), ('read', (100,), {}), 'exit']",
 'iu2 rpc=2 [-1::-2, 1, 2]': 'raise builtins.IndexError: too many indices for array: array is 2-dimensional, '
                             "but 3 were indexed || io=[('open', ('image-file',), {'mode': 'rb'}), 'enter', "
                             "('seek', (260,), {}), ('read', (40,), {}), ('seek', (140,), {}), ('read', "
                             "(100,), {}), ('seek', (20,), {}), ('read', (100,), {}), 'exit']",
 'iu2 rpc=2 list[-1::-2, 1:3]': "ndarray[<u2(3, 2)][[81, 82], [41, 42], [1, 2]] || io=[('open', "
                                "('image-file',), {'mode': 'rb'}), 'enter', ('seek', (260,), {}), ('read', "
                                "(40,), {}), ('seek', (140,), {}), ('read', (100,), {}), ('seek', (20,), "
                                "{}), ('read', (100,), {}), 'exit']",
 'iu2 rpc=2 [0:0, all]': "ndarray[<u2(0, 20)][] || io=[('open', ('image-file',), {'mode': 'rb'}), 'enter', "
                         "'exit']",
 'iu2 rpc=2 [0:0, 3]': "ndarray[<u2(0,)][] || io=[('open', ('image-file',), {'mode': 'rb'}), 'enter', "
                       "'exit']",
 'iu2 rpc=2 [0:0, -1]': "ndarray[<u2(0,)][] || io=[('open', ('image-file',), {'mode': 'rb'}), 'enter', "
                        "'exit']",
 'iu2 rpc=2 [0:0, 2:]': "ndarray[<u2(0, 18)][] || io=[('open', ('image-file',), {'mode': 'rb'}), 'enter', "
                        "'exit']",
 'iu2 rpc=2 [0:0, :-2]': "ndarray[<u2(0, 18)][] || io=[('open', ('image-file',), {'mode': 'rb'}), 'enter', "
                         "'exit']",
 'iu2 rpc=2 [0:0, ::3]': "ndarray[<u2(0, 7)][] || io=[('open', ('image-file',), {'mode': 'rb'}), 'enter', "
                         "'exit']",
 'iu2 rpc=2 [0:0, ::-1]': "ndarray[<u2(0, 20)][] || io=[('open', ('image-file',), {'mode': 'rb'}), 'enter', "
                          "'exit']",
 'iu2 rpc=2 [0:0, 0:0]': "ndarray[<u2(0, 0)][] || io=[('open', ('image-file',), {'mode': 'rb'}), 'enter', "
                         "'exit']",
 'iu2 rpc=2 [0:0, [1,5]]': "ndarray[<u2(0, 2)][] || io=[('open', ('image-file',), {'mode': 'rb'}), 'enter', "
                           "'exit']",
 'iu2 rpc=2 [0:0, 25]': 'raise builtins.IndexError: index 25 is out of bounds for axis 1 with size 20 || '
                        "io=[('open', ('image-file',), {'mode': 'rb'}), 'enter', 'exit']",
 'iu2 rpc=2 [0:0, newaxis]': "ndarray[<u2(0, 1, 20)][] || io=[('open', ('image-file',), {'mode': 'rb'}), "
                             "'enter', 'exit']",
 'iu2 rpc=2 [0:0, ellipsis]': "ndarray[<u2(0, 20)][] || io=[('open', ('image-file',), {'mode': 'rb'}), "
                              "'enter', 'exit']",
 'iu2 rpc=2 [0:0,]': "ndarray[<u2(0, 20)][] || io=[('open', ('image-file',), {'mode': 'rb'}), 'enter', "
                     "'exit']",
 'iu2 rpc=2 [0:0, 1, 2]': 'raise builtins.IndexError: too many indices for array: array is 2-dimensional, '
                          "but 3 were indexed || io=[('open', ('image-file',), {'mode': 'rb'}), 'enter', "
                          "'exit']",
 'iu2 rpc=2 list[0:0, 1:3]': "ndarray[<u2(0, 2)][] || io=[('open', ('image-file',), {'mode': 'rb'}), "
                             "'enter', 'exit']",
 'iu2 rpc=2 [4:1, all]': "ndarray[<u2(0, 20)][] || io=[('open', ('image-file',), {'mode': 'rb'}), 'enter', "
                         "'exit']",
 'iu2 rpc=2 [4:1, 3]': "ndarray[<u2(0,)][] || io=[('open', ('image-file',), {'mode': 'rb'}), 'enter', "
                       "'exit']",
 'iu2 rpc=2 [4:1, -1]': "ndarray[<u2(0,)][] || io=[('open', ('image-file',), {'mode': 'rb'}), 'enter', "
                        "'exit']",
 'iu2 rpc=2 [4:1, 2:]': "ndarray[<u2(0, 18)][] || io=[('open', ('image-file',), {'mode': 'rb'}), 'enter', "
                        "'exit']",
 'iu2 rpc=2 [4:1, :-2]': "ndarray[<u2(0, 18)][] || io=[('open', ('image-file',), {'mode': 'rb'}), 'enter', "
                         "'exit']",
 'iu2 rpc=2 [4:1, ::3]': "ndarray[<u2(0, 7)][] || io=[('open', ('image-file',), {'mode': 'rb'}), 'enter', "
                         "'exit']",
 'iu2 rpc=2 [4:1, ::-1]': "ndarray[<u2(0, 20)][] || io=[('open', ('image-file',), {'mode': 'rb'}), 'enter', "
                          "'exit']",
 'iu2 rpc=2 [4:1, 0:0]': "ndarray[<u2(0, 0)][] || io=[('open', ('image-file',), {'mode': 'rb'}), 'enter', "
                         "'exit']",
 'iu2 rpc=2 [4:1, [1,5]]': "ndarray[<u2(0, 2)][] || io=[('open', ('image-file',), {'mode': 'rb'}), 'enter', "
                           "'exit']",
 'iu2 rpc=2 [4:1, 25]': 'raise builtins.IndexError: index 25 is out of bounds for axis 1 with size 20 || '
                        "io=[('open', ('image-file',), {'mode': 'rb'}), 'enter', 'exit']",
 'iu2 rpc=2 [4:1, newaxis]': "ndarray[<u2(0, 1, 20)][] || io=[('open', ('image-file',), {'mode': 'rb'}), "
                             "'enter', 'exit']",
 'iu2 rpc=2 [4:1, ellipsis]': "ndarray[<u2(0, 20)][] || io=[('open', ('image-file',), {'mode': 'rb'}), "
                              "'enter', 'exit']",
 'iu2 rpc=2 [4:1,]': "ndarray[<u2(0, 20)][] || io=[('open', ('image-file',), {'mode': 'rb'}), 'enter', "
                     "'exit']",
 'iu2 rpc=2 [4:1, 1, 2]': 'raise builtins.IndexError: too many indices for array: array is 2-dimensional, '
                          "but 3 were indexed || io=[('open', ('image-file',), {'mode': 'rb'}), 'enter', "
                          "'exit']",
 'iu2 rpc=2 list[4:1, 1:3]': "ndarray[<u2(0, 2)][] || io=[('open', ('image-file',), {'mode': 'rb'}), "
                             "'enter', 'exit']",
 'iu2 rpc=2 [10:, all]': "ndarray[<u2(0, 20)][] || io=[('open', ('image-file',), {'mode': 'rb'}), 'enter', "
                         "'exit']",
 'iu2 rpc=2 [10:, 3]': "ndarray[<u2(0,)][] || io=[('open', ('image-file',), {'mode': 'rb'}), 'enter', "
                       "'exit']",
 'iu2 rpc=2 [10:, -1]': "ndarray[<u2(0,)][] || io=[('open', ('image-file',), {'mode': 'rb'}), 'enter', "
                        "'exit']",
 'iu2 rpc=2 [10:, 2:]': "ndarray[<u2(0, 18)][] || io=[('open', ('image-file',), {'mode': 'rb'}), 'enter', "
                        "'exit']",
 'iu2 rpc=2 [10:, :-2]': "ndarray[<u2(0, 18)][] || io=[('open', ('image-file',), {'mode': 'rb'}), 'enter', "
                         "'exit']",
 'iu2 rpc=2 [10:, ::3]': "ndarray[<u2(0, 7)][] || io=[('open', ('image-file',), {'mode': 'rb'}), 'enter', "
                         "'exit']",
 'iu2 rpc=2 [10:, ::-1]': "ndarray[<u2(0, 20)][] || io=[('open', ('image-file',), {'mode': 'rb'}), 'enter', "
                          "'exit']",
 'iu2 rpc=2 [10:, 0:0]': "ndarray[<u2(0, 0)][] || io=[('open', ('image-file',), {'mode': 'rb'}), 'enter', "
                         "'exit']",
 'iu2 rpc=2 [10:, [1,5]]': "ndarray[<u2(0, 2)][] || io=[('open', ('image-file',), {'mode': 'rb'}), 'enter', "
                           "'exit']",
 'iu2 rpc=2 [10:, 25]': 'raise builtins.IndexError: index 25 is out of bounds for axis 1 with size 20 || '
                        "io=[('open', ('image-file',), {'mode': 'rb'}), 'enter', 'exit']",
 'iu2 rpc=2 [10:, newaxis]': "ndarray[<u2(0, 1, 20)][] || io=[('open', ('image-file',), {'mode': 'rb'}), "
                             "'enter', 'exit']",
 'iu2 rpc=2 [10:, ellipsis]': "ndarray[<u2(0, 20)][] || io=[('open', ('image-file',), {'mode': 'rb'}), "
                              "'enter', 'exit']",
 'iu2 rpc=2 [10:,]': "ndarray[<u2(0, 20)][] || io=[('open', ('image-file',), {'mode': 'rb'}), 'enter', "
                     "'exit']",
 'iu2 rpc=2 [10:, 1, 2]': 'raise builtins.IndexError: too many indices for array: array is 2-dimensional, '
                          "but 3 were indexed || io=[('open', ('image-file',), {'mode': 'rb'}), 'enter', "
                          "'exit']",
 'iu2 rpc=2 list[10:, 1:3]': "ndarray[<u2(0, 2)][] || io=[('open', ('image-file',), {'mode': 'rb'}), "
                             "'enter', 'exit']",
 'iu2 rpc=2 [[0,2], all]': 'ndarray[<u2(2, 20)][[0, 1, 2, 3, 4, 5, 6, 7, 8, 9, 10, 11, 12, 13, 14, 15, 16, '
                           '17, 18, 19], [40, 41, 42, 43, 44, 45, 46, 47, 48, 49, 50, 51, 52, 53, 54, 55, '
                           "56, 57, 58, 59]] || io=[('open', ('image-file',), {'mode': 'rb'}), 'enter', "
                           "('seek', (20,), {}), ('read', (100,), {}), ('seek', (140,), {}), ('read', "
                           "(100,), {}), 'exit']",
 'iu2 rpc=2 [[0,2], 3]': "ndarray[<u2(2,)][3, 43] || io=[('open', ('image-file',), {'mode': 'rb'}), 'enter', "
                         "('seek', (20,), {}), ('read', (100,), {}), ('seek', (140,), {}), ('read', (100,), "
                         "{}), 'exit']",
 'iu2 rpc=2 [[0,2], -1]': "ndarray[<u2(2,)][19, 59] || io=[('open', ('image-file',), {'mode': 'rb'}), "
                          "'enter', ('seek', (20,), {}), ('read', (100,), {}), ('seek', (140,), {}), "
                          "('read', (100,), {}), 'exit']",
 'iu2 rpc=2 [[0,2], 2:]': 'ndarray[<u2(2, 18)][[2, 3, 4, 5, 6, 7, 8, 9, 10, 11, 12, 13, 14, 15, 16, 17, 18, '
                          '19], [42, 43, 44, 45, 46, 47, 48, 49, 50, 51, 52, 53, 54, 55, 56, 57, 58, 59]] || '
                          "io=[('open', ('image-file',), {'mode': 'rb'}), 'enter', ('seek', (20,), {}), "
                          "('read', (100,), {}), ('seek', (140,), {}), ('read', (100,), {}), 'exit']",
 'iu2 rpc=2 [[0,2], :-2]': 'ndarray[<u2(2, 18)][[0, 1, 2, 3, 4, 5, 6, 7, 8, 9, 10, 11, 12, 13, 14, 15, 16, '
                           '17], [40, 41, 42, 43, 44, 45, 46, 47, 48, 49, 50, 51, 52, 53, 54, 55, 56, 57]] '
                           "|| io=[('open', ('image-file',), {'mode': 'rb'}), 'enter', ('seek', (20,), {}), "
                           "('read', (100,), {}), ('seek', (140,), {}), ('read', (100,), {}), 'exit']",
 'iu2 rpc=2 [[0,2], ::3]': 'ndarray[<u2(2, 7)][[0, 3, 6, 9, 12, 15, 18], [40, 43, 46, 49, 52, 55, 58]] || '
                           "io=[('open', ('image-file',), {'mode': 'rb'}), 'enter', ('seek', (20,), {}), "
                           "('read', (100,), {}), ('seek', (140,), {}), ('read', (100,), {}), 'exit']",
 'iu2 rpc=2 [[0,2], ::-1]': 'ndarray[<u2(2, 20)][[19, 18, 17, 16, 15, 14, 13, 12, 11, 10, 9, 8, 7, 6, 5, 4, '
                            '3, 2, 1, 0], [59, 58, 57, 56, 55, 54, 53, 52, 51, 50, 49, 48, 47, 46, 45, 44, '
                            "43, 42, 41, 40]] || io=[('open', ('image-file',), {'mode': 'rb'}), 'enter', "
                            "('seek', (20,), {}), ('read', (100,), {}), ('seek', (140,), {}), ('read', "
                            "(100,), {}), 'exit']",
 'iu2 rpc=2 [[0,2], 0:0]': "ndarray[<u2(2, 0)][[], []] || io=[('open', ('image-file',), {'mode': 'rb'}), "
                           "'enter', ('seek', (20,), {}), ('read', (100,), {}), ('seek', (140,), {}), "
                           "('read', (100,), {}), 'exit']",
 'iu2 rpc=2 [[0,2], [1,5]]': "ndarray[<u2(2, 2)][[1, 5], [41, 45]] || io=[('open', ('image-file',), {'mode': "
                             "'rb'}), 'enter', ('seek', (20,), {}), ('read', (100,), {}), ('seek', (140,), "
                             "{}), ('read', (100,), {}), 'exit']",
 'iu2 rpc=2 [[0,2], 25]': 'raise builtins.IndexError: index 25 is out of bounds for axis 1 with size 20 || '
                          "io=[('open', ('image-file',), {'mode': 'rb'}), 'enter', ('seek', (20,), {}), "
                          "('read', (100,), {}), ('seek', (140,), {}), ('read', (100,), {}), 'exit']",
 'iu2 rpc=2 [[0,2], newaxis]': 'ndarray[<u2(2, 1, 20)][[[0, 1, 2, 3, 4, 5, 6, 7, 8, 9, 10, 11, 12, 13, 14, '
                               '15, 16, 17, 18, 19]], [[40, 41, 42, 43, 44, 45, 46, 47, 48, 49, 50, 51, 52, '
                               "53, 54, 55, 56, 57, 58, 59]]] || io=[('open', ('image-file',), {'mode': "
                               "'rb'}), 'enter', ('seek', (20,), {}), ('read', (100,), {}), ('seek', (140,), "
                               "{}), ('read', (100,), {}), 'exit']",
 'iu2 rpc=2 [[0,2], ellipsis]': 'ndarray[<u2(2, 20)][[0, 1, 2, 3, 4, 5, 6, 7, 8, 9, 10, 11, 12, 13, 14, 15, '
                                '16, 17, 18, 19], [40, 41, 42, 43, 44, 45, 46, 47, 48, 49, 50, 51, 52, 53, '
                                "54, 55, 56, 57, 58, 59]] || io=[('open', ('image-file',), {'mode': 'rb'}), "
                                "'enter', ('seek', (20,), {}), ('read', (100,), {}), ('seek', (140,), {}), "
                                "('read', (100,), {}), 'exit']",
 'iu2 rpc=2 [[0,2],]': 'ndarray[<u2(2, 20)][[0, 1, 2, 3, 4, 5, 6, 7, 8, 9, 10, 11, 12, 13, 14, 15, 16, 17, '
                       '18, 19], [40, 41, 42, 43, 44, 45, 46, 47, 48, 49, 50, 51, 52, 53, 54, 55, 56, 57, '
                       "58, 59]] || io=[('open', ('image-file',), {'mode': 'rb'}), 'enter', ('seek', (20,), "
                       "{}), ('read', (100,), {}), ('seek', (140,), {}), ('read', (100,), {}), 'exit']",
 'iu2 rpc=2 [[0,2], 1, 2]': 'raise builtins.IndexError: too many indices for array: array is 2-dimensional, '
                            "but 3 were indexed || io=[('open', ('image-file',), {'mode': 'rb'}), 'enter', "
                            "('seek', (20,), {}), ('read', (100,), {}), ('seek', (140,), {}), ('read', "
                            "(100,), {}), 'exit']",
 'iu2 rpc=2 list[[0,2], 1:3]': "ndarray[<u2(2, 2)][[1, 2], [41, 42]] || io=[('open', ('image-file',), "
                               "{'mode': 'rb'}), 'enter', ('seek', (20,), {}), ('read', (100,), {}), "
                               "('seek', (140,), {}), ('read', (100,), {}), 'exit']",
 'iu2 rpc=2 [[3,1,1], all]': 'ndarray[<u2(3, 20)][[60, 61, 62, 63, 64, 65, 66, 67, 68, 69, 70, 71, 72, 73, '
                             '74, 75, 76, 77, 78, 79], [20, 21, 22, 23, 24, 25, 26, 27, 28, 29, 30, 31, 32, '
                             '33, 34, 35, 36, 37, 38, 39], [20, 21, 22, 23, 24, 25, 26, 27, 28, 29, 30, 31, '
                             "32, 33, 34, 35, 36, 37, 38, 39]] || io=[('open', ('image-file',), {'mode': "
                             "'rb'}), 'enter', ('seek', (140,), {}), ('read', (100,), {}), ('seek', (20,), "
                             "{}), ('read', (100,), {}), 'exit']",
 'iu2 rpc=2 [[3,1,1], 3]': "ndarray[<u2(3,)][63, 23, 23] || io=[('open', ('image-file',), {'mode': 'rb'}), "
                           "'enter', ('seek', (140,), {}), ('read', (100,), {}), ('seek', (20,), {}), "
                           "('read', (100,), {}), 'exit']",
 'iu2 rpc=2 [[3,1,1], -1]': "ndarray[<u2(3,)][79, 39, 39] || io=[('open', ('image-file',), {'mode': 'rb'}), "
                            "'enter', ('seek', (140,), {}), ('read', (100,), {}), ('seek', (20,), {}), "
                            "('read', (100,), {}), 'exit']",
 'iu2 rpc=2 [[3,1,1], 2:]': 'ndarray[<u2(3, 18)][[62, 63, 64, 65, 66, 67, 68, 69, 70, 71, 72, 73, 74, 75, '
                            '76, 77, 78, 79], [22, 23, 24, 25, 26, 27, 28, 29, 30, 31, 32, 33, 34, 35, 36, '
                            '37, 38, 39], [22, 23, 24, 25, 26, 27, 28, 29, 30, 31, 32, 33, 34, 35, 36, 37, '
                            "38, 39]] || io=[('open', ('image-file',), {'mode': 'rb'}), 'enter', ('seek', "
                            "(140,), {}), ('read', (100,), {}), ('seek', (20,), {}), ('read', (100,), {}), "
                            "'exit']",
 'iu2 rpc=2 [[3,1,1], :-2]': 'ndarray[<u2(3, 18)][[60, 61, 62, 63, 64, 65, 66, 67, 68, 69, 70, 71, 72, 73, '
                             '74, 75, 76, 77], [20, 21, 22, 23, 24, 25, 26, 27, 28, 29, 30, 31, 32, 33, 34, '
                             '35, 36, 37], [20, 21, 22, 23, 24, 25, 26, 27, 28, 29, 30, 31, 32, 33, 34, 35, '
                             "36, 37]] || io=[('open', ('image-file',), {'mode': 'rb'}), 'enter', ('seek', "
                             "(140,), {}), ('read', (100,), {}), ('seek', (20,), {}), ('read', (100,), {}), "
                             "'exit']",
 'iu2 rpc=2 [[3,1,1], ::3]': 'ndarray[<u2(3, 7)][[60, 63, 66, 69, 72, 75, 78], [20, 23, 26, 29, 32, 35, 38], '
                             "[20, 23, 26, 29, 32, 35, 38]] || io=[('open', ('image-file',), {'mode': "
                             "'rb'}), 'enter', ('seek', (140,), {}), ('read', (100,), {}), ('seek', (20,), "
                             "{}), ('read', (100,), {}), 'exit']",
 'iu2 rpc=2 [[3,1,1], ::-1]': 'ndarray[<u2(3, 20)][[79, 78, 77, 76, 75, 74, 73, 72, 71, 70, 69, 68, 67, 66, '
                              '65, 64, 63, 62, 61, 60], [39, 38, 37, 36, 35, 34, 33, 32, 31, 30, 29, 28, 27, '
                              '26, 25, 24, 23, 22, 21, 20], [39, 38, 37, 36, 35, 34, 33, 32, 31, 30, 29, 28, '
                              "27, 26, 25, 24, 23, 22, 21, 20]] || io=[('open', ('image-file',), {'mode': "
                              "'rb'}), 'enter', ('seek', (140,), {}), ('read', (100,), {}), ('seek', (20,), "
                              "{}), ('read', (100,), {}), 'exit']",
 'iu2 rpc=2 [[3,1,1], 0:0]': "ndarray[<u2(3, 0)][[], [], []] || io=[('open', ('image-file',), {'mode': "
                             "'rb'}), 'enter', ('seek', (140,), {}), ('read', (100,), {}), ('seek', (20,), "
                             "{}), ('read', (100,), {}), 'exit']",
 'iu2 rpc=2 [[3,1,1], [1,5]]': "ndarray[<u2(3, 2)][[61, 65], [21, 25], [21, 25]] || io=[('open', "
                               "('image-file',), {'mode': 'rb'}), 'enter', ('seek', (140,), {}), ('read', "
                               "(100,), {}), ('seek', (20,), {}), ('read', (100,), {}), 'exit']",
 'iu2 rpc=2 [[3,1,1], 25]': 'raise builtins.IndexError: index 25 is out of bounds for axis 1 with size 20 || '
                            "io=[('open', ('image-file',), {'mode': 'rb'}), 'enter', ('seek', (140,), {}), "
                            "('read', (100,), {}), ('seek', (20,), {}), ('read', (100,), {}), 'exit']",
 'iu2 rpc=2 [[3,1,1], newaxis]': 'ndarray[<u2(3, 1, 20)][[[60, 61, 62, 63, 64, 65, 66, 67, 68, 69, 70, 71, '
                                 '72, 73, 74, 75, 76, 77, 78, 79]], [[20, 21, 22, 23, 24, 25, 26, 27, 28, '
                                 '29, 30, 31, 32, 33, 34, 35, 36, 37, 38, 39]], [[20, 21, 22, 23, 24, 25, '
                                 "26, 27, 28, 29, 30, 31, 32, 33, 34, 35, 36, 37, 38, 39]]] || io=[('open', "
                                 "('image-file',), {'mode': 'rb'}), 'enter', ('seek', (140,), {}), ('read', "
                                 "(100,), {}), ('seek', (20,), {}), ('read', (100,), {}), 'exit']",
 'iu2 rpc=2 [[3,1,1], ellipsis]': 'ndarray[<u2(3, 20)][[60, 61, 62, 63, 64, 65, 66, 67, 68, 69, 70, 71, 72, '
                                  '73, 74, 75, 76, 77, 78, 79], [20, 21, 22, 23, 24, 25, 26, 27, 28, 29, 30, '
                                  '31, 32, 33, 34, 35, 36, 37, 38, 39], [20, 21, 22, 23, 24, 25, 26, 27, 28, '
                                  "29, 30, 31, 32, 33, 34, 35, 36, 37, 38, 39]] || io=[('open', "
                                  "('image-file',), {'mode': 'rb'}), 'enter', ('seek', (140,), {}), ('read', "
                                  "(100,), {}), ('seek', (20,), {}), ('read', (100,), {}), 'exit']",
 'iu2 rpc=2 [[3,1,1],]': 'ndarray[<u2(3, 20)][[60, 61, 62, 63, 64, 65, 66, 67, 68, 69, 70, 71, 72, 73, 74, '
                         '75, 76, 77, 78, 79], [20, 21, 22, 23, 24, 25, 26, 27, 28, 29, 30, 31, 32, 33, 34, '
                         '35, 36, 37, 38, 39], [20, 21, 22, 23, 24, 25, 26, 27, 28, 29, 30, 31, 32, 33, 34, '
                         "35, 36, 37, 38, 39]] || io=[('open', ('image-file',), {'mode': 'rb'}), 'enter', "
                         "('seek', (140,), {}), ('read', (100,), {}), ('seek', (20,), {}), ('read', (100,), "
                         "{}), 'exit']",
 'iu2 rpc=2 [[3,1,1], 1, 2]': 'raise builtins.IndexError: too many indices for array: array is '
                              "2-dimensional, but 3 were indexed || io=[('open', ('image-file',), {'mode': "
                              "'rb'}), 'enter', ('seek', (140,), {}), ('read', (100,), {}), ('seek', (20,), "
                              "{}), ('read', (100,), {}), 'exit']",
 'iu2 rpc=2 list[[3,1,1], 1:3]': "ndarray[<u2(3, 2)][[61, 62], [21, 22], [21, 22]] || io=[('open', "
                                 "('image-file',), {'mode': 'rb'}), 'enter', ('seek', (140,), {}), ('read', "
                                 "(100,), {}), ('seek', (20,), {}), ('read', (100,), {}), 'exit']",
 'iu2 rpc=2 [[0,1], all]': 'ndarray[<u2(2, 20)][[0, 1, 2, 3, 4, 5, 6, 7, 8, 9, 10, 11, 12, 13, 14, 15, 16, '
                           '17, 18, 19], [20, 21, 22, 23, 24, 25, 26, 27, 28, 29, 30, 31, 32, 33, 34, 35, '
                           "36, 37, 38, 39]] || io=[('open', ('image-file',), {'mode': 'rb'}), 'enter', "
                           "('seek', (20,), {}), ('read', (100,), {}), 'exit']",
 'iu2 rpc=2 [[0,1], 3]': "ndarray[<u2(2,)][3, 23] || io=[('open', ('image-file',), {'mode': 'rb'}), 'enter', "
                         "('seek', (20,), {}), ('read', (100,), {}), 'exit']",
 'iu2 rpc=2 [[0,1], -1]': "ndarray[<u2(2,)][19, 39] || io=[('open', ('image-file',), {'mode': 'rb'}), "
                          "'enter', ('seek', (20,), {}), ('read', (100,), {}), 'exit']",
 'iu2 rpc=2 [[0,1], 2:]': 'ndarray[<u2(2, 18)][[2, 3, 4, 5, 6, 7, 8, 9, 10, 11, 12, 13, 14, 15, 16, 17, 18, '
                          '19], [22, 23, 24, 25, 26, 27, 28, 29, 30, 31, 32, 33, 34, 35, 36, 37, 38, 39]] || '
                          "io=[('open', ('image-file',), {'mode': 'rb'}), 'enter', ('seek', (20,), {}), "
                          "('read', (100,), {}), 'exit']",
 'iu2 rpc=2 [[0,1], :-2]': 'ndarray[<u2(2, 18)][[0, 1, 2, 3, 4, 5, 6, 7, 8, 9, 10, 11, 12, 13, 14, 15, 16, '
                           '17], [20, 21, 22, 23, 24, 25, 26, 27, 28, 29, 30, 31, 32, 33, 34, 35, 36, 37]] '
                           "|| io=[('open', ('image-file',), {'mode': 'rb'}), 'enter', ('seek', (20,), {}), "
                           "('read', (100,), {}), 'exit']",
 'iu2 rpc=2 [[0,1], ::3]': 'ndarray[<u2(2, 7)][[0, 3, 6, 9, 12, 15, 18], [20, 23, 26, 29, 32, 35, 38]] || '
                           "io=[('open', ('image-file',), {'mode': 'rb'}), 'enter', ('seek', (20,), {}), "
                           "('read', (100,), {}), 'exit']",
 'iu2 rpc=2 [[0,1], ::-1]': 'ndarray[<u2(2, 20)][[19, 18, 17, 16, 15, 14, 13, 12, 11, 10, 9, 8, 7, 6, 5, 4, '
                            '3, 2, 1, 0], [39, 38, 37, 36, 35, 34, 33, 32, 31, 30, 29, 28, 27, 26, 25, 24, '
                            "23, 22, 21, 20]] || io=[('open', ('image-file',), {'mode': 'rb'}), 'enter', "
                            "('seek', (20,), {}), ('read', (100,), {}), 'exit']",
 'iu2 rpc=2 [[0,1], 0:0]': "ndarray[<u2(2, 0)][[], []] || io=[('open', ('image-file',), {'mode': 'rb'}), "
                           "'enter', ('seek', (20,), {}), ('read', (100,), {}), 'exit']",
 'iu2 rpc=2 [[0,1], [1,5]]': "ndarray[<u2(2, 2)][[1, 5], [21, 25]] || io=[('open', ('image-file',), {'mode': "
                             "'rb'}), 'enter', ('seek', (20,), {}), ('read', (100,), {}), 'exit']",
 'iu2 rpc=2 [[0,1], 25]': 'raise builtins.IndexError: index 25 is out of bounds for axis 1 with size 20 || '
                          "io=[('open', ('image-file',), {'mode': 'rb'}), 'enter', ('seek', (20,), {}), "
                          "('read', (100,), {}), 'exit']",
 'iu2 rpc=2 [[0,1], newaxis]': 'ndarray[<u2(2, 1, 20)][[[0, 1, 2, 3, 4, 5, 6, 7, 8, 9, 10, 11, 12, 13, 14, '
                               '15, 16, 17, 18, 19]], [[20, 21, 22, 23, 24, 25, 26, 27, 28, 29, 30, 31, 32, '
                               "33, 34, 35, 36, 37, 38, 39]]] || io=[('open', ('image-file',), {'mode': "
                               "'rb'}), 'enter', ('seek', (20,), {}), ('read', (100,), {}), 'exit']",
 'iu2 rpc=2 [[0,1], ellipsis]': 'ndarray[<u2(2, 20)][[0, 1, 2, 3, 4, 5, 6, 7, 8, 9, 10, 11, 12, 13, 14, 15, '
                                '16, 17, 18, 19], [20, 21, 22, 23, 24, 25, 26, 27, 28, 29, 30, 31, 32, 33, '
                                "34, 35, 36, 37, 38, 39]] || io=[('open', ('image-file',), {'mode': 'rb'}), "
                                "'enter', ('seek', (20,), {}), ('read', (100,), {}), 'exit']",
 'iu2 rpc=2 [[0,1],]': 'ndarray[<u2(2, 20)][[0, 1, 2, 3, 4, 5, 6, 7, 8, 9, 10, 11, 12, 13, 14, 15, 16, 17, '
                       '18, 19], [20, 21, 22, 23, 24, 25, 26, 27, 28, 29, 30, 31, 32, 33, 34, 35, 36, 37, '
                       "38, 39]] || io=[('open', ('image-file',), {'mode': 'rb'}), 'enter', ('seek', (20,), "
                       "{}), ('read', (100,), {}), 'exit']",
 'iu2 rpc=2 [[0,1], 1, 2]': 'raise builtins.IndexError: too many indices for array: array is 2-dimensional, '
                            "but 3 were indexed || io=[('open', ('image-file',), {'mode': 'rb'}), 'enter', "
                            "('seek', (20,), {}), ('read', (100,), {}), 'exit']",
 'iu2 rpc=2 list[[0,1], 1:3]': "ndarray[<u2(2, 2)][[1, 2], [21, 22]] || io=[('open', ('image-file',), "
                               "{'mode': 'rb'}), 'enter', ('seek', (20,), {}), ('read', (100,), {}), 'exit']",
 'iu2 rpc=2 [[0], all]': 'ndarray[<u2(1, 20)][[0, 1, 2, 3, 4, 5, 6, 7, 8, 9, 10, 11, 12, 13, 14, 15, 16, 17, '
                         "18, 19]] || io=[('open', ('image-file',), {'mode': 'rb'}), 'enter', ('seek', "
                         "(20,), {}), ('read', (100,), {}), 'exit']",
 'iu2 rpc=2 [[0], 3]': "ndarray[<u2(1,)][3] || io=[('open', ('image-file',), {'mode': 'rb'}), 'enter', "
                       "('seek', (20,), {}), ('read', (100,), {}), 'exit']",
 'iu2 rpc=2 [[0], -1]': "ndarray[<u2(1,)][19] || io=[('open', ('image-file',), {'mode': 'rb'}), 'enter', "
                        "('seek', (20,), {}), ('read', (100,), {}), 'exit']",
 'iu2 rpc=2 [[0], 2:]': 'ndarray[<u2(1, 18)][[2, 3, 4, 5, 6, 7, 8, 9, 10, 11, 12, 13, 14, 15, 16, 17, 18, '
                        "19]] || io=[('open', ('image-file',), {'mode': 'rb'}), 'enter', ('seek', (20,), "
                        "{}), ('read', (100,), {}), 'exit']",
 'iu2 rpc=2 [[0], :-2]': 'ndarray[<u2(1, 18)][[0, 1, 2, 3, 4, 5, 6, 7, 8, 9, 10, 11, 12, 13, 14, 15, 16, '
                         "17]] || io=[('open', ('image-file',), {'mode': 'rb'}), 'enter', ('seek', (20,), "
                         "{}), ('read', (100,), {}), 'exit']",
 'iu2 rpc=2 [[0], ::3]': "ndarray[<u2(1, 7)][[0, 3, 6, 9, 12, 15, 18]] || io=[('open', ('image-file',), "
                         "{'mode': 'rb'}), 'enter', ('seek', (20,), {}), ('read', (100,), {}), 'exit']",
 'iu2 rpc=2 [[0], ::-1]': 'ndarray[<u2(1, 20)][[19, 18, 17, 16, 15, 14, 13, 12, 11, 10, 9, 8, 7, 6, 5, 4, 3, '
                          "2, 1, 0]] || io=[('open', ('image-file',), {'mode': 'rb'}), 'enter', ('seek', "
                          "(20,), {}), ('read', (100,), {}), 'exit']",
 'iu2 rpc=2 [[0], 0:0]': "ndarray[<u2(1, 0)][[]] || io=[('open', ('image-file',), {'mode': 'rb'}), 'enter', "
                         "('seek', (20,), {}), ('read', (100,), {}), 'exit']",
 'iu2 rpc=2 [[0], [1,5]]': "ndarray[<u2(1, 2)][[1, 5]] || io=[('open', ('image-file',), {'mode': 'rb'}), "
                           "'enter', ('seek', (20,), {}), ('read', (100,), {}), 'exit']",
 'iu2 rpc=2 [[0], 25]': 'raise builtins.IndexError: index 25 is out of bounds for axis 1 with size 20 || '
                        "io=[('open', ('image-file',), {'mode': 'rb'}), 'enter', ('seek', (20,), {}), "
                        "('read', (100,), {}), 'exit']",
 'iu2 rpc=2 [[0], newaxis]': 'ndarray[<u2(1, 1, 20)][[[0, 1, 2, 3, 4, 5, 6, 7, 8, 9, 10, 11, 12, 13, 14, 15, '
                             "16, 17, 18, 19]]] || io=[('open', ('image-file',), {'mode': 'rb'}), 'enter', "
                             "('seek', (20,), {}), ('read', (100,), {}), 'exit']",
 'iu2 rpc=2 [[0], ellipsis]': 'ndarray[<u2(1, 20)][[0, 1, 2, 3, 4, 5, 6, 7, 8, 9, 10, 11, 12, 13, 14, 15, '
                              "16, 17, 18, 19]] || io=[('open', ('image-file',), {'mode': 'rb'}), 'enter', "
                              "('seek', (20,), {}), ('read', (100,), {}), 'exit']",
 'iu2 rpc=2 [[0],]': 'ndarray[<u2(1, 20)][[0, 1, 2, 3, 4, 5, 6, 7, 8, 9, 10, 11, 12, 13, 14, 15, 16, 17, 18, '
                     "19]] || io=[('open', ('image-file',), {'mode': 'rb'}), 'enter', ('seek', (20,), {}), "
                     "('read', (100,), {}), 'exit']",
 'iu2 rpc=2 [[0], 1, 2]': 'raise builtins.IndexError: too many indices for array: array is 2-dimensional, '
                          "but 3 were indexed || io=[('open', ('image-file',), {'mode': 'rb'}), 'enter', "
                          "('seek', (20,), {}), ('read', (100,), {}), 'exit']",
 'iu2 rpc=2 list[[0], 1:3]': "ndarray[<u2(1, 2)][[1, 2]] || io=[('open', ('image-file',), {'mode': 'rb'}), "
                             "'enter', ('seek', (20,), {}), ('read', (100,), {}), 'exit']",
 'iu2 rpc=2 [[-1,0], all]': 'ndarray[<u2(2, 20)][[80, 81, 82, 83, 84, 85, 86, 87, 88, 89, 90, 91, 92, 93, '
                            '94, 95, 96, 97, 98, 99], [0, 1, 2, 3, 4, 5, 6, 7, 8, 9, 10, 11, 12, 13, 14, 15, '
                            "16, 17, 18, 19]] || io=[('open', ('image-file',), {'mode': 'rb'}), 'enter', "
                            "('seek', (260,), {}), ('read', (40,), {}), ('seek', (20,), {}), ('read', "
                            "(100,), {}), 'exit']",
 'iu2 rpc=2 [[-1,0], 3]': "ndarray[<u2(2,)][83, 3] || io=[('open', ('image-file',), {'mode': 'rb'}), "
                          "'enter', ('seek', (260,), {}), ('read', (40,), {}), ('seek', (20,), {}), ('read', "
                          "(100,), {}), 'exit']",
 'iu2 rpc=2 [[-1,0], -1]': "ndarray[<u2(2,)][99, 19] || io=[('open', ('image-file',), {'mode': 'rb'}), "
                           "'enter', ('seek', (260,), {}), ('read', (40,), {}), ('seek', (20,), {}), "
                           "('read', (100,), {}), 'exit']",
 'iu2 rpc=2 [[-1,0], 2:]': 'ndarray[<u2(2, 18)][[82, 83, 84, 85, 86, 87, 88, 89, 90, 91, 92, 93, 94, 95, 96, '
                           '97, 98, 99], [2, 3, 4, 5, 6, 7, 8, 9, 10, 11, 12, 13, 14, 15, 16, 17, 18, 19]] '
                           "|| io=[('open', ('image-file',), {'mode': 'rb'}), 'enter', ('seek', (260,), {}), "
                           "('read', (40,), {}), ('seek', (20,), {}), ('read', (100,), {}), 'exit']",
 'iu2 rpc=2 [[-1,0], :-2]': 'ndarray[<u2(2, 18)][[80, 81, 82, 83, 84, 85, 86, 87, 88, 89, 90, 91, 92, 93, '
                            '94, 95, 96, 97], [0, 1, 2, 3, 4, 5, 6, 7, 8, 9, 10, 11, 12, 13, 14, 15, 16, '
                            "17]] || io=[('open', ('image-file',), {'mode': 'rb'}), 'enter', ('seek', "
                            "(260,), {}), ('read', (40,), {}), ('seek', (20,), {}), ('read', (100,), {}), "
                            "'exit']",
 'iu2 rpc=2 [[-1,0], ::3]': 'ndarray[<u2(2, 7)][[80, 83, 86, 89, 92, 95, 98], [0, 3, 6, 9, 12, 15, 18]] || '
                            "io=[('open', ('image-file',), {'mode': 'rb'}), 'enter', ('seek', (260,), {}), "
                            "('read', (40,), {}), ('seek', (20,), {}), ('read', (100,), {}), 'exit']",
 'iu2 rpc=2 [[-1,0], ::-1]': 'ndarray[<u2(2, 20)][[99, 98, 97, 96, 95, 94, 93, 92, 91, 90, 89, 88, 87, 86, '
                             '85, 84, 83, 82, 81, 80], [19, 18, 17, 16, 15, 14, 13, 12, 11, 10, 9, 8, 7, 6, '
                             "5, 4, 3, 2, 1, 0]] || io=[('open', ('image-file',), {'mode': 'rb'}), 'enter', "
                             "('seek', (260,), {}), ('read', (40,), {}), ('seek', (20,), {}), ('read', "
                             "(100,), {}), 'exit']",
 'iu2 rpc=2 [[-1,0], 0:0]': "ndarray[<u2(2, 0)][[], []] || io=[('open', ('image-file',), {'mode': 'rb'}), "
                            "'enter', ('seek', (260,), {}), ('read', (40,), {}), ('seek', (20,), {}), "
                            "('read', (100,), {}), 'exit']",
 'iu2 rpc=2 [[-1,0], [1,5]]': "ndarray[<u2(2, 2)][[81, 85], [1, 5]] || io=[('open', ('image-file',), "
                              "{'mode': 'rb'}), 'enter', ('seek', (260,), {}), ('read', (40,), {}), ('seek', "
                              "(20,), {}), ('read', (100,), {}), 'exit']",
 'iu2 rpc=2 [[-1,0], 25]': 'raise builtins.IndexError: index 25 is out of bounds for axis 1 with size 20 || '
                           "io=[('open', ('image-file',), {'mode': 'rb'}), 'enter', ('seek', (260,), {}), "
                           "('read', (40,), {}), ('seek', (20,), {}), ('read', (100,), {}), 'exit']",
 'iu2 rpc=2 [[-1,0], newaxis]': 'ndarray[<u2(2, 1, 20)][[[80, 81, 82, 83, 84, 85, 86, 87, 88, 89, 90, 91, '
                                '92, 93, 94, 95, 96, 97, 98, 99]], [[0, 1, 2, 3, 4, 5, 6, 7, 8, 9, 10, 11, '
                                "12, 13, 14, 15, 16, 17, 18, 19]]] || io=[('open', ('image-file',), {'mode': "
                                "'rb'}), 'enter', ('seek', (260,), {}), ('read', (40,), {}), ('seek', (20,), "
                                "{}), ('read', (100,), {}), 'exit']",
 'iu2 rpc=2 [[-1,0], ellipsis]': 'ndarray[<u2(2, 20)][[80, 81, 82, 83, 84, 85, 86, 87, 88, 89, 90, 91, 92, '
                                 '93, 94, 95, 96, 97, 98, 99], [0, 1, 2, 3, 4, 5, 6, 7, 8, 9, 10, 11, 12, '
                                 "13, 14, 15, 16, 17, 18, 19]] || io=[('open', ('image-file',), {'mode': "
                                 "'rb'}), 'enter', ('seek', (260,), {}), ('read', (40,), {}), ('seek', "
                                 "(20,), {}), ('read', (100,), {}), 'exit']",
 'iu2 rpc=2 [[-1,0],]': 'ndarray[<u2(2, 20)][[80, 81, 82, 83, 84, 85, 86, 87, 88, 89, 90, 91, 92, 93, 94, '
                        '95, 96, 97, 98, 99], [0, 1, 2, 3, 4, 5, 6, 7, 8, 9, 10, 11, 12, 13, 14, 15, 16, 17, '
                        "18, 19]] || io=[('open', ('image-file',), {'mode': 'rb'}), 'enter', ('seek', "
                        "(260,), {}), ('read', (40,), {}), ('seek', (20,), {}), ('read', (100,), {}), "
                        "'exit']",
 'iu2 rpc=2 [[-1,0], 1, 2]': 'raise builtins.IndexError: too many indices for array: array is 2-dimensional, '
                             "but 3 were indexed || io=[('open', ('image-file',), {'mode': 'rb'}), 'enter', "
                             "('seek', (260,), {}), ('read', (40,), {}), ('seek', (20,), {}), ('read', "
                             "(100,), {}), 'exit']",
 'iu2 rpc=2 list[[-1,0], 1:3]': "ndarray[<u2(2, 2)][[81, 82], [1, 2]] || io=[('open', ('image-file',), "
                                "{'mode': 'rb'}), 'enter', ('seek', (260,), {}), ('read', (40,), {}), "
                                "('seek', (20,), {}), ('read', (100,), {}), 'exit']",
 'iu2 rpc=2 [[], all]': "ndarray[<u2(0, 20)][] || io=[('open', ('image-file',), {'mode': 'rb'}), 'enter', "
                        "'exit']",
 'iu2 rpc=2 [[], 3]': "ndarray[<u2(0,)][] || io=[('open', ('image-file',), {'mode': 'rb'}), 'enter', 'exit']",
 'iu2 rpc=2 [[], -1]': "ndarray[<u2(0,)][] || io=[('open', ('image-file',), {'mode': 'rb'}), 'enter', "
                       "'exit']",
 'iu2 rpc=2 [[], 2:]': "ndarray[<u2(0, 18)][] || io=[('open', ('image-file',), {'mode': 'rb'}), 'enter', "
                       "'exit']",
 'iu2 rpc=2 [[], :-2]': "ndarray[<u2(0, 18)][] || io=[('open', ('image-file',), {'mode': 'rb'}), 'enter', "
                        "'exit']",
 'iu2 rpc=2 [[], ::3]': "ndarray[<u2(0, 7)][] || io=[('open', ('image-file',), {'mode': 'rb'}), 'enter', "
                        "'exit']",
 'iu2 rpc=2 [[], ::-1]': "ndarray[<u2(0, 20)][] || io=[('open', ('image-file',), {'mode': 'rb'}), 'enter', "
                         "'exit']",
 'iu2 rpc=2 [[], 0:0]': "ndarray[<u2(0, 0)][] || io=[('open', ('image-file',), {'mode': 'rb'}), 'enter', "
                        "'exit']",
 'iu2 rpc=2 [[], [1,5]]': "ndarray[<u2(0, 2)][] || io=[('open', ('image-file',), {'mode': 'rb'}), 'enter', "
                          "'exit']",
 'iu2 rpc=2 [[], 25]': 'raise builtins.IndexError: index 25 is out of bounds for axis 1 with size 20 || '
                       "io=[('open', ('image-file',), {'mode': 'rb'}), 'enter', 'exit']",
 'iu2 rpc=2 [[], newaxis]': "ndarray[<u2(0, 1, 20)][] || io=[('open', ('image-file',), {'mode': 'rb'}), "
                            "'enter', 'exit']",
 'iu2 rpc=2 [[], ellipsis]': "ndarray[<u2(0, 20)][] || io=[('open', ('image-file',), {'mode': 'rb'}), "
                             "'enter', 'exit']",
 'iu2 rpc=2 [[],]': "ndarray[<u2(0, 20)][] || io=[('open', ('image-file',), {'mode': 'rb'}), 'enter', "
                    "'exit']",
 'iu2 rpc=2 [[], 1, 2]': 'raise builtins.IndexError: too many indices for array: array is 2-dimensional, but '
                         "3 were indexed || io=[('open', ('image-file',), {'mode': 'rb'}), 'enter', 'exit']",
 'iu2 rpc=2 list[[], 1:3]': "ndarray[<u2(0, 2)][] || io=[('open', ('image-file',), {'mode': 'rb'}), 'enter', "
                            "'exit']",
 'iu2 rpc=2 [array[4,0], all]': 'ndarray[<u2(2, 20)][[80, 81, 82, 83, 84, 85, 86, 87, 88, 89, 90, 91, 92, '
                                '93, 94, 95, 96, 97, 98, 99], [0, 1, 2, 3, 4, 5, 6, 7, 8, 9, 10, 11, 12, 13, '
                                "14, 15, 16, 17, 18, 19]] || io=[('open', ('image-file',), {'mode': 'rb'}), "
                                "'enter', ('seek', (260,), {}), ('read', (40,), {}), ('seek', (20,), {}), "
                                "('read', (100,), {}), 'exit']",
 'iu2 rpc=2 [array[4,0], 3]': "ndarray[<u2(2,)][83, 3] || io=[('open', ('image-file',), {'mode': 'rb'}), "
                              "'enter', ('seek', (260,), {}), ('read', (40,), {}), ('seek', (20,), {}), "
                              "('read', (100,), {}), 'exit']",
 'iu2 rpc=2 [array[4,0], -1]': "ndarray[<u2(2,)][99, 19] || io=[('open', ('image-file',), {'mode': 'rb'}), "
                               "'enter', ('seek', (260,), {}), ('read', (40,), {}), ('seek', (20,), {}), "
                               "('read', (100,), {}), 'exit']",
 'iu2 rpc=2 [array[4,0], 2:]': 'ndarray[<u2(2, 18)][[82, 83, 84, 85, 86, 87, 88, 89, 90, 91, 92, 93, 94, 95, '
                               '96, 97, 98, 99], [2, 3, 4, 5, 6, 7, 8, 9, 10, 11, 12, 13, 14, 15, 16, 17, '
                               "18, 19]] || io=[('open', ('image-file',), {'mode': 'rb'}), 'enter', ('seek', "
                               "(260,), {}), ('read', (40,), {}), ('seek', (20,), {}), ('read', (100,), {}), "
                               "'exit']",
 'iu2 rpc=2 [array[4,0], :-2]': 'ndarray[<u2(2, 18)][[80, 81, 82, 83, 84, 85, 86, 87, 88, 89, 90, 91, 92, '
                                '93, 94, 95, 96, 97], [0, 1, 2, 3, 4, 5, 6, 7, 8, 9, 10, 11, 12, 13, 14, 15, '
                                "16, 17]] || io=[('open', ('image-file',), {'mode': 'rb'}), 'enter', "
                                "('seek', (260,), {}), ('read', (40,), {}), ('seek', (20,), {}), ('read', "
                                "(100,), {}), 'exit']",
 'iu2 rpc=2 [array[4,0], ::3]': 'ndarray[<u2(2, 7)][[80, 83, 86, 89, 92, 95, 98], [0, 3, 6, 9, 12, 15, 18]] '
                                "|| io=[('open', ('image-file',), {'mode': 'rb'}), 'enter', ('seek', (260,), "
                                "{}), ('read', (40,), {}), ('seek', (20,), {}), ('read', (100,), {}), "
                                "'exit']",
 'iu2 rpc=2 [array[4,0], ::-1]': 'ndarray[<u2(2, 20)][[99, 98, 97, 96, 95, 94, 93, 92, 91, 90, 89, 88, 87, '
                                 '86, 85, 84, 83, 82, 81, 80], [19, 18, 17, 16, 15, 14, 13, 12, 11, 10, 9, '
                                 "8, 7, 6, 5, 4, 3, 2, 1, 0]] || io=[('open', ('image-file',), {'mode': "
                                 "'rb'}), 'enter', ('seek', (260,), {}), ('read', (40,), {}), ('seek', "
                                 "(20,), {}), ('read', (100,), {}), 'exit']",
 'iu2 rpc=2 [array[4,0], 0:0]': "ndarray[<u2(2, 0)][[], []] || io=[('open', ('image-file',), {'mode': "
                                "'rb'}), 'enter', ('seek', (260,), {}), ('read', (40,), {}), ('seek', (20,), "
                                "{}), ('read', (100,), {}), 'exit']",
 'iu2 rpc=2 [array[4,0], [1,5]]': "ndarray[<u2(2, 2)][[81, 85], [1, 5]] || io=[('open', ('image-file',), "
                                  "{'mode': 'rb'}), 'enter', ('seek', (260,), {}), ('read', (40,), {}), "
                                  "('seek', (20,), {}), ('read', (100,), {}), 'exit']",
 'iu2 rpc=2 [array[4,0], 25]': 'raise builtins.IndexError: index 25 is out of bounds for axis 1 with size 20 '
                               "|| io=[('open', ('image-file',), {'mode': 'rb'}), 'enter', ('seek', (260,), "
                               "{}), ('read', (40,), {}), ('seek', (20,), {}), ('read', (100,), {}), 'exit']",
 'iu2 rpc=2 [array[4,0], newaxis]': 'ndarray[<u2(2, 1, 20)][[[80, 81, 82, 83, 84, 85, 86, 87, 88, 89, 90, '
                                    '91, 92, 93, 94, 95, 96, 97, 98, 99]], [[0, 1, 2, 3, 4, 5, 6, 7, 8, 9, '
                                    "10, 11, 12, 13, 14, 15, 16, 17, 18, 19]]] || io=[('open', "
                                    "('image-file',), {'mode': 'rb'}), 'enter', ('seek', (260,), {}), "
                                    "('read', (40,), {}), ('seek', (20,), {}), ('read', (100,), {}), 'exit']",
 'iu2 rpc=2 [array[4,0], ellipsis]': 'ndarray[<u2(2, 20)][[80, 81, 82, 83, 84, 85, 86, 87, 88, 89, 90, 91, '
                                     '92, 93, 94, 95, 96, 97, 98, 99], [0, 1, 2, 3, 4, 5, 6, 7, 8, 9, 10, '
                                     "11, 12, 13, 14, 15, 16, 17, 18, 19]] || io=[('open', ('image-file',), "
                                     "{'mode': 'rb'}), 'enter', ('seek', (260,), {}), ('read', (40,), {}), "
                                     "('seek', (20,), {}), ('read', (100,), {}), 'exit']",
 'iu2 rpc=2 [array[4,0],]': 'ndarray[<u2(2, 20)][[80, 81, 82, 83, 84, 85, 86, 87, 88, 89, 90, 91, 92, 93, '
                            '94, 95, 96, 97, 98, 99], [0, 1, 2, 3, 4, 5, 6, 7, 8, 9, 10, 11, 12, 13, 14, 15, '
                            "16, 17, 18, 19]] || io=[('open', ('image-file',), {'mode': 'rb'}), 'enter', "
                            "('seek', (260,), {}), ('read', (40,), {}), ('seek', (20,), {}), ('read', "
                            "(100,), {}), 'exit']",
 'iu2 rpc=2 [array[4,0], 1, 2]': 'raise builtins.IndexError: too many indices for array: array is '
                                 "2-dimensional, but 3 were indexed || io=[('open', ('image-file',), "
                                 "{'mode': 'rb'}), 'enter', ('seek', (260,), {}), ('read', (40,), {}), "
                                 "('seek', (20,), {}), ('read', (100,), {}), 'exit']",
 'iu2 rpc=2 list[array[4,0], 1:3]': "ndarray[<u2(2, 2)][[81, 82], [1, 2]] || io=[('open', ('image-file',), "
                                    "{'mode': 'rb'}), 'enter', ('seek', (260,), {}), ('read', (40,), {}), "
                                    "('seek', (20,), {}), ('read', (100,), {}), 'exit']",
 'iu2 rpc=2 [(1,3), all]': 'ndarray[<u2(2, 20)][[20, 21, 22, 23, 24, 25, 26, 27, 28, 29, 30, 31, 32, 33, 34, '
                           '35, 36, 37, 38, 39], [60, 61, 62, 63, 64, 65, 66, 67, 68, 69, 70, 71, 72, 73, '
                           "74, 75, 76, 77, 78, 79]] || io=[('open', ('image-file',), {'mode': 'rb'}), "
                           "'enter', ('seek', (20,), {}), ('read', (100,), {}), ('seek', (140,), {}), "
                           "('read', (100,), {}), 'exit']",
 'iu2 rpc=2 [(1,3), 3]': "ndarray[<u2(2,)][23, 63] || io=[('open', ('image-file',), {'mode': 'rb'}), "
                         "'enter', ('seek', (20,), {}), ('read', (100,), {}), ('seek', (140,), {}), ('read', "
                         "(100,), {}), 'exit']",
 'iu2 rpc=2 [(1,3), -1]': "ndarray[<u2(2,)][39, 79] || io=[('open', ('image-file',), {'mode': 'rb'}), "
                          "'enter', ('seek', (20,), {}), ('read', (100,), {}), ('seek', (140,), {}), "
                          "('read', (100,), {}), 'exit']",
 'iu2 rpc=2 [(1,3), 2:]': 'ndarray[<u2(2, 18)][[22, 23, 24, 25, 26, 27, 28, 29, 30, 31, 32, 33, 34, 35, 36, '
                          '37, 38, 39], [62, 63, 64, 65, 66, 67, 68, 69, 70, 71, 72, 73, 74, 75, 76, 77, 78, '
                          "79]] || io=[('open', ('image-file',), {'mode': 'rb'}), 'enter', ('seek', (20,), "
                          "{}), ('read', (100,), {}), ('seek', (140,), {}), ('read', (100,), {}), 'exit']",
 'iu2 rpc=2 [(1,3), :-2]': 'ndarray[<u2(2, 18)][[20, 21, 22, 23, 24, 25, 26, 27, 28, 29, 30, 31, 32, 33, 34, '
                           '35, 36, 37], [60, 61, 62, 63, 64, 65, 66, 67, 68, 69, 70, 71, 72, 73, 74, 75, '
                           "76, 77]] || io=[('open', ('image-file',), {'mode': 'rb'}), 'enter', ('seek', "
                           "(20,), {}), ('read', (100,), {}), ('seek', (140,), {}), ('read', (100,), {}), "
                           "'exit']",
 'iu2 rpc=2 [(1,3), ::3]': 'ndarray[<u2(2, 7)][[20, 23, 26, 29, 32, 35, 38], [60, 63, 66, 69, 72, 75, 78]] '
                           "|| io=[('open', ('image-file',), {'mode': 'rb'}), 'enter', ('seek', (20,), {}), "
                           "('read', (100,), {}), ('seek', (140,), {}), ('read', (100,), {}), 'exit']",
 'iu2 rpc=2 [(1,3), ::-1]': 'ndarray[<u2(2, 20)][[39, 38, 37, 36, 35, 34, 33, 32, 31, 30, 29, 28, 27, 26, '
                            '25, 24, 23, 22, 21, 20], [79, 78, 77, 76, 75, 74, 73, 72, 71, 70, 69, 68, 67, '
                            "66, 65, 64, 63, 62, 61, 60]] || io=[('open', ('image-file',), {'mode': 'rb'}), "
                            "'enter', ('seek', (20,), {}), ('read', (100,), {}), ('seek', (140,), {}), "
                            "('read', (100,), {}), 'exit']",
 'iu2 rpc=2 [(1,3), 0:0]': "ndarray[<u2(2, 0)][[], []] || io=[('open', ('image-file',), {'mode': 'rb'}), "
                           "'enter', ('seek', (20,), {}), ('read', (100,), {}), ('seek', (140,), {}), "
                           "('read', (100,), {}), 'exit']",
 'iu2 rpc=2 [(1,3), [1,5]]': "ndarray[<u2(2, 2)][[21, 25], [61, 65]] || io=[('open', ('image-file',), "
                             "{'mode': 'rb'}), 'enter', ('seek', (20,), {}), ('read', (100,), {}), ('seek', "
                             "(140,), {}), ('read', (100,), {}), 'exit']",
 'iu2 rpc=2 [(1,3), 25]': 'raise builtins.IndexError: index 25 is out of bounds for axis 1 with size 20 || '
                          "io=[('open', ('image-file',), {'mode': 'rb'}), 'enter', ('seek', (20,), {}), "
                          "('read', (100,), {}), ('seek', (140,), {}), ('read', (100,), {}), 'exit']",
 'iu2 rpc=2 [(1,3), newaxis]': 'ndarray[<u2(2, 1, 20)][[[20, 21, 22, 23, 24, 25, 26, 27, 28, 29, 30, 31, 32, '
                               '33, 34, 35, 36, 37, 38, 39]], [[60, 61, 62, 63, 64, 65, 66, 67, 68, 69, 70, '
                               "71, 72, 73, 74, 75, 76, 77, 78, 79]]] || io=[('open', ('image-file',), "
                               "{'mode': 'rb'}), 'enter', ('seek', (20,), {}), ('read', (100,), {}), "
                               "('seek', (140,), {}), ('read', (100,), {}), 'exit']",
 'iu2 rpc=2 [(1,3), ellipsis]': 'ndarray[<u2(2, 20)][[20, 21, 22, 23, 24, 25, 26, 27, 28, 29, 30, 31, 32, '
                                '33, 34, 35, 36, 37, 38, 39], [60, 61, 62, 63, 64, 65, 66, 67, 68, 69, 70, '
                                "71, 72, 73, 74, 75, 76, 77, 78, 79]] || io=[('open', ('image-file',), "
                                "{'mode': 'rb'}), 'enter', ('seek', (20,), {}), ('read', (100,), {}), "
                                "('seek', (140,), {}), ('read', (100,), {}), 'exit']",
 'iu2 rpc=2 [(1,3),]': 'ndarray[<u2(2, 20)][[20, 21, 22, 23, 24, 25, 26, 27, 28, 29, 30, 31, 32, 33, 34, 35, '
                       '36, 37, 38, 39], [60, 61, 62, 63, 64, 65, 66, 67, 68, 69, 70, 71, 72, 73, 74, 75, '
                       "76, 77, 78, 79]] || io=[('open', ('image-file',), {'mode': 'rb'}), 'enter', ('seek', "
                       "(20,), {}), ('read', (100,), {}), ('seek', (140,), {}), ('read', (100,), {}), "
                       "'exit']",
 'iu2 rpc=2 [(1,3), 1, 2]': 'raise builtins.IndexError: too many indices for array: array is 2-dimensional, '
                            "but 3 were indexed || io=[('open', ('image-file',), {'mode': 'rb'}), 'enter', "
                            "('seek', (20,), {}), ('read', (100,), {}), ('seek', (140,), {}), ('read', "
                            "(100,), {}), 'exit']",
 'iu2 rpc=2 list[(1,3), 1:3]': "ndarray[<u2(2, 2)][[21, 22], [61, 62]] || io=[('open', ('image-file',), "
                               "{'mode': 'rb'}), 'enter', ('seek', (20,), {}), ('read', (100,), {}), "
                               "('seek', (140,), {}), ('read', (100,), {}), 'exit']",
 'iu2 rpc=2 [range(1,4), all]': 'ndarray[<u2(3, 20)][[20, 21, 22, 23, 24, 25, 26, 27, 28, 29, 30, 31, 32, '
                                '33, 34, 35, 36, 37, 38, 39], [40, 41, 42, 43, 44, 45, 46, 47, 48, 49, 50, '
                                '51, 52, 53, 54, 55, 56, 57, 58, 59], [60, 61, 62, 63, 64, 65, 66, 67, 68, '
                                "69, 70, 71, 72, 73, 74, 75, 76, 77, 78, 79]] || io=[('open', "
                                "('image-file',), {'mode': 'rb'}), 'enter', ('seek', (20,), {}), ('read', "
                                "(100,), {}), ('seek', (140,), {}), ('read', (100,), {}), 'exit']",
 'iu2 rpc=2 [range(1,4), 3]': "ndarray[<u2(3,)][23, 43, 63] || io=[('open', ('image-file',), {'mode': "
                              "'rb'}), 'enter', ('seek', (20,), {}), ('read', (100,), {}), ('seek', (140,), "
                              "{}), ('read', (100,), {}), 'exit']",
 'iu2 rpc=2 [range(1,4), -1]': "ndarray[<u2(3,)][39, 59, 79] || io=[('open', ('image-file',), {'mode': "
                               "'rb'}), 'enter', ('seek', (20,), {}), ('read', (100,), {}), ('seek', (140,), "
                               "{}), ('read', (100,), {}), 'exit']",
 'iu2 rpc=2 [range(1,4), 2:]': 'ndarray[<u2(3, 18)][[22, 23, 24, 25, 26, 27, 28, 29, 30, 31, 32, 33, 34, 35, '
                               '36, 37, 38, 39], [42, 43, 44, 45, 46, 47, 48, 49, 50, 51, 52, 53, 54, 55, '
                               '56, 57, 58, 59], [62, 63, 64, 65, 66, 67, 68, 69, 70, 71, 72, 73, 74, 75, '
                               "76, 77, 78, 79]] || io=[('open', ('image-file',), {'mode': 'rb'}), 'enter', "
                               "('seek', (20,), {}), ('read', (100,), {}), ('seek', (140,), {}), ('read', "
                               "(100,), {}), 'exit']",
 'iu2 rpc=2 [range(1,4), :-2]': 'ndarray[<u2(3, 18)][[20, 21, 22, 23, 24, 25, 26, 27, 28, 29, 30, 31, 32, '
                                '33, 34, 35, 36, 37], [40, 41, 42, 43, 44, 45, 46, 47, 48, 49, 50, 51, 52, '
                                '53, 54, 55, 56, 57], [60, 61, 62, 63, 64, 65, 66, 67, 68, 69, 70, 71, 72, '
                                "73, 74, 75, 76, 77]] || io=[('open', ('image-file',), {'mode': 'rb'}), "
                                "'enter', ('seek', (20,), {}), ('read', (100,), {}), ('seek', (140,), {}), "
                                "('read', (100,), {}), 'exit']",
 'iu2 rpc=2 [range(1,4), ::3]': 'ndarray[<u2(3, 7)][[20, 23, 26, 29, 32, 35, 38], [40, 43, 46, 49, 52, 55, '
                                "58], [60, 63, 66, 69, 72, 75, 78]] || io=[('open', ('image-file',), "
                                "{'mode': 'rb'}), 'enter', ('seek', (20,), {}), ('read', (100,), {}), "
                                "('seek', (140,), {}), ('read', (100,), {}), 'exit']",
 'iu2 rpc=2 [range(1,4), ::-1]': 'ndarray[<u2(3, 20)][[39, 38, 37, 36, 35, 34, 33, 32, 31, 30, 29, 28, 27, '
                                 '26, 25, 24, 23, 22, 21, 20], [59, 58, 57, 56, 55, 54, 53, 52, 51, 50, 49, '
                                 '48, 47, 46, 45, 44, 43, 42, 41, 40], [79, 78, 77, 76, 75, 74, 73, 72, 71, '
                                 "70, 69, 68, 67, 66, 65, 64, 63, 62, 61, 60]] || io=[('open', "
                                 "('image-file',), {'mode': 'rb'}), 'enter', ('seek', (20,), {}), ('read', "
                                 "(100,), {}), ('seek', (140,), {}), ('read', (100,), {}), 'exit']",
 'iu2 rpc=2 [range(1,4), 0:0]': "ndarray[<u2(3, 0)][[], [], []] || io=[('open', ('image-file',), {'mode': "
                                "'rb'}), 'enter', ('seek', (20,), {}), ('read', (100,), {}), ('seek', "
                                "(140,), {}), ('read', (100,), {}), 'exit']",
 'iu2 rpc=2 [range(1,4), [1,5]]': "ndarray[<u2(3, 2)][[21, 25], [41, 45], [61, 65]] || io=[('open', "
                                  "('image-file',), {'mode': 'rb'}), 'enter', ('seek', (20,), {}), ('read', "
                                  "(100,), {}), ('seek', (140,), {}), ('read', (100,), {}), 'exit']",
 'iu2 rpc=2 [range(1,4), 25]': 'raise builtins.IndexError: index 25 is out of bounds for axis 1 with size 20 '
                               "|| io=[('open', ('image-file',), {'mode': 'rb'}), 'enter', ('seek', (20,), "
                               "{}), ('read', (100,), {}), ('seek', (140,), {}), ('read', (100,), {}), "
                               "'exit']",
 'iu2 rpc=2 [range(1,4), newaxis]': 'ndarray[<u2(3, 1, 20)][[[20, 21, 22, 23, 24, 25, 26, 27, 28, 29, 30, '
                                    '31, 32, 33, 34, 35, 36, 37, 38, 39]], [[40, 41, 42, 43, 44, 45, 46, 47, '
                                    '48, 49, 50, 51, 52, 53, 54, 55, 56, 57, 58, 59]], [[60, 61, 62, 63, 64, '
                                    '65, 66, 67, 68, 69, 70, 71, 72, 73, 74, 75, 76, 77, 78, 79]]] || '
                                    "io=[('open', ('image-file',), {'mode': 'rb'}), 'enter', ('seek', (20,), "
                                    "{}), ('read', (100,), {}), ('seek', (140,), {}), ('read', (100,), {}), "
                                    "'exit']",
 'iu2 rpc=2 [range(1,4), ellipsis]': 'ndarray[<u2(3, 20)][[20, 21, 22, 23, 24, 25, 26, 27, 28, 29, 30, 31, '
                                     '32, 33, 34, 35, 36, 37, 38, 39], [40, 41, 42, 43, 44, 45, 46, 47, 48, '
                                     '49, 50, 51, 52, 53, 54, 55, 56, 57, 58, 59], [60, 61, 62, 63, 64, 65, '
                                     '66, 67, 68, 69, 70, 71, 72, 73, 74, 75, 76, 77, 78, 79]] || '
                                     "io=[('open', ('image-file',), {'mode': 'rb'}), 'enter', ('seek', "
                                     "(20,), {}), ('read', (100,), {}), ('seek', (140,), {}), ('read', "
                                     "(100,), {}), 'exit']",
 'iu2 rpc=2 [range(1,4),]': 'ndarray[<u2(3, 20)][[20, 21, 22, 23, 24, 25, 26, 27, 28, 29, 30, 31, 32, 33, '
                            '34, 35, 36, 37, 38, 39], [40, 41, 42, 43, 44, 45, 46, 47, 48, 49, 50, 51, 52, '
                            '53, 54, 55, 56, 57, 58, 59], [60, 61, 62, 63, 64, 65, 66, 67, 68, 69, 70, 71, '
                            "72, 73, 74, 75, 76, 77, 78, 79]] || io=[('open', ('image-file',), {'mode': "
                            "'rb'}), 'enter', ('seek', (20,), {}), ('read', (100,), {}), ('seek', (140,), "
                            "{}), ('read', (100,), {}), 'exit']",
 'iu2 rpc=2 [range(1,4), 1, 2]': 'raise builtins.IndexError: too many indices for array: array is '
                                 "2-dimensional, but 3 were indexed || io=[('open', ('image-file',), "
                                 "{'mode': 'rb'}), 'enter', ('seek', (20,), {}), ('read', (100,), {}), "
                                 "('seek', (140,), {}), ('read', (100,), {}), 'exit']",
 'iu2 rpc=2 list[range(1,4), 1:3]': "ndarray[<u2(3, 2)][[21, 22], [41, 42], [61, 62]] || io=[('open', "
                                    "('image-file',), {'mode': 'rb'}), 'enter', ('seek', (20,), {}), "
                                    "('read', (100,), {}), ('seek', (140,), {}), ('read', (100,), {}), "
                                    "'exit']",
 'iu2 rpc=2 [7, all]': 'raise builtins.IndexError: list index out of range || io=[]',
 'iu2 rpc=2 [7, 3]': 'raise builtins.IndexError: list index out of range || io=[]',
 'iu2 rpc=2 [7, -1]': 'raise builtins.IndexError: list index out of range || io=[]',
 'iu2 rpc=2 [7, 2:]': 'raise builtins.IndexError: list index out of range || io=[]',
 'iu2 rpc=2 [7, :-2]': 'raise builtins.IndexError: list index out of range || io=[]',
 'iu2 rpc=2 [7, ::3]': 'raise builtins.IndexError: list index out of range || io=[]',
 'iu2 rpc=2 [7, ::-1]': 'raise builtins.IndexError: list index out of range || io=[]',
 'iu2 rpc=2 [7, 0:0]': 'raise builtins.IndexError: list index out of range || io=[]',
 'iu2 rpc=2 [7, [1,5]]': 'raise builtins.IndexError: list index out of range || io=[]',
 'iu2 rpc=2 [7, 25]': 'raise builtins.IndexError: list index out of range || io=[]',
 'iu2 rpc=2 [7, newaxis]': 'raise builtins.IndexError: list index out of range || io=[]',
 'iu2 rpc=2 [7, ellipsis]': 'raise builtins.IndexError: list index out of range || io=[]',
 'iu2 rpc=2 [7,]': 'raise builtins.IndexError: list index out of range || io=[]',
 'iu2 rpc=2 [7, 1, 2]': 'raise builtins.IndexError: list index out of range || io=[]',
 'iu2 rpc=2 list[7, 1:3]': 'raise builtins.IndexError: list index out of range || io=[]',
 'iu2 rpc=2 [-6, all]': 'raise builtins.IndexError: list index out of range || io=[]',
 'iu2 rpc=2 [-6, 3]': 'raise builtins.IndexError: list index out of range || io=[]',
 'iu2 rpc=2 [-6, -1]': 'raise builtins.IndexError: list index out of range || io=[]',
 'iu2 rpc=2 [-6, 2:]': 'raise builtins.IndexError: list index out of range || io=[]',
 'iu2 rpc=2 [-6, :-2]': 'raise builtins.IndexError: list index out of range || io=[]',
 'iu2 rpc=2 [-6, ::3]': 'raise builtins.IndexError: list index out of range || io=[]',
 'iu2 rpc=2 [-6, ::-1]': 'raise builtins.IndexError: list index out of range || io=[]',
 'iu2 rpc=2 [-6, 0:0]': 'raise builtins.IndexError: list index out of range || io=[]',
 'iu2 rpc=2 [-6, [1,5]]': 'raise builtins.IndexError: list index out of range || io=[]',
 'iu2 rpc=2 [-6, 25]': 'raise builtins.IndexError: list index out of range || io=[]',
 'iu2 rpc=2 [-6, newaxis]': 'raise builtins.IndexError: list index out of range || io=[]',
 'iu2 rpc=2 [-6, ellipsis]': 'raise builtins.IndexError: list index out of range || io=[]',
 'iu2 rpc=2 [-6,]': 'raise builtins.IndexError: list index out of range || io=[]',
 'iu2 rpc=2 [-6, 1, 2]': 'raise builtins.IndexError: list index out of range || io=[]',
 'iu2 rpc=2 list[-6, 1:3]': 'raise builtins.IndexError: list index out of range || io=[]',
 'iu2 rpc=2 [[0,9], all]': 'raise builtins.IndexError: list index out of range || io=[]',
 'iu2 rpc=2 [[0,9], 3]': 'raise builtins.IndexError: list index out of range || io=[]',
 'iu2 rpc=2 [[0,9], -1]': 'raise builtins.IndexError: list index out of range || io=[]',
 'iu2 rpc=2 [[0,9], 2:]': 'raise builtins.IndexError: list index out of range || io=[]',
 'iu2 rpc=2 [[0,9], :-2]': 'raise builtins.IndexError: list index out of range || io=[]',
 'iu2 rpc=2 [[0,9], ::3]': 'raise builtins.IndexError: list index out of range || io=[]',
 'iu2 rpc=2 [[0,9], ::-1]': 'raise builtins.IndexError: list index out of range || io=[]',
 'iu2 rpc=2 [[0,9], 0:0]': 'raise builtins.IndexError: list index out of range || io=[]',
 'iu2 rpc=2 [[0,9], [1,5]]': 'raise builtins.IndexError: list index out of range || io=[]',
 'iu2 rpc=2 [[0,9], 25]': 'raise builtins.IndexError: list index out of range || io=[]',
 'iu2 rpc=2 [[0,9], newaxis]': 'raise builtins.IndexError: list index out of range || io=[]',
 'iu2 rpc=2 [[0,9], ellipsis]': 'raise builtins.IndexError: list index out of range || io=[]',
 'iu2 rpc=2 [[0,9],]': 'raise builtins.IndexError: list index out of range || io=[]',
 'iu2 rpc=2 [[0,9], 1, 2]': 'raise builtins.IndexError: list index out of range || io=[]',
 'iu2 rpc=2 list[[0,9], 1:3]': 'raise builtins.IndexError: list index out of range || io=[]',
 'iu2 rpc=2 [1.5, all]': "raise builtins.TypeError: 'float' object is not iterable || io=[]",
 'iu2 rpc=2 [1.5, 3]': "raise builtins.TypeError: 'float' object is not iterable || io=[]",
 'iu2 rpc=2 [1.5, -1]': "raise builtins.TypeError: 'float' object is not iterable || io=[]",
 'iu2 rpc=2 [1.5, 2:]': "raise builtins.TypeError: 'float' object is not iterable || io=[]",
 'iu2 rpc=2 [1.5, :-2]': "raise builtins.TypeError: 'float' object is not iterable || io=[]",
 'iu2 rpc=2 [1.5, ::3]': "raise builtins.TypeError: 'float' object is not iterable || io=[]",
 'iu2 rpc=2 [1.5, ::-1]': "raise builtins.TypeError: 'float' object is not iterable || io=[]",
 'iu2 rpc=2 [1.5, 0:0]': "raise builtins.TypeError: 'float' object is not iterable || io=[]",
 'iu2 rpc=2 [1.5, [1,5]]': "raise builtins.TypeError: 'float' object is not iterable || io=[]",
 'iu2 rpc=2 [1.5, 25]': "raise builtins.TypeError: 'float' object is not iterable || io=[]",
 'iu2 rpc=2 [1.5, newaxis]': "raise builtins.TypeError: 'float' object is not iterable || io=[]",
 'iu2 rpc=2 [1.5, ellipsis]': "raise builtins.TypeError: 'float' object is not iterable || io=[]",
 'iu2 rpc=2 [1.5,]': "raise builtins.TypeError: 'float' object is not iterable || io=[]",
 'iu2 rpc=2 [1.5, 1, 2]': "raise builtins.TypeError: 'float' object is not iterable || io=[]",
 'iu2 rpc=2 list[1.5, 1:3]': "raise builtins.TypeError: 'float' object is not iterable || io=[]",
 'iu2 rpc=2 [None, all]': "raise builtins.TypeError: 'NoneType' object is not iterable || io=[]",
 'iu2 rpc=2 [None, 3]': "raise builtins.TypeError: 'NoneType' object is not iterable || io=[]",
 'iu2 rpc=2 [None, -1]': "raise builtins.TypeError: 'NoneType' object is not iterable || io=[]",
 'iu2 rpc=2 [None, 2:]': "raise builtins.TypeError: 'NoneType' object is not iterable || io=[]",
 'iu2 rpc=2 [None, :-2]': "raise builtins.TypeError: 'NoneType' object is not iterable || io=[]",
 'iu2 rpc=2 [None, ::3]': "raise builtins.TypeError: 'NoneType' object is not iterable || io=[]",
 'iu2 rpc=2 [None, ::-1]': "raise builtins.TypeError: 'NoneType' object is not iterable || io=[]",
 'iu2 rpc=2 [None, 0:0]': "raise builtins.TypeError: 'NoneType' object is not iterable || io=[]",
 'iu2 rpc=2 [None, [1,5]]': "raise builtins.TypeError: 'NoneType' object is not iterable || io=[]",
 'iu2 rpc=2 [None, 25]': "raise builtins.TypeError: 'NoneType' object is not iterable || io=[]",
 'iu2 rpc=2 [None, newaxis]': "raise builtins.TypeError: 'NoneType' object is not iterable || io=[]",
 'iu2 rpc=2 [None, ellipsis]': "raise builtins.TypeError: 'NoneType' object is not iterable || io=[]",
 'iu2 rpc=2 [None,]': "raise builtins.TypeError: 'NoneType' object is not iterable || io=[]",
 'iu2 rpc=2 [None, 1, 2]': "raise builtins.TypeError: 'NoneType' object is not iterable || io=[]",
 'iu2 rpc=2 list[None, 1:3]': "raise builtins.TypeError: 'NoneType' object is not iterable || io=[]",
 "iu2 rpc=2 ['a', all]": 'raise builtins.TypeError: list indices must be integers or slices, not str || '
                         'io=[]',
 "iu2 rpc=2 ['a', 3]": 'raise builtins.TypeError: list indices must be integers or slices, not str || io=[]',
 "iu2 rpc=2 ['a', -1]": 'raise builtins.TypeError: list indices must be integers or slices, not str || io=[]',
 "iu2 rpc=2 ['a', 2:]": 'raise builtins.TypeError: list indices must be integers or slices, not str || io=[]',
 "iu2 rpc=2 ['a', :-2]": 'raise builtins.TypeError: list indices must be integers or slices, not str || '
                         'io=[]',
 "iu2 rpc=2 ['a', ::3]": 'raise builtins.TypeError: list indices must be integers or slices, not str || '
                         'io=[]',
 "iu2 rpc=2 ['a', ::-1]": 'raise builtins.TypeError: list indices must be integers or slices, not str || '
                          'io=[]',
 "iu2 rpc=2 ['a', 0:0]": 'raise builtins.TypeError: list indices must be integers or slices, not str || '
                         'io=[]',
 "iu2 rpc=2 ['a', [1,5]]": 'raise builtins.TypeError: list indices must be integers or slices, not str || '
                           'io=[]',
 "iu2 rpc=2 ['a', 25]": 'raise builtins.TypeError: list indices must be integers or slices, not str || io=[]',
 "iu2 rpc=2 ['a', newaxis]": 'raise builtins.TypeError: list indices must be integers or slices, not str || '
                             'io=[]',
 "iu2 rpc=2 ['a', ellipsis]": 'raise builtins.TypeError: list indices must be integers or slices, not str || '
                              'io=[]',
 "iu2 rpc=2 ['a',]": 'raise builtins.TypeError: list indices must be integers or slices, not str || io=[]',
 "iu2 rpc=2 ['a', 1, 2]": 'raise builtins.TypeError: list indices must be integers or slices, not str || '
                          'io=[]',
 "iu2 rpc=2 list['a', 1:3]": 'raise builtins.TypeError: list indices must be integers or slices, not str || '
                             'io=[]',
 'iu2 rpc=2 [[[0,1]], all]': 'raise builtins.TypeError: list indices must be integers or slices, not list || '
                             'io=[]',
 'iu2 rpc=2 [[[0,1]], 3]': 'raise builtins.TypeError: list indices must be integers or slices, not list || '
                           'io=[]',
 'iu2 rpc=2 [[[0,1]], -1]': 'raise builtins.TypeError: list indices must be integers or slices, not list || '
                            'io=[]',
 'iu2 rpc=2 [[[0,1]], 2:]': 'raise builtins.TypeError: list indices must be integers or slices, not list || '
                            'io=[]',
 'iu2 rpc=2 [[[0,1]], :-2]': 'raise builtins.TypeError: list indices must be integers or slices, not list || '
                             'io=[]',
 'iu2 rpc=2 [[[0,1]], ::3]': 'raise builtins.TypeError: list indices must be integers or slices, not list || '
                             'io=[]',
 'iu2 rpc=2 [[[0,1]], ::-1]': 'raise builtins.TypeError: list indices must be integers or slices, not list '
                              '|| io=[]',
 'iu2 rpc=2 [[[0,1]], 0:0]': 'raise builtins.TypeError: list indices must be integers or slices, not list || '
                             'io=[]',
 'iu2 rpc=2 [[[0,1]], [1,5]]': 'raise builtins.TypeError: list indices must be integers or slices, not list '
                               '|| io=[]',
 'iu2 rpc=2 [[[0,1]], 25]': 'raise builtins.TypeError: list indices must be integers or slices, not list || '
                            'io=[]',
 'iu2 rpc=2 [[[0,1]], newaxis]': 'raise builtins.TypeError: list indices must be integers or slices, not '
                                 'list || io=[]',
 'iu2 rpc=2 [[[0,1]], ellipsis]': 'raise builtins.TypeError: list indices must be integers or slices, not '
                                  'list || io=[]',
 'iu2 rpc=2 [[[0,1]],]': 'raise builtins.TypeError: list indices must be integers or slices, not list || '
                         'io=[]',
 'iu2 rpc=2 [[[0,1]], 1, 2]': 'raise builtins.TypeError: list indices must be integers or slices, not list '
                              '|| io=[]',
 'iu2 rpc=2 list[[[0,1]], 1:3]': 'raise builtins.TypeError: list indices must be integers or slices, not '
                                 'list || io=[]',
 'iu2 rpc=3 [0, all]': 'ndarray[<u2(20,)][0, 1, 2, 3, 4, 5, 6, 7, 8, 9, 10, 11, 12, 13, 14, 15, 16, 17, 18, '
                       "19] || io=[('open', ('image-file',), {'mode': 'rb'}), 'enter', ('seek', (20,), {}), "
                       "('read', (160,), {}), 'exit']",
 'iu2 rpc=3 [2, all]': 'ndarray[<u2(20,)][40, 41, 42, 43, 44, 45, 46, 47, 48, 49, 50, 51, 52, 53, 54, 55, '
                       "56, 57, 58, 59] || io=[('open', ('image-file',), {'mode': 'rb'}), 'enter', ('seek', "
                       "(20,), {}), ('read', (160,), {}), 'exit']",
 'iu2 rpc=3 [-1, all]': 'ndarray[<u2(20,)][80, 81, 82, 83, 84, 85, 86, 87, 88, 89, 90, 91, 92, 93, 94, 95, '
                        "96, 97, 98, 99] || io=[('open', ('image-file',), {'mode': 'rb'}), 'enter', ('seek', "
                        "(200,), {}), ('read', (100,), {}), 'exit']",
 'iu2 rpc=3 [True, all]': 'ndarray[<u2(20,)][20, 21, 22, 23, 24, 25, 26, 27, 28, 29, 30, 31, 32, 33, 34, 35, '
                          "36, 37, 38, 39] || io=[('open', ('image-file',), {'mode': 'rb'}), 'enter', "
                          "('seek', (20,), {}), ('read', (160,), {}), 'exit']",
 'iu2 rpc=3 [np.int64(1), all]': "raise builtins.TypeError: 'numpy.int64' object is not iterable || io=[]",
 'iu2 rpc=3 [all, all]': 'ndarray[<u2(5, 20)][[0, 1, 2, 3, 4, 5, 6, 7, 8, 9, 10, 11, 12, 13, 14, 15, 16, 17, '
                         '18, 19], [20, 21, 22, 23, 24, 25, 26, 27, 28, 29, 30, 31, 32, 33, 34, 35, 36, 37, '
                         '38, 39], [40, 41, 42, 43, 44, 45, 46, 47, 48, 49, 50, 51, 52, 53, 54, 55, 56, 57, '
                         '58, 59], [60, 61, 62, 63, 64, 65, 66, 67, 68, 69, 70, 71, 72, 73, 74, 75, 76, 77, '
                         '78, 79], [80, 81, 82, 83, 84, 85, 86, 87, 88, 89, 90, 91, 92, 93, 94, 95, 96, 97, '
                         "98, 99]] || io=[('open', ('image-file',), {'mode': 'rb'}), 'enter', ('seek', "
                         "(20,), {}), ('read', (160,), {}), ('seek', (200,), {}), ('read', (100,), {}), "
                         "'exit']",
 'iu2 rpc=3 [2:, all]': 'ndarray[<u2(3, 20)][[40, 41, 42, 43, 44, 45, 46, 47, 48, 49, 50, 51, 52, 53, 54, '
                        '55, 56, 57, 58, 59], [60, 61, 62, 63, 64, 65, 66, 67, 68, 69, 70, 71, 72, 73, 74, '
                        '75, 76, 77, 78, 79], [80, 81, 82, 83, 84, 85, 86, 87, 88, 89, 90, 91, 92, 93, 94, '
                        "95, 96, 97, 98, 99]] || io=[('open', ('image-file',), {'mode': 'rb'}), 'enter', "
                        "('seek', (20,), {}), ('read', (160,), {}), ('seek', (200,), {}), ('read', (100,), "
                        "{}), 'exit']",
 'iu2 rpc=3 [:2, all]': 'ndarray[<u2(2, 20)][[0, 1, 2, 3, 4, 5, 6, 7, 8, 9, 10, 11, 12, 13, 14, 15, 16, 17, '
                        '18, 19], [20, 21, 22, 23, 24, 25, 26, 27, 28, 29, 30, 31, 32, 33, 34, 35, 36, 37, '
                        "38, 39]] || io=[('open', ('image-file',), {'mode': 'rb'}), 'enter', ('seek', (20,), "
                        "{}), ('read', (160,), {}), 'exit']",
 'iu2 rpc=3 [-2:, all]': 'ndarray[<u2(2, 20)][[60, 61, 62, 63, 64, 65, 66, 67, 68, 69, 70, 71, 72, 73, 74, '
                         '75, 76, 77, 78, 79], [80, 81, 82, 83, 84, 85, 86, 87, 88, 89, 90, 91, 92, 93, 94, '
                         "95, 96, 97, 98, 99]] || io=[('open', ('image-file',), {'mode': 'rb'}), 'enter', "
                         "('seek', (200,), {}), ('read', (100,), {}), 'exit']",
 'iu2 rpc=3 [::2, all]': 'ndarray[<u2(3, 20)][[0, 1, 2, 3, 4, 5, 6, 7, 8, 9, 10, 11, 12, 13, 14, 15, 16, 17, '
                         '18, 19], [40, 41, 42, 43, 44, 45, 46, 47, 48, 49, 50, 51, 52, 53, 54, 55, 56, 57, '
                         '58, 59], [80, 81, 82, 83, 84, 85, 86, 87, 88, 89, 90, 91, 92, 93, 94, 95, 96, 97, '
                         "98, 99]] || io=[('open', ('image-file',), {'mode': 'rb'}), 'enter', ('seek', "
                         "(20,), {}), ('read', (160,), {}), ('seek', (200,), {}), ('read', (100,), {}), "
                         "'exit']",
 'iu2 rpc=3 [1:4:2, all]': 'ndarray[<u2(2, 20)][[20, 21, 22, 23, 24, 25, 26, 27, 28, 29, 30, 31, 32, 33, 34, '
                           '35, 36, 37, 38, 39], [60, 61, 62, 63, 64, 65, 66, 67, 68, 69, 70, 71, 72, 73, '
                           "74, 75, 76, 77, 78, 79]] || io=[('open', ('image-file',), {'mode': 'rb'}), "
                           "'enter', ('seek', (20,), {}), ('read', (160,), {}), ('seek', (200,), {}), "
                           "('read', (100,), {}), 'exit']",
 'iu2 rpc=3 [::-1, all]': 'ndarray[<u2(5, 20)][[80, 81, 82, 83, 84, 85, 86, 87, 88, 89, 90, 91, 92, 93, 94, '
                          '95, 96, 97, 98, 99], [60, 61, 62, 63, 64, 65, 66, 67, 68, 69, 70, 71, 72, 73, 74, '
                          '75, 76, 77, 78, 79], [40, 41, 42, 43, 44, 45, 46, 47, 48, 49, 50, 51, 52, 53, 54, '
                          '55, 56, 57, 58, 59], [20, 21, 22, 23, 24, 25, 26, 27, 28, 29, 30, 31, 32, 33, 34, '
                          '35, 36, 37, 38, 39], [0, 1, 2, 3, 4, 5, 6, 7, 8, 9, 10, 11, 12, 13, 14, 15, 16, '
                          "17, 18, 19]] || io=[('open', ('image-file',), {'mode': 'rb'}), 'enter', ('seek', "
                          "(200,), {}), ('read', (100,), {}), ('seek', (20,), {}), ('read', (160,), {}), "
                          "'exit']",
 'iu2 rpc=3 [-1::-2, all]': 'ndarray[<u2(3, 20)][[80, 81, 82, 83, 84, 85, 86, 87, 88, 89, 90, 91, 92, 93, '
                            '94, 95, 96, 97, 98, 99], [40, 41, 42, 43, 44, 45, 46, 47, 48, 49, 50, 51, 52, '
                            '53, 54, 55, 56, 57, 58, 59], [0, 1, 2, 3, 4, 5, 6, 7, 8, 9, 10, 11, 12, 13, 14, '
                            "15, 16, 17, 18, 19]] || io=[('open', ('image-file',), {'mode': 'rb'}), 'enter', "
                            "('seek', (200,), {}), ('read', (100,), {}), ('seek', (20,), {}), ('read', "
                            "(160,), {}), 'exit']",
 'iu2 rpc=3 [0:0, all]': "ndarray[<u2(0, 20)][] || io=[('open', ('image-file',), {'mode': 'rb'}), 'enter', "
                         "'exit']",
 'iu2 rpc=3 [4:1, all]': "ndarray[<u2(0, 20)][] || io=[('open', ('image-file',), {'mode': 'rb'}), 'enter', "
                         "'exit']",
 'iu2 rpc=3 [10:, all]': "ndarray[<u2(0, 20)][] || io=[('open', ('image-file',), {'mode': 'rb'}), 'enter', "
                         "'exit']",
 'iu2 rpc=3 [[0,2], all]': 'ndarray[<u2(2, 20)][[0, 1, 2, 3, 4, 5, 6, 7, 8, 9, 10, 11, 12, 13, 14, 15, 16, '
                           '17, 18, 19], [40, 41, 42, 43, 44, 45, 46, 47, 48, 49, 50, 51, 52, 53, 54, 55, '
                           "56, 57, 58, 59]] || io=[('open', ('image-file',), {'mode': 'rb'}), 'enter', "
                           "('seek', (20,), {}), ('read', (160,), {}), 'exit']",
 'iu2 rpc=3 [[3,1,1], all]': 'ndarray[<u2(3, 20)][[60, 61, 62, 63, 64, 65, 66, 67, 68, 69, 70, 71, 72, 73, '
                             '74, 75, 76, 77, 78, 79], [20, 21, 22, 23, 24, 25, 26, 27, 28, 29, 30, 31, 32, '
                             '33, 34, 35, 36, 37, 38, 39], [20, 21, 22, 23, 24, 25, 26, 27, 28, 29, 30, 31, '
                             "32, 33, 34, 35, 36, 37, 38, 39]] || io=[('open', ('image-file',), {'mode': "
                             "'rb'}), 'enter', ('seek', (200,), {}), ('read', (100,), {}), ('seek', (20,), "
                             "{}), ('read', (160,), {}), 'exit']",
 'iu2 rpc=3 [[0,1], all]': 'ndarray[<u2(2, 20)][[0, 1, 2, 3, 4, 5, 6, 7, 8, 9, 10, 11, 12, 13, 14, 15, 16, '
                           '17, 18, 19], [20, 21, 22, 23, 24, 25, 26, 27, 28, 29, 30, 31, 32, 33, 34, 35, '
                           "36, 37, 38, 39]] || io=[('open', ('image-file',), {'mode': 'rb'}), 'enter', "
                           "('seek', (20,), {}), ('read', (160,), {}), 'exit']",
 'iu2 rpc=3 [[0], all]': 'ndarray[<u2(1, 20)][[0, 1, 2, 3, 4, 5, 6, 7, 8, 9, 10, 11, 12, 13, 14, 15, 16, 17, '
                         "18, 19]] || io=[('open', ('image-file',), {'mode': 'rb'}), 'enter', ('seek', "
                         "(20,), {}), ('read', (160,), {}), 'exit']",
 'iu2 rpc=3 [[-1,0], all]': 'ndarray[<u2(2, 20)][[80, 81, 82, 83, 84, 85, 86, 87, 88, 89, 90, 91, 92, 93, '
                            '94, 95, 96, 97, 98, 99], [0, 1, 2, 3, 4, 5, 6, 7, 8, 9, 10, 11, 12, 13, 14, 15, '
                            "16, 17, 18, 19]] || io=[('open', ('image-file',), {'mode': 'rb'}), 'enter', "
                            "('seek', (200,), {}), ('read', (100,), {}), ('seek', (20,), {}), ('read', "
                            "(160,), {}), 'exit']",
 'iu2 rpc=3 [[], all]': "ndarray[<u2(0, 20)][] || io=[('open', ('image-file',), {'mode': 'rb'}), 'enter', "
                        "'exit']",
 'iu2 rpc=3 [array[4,0], all]': 'ndarray[<u2(2, 20)][[80, 81, 82, 83, 84, 85, 86, 87, 88, 89, 90, 91, 92, '
                                '93, 94, 95, 96, 97, 98, 99], [0, 1, 2, 3, 4, 5, 6, 7, 8, 9, 10, 11, 12, 13, '
                                "14, 15, 16, 17, 18, 19]] || io=[('open', ('image-file',), {'mode': 'rb'}), "
                                "'enter', ('seek', (200,), {}), ('read', (100,), {}), ('seek', (20,), {}), "
                                "('read', (160,), {}), 'exit']",
 'iu2 rpc=3 [(1,3), all]': 'ndarray[<u2(2, 20)][[20, 21, 22, 23, 24, 25, 26, 27, 28, 29, 30, 31, 32, 33, 34, '
                           '35, 36, 37, 38, 39], [60, 61, 62, 63, 64, 65, 66, 67, 68, 69, 70, 71, 72, 73, '
                           "74, 75, 76, 77, 78, 79]] || io=[('open', ('image-file',), {'mode': 'rb'}), "
                           "'enter', ('seek', (20,), {}), ('read', (160,), {}), ('seek', (200,), {}), "
                           "('read', (100,), {}), 'exit']",
 'iu2 rpc=3 [range(1,4), all]': 'ndarray[<u2(3, 20)][[20, 21, 22, 23, 24, 25, 26, 27, 28, 29, 30, 31, 32, '
                                '33, 34, 35, 36, 37, 38, 39], [40, 41, 42, 43, 44, 45, 46, 47, 48, 49, 50, '
                                '51, 52, 53, 54, 55, 56, 57, 58, 59], [60, 61, 62, 63, 64, 65, 66, 67, 68, '
                                "69, 70, 71, 72, 73, 74, 75, 76, 77, 78, 79]] || io=[('open', "
                                "('image-file',), {'mode': 'rb'}), 'enter', ('seek', (20,), {}), ('read', "
                                "(160,), {}), ('seek', (200,), {}), ('read', (100,), {}), 'exit']",
 'iu2 rpc=3 [7, all]': 'raise builtins.IndexError: list index out of range || io=[]',
 'iu2 rpc=3 [-6, all]': 'raise builtins.IndexError: list index out of range || io=[]',
 'iu2 rpc=3 [[0,9], all]': 'raise builtins.IndexError: list index out of range || io=[]',
 'iu2 rpc=3 [1.5, all]': "raise builtins.TypeError: 'float' object is not iterable || io=[]",
 'iu2 rpc=3 [None, all]': "raise builtins.TypeError: 'NoneType' object is not iterable || io=[]",
 "iu2 rpc=3 ['a', all]": 'raise builtins.TypeError: list indices must be integers or slices, not str || '
                         'io=[]',
 'iu2 rpc=3 [[[0,1]], all]': 'raise builtins.TypeError: list indices must be integers or slices, not list || '
                             'io=[]',
 'iu2 rpc=5 [0, all]': 'ndarray[<u2(20,)][0, 1, 2, 3, 4, 5, 6, 7, 8, 9, 10, 11, 12, 13, 14, 15, 16, 17, 18, '
                       "19] || io=[('open', ('image-file',), {'mode': 'rb'}), 'enter', ('seek', (20,), {}), "
                       "('read', (280,), {}), 'exit']",
 'iu2 rpc=5 [2, all]': 'ndarray[<u2(20,)][40, 41, 42, 43, 44, 45, 46, 47, 48, 49, 50, 51, 52, 53, 54, 55, '
                       "56, 57, 58, 59] || io=[('open', ('image-file',), {'mode': 'rb'}), 'enter', ('seek', "
                       "(20,), {}), ('read', (280,), {}), 'exit']",
 'iu2 rpc=5 [-1, all]': 'ndarray[<u2(20,)][80, 81, 82, 83, 84, 85, 86, 87, 88, 89, 90, 91, 92, 93, 94, 95, '
                        "96, 97, 98, 99] || io=[('open', ('image-file',), {'mode': 'rb'}), 'enter', ('seek', "
                        "(20,), {}), ('read', (280,), {}), 'exit']",
 'iu2 rpc=5 [True, all]': 'ndarray[<u2(20,)][20, 21, 22, 23, 24, 25, 26, 27, 28, 29, 30, 31, 32, 33, 34, 35, '
                          "36, 37, 38, 39] || io=[('open', ('image-file',), {'mode': 'rb'}), 'enter', "
                          "('seek', (20,), {}), ('read', (280,), {}), 'exit']",
 'iu2 rpc=5 [np.int64(1), all]': "raise builtins.TypeError: 'numpy.int64' object is not iterable || io=[]",
 'iu2 rpc=5 [all, all]': 'ndarray[<u2(5, 20)][[0, 1, 2, 3, 4, 5, 6, 7, 8, 9, 10, 11, 12, 13, 14, 15, 16, 17, '
                         '18, 19], [20, 21, 22, 23, 24, 25, 26, 27, 28, 29, 30, 31, 32, 33, 34, 35, 36, 37, '
                         '38, 39], [40, 41, 42, 43, 44, 45, 46, 47, 48, 49, 50, 51, 52, 53, 54, 55, 56, 57, '
                         '58, 59], [60, 61, 62, 63, 64, 65, 66, 67, 68, 69, 70, 71, 72, 73, 74, 75, 76, 77, '
                         '78, 79], [80, 81, 82, 83, 84, 85, 86, 87, 88, 89, 90, 91, 92, 93, 94, 95, 96, 97, '
                         "98, 99]] || io=[('open', ('image-file',), {'mode': 'rb'}), 'enter', ('seek', "
                         "(20,), {}), ('read', (280,), {}), 'exit']",
 'iu2 rpc=5 [2:, all]': 'ndarray[<u2(3, 20)][[40, 41, 42, 43, 44, 45, 46, 47, 48, 49, 50, 51, 52, 53, 54, '
                        '55, 56, 57, 58, 59], [60, 61, 62, 63, 64, 65, 66, 67, 68, 69, 70, 71, 72, 73, 74, '
                        '75, 76, 77, 78, 79], [80, 81, 82, 83, 84, 85, 86, 87, 88, 89, 90, 91, 92, 93, 94, '
                        "95, 96, 97, 98, 99]] || io=[('open', ('image-file',), {'mode': 'rb'}), 'enter', "
                        "('seek', (20,), {}), ('read', (280,), {}), 'exit']",
 'iu2 rpc=5 [:2, all]': 'ndarray[<u2(2, 20)][[0, 1, 2, 3, 4, 5, 6, 7, 8, 9, 10, 11, 12, 13, 14, 15, 16, 17, '
                        '18, 19], [20, 21, 22, 23, 24, 25, 26, 27, 28, 29, 30, 31, 32, 33, 34, 35, 36, 37, '
                        "38, 39]] || io=[('open', ('image-file',), {'mode': 'rb'}), 'enter', ('seek', (20,), "
                        "{}), ('read', (280,), {}), 'exit']",
 'iu2 rpc=5 [-2:, all]': 'ndarray[<u2(2, 20)][[60, 61, 62, 63, 64, 65, 66, 67, 68, 69, 70, 71, 72, 73, 74, '
                         '75, 76, 77, 78, 79], [80, 81, 82, 83, 84, 85, 86, 87, 88, 89, 90, 91, 92, 93, 94, '
                         "95, 96, 97, 98, 99]] || io=[('open', ('image-file',), {'mode': 'rb'}), 'enter', "
                         "('seek', (20,), {}), ('read', (280,), {}), 'exit']",
 'iu2 rpc=5 [::2, all]': 'ndarray[<u2(3, 20)][[0, 1, 2, 3, 4, 5, 6, 7, 8, 9, 10, 11, 12, 13, 14, 15, 16, 17, '
                         '18, 19], [40, 41, 42, 43, 44, 45, 46, 47, 48, 49, 50, 51, 52, 53, 54, 55, 56, 57, '
                         '58, 59], [80, 81, 82, 83, 84, 85, 86, 87, 88, 89, 90, 91, 92, 93, 94, 95, 96, 97, '
                         "98, 99]] || io=[('open', ('image-file',), {'mode': 'rb'}), 'enter', ('seek', "
                         "(20,), {}), ('read', (280,), {}), 'exit']",
 'iu2 rpc=5 [1:4:2, all]': 'ndarray[<u2(2, 20)][[20, 21, 22, 23, 24, 25, 26, 27, 28, 29, 30, 31, 32, 33, 34, '
                           '35, 36, 37, 38, 39], [60, 61, 62, 63, 64, 65, 66, 67, 68, 69, 70, 71, 72, 73, '
                           "74, 75, 76, 77, 78, 79]] || io=[('open', ('image-file',), {'mode': 'rb'}), "
                           "'enter', ('seek', (20,), {}), ('read', (280,), {}), 'exit']",
 'iu2 rpc=5 [::-1, all]': 'ndarray[<u2(5, 20)][[80, 81, 82, 83, 84, 85, 86, 87, 88, 89, 90, 91, 92, 93, 94, '
                          '95, 96, 97, 98, 99], [60, 61, 62, 63, 64, 65, 66, 67, 68, 69, 70, 71, 72, 73, 74, '
                          '75, 76, 77, 78, 79], [40, 41, 42, 43, 44, 45, 46, 47, 48, 49, 50, 51, 52, 53, 54, '
                          '55, 56, 57, 58, 59], [20, 21, 22, 23, 24, 25, 26, 27, 28, 29, 30, 31, 32, 33, 34, '
                          '35, 36, 37, 38, 39], [0, 1, 2, 3, 4, 5, 6, 7, 8, 9, 10, 11, 12, 13, 14, 15, 16, '
                          "17, 18, 19]] || io=[('open', ('image-file',), {'mode': 'rb'}), 'enter', ('seek', "
                          "(20,), {}), ('read', (280,), {}), 'exit']",
 'iu2 rpc=5 [-1::-2, all]': 'ndarray[<u2(3, 20)][[80, 81, 82, 83, 84, 85, 86, 87, 88, 89, 90, 91, 92, 93, '
                            '94, 95, 96, 97, 98, 99], [40, 41, 42, 43, 44, 45, 46, 47, 48, 49, 50, 51, 52, '
                            '53, 54, 55, 56, 57, 58, 59], [0, 1, 2, 3, 4, 5, 6, 7, 8, 9, 10, 11, 12, 13, 14, '
                            "15, 16, 17, 18, 19]] || io=[('open', ('image-file',), {'mode': 'rb'}), 'enter', "
                            "('seek', (20,), {}), ('read', (280,), {}), 'exit']",
 'iu2 rpc=5 [0:0, all]': "ndarray[<u2(0, 20)][] || io=[('open', ('image-file',), {'mode': 'rb'}), 'enter', "
                         "'exit']",
 'iu2 rpc=5 [4:1, all]': "ndarray[<u2(0, 20)][] || io=[('open', ('image-file',), {'mode': 'rb'}), 'enter', "
                         "'exit']",
 'iu2 rpc=5 [10:, all]': "ndarray[<u2(0, 20)][] || io=[('open', ('image-file',), {'mode': 'rb'}), 'enter', "
                         "'exit']",
 'iu2 rpc=5 [[0,2], all]': 'ndarray[<u2(2, 20)][[0, 1, 2, 3, 4, 5, 6, 7, 8, 9, 10, 11, 12, 13, 14, 15, 16, '
                           '17, 18, 19], [40, 41, 42, 43, 44, 45, 46, 47, 48, 49, 50, 51, 52, 53, 54, 55, '
                           "56, 57, 58, 59]] || io=[('open', ('image-file',), {'mode': 'rb'}), 'enter', "
                           "('seek', (20,), {}), ('read', (280,), {}), 'exit']",
 'iu2 rpc=5 [[3,1,1], all]': 'ndarray[<u2(3, 20)][[60, 61, 62, 63, 64, 65, 66, 67, 68, 69, 70, 71, 72, 73, '
                             '74, 75, 76, 77, 78, 79], [20, 21, 22, 23, 24, 25, 26, 27, 28, 29, 30, 31, 32, '
                             '33, 34, 35, 36, 37, 38, 39], [20, 21, 22, 23, 24, 25, 26, 27, 28, 29, 30, 31, '
                             "32, 33, 34, 35, 36, 37, 38, 39]] || io=[('open', ('image-file',), {'mode': "
                             "'rb'}), 'enter', ('seek', (20,), {}), ('read', (280,), {}), 'exit']",
 'iu2 rpc=5 [[0,1], all]': 'ndarray[<u2(2, 20)][[0, 1, 2, 3, 4, 5, 6, 7, 8, 9, 10, 11, 12, 13, 14, 15, 16, '
                           '17, 18, 19], [20, 21, 22, 23, 24, 25, 26, 27, 28, 29, 30, 31, 32, 33, 34, 35, '
                           "36, 37, 38, 39]] || io=[('open', ('image-file',), {'mode': 'rb'}), 'enter', "
                           "('seek', (20,), {}), ('read', (280,), {}), 'exit']",
 'iu2 rpc=5 [[0], all]': 'ndarray[<u2(1, 20)][[0, 1, 2, 3, 4, 5, 6, 7, 8, 9, 10, 11, 12, 13, 14, 15, 16, 17, '
                         "18, 19]] || io=[('open', ('image-file',), {'mode': 'rb'}), 'enter', ('seek', "
                         "(20,), {}), ('read', (280,), {}), 'exit']",
 'iu2 rpc=5 [[-1,0], all]': 'ndarray[<u2(2, 20)][[80, 81, 82, 83, 84, 85, 86, 87, 88, 89, 90, 91, 92, 93, '
                            '94, 95, 96, 97, 98, 99], [0, 1, 2, 3, 4, 5, 6, 7, 8, 9, 10, 11, 12, 13, 14, 15, '
                            "16, 17, 18, 19]] || io=[('open', ('image-file',), {'mode': 'rb'}), 'enter', "
                            "('seek', (20,), {}), ('read', (280,), {}), 'exit']",
 'iu2 rpc=5 [[], all]': "ndarray[<u2(0, 20)][] || io=[('open', ('image-file',), {'mode': 'rb'}), 'enter', "
                        "'exit']",
 'iu2 rpc=5 [array[4,0], all]': 'ndarray[<u2(2, 20)][[80, 81, 82, 83, 84, 85, 86, 87, 88, 89, 90, 91, 92, '
                                '93, 94, 95, 96, 97, 98, 99], [0, 1, 2, 3, 4, 5, 6, 7, 8, 9, 10, 11, 12, 13, '
                                "14, 15, 16, 17, 18, 19]] || io=[('open', ('image-file',), {'mode': 'rb'}), "
                                "'enter', ('seek', (20,), {}), ('read', (280,), {}), 'exit']",
 'iu2 rpc=5 [(1,3), all]': 'ndarray[<u2(2, 20)][[20, 21, 22, 23, 24, 25, 26, 27, 28, 29, 30, 31, 32, 33, 34, '
                           '35, 36, 37, 38, 39], [60, 61, 62, 63, 64, 65, 66, 67, 68, 69, 70, 71, 72, 73, '
                           "74, 75, 76, 77, 78, 79]] || io=[('open', ('image-file',), {'mode': 'rb'}), "
                           "'enter', ('seek', (20,), {}), ('read', (280,), {}), 'exit']",
 'iu2 rpc=5 [range(1,4), all]': 'ndarray[<u2(3, 20)][[20, 21, 22, 23, 24, 25, 26, 27, 28, 29, 30, 31, 32, '
                                '33, 34, 35, 36, 37, 38, 39], [40, 41, 42, 43, 44, 45, 46, 47, 48, 49, 50, '
                                '51, 52, 53, 54, 55, 56, 57, 58, 59], [60, 61, 62, 63, 64, 65, 66, 67, 68, '
                                "69, 70, 71, 72, 73, 74, 75, 76, 77, 78, 79]] || io=[('open', "
                                "('image-file',), {'mode': 'rb'}), 'enter', ('seek', (20,), {}), ('read', "
                                "(280,), {}), 'exit']",
 'iu2 rpc=5 [7, all]': 'raise builtins.IndexError: list index out of range || io=[]',
 'iu2 rpc=5 [-6, all]': 'raise builtins.IndexError: list index out of range || io=[]',
 'iu2 rpc=5 [[0,9], all]': 'raise builtins.IndexError: list index out of range || io=[]',
 'iu2 rpc=5 [1.5, all]': "raise builtins.TypeError: 'float' object is not iterable || io=[]",
 'iu2 rpc=5 [None, all]': "raise builtins.TypeError: 'NoneType' object is not iterable || io=[]",
 "iu2 rpc=5 ['a', all]": 'raise builtins.TypeError: list indices must be integers or slices, not str || '
                         'io=[]',
 'iu2 rpc=5 [[[0,1]], all]': 'raise builtins.TypeError: list indices must be integers or slices, not list || '
                             'io=[]',
 'iu2 rpc=7 [0, all]': 'ndarray[<u2(20,)][0, 1, 2, 3, 4, 5, 6, 7, 8, 9, 10, 11, 12, 13, 14, 15, 16, 17, 18, '
                       "19] || io=[('open', ('image-file',), {'mode': 'rb'}), 'enter', ('seek', (20,), {}), "
                       "('read', (280,), {}), 'exit']",
 'iu2 rpc=7 [2, all]': 'ndarray[<u2(20,)][40, 41, 42, 43, 44, 45, 46, 47, 48, 49, 50, 51, 52, 53, 54, 55, '
                       "56, 57, 58, 59] || io=[('open', ('image-file',), {'mode': 'rb'}), 'enter', ('seek', "
                       "(20,), {}), ('read', (280,), {}), 'exit']",
 'iu2 rpc=7 [-1, all]': 'ndarray[<u2(20,)][80, 81, 82, 83, 84, 85, 86, 87, 88, 89, 90, 91, 92, 93, 94, 95, '
                        "96, 97, 98, 99] || io=[('open', ('image-file',), {'mode': 'rb'}), 'enter', ('seek', "
                        "(20,), {}), ('read', (280,), {}), 'exit']",
 'iu2 rpc=7 [True, all]': 'ndarray[<u2(20,)][20, 21, 22, 23, 24, 25, 26, 27, 28, 29, 30, 31, 32, 33, 34, 35, '
                          "36, 37, 38, 39] || io=[('open', ('image-file',), {'mode': 'rb'}), 'enter', "
                          "('seek', (20,), {}), ('read', (280,), {}), 'exit']",
 'iu2 rpc=7 [np.int64(1), all]': "raise builtins.TypeError: 'numpy.int64' object is not iterable || io=[]",
 'iu2 rpc=7 [all, all]': 'ndarray[<u2(5, 20)][[0, 1, 2, 3, 4, 5, 6, 7, 8, 9, 10, 11, 12, 13, 14, 15, 16, 17, '
                         '18, 19], [20, 21, 22, 23, 24, 25, 26, 27, 28, 29, 30, 31, 32, 33, 34, 35, 36, 37, '
                         '38, 39], [40, 41, 42, 43, 44, 45, 46, 47, 48, 49, 50, 51, 52, 53, 54, 55, 56, 57, '
                         '58, 59], [60, 61, 62, 63, 64, 65, 66, 67, 68, 69, 70, 71, 72, 73, 74, 75, 76, 77, '
                         '78, 79], [80, 81, 82, 83, 84, 85, 86, 87, 88, 89, 90, 91, 92, 93, 94, 95, 96, 97, '
                         "98, 99]] || io=[('open', ('image-file',), {'mode': 'rb'}), 'enter', ('seek', "
                         "(20,), {}), ('read', (280,), {}), 'exit']",
 'iu2 rpc=7 [2:, all]': 'ndarray[<u2(3, 20)][[40, 41, 42, 43, 44, 45, 46, 47, 48, 49, 50, 51, 52, 53, 54, '
                        '55, 56, 57, 58, 59], [60, 61, 62, 63, 64, 65, 66, 67, 68, 69, 70, 71, 72, 73, 74, '
                        '75, 76, 77, 78, 79], [80, 81, 82, 83, 84, 85, 86, 87, 88, 89, 90, 91, 92, 93, 94, '
                        "95, 96, 97, 98, 99]] || io=[('open', ('image-file',), {'mode': 'rb'}), 'enter', "
                        "('seek', (20,), {}), ('read', (280,), {}), 'exit']",
 'iu2 rpc=7 [:2, all]': 'ndarray[<u2(2, 20)][[0, 1, 2, 3, 4, 5, 6, 7, 8, 9, 10, 11, 12, 13, 14, 15, 16, 17, '
                        '18, 19], [20, 21, 22, 23, 24, 25, 26, 27, 28, 29, 30, 31, 32, 33, 34, 35, 36, 37, '
                        "38, 39]] || io=[('open', ('image-file',), {'mode': 'rb'}), 'enter', ('seek', (20,), "
                        "{}), ('read', (280,), {}), 'exit']",
 'iu2 rpc=7 [-2:, all]': 'ndarray[<u2(2, 20)][[60, 61, 62, 63, 64, 65, 66, 67, 68, 69, 70, 71, 72, 73, 74, '
                         '75, 76, 77, 78, 79], [80, 81, 82, 83, 84, 85, 86, 87, 88, 89, 90, 91, 92, 93, 94, '
                         "95, 96, 97, 98, 99]] || io=[('open', ('image-file',), {'mode': 'rb'}), 'enter', "
                         "('seek', (20,), {}), ('read', (280,), {}), 'exit']",
 'iu2 rpc=7 [::2, all]': 'ndarray[<u2(3, 20)][[0, 1, 2, 3, 4, 5, 6, 7, 8, 9, 10, 11, 12, 13, 14, 15, 16, 17, '
                         '18, 19], [40, 41, 42, 43, 44, 45, 46, 47, 48, 49, 50, 51, 52, 53, 54, 55, 56, 57, '
                         '58, 59], [80, 81, 82, 83, 84, 85, 86, 87, 88, 89, 90, 91, 92, 93, 94, 95, 96, 97, '
                         "98, 99]] || io=[('open', ('image-file',), {'mode': 'rb'}), 'enter', ('seek', "
                         "(20,), {}), ('read', (280,), {}), 'exit']",
 'iu2 rpc=7 [1:4:2, all]': 'ndarray[<u2(2, 20)][[20, 21, 22, 23, 24, 25, 26, 27, 28, 29, 30, 31, 32, 33, 34, '
                           '35, 36, 37, 38, 39], [60, 61, 62, 63, 64, 65, 66, 67, 68, 69, 70, 71, 72, 73, '
                           "74, 75, 76, 77, 78, 79]] || io=[('open', ('image-file',), {'mode': 'rb'}), "
                           "'enter', ('seek', (20,), {}), ('read', (280,), {}), 'exit']",
 'iu2 rpc=7 [::-1, all]': 'ndarray[<u2(5, 20)][[80, 81, 82, 83, 84, 85, 86, 87, 88, 89, 90, 91, 92, 93, 94, '
                          '95, 96, 97, 98, 99], [60, 61, 62, 63, 64, 65, 66, 67, 68, 69, 70, 71, 72, 73, 74, '
                          '75, 76, 77, 78, 79], [40, 41, 42, 43, 44, 45, 46, 47, 48, 49, 50, 51, 52, 53, 54, '
                          '55, 56, 57, 58, 59], [20, 21, 22, 23, 24, 25, 26, 27, 28, 29, 30, 31, 32, 33, 34, '
                          '35, 36, 37, 38, 39], [0, 1, 2, 3, 4, 5, 6, 7, 8, 9, 10, 11, 12, 13, 14, 15, 16, '
                          "17, 18, 19]] || io=[('open', ('image-file',), {'mode': 'rb'}), 'enter', ('seek', "
                          "(20,), {}), ('read', (280,), {}), 'exit']",
 'iu2 rpc=7 [-1::-2, all]': 'ndarray[<u2(3, 20)][[80, 81, 82, 83, 84, 85, 86, 87, 88, 89, 90, 91, 92, 93, '
                            '94, 95, 96, 97, 98, 99], [40, 41, 42, 43, 44, 45, 46, 47, 48, 49, 50, 51, 52, '
                            '53, 54, 55, 56, 57, 58, 59], [0, 1, 2, 3, 4, 5, 6, 7, 8, 9, 10, 11, 12, 13, 14, '
                            "15, 16, 17, 18, 19]] || io=[('open', ('image-file',), {'mode': 'rb'}), 'enter', "
                            "('seek', (20,), {}), ('read', (280,), {}), 'exit']",
 'iu2 rpc=7 [0:0, all]': "ndarray[<u2(0, 20)][] || io=[('open', ('image-file',), {'mode': 'rb'}), 'enter', "
                         "'exit']",
 'iu2 rpc=7 [4:1, all]': "ndarray[<u2(0, 20)][] || io=[('open', ('image-file',), {'mode': 'rb'}), 'enter', "
                         "'exit']",
 'iu2 rpc=7 [10:, all]': "ndarray[<u2(0, 20)][] || io=[('open', ('image-file',), {'mode': 'rb'}), 'enter', "
                         "'exit']",
 'iu2 rpc=7 [[0,2], all]': 'ndarray[<u2(2, 20)][[0, 1, 2, 3, 4, 5, 6, 7, 8, 9, 10, 11, 12, 13, 14, 15, 16, '
                           '17, 18, 19], [40, 41, 42, 43, 44, 45, 46, 47, 48, 49, 50, 51, 52, 53, 54, 55, '
                           "56, 57, 58, 59]] || io=[('open', ('image-file',), {'mode': 'rb'}), 'enter', "
                           "('seek', (20,), {}), ('read', (280,), {}), 'exit']",
 'iu2 rpc=7 [[3,1,1], all]': 'ndarray[<u2(3, 20)][[60, 61, 62, 63, 64, 65, 66, 67, 68, 69, 70, 71, 72, 73, '
                             '74, 75, 76, 77, 78, 79], [20, 21, 22, 23, 24, 25, 26, 27, 28, 29, 30, 31, 32, '
                             '33, 34, 35, 36, 37, 38, 39], [20, 21, 22, 23, 24, 25, 26, 27, 28, 29, 30, 31, '
                             "32, 33, 34, 35, 36, 37, 38, 39]] || io=[('open', ('image-file',), {'mode': "
                             "'rb'}), 'enter', ('seek', (20,), {}), ('read', (280,), {}), 'exit']",
 'iu2 rpc=7 [[0,1], all]': 'ndarray[<u2(2, 20)][[0, 1, 2, 3, 4, 5, 6, 7, 8, 9, 10, 11, 12, 13, 14, 15, 16, '
                           '17, 18, 19], [20, 21, 22, 23, 24, 25, 26, 27, 28, 29, 30, 31, 32, 33, 34, 35, '
                           "36, 37, 38, 39]] || io=[('open', ('image-file',), {'mode': 'rb'}), 'enter', "
                           "('seek', (20,), {}), ('read', (280,), {}), 'exit']",
 'iu2 rpc=7 [[0], all]': 'ndarray[<u2(1, 20)][[0, 1, 2, 3, 4, 5, 6, 7, 8, 9, 10, 11, 12, 13, 14, 15, 16, 17, '
                         "18, 19]] || io=[('open', ('image-file',), {'mode': 'rb'}), 'enter', ('seek', "
                         "(20,), {}), ('read', (280,), {}), 'exit']",
 'iu2 rpc=7 [[-1,0], all]': 'ndarray[<u2(2, 20)][[80, 81, 82, 83, 84, 85, 86, 87, 88, 89, 90, 91, 92, 93, '
                            '94, 95, 96, 97, 98, 99], [0, 1, 2, 3, 4, 5, 6, 7, 8, 9, 10, 11, 12, 13, 14, 15, '
                            "16, 17, 18, 19]] || io=[('open', ('image-file',), {'mode': 'rb'}), 'enter', "
                            "('seek', (20,), {}), ('read', (280,), {}), 'exit']",
 'iu2 rpc=7 [[], all]': "ndarray[<u2(0, 20)][] || io=[('open', ('image-file',), {'mode': 'rb'}), 'enter', "
                        "'exit']",
 'iu2 rpc=7 [array[4,0], all]': 'ndarray[<u2(2, 20)][[80, 81, 82, 83, 84, 85, 86, 87, 88, 89, 90, 91, 92, '
                                '93, 94, 95, 96, 97, 98, 99], [0, 1, 2, 3, 4, 5, 6, 7, 8, 9, 10, 11, 12, 13, '
                                "14, 15, 16, 17, 18, 19]] || io=[('open', ('image-file',), {'mode': 'rb'}), "
                                "'enter', ('seek', (20,), {}), ('read', (280,), {}), 'exit']",
 'iu2 rpc=7 [(1,3), all]': 'ndarray[<u2(2, 20)][[20, 21, 22, 23, 24, 25, 26, 27, 28, 29, 30, 31, 32, 33, 34, '
                           '35, 36, 37, 38, 39], [60, 61, 62, 63, 64, 65, 66, 67, 68, 69, 70, 71, 72, 73, '
                           "74, 75, 76, 77, 78, 79]] || io=[('open', ('image-file',), {'mode': 'rb'}), "
                           "'enter', ('seek', (20,), {}), ('read', (280,), {}), 'exit']",
 'iu2 rpc=7 [range(1,4), all]': 'ndarray[<u2(3, 20)][[20, 21, 22, 23, 24, 25, 26, 27, 28, 29, 30, 31, 32, '
                                '33, 34, 35, 36, 37, 38, 39], [40, 41, 42, 43, 44, 45, 46, 47, 48, 49, 50, '
                                '51, 52, 53, 54, 55, 56, 57, 58, 59], [60, 61, 62, 63, 64, 65, 66, 67, 68, '
                                "69, 70, 71, 72, 73, 74, 75, 76, 77, 78, 79]] || io=[('open', "
                                "('image-file',), {'mode': 'rb'}), 'enter', ('seek', (20,), {}), ('read', "
                                "(280,), {}), 'exit']",
 'iu2 rpc=7 [7, all]': 'raise builtins.IndexError: list index out of range || io=[]',
 'iu2 rpc=7 [-6, all]': 'raise builtins.IndexError: list index out of range || io=[]',
 'iu2 rpc=7 [[0,9], all]': 'raise builtins.IndexError: list index out of range || io=[]',
 'iu2 rpc=7 [1.5, all]': "raise builtins.TypeError: 'float' object is not iterable || io=[]",
 'iu2 rpc=7 [None, all]': "raise builtins.TypeError: 'NoneType' object is not iterable || io=[]",
 "iu2 rpc=7 ['a', all]": 'raise builtins.TypeError: list indices must be integers or slices, not str || '
                         'io=[]',
 'iu2 rpc=7 [[[0,1]], all]': 'raise builtins.TypeError: list indices must be integers or slices, not list || '
                             'io=[]',
 'iu2 rpc=-1 [0, all]': 'ndarray[<u2(20,)][0, 1, 2, 3, 4, 5, 6, 7, 8, 9, 10, 11, 12, 13, 14, 15, 16, 17, 18, '
                        "19] || io=[('open', ('image-file',), {'mode': 'rb'}), 'enter', ('seek', (20,), {}), "
                        "('read', (280,), {}), 'exit']",
 'iu2 rpc=-1 [2, all]': 'ndarray[<u2(20,)][40, 41, 42, 43, 44, 45, 46, 47, 48, 49, 50, 51, 52, 53, 54, 55, '
                        "56, 57, 58, 59] || io=[('open', ('image-file',), {'mode': 'rb'}), 'enter', ('seek', "
                        "(20,), {}), ('read', (280,), {}), 'exit']",
 'iu2 rpc=-1 [-1, all]': 'ndarray[<u2(20,)][80, 81, 82, 83, 84, 85, 86, 87, 88, 89, 90, 91, 92, 93, 94, 95, '
                         "96, 97, 98, 99] || io=[('open', ('image-file',), {'mode': 'rb'}), 'enter', "
                         "('seek', (20,), {}), ('read', (280,), {}), 'exit']",
 'iu2 rpc=-1 [True, all]': 'ndarray[<u2(20,)][20, 21, 22, 23, 24, 25, 26, 27, 28, 29, 30, 31, 32, 33, 34, '
                           "35, 36, 37, 38, 39] || io=[('open', ('image-file',), {'mode': 'rb'}), 'enter', "
                           "('seek', (20,), {}), ('read', (280,), {}), 'exit']",
 'iu2 rpc=-1 [np.int64(1), all]': "raise builtins.TypeError: 'numpy.int64' object is not iterable || io=[]",
 'iu2 rpc=-1 [all, all]': 'ndarray[<u2(5, 20)][[0, 1, 2, 3, 4, 5, 6, 7, 8, 9, 10, 11, 12, 13, 14, 15, 16, '
                          '17, 18, 19], [20, 21, 22, 23, 24, 25, 26, 27, 28, 29, 30, 31, 32, 33, 34, 35, 36, '
                          '37, 38, 39], [40, 41, 42, 43, 44, 45, 46, 47, 48, 49, 50, 51, 52, 53, 54, 55, 56, '
                          '57, 58, 59], [60, 61, 62, 63, 64, 65, 66, 67, 68, 69, 70, 71, 72, 73, 74, 75, 76, '
                          '77, 78, 79], [80, 81, 82, 83, 84, 85, 86, 87, 88, 89, 90, 91, 92, 93, 94, 95, 96, '
                          "97, 98, 99]] || io=[('open', ('image-file',), {'mode': 'rb'}), 'enter', ('seek', "
                          "(20,), {}), ('read', (280,), {}), 'exit']",
 'iu2 rpc=-1 [2:, all]': 'ndarray[<u2(3, 20)][[40, 41, 42, 43, 44, 45, 46, 47, 48, 49, 50, 51, 52, 53, 54, '
                         '55, 56, 57, 58, 59], [60, 61, 62, 63, 64, 65, 66, 67, 68, 69, 70, 71, 72, 73, 74, '
                         '75, 76, 77, 78, 79], [80, 81, 82, 83, 84, 85, 86, 87, 88, 89, 90, 91, 92, 93, 94, '
                         "95, 96, 97, 98, 99]] || io=[('open', ('image-file',), {'mode': 'rb'}), 'enter', "
                         "('seek', (20,), {}), ('read', (280,), {}), 'exit']",
 'iu2 rpc=-1 [:2, all]': 'ndarray[<u2(2, 20)][[0, 1, 2, 3, 4, 5, 6, 7, 8, 9, 10, 11, 12, 13, 14, 15, 16, 17, '
                         '18, 19], [20, 21, 22, 23, 24, 25, 26, 27, 28, 29, 30, 31, 32, 33, 34, 35, 36, 37, '
                         "38, 39]] || io=[('open', ('image-file',), {'mode': 'rb'}), 'enter', ('seek', "
                         "(20,), {}), ('read', (280,), {}), 'exit']",
 'iu2 rpc=-1 [-2:, all]': 'ndarray[<u2(2, 20)][[60, 61, 62, 63, 64, 65, 66, 67, 68, 69, 70, 71, 72, 73, 74, '
                          '75, 76, 77, 78, 79], [80, 81, 82, 83, 84, 85, 86, 87, 88, 89, 90, 91, 92, 93, 94, '
                          "95, 96, 97, 98, 99]] || io=[('open', ('image-file',), {'mode': 'rb'}), 'enter', "
                          "('seek', (20,), {}), ('read', (280,), {}), 'exit']",
 'iu2 rpc=-1 [::2, all]': 'ndarray[<u2(3, 20)][[0, 1, 2, 3, 4, 5, 6, 7, 8, 9, 10, 11, 12, 13, 14, 15, 16, '
                          '17, 18, 19], [40, 41, 42, 43, 44, 45, 46, 47, 48, 49, 50, 51, 52, 53, 54, 55, 56, '
                          '57, 58, 59], [80, 81, 82, 83, 84, 85, 86, 87, 88, 89, 90, 91, 92, 93, 94, 95, 96, '
                          "97, 98, 99]] || io=[('open', ('image-file',), {'mode': 'rb'}), 'enter', ('seek', "
                          "(20,), {}), ('read', (280,), {}), 'exit']",
 'iu2 rpc=-1 [1:4:2, all]': 'ndarray[<u2(2, 20)][[20, 21, 22, 23, 24, 25, 26, 27, 28, 29, 30, 31, 32, 33, '
                            '34, 35, 36, 37, 38, 39], [60, 61, 62, 63, 64, 65, 66, 67, 68, 69, 70, 71, 72, '
                            "73, 74, 75, 76, 77, 78, 79]] || io=[('open', ('image-file',), {'mode': 'rb'}), "
                            "'enter', ('seek', (20,), {}), ('read', (280,), {}), 'exit']",
 'iu2 rpc=-1 [::-1, all]': 'ndarray[<u2(5, 20)][[80, 81, 82, 83, 84, 85, 86, 87, 88, 89, 90, 91, 92, 93, 94, '
                           '95, 96, 97, 98, 99], [60, 61, 62, 63, 64, 65, 66, 67, 68, 69, 70, 71, 72, 73, '
                           '74, 75, 76, 77, 78, 79], [40, 41, 42, 43, 44, 45, 46, 47, 48, 49, 50, 51, 52, '
                           '53, 54, 55, 56, 57, 58, 59], [20, 21, 22, 23, 24, 25, 26, 27, 28, 29, 30, 31, '
                           '32, 33, 34, 35, 36, 37, 38, 39], [0, 1, 2, 3, 4, 5, 6, 7, 8, 9, 10, 11, 12, 13, '
                           "14, 15, 16, 17, 18, 19]] || io=[('open', ('image-file',), {'mode': 'rb'}), "
                           "'enter', ('seek', (20,), {}), ('read', (280,), {}), 'exit']",
 'iu2 rpc=-1 [-1::-2, all]': 'ndarray[<u2(3, 20)][[80, 81, 82, 83, 84, 85, 86, 87, 88, 89, 90, 91, 92, 93, '
                             '94, 95, 96, 97, 98, 99], [40, 41, 42, 43, 44, 45, 46, 47, 48, 49, 50, 51, 52, '
                             '53, 54, 55, 56, 57, 58, 59], [0, 1, 2, 3, 4, 5, 6, 7, 8, 9, 10, 11, 12, 13, '
                             "14, 15, 16, 17, 18, 19]] || io=[('open', ('image-file',), {'mode': 'rb'}), "
                             "'enter', ('seek', (20,), {}), ('read', (280,), {}), 'exit']",
 'iu2 rpc=-1 [0:0, all]': "ndarray[<u2(0, 20)][] || io=[('open', ('image-file',), {'mode': 'rb'}), 'enter', "
                          "'exit']",
 'iu2 rpc=-1 [4:1, all]': "ndarray[<u2(0, 20)][] || io=[('open', ('image-file',), {'mode': 'rb'}), 'enter', "
                          "'exit']",
 'iu2 rpc=-1 [10:, all]': "ndarray[<u2(0, 20)][] || io=[('open', ('image-file',), {'mode': 'rb'}), 'enter', "
                          "'exit']",
 'iu2 rpc=-1 [[0,2], all]': 'ndarray[<u2(2, 20)][[0, 1, 2, 3, 4, 5, 6, 7, 8, 9, 10, 11, 12, 13, 14, 15, 16, '
                            '17, 18, 19], [40, 41, 42, 43, 44, 45, 46, 47, 48, 49, 50, 51, 52, 53, 54, 55, '
                            "56, 57, 58, 59]] || io=[('open', ('image-file',), {'mode': 'rb'}), 'enter', "
                            "('seek', (20,), {}), ('read', (280,), {}), 'exit']",
 'iu2 rpc=-1 [[3,1,1], all]': 'ndarray[<u2(3, 20)][[60, 61, 62, 63, 64, 65, 66, 67, 68, 69, 70, 71, 72, 73, '
                              '74, 75, 76, 77, 78, 79], [20, 21, 22, 23, 24, 25, 26, 27, 28, 29, 30, 31, 32, '
                              '33, 34, 35, 36, 37, 38, 39], [20, 21, 22, 23, 24, 25, 26, 27, 28, 29, 30, 31, '
                              "32, 33, 34, 35, 36, 37, 38, 39]] || io=[('open', ('image-file',), {'mode': "
                              "'rb'}), 'enter', ('seek', (20,), {}), ('read', (280,), {}), 'exit']",
 'iu2 rpc=-1 [[0,1], all]': 'ndarray[<u2(2, 20)][[0, 1, 2, 3, 4, 5, 6, 7, 8, 9, 10, 11, 12, 13, 14, 15, 16, '
                            '17, 18, 19], [20, 21, 22, 23, 24, 25, 26, 27, 28, 29, 30, 31, 32, 33, 34, 35, '
                            "36, 37, 38, 39]] || io=[('open', ('image-file',), {'mode': 'rb'}), 'enter', "
                            "('seek', (20,), {}), ('read', (280,), {}), 'exit']",
 'iu2 rpc=-1 [[0], all]': 'ndarray[<u2(1, 20)][[0, 1, 2, 3, 4, 5, 6, 7, 8, 9, 10, 11, 12, 13, 14, 15, 16, '
                          "17, 18, 19]] || io=[('open', ('image-file',), {'mode': 'rb'}), 'enter', ('seek', "
                          "(20,), {}), ('read', (280,), {}), 'exit']",
 'iu2 rpc=-1 [[-1,0], all]': 'ndarray[<u2(2, 20)][[80, 81, 82, 83, 84, 85, 86, 87, 88, 89, 90, 91, 92, 93, '
                             '94, 95, 96, 97, 98, 99], [0, 1, 2, 3, 4, 5, 6, 7, 8, 9, 10, 11, 12, 13, 14, '
                             "15, 16, 17, 18, 19]] || io=[('open', ('image-file',), {'mode': 'rb'}), "
                             "'enter', ('seek', (20,), {}), ('read', (280,), {}), 'exit']",
 'iu2 rpc=-1 [[], all]': "ndarray[<u2(0, 20)][] || io=[('open', ('image-file',), {'mode': 'rb'}), 'enter', "
                         "'exit']",
 'iu2 rpc=-1 [array[4,0], all]': 'ndarray[<u2(2, 20)][[80, 81, 82, 83, 84, 85, 86, 87, 88, 89, 90, 91, 92, '
                                 '93, 94, 95, 96, 97, 98, 99], [0, 1, 2, 3, 4, 5, 6, 7, 8, 9, 10, 11, 12, '
                                 "13, 14, 15, 16, 17, 18, 19]] || io=[('open', ('image-file',), {'mode': "
                                 "'rb'}), 'enter', ('seek', (20,), {}), ('read', (280,), {}), 'exit']",
 'iu2 rpc=-1 [(1,3), all]': 'ndarray[<u2(2, 20)][[20, 21, 22, 23, 24, 25, 26, 27, 28, 29, 30, 31, 32, 33, '
                            '34, 35, 36, 37, 38, 39], [60, 61, 62, 63, 64, 65, 66, 67, 68, 69, 70, 71, 72, '
                            "73, 74, 75, 76, 77, 78, 79]] || io=[('open', ('image-file',), {'mode': 'rb'}), "
                            "'enter', ('seek', (20,), {}), ('read', (280,), {}), 'exit']",
 'iu2 rpc=-1 [range(1,4), all]': 'ndarray[<u2(3, 20)][[20, 21, 22, 23, 24, 25, 26, 27, 28, 29, 30, 31, 32, '
                                 '33, 34, 35, 36, 37, 38, 39], [40, 41, 42, 43, 44, 45, 46, 47, 48, 49, 50, '
                                 '51, 52, 53, 54, 55, 56, 57, 58, 59], [60, 61, 62, 63, 64, 65, 66, 67, 68, '
                                 "69, 70, 71, 72, 73, 74, 75, 76, 77, 78, 79]] || io=[('open', "
                                 "('image-file',), {'mode': 'rb'}), 'enter', ('seek', (20,), {}), ('read', "
                                 "(280,), {}), 'exit']",
 'iu2 rpc=-1 [7, all]': 'raise builtins.IndexError: list index out of range || io=[]',
 'iu2 rpc=-1 [-6, all]': 'raise builtins.IndexError: list index out of range || io=[]',
 'iu2 rpc=-1 [[0,9], all]': 'raise builtins.IndexError: list index out of range || io=[]',
 'iu2 rpc=-1 [1.5, all]': "raise builtins.TypeError: 'float' object is not iterable || io=[]",
 'iu2 rpc=-1 [None, all]': "raise builtins.TypeError: 'NoneType' object is not iterable || io=[]",
 "iu2 rpc=-1 ['a', all]": 'raise builtins.TypeError: list indices must be integers or slices, not str || '
                          'io=[]',
 'iu2 rpc=-1 [[[0,1]], all]': 'raise builtins.TypeError: list indices must be integers or slices, not list '
                              '|| io=[]',
 "iu2 rpc='auto' [0, all]": 'ndarray[<u2(20,)][0, 1, 2, 3, 4, 5, 6, 7, 8, 9, 10, 11, 12, 13, 14, 15, 16, 17, '
                            "18, 19] || io=[('open', ('image-file',), {'mode': 'rb'}), 'enter', ('seek', "
                            "(20,), {}), ('read', (280,), {}), 'exit']",
 "iu2 rpc='auto' [2, all]": 'ndarray[<u2(20,)][40, 41, 42, 43, 44, 45, 46, 47, 48, 49, 50, 51, 52, 53, 54, '
                            "55, 56, 57, 58, 59] || io=[('open', ('image-file',), {'mode': 'rb'}), 'enter', "
                            "('seek', (20,), {}), ('read', (280,), {}), 'exit']",
 "iu2 rpc='auto' [-1, all]": 'ndarray[<u2(20,)][80, 81, 82, 83, 84, 85, 86, 87, 88, 89, 90, 91, 92, 93, 94, '
                             "95, 96, 97, 98, 99] || io=[('open', ('image-file',), {'mode': 'rb'}), 'enter', "
                             "('seek', (20,), {}), ('read', (280,), {}), 'exit']",
 "iu2 rpc='auto' [True, all]": 'ndarray[<u2(20,)][20, 21, 22, 23, 24, 25, 26, 27, 28, 29, 30, 31, 32, 33, '
                               "34, 35, 36, 37, 38, 39] || io=[('open', ('image-file',), {'mode': 'rb'}), "
                               "'enter', ('seek', (20,), {}), ('read', (280,), {}), 'exit']",
 "iu2 rpc='auto' [np.int64(1), all]": "raise builtins.TypeError: 'numpy.int64' object is not iterable || "
                                      'io=[]',
 "iu2 rpc='auto' [all, all]": 'ndarray[<u2(5, 20)][[0, 1, 2, 3, 4, 5, 6, 7, 8, 9, 10, 11, 12, 13, 14, 15, '
                              '16, 17, 18, 19], [20, 21, 22, 23, 24, 25, 26, 27, 28, 29, 30, 31, 32, 33, 34, '
                              '35, 36, 37, 38, 39], [40, 41, 42, 43, 44, 45, 46, 47, 48, 49, 50, 51, 52, 53, '
                              '54, 55, 56, 57, 58, 59], [60, 61, 62, 63, 64, 65, 66, 67, 68, 69, 70, 71, 72, '
                              '73, 74, 75, 76, 77, 78, 79], [80, 81, 82, 83, 84, 85, 86, 87, 88, 89, 90, 91, '
                              "92, 93, 94, 95, 96, 97, 98, 99]] || io=[('open', ('image-file',), {'mode': "
                              "'rb'}), 'enter', ('seek', (20,), {}), ('read', (280,), {}), 'exit']",
 "iu2 rpc='auto' [2:, all]": 'ndarray[<u2(3, 20)][[40, 41, 42, 43, 44, 45, 46, 47, 48, 49, 50, 51, 52, 53, '
                             '54, 55, 56, 57, 58, 59], [60, 61, 62, 63, 64, 65, 66, 67, 68, 69, 70, 71, 72, '
                             '73, 74, 75, 76, 77, 78, 79], [80, 81, 82, 83, 84, 85, 86, 87, 88, 89, 90, 91, '
                             "92, 93, 94, 95, 96, 97, 98, 99]] || io=[('open', ('image-file',), {'mode': "
                             "'rb'}), 'enter', ('seek', (20,), {}), ('read', (280,), {}), 'exit']",
 "iu2 rpc='auto' [:2, all]": 'ndarray[<u2(2, 20)][[0, 1, 2, 3, 4, 5, 6, 7, 8, 9, 10, 11, 12, 13, 14, 15, 16, '
                             '17, 18, 19], [20, 21, 22, 23, 24, 25, 26, 27, 28, 29, 30, 31, 32, 33, 34, 35, '
                             "36, 37, 38, 39]] || io=[('open', ('image-file',), {'mode': 'rb'}), 'enter', "
                             "('seek', (20,), {}), ('read', (280,), {}), 'exit']",
 "iu2 rpc='auto' [-2:, all]": 'ndarray[<u2(2, 20)][[60, 61, 62, 63, 64, 65, 66, 67, 68, 69, 70, 71, 72, 73, '
                              '74, 75, 76, 77, 78, 79], [80, 81, 82, 83, 84, 85, 86, 87, 88, 89, 90, 91, 92, '
                              "93, 94, 95, 96, 97, 98, 99]] || io=[('open', ('image-file',), {'mode': "
                              "'rb'}), 'enter', ('seek', (20,), {}), ('read', (280,), {}), 'exit']",
 "iu2 rpc='auto' [::2, all]": 'ndarray[<u2(3, 20)][[0, 1, 2, 3, 4, 5, 6, 7, 8, 9, 10, 11, 12, 13, 14, 15, '
                              '16, 17, 18, 19], [40, 41, 42, 43, 44, 45, 46, 47, 48, 49, 50, 51, 52, 53, 54, '
                              '55, 56, 57, 58, 59], [80, 81, 82, 83, 84, 85, 86, 87, 88, 89, 90, 91, 92, 93, '
                              "94, 95, 96, 97, 98, 99]] || io=[('open', ('image-file',), {'mode': 'rb'}), "
                              "'enter', ('seek', (20,), {}), ('read', (280,), {}), 'exit']",
 "iu2 rpc='auto' [1:4:2, all]": 'ndarray[<u2(2, 20)][[20, 21, 22, 23, 24, 25, 26, 27, 28, 29, 30, 31, 32, '
                                '33, 34, 35, 36, 37, 38, 39], [60, 61, 62, 63, 64, 65, 66, 67, 68, 69, 70, '
                                "71, 72, 73, 74, 75, 76, 77, 78, 79]] || io=[('open', ('image-file',), "
                                "{'mode': 'rb'}), 'enter', ('seek', (20,), {}), ('read', (280,), {}), "
                                "'exit']",
 "iu2 rpc='auto' [::-1, all]": 'ndarray[<u2(5, 20)][[80, 81, 82, 83, 84, 85, 86, 87, 88, 89, 90, 91, 92, 93, '
                               '94, 95, 96, 97, 98, 99], [60, 61, 62, 63, 64, 65, 66, 67, 68, 69, 70, 71, '
                               '72, 73, 74, 75, 76, 77, 78, 79], [40, 41, 42, 43, 44, 45, 46, 47, 48, 49, '
                               '50, 51, 52, 53, 54, 55, 56, 57, 58, 59], [20, 21, 22, 23, 24, 25, 26, 27, '
                               '28, 29, 30, 31, 32, 33, 34, 35, 36, 37, 38, 39], [0, 1, 2, 3, 4, 5, 6, 7, 8, '
                               "9, 10, 11, 12, 13, 14, 15, 16, 17, 18, 19]] || io=[('open', ('image-file',), "
                               "{'mode': 'rb'}), 'enter', ('seek', (20,), {}), ('read', (280,), {}), 'exit']",
 "iu2 rpc='auto' [-1::-2, all]": 'ndarray[<u2(3, 20)][[80, 81, 82, 83, 84, 85, 86, 87, 88, 89, 90, 91, 92, '
                                 '93, 94, 95, 96, 97, 98, 99], [40, 41, 42, 43, 44, 45, 46, 47, 48, 49, 50, '
                                 '51, 52, 53, 54, 55, 56, 57, 58, 59], [0, 1, 2, 3, 4, 5, 6, 7, 8, 9, 10, '
                                 "11, 12, 13, 14, 15, 16, 17, 18, 19]] || io=[('open', ('image-file',), "
                                 "{'mode': 'rb'}), 'enter', ('seek', (20,), {}), ('read', (280,), {}), "
                                 "'exit']",
 "iu2 rpc='auto' [0:0, all]": "ndarray[<u2(0, 20)][] || io=[('open', ('image-file',), {'mode': 'rb'}), "
                              "'enter', 'exit']",
 "iu2 rpc='auto' [4:1, all]": "ndarray[<u2(0, 20)][] || io=[('open', ('image-file',), {'mode': 'rb'}), "
                              "'enter', 'exit']",
 "iu2 rpc='auto' [10:, all]": "ndarray[<u2(0, 20)][] || io=[('open', ('image-file',), {'mode': 'rb'}), "
                              "'enter', 'exit']",
 "iu2 rpc='auto' [[0,2], all]": 'ndarray[<u2(2, 20)][[0, 1, 2, 3, 4, 5, 6, 7, 8, 9, 10, 11, 12, 13, 14, 15, '
                                '16, 17, 18, 19], [40, 41, 42, 43, 44, 45, 46, 47, 48, 49, 50, 51, 52, 53, '
                                "54, 55, 56, 57, 58, 59]] || io=[('open', ('image-file',), {'mode': 'rb'}), "
                                "'enter', ('seek', (20,), {}), ('read', (280,), {}), 'exit']",
 "iu2 rpc='auto' [[3,1,1], all]": 'ndarray[<u2(3, 20)][[60, 61, 62, 63, 64, 65, 66, 67, 68, 69, 70, 71, 72, '
                                  '73, 74, 75, 76, 77, 78, 79], [20, 21, 22, 23, 24, 25, 26, 27, 28, 29, 30, '
                                  '31, 32, 33, 34, 35, 36, 37, 38, 39], [20, 21, 22, 23, 24, 25, 26, 27, 28, '
                                  "29, 30, 31, 32, 33, 34, 35, 36, 37, 38, 39]] || io=[('open', "
                                  "('image-file',), {'mode': 'rb'}), 'enter', ('seek', (20,), {}), ('read', "
                                  "(280,), {}), 'exit']",
 "iu2 rpc='auto' [[0,1], all]": 'ndarray[<u2(2, 20)][[0, 1, 2, 3, 4, 5, 6, 7, 8, 9, 10, 11, 12, 13, 14, 15, '
                                '16, 17, 18, 19], [20, 21, 22, 23, 24, 25, 26, 27, 28, 29, 30, 31, 32, 33, '
                                "34, 35, 36, 37, 38, 39]] || io=[('open', ('image-file',), {'mode': 'rb'}), "
                                "'enter', ('seek', (20,), {}), ('read', (280,), {}), 'exit']",
 "iu2 rpc='auto' [[0], all]": 'ndarray[<u2(1, 20)][[0, 1, 2, 3, 4, 5, 6, 7, 8, 9, 10, 11, 12, 13, 14, 15, '
                              "16, 17, 18, 19]] || io=[('open', ('image-file',), {'mode': 'rb'}), 'enter', "
                              "('seek', (20,), {}), ('read', (280,), {}), 'exit']",
 "iu2 rpc='auto' [[-1,0], all]": 'ndarray[<u2(2, 20)][[80, 81, 82, 83, 84, 85, 86, 87, 88, 89, 90, 91, 92, '
                                 '93, 94, 95, 96, 97, 98, 99], [0, 1, 2, 3, 4, 5, 6, 7, 8, 9, 10, 11, 12, '
                                 "13, 14, 15, 16, 17, 18, 19]] || io=[('open', ('image-file',), {'mode': "
                                 "'rb'}), 'enter', ('seek', (20,), {}), ('read', (280,), {}), 'exit']",
 "iu2 rpc='auto' [[], all]": "ndarray[<u2(0, 20)][] || io=[('open', ('image-file',), {'mode': 'rb'}), "
                             "'enter', 'exit']",
 "iu2 rpc='auto' [array[4,0], all]": 'ndarray[<u2(2, 20)][[80, 81, 82, 83, 84, 85, 86, 87, 88, 89, 90, 91, '
                                     '92, 93, 94, 95, 96, 97, 98, 99], [0, 1, 2, 3, 4, 5, 6, 7, 8, 9, 10, '
                                     "11, 12, 13, 14, 15, 16, 17, 18, 19]] || io=[('open', ('image-file',), "
                                     "{'mode': 'rb'}), 'enter', ('seek', (20,), {}), ('read', (280,), {}), "
                                     "'exit']",
 "iu2 rpc='auto' [(1,3), all]": 'ndarray[<u2(2, 20)][[20, 21, 22, 23, 24, 25, 26, 27, 28, 29, 30, 31, 32, '
                                '33, 34, 35, 36, 37, 38, 39], [60, 61, 62, 63, 64, 65, 66, 67, 68, 69, 70, '
                                "71, 72, 73, 74, 75, 76, 77, 78, 79]] || io=[('open', ('image-file',), "
                                "{'mode': 'rb'}), 'enter', ('seek', (20,), {}), ('read', (280,), {}), "
                                "'exit']",
 "iu2 rpc='auto' [range(1,4), all]": 'ndarray[<u2(3, 20)][[20, 21, 22, 23, 24, 25, 26, 27, 28, 29, 30, 31, '
                                     '32, 33, 34, 35, 36, 37, 38, 39], [40, 41, 42, 43, 44, 45, 46, 47, 48, '
                                     '49, 50, 51, 52, 53, 54, 55, 56, 57, 58, 59], [60, 61, 62, 63, 64, 65, '
                                     '66, 67, 68, 69, 70, 71, 72, 73, 74, 75, 76, 77, 78, 79]] || '
                                     "io=[('open', ('image-file',), {'mode': 'rb'}), 'enter', ('seek', "
                                     "(20,), {}), ('read', (280,), {}), 'exit']",
 "iu2 rpc='auto' [7, all]": 'raise builtins.IndexError: list index out of range || io=[]',
 "iu2 rpc='auto' [-6, all]": 'raise builtins.IndexError: list index out of range || io=[]',
 "iu2 rpc='auto' [[0,9], all]": 'raise builtins.IndexError: list index out of range || io=[]',
 "iu2 rpc='auto' [1.5, all]": "raise builtins.TypeError: 'float' object is not iterable || io=[]",
 "iu2 rpc='auto' [None, all]": "raise builtins.TypeError: 'NoneType' object is not iterable || io=[]",
 "iu2 rpc='auto' ['a', all]": 'raise builtins.TypeError: list indices must be integers or slices, not str || '
                              'io=[]',
 "iu2 rpc='auto' [[[0,1]], all]": 'raise builtins.TypeError: list indices must be integers or slices, not '
                                  'list || io=[]',
 "iu2 rpc='80B' [0, all]": 'ndarray[<u2(20,)][0, 1, 2, 3, 4, 5, 6, 7, 8, 9, 10, 11, 12, 13, 14, 15, 16, 17, '
                           "18, 19] || io=[('open', ('image-file',), {'mode': 'rb'}), 'enter', ('seek', "
                           "(20,), {}), ('read', (100,), {}), 'exit']",
 "iu2 rpc='80B' [2, all]": 'ndarray[<u2(20,)][40, 41, 42, 43, 44, 45, 46, 47, 48, 49, 50, 51, 52, 53, 54, '
                           "55, 56, 57, 58, 59] || io=[('open', ('image-file',), {'mode': 'rb'}), 'enter', "
                           "('seek', (140,), {}), ('read', (100,), {}), 'exit']",
 "iu2 rpc='80B' [-1, all]": 'ndarray[<u2(20,)][80, 81, 82, 83, 84, 85, 86, 87, 88, 89, 90, 91, 92, 93, 94, '
                            "95, 96, 97, 98, 99] || io=[('open', ('image-file',), {'mode': 'rb'}), 'enter', "
                            "('seek', (260,), {}), ('read', (40,), {}), 'exit']",
 "iu2 rpc='80B' [True, all]": 'ndarray[<u2(20,)][20, 21, 22, 23, 24, 25, 26, 27, 28, 29, 30, 31, 32, 33, 34, '
                              "35, 36, 37, 38, 39] || io=[('open', ('image-file',), {'mode': 'rb'}), "
                              "'enter', ('seek', (20,), {}), ('read', (100,), {}), 'exit']",
 "iu2 rpc='80B' [np.int64(1), all]": "raise builtins.TypeError: 'numpy.int64' object is not iterable || "
                                     'io=[]',
 "iu2 rpc='80B' [all, all]": 'ndarray[<u2(5, 20)][[0, 1, 2, 3, 4, 5, 6, 7, 8, 9, 10, 11, 12, 13, 14, 15, 16, '
                             '17, 18, 19], [20, 21, 22, 23, 24, 25, 26, 27, 28, 29, 30, 31, 32, 33, 34, 35, '
                             '36, 37, 38, 39], [40, 41, 42, 43, 44, 45, 46, 47, 48, 49, 50, 51, 52, 53, 54, '
                             '55, 56, 57, 58, 59], [60, 61, 62, 63, 64, 65, 66, 67, 68, 69, 70, 71, 72, 73, '
                             '74, 75, 76, 77, 78, 79], [80, 81, 82, 83, 84, 85, 86, 87, 88, 89, 90, 91, 92, '
                             "93, 94, 95, 96, 97, 98, 99]] || io=[('open', ('image-file',), {'mode': 'rb'}), "
                             "'enter', ('seek', (20,), {}), ('read', (100,), {}), ('seek', (140,), {}), "
                             "('read', (100,), {}), ('seek', (260,), {}), ('read', (40,), {}), 'exit']",
 "iu2 rpc='80B' [2:, all]": 'ndarray[<u2(3, 20)][[40, 41, 42, 43, 44, 45, 46, 47, 48, 49, 50, 51, 52, 53, '
                            '54, 55, 56, 57, 58, 59], [60, 61, 62, 63, 64, 65, 66, 67, 68, 69, 70, 71, 72, '
                            '73, 74, 75, 76, 77, 78, 79], [80, 81, 82, 83, 84, 85, 86, 87, 88, 89, 90, 91, '
                            "92, 93, 94, 95, 96, 97, 98, 99]] || io=[('open', ('image-file',), {'mode': "
                            "'rb'}), 'enter', ('seek', (140,), {}), ('read', (100,), {}), ('seek', (260,), "
                            "{}), ('read', (40,), {}), 'exit']",
 "iu2 rpc='80B' [:2, all]": 'ndarray[<u2(2, 20)][[0, 1, 2, 3, 4, 5, 6, 7, 8, 9, 10, 11, 12, 13, 14, 15, 16, '
                            '17, 18, 19], [20, 21, 22, 23, 24, 25, 26, 27, 28, 29, 30, 31, 32, 33, 34, 35, '
                            "36, 37, 38, 39]] || io=[('open', ('image-file',), {'mode': 'rb'}), 'enter', "
                            "('seek', (20,), {}), ('read', (100,), {}), 'exit']",
 "iu2 rpc='80B' [-2:, all]": 'ndarray[<u2(2, 20)][[60, 61, 62, 63, 64, 65, 66, 67, 68, 69, 70, 71, 72, 73, '
                             '74, 75, 76, 77, 78, 79], [80, 81, 82, 83, 84, 85, 86, 87, 88, 89, 90, 91, 92, '
                             "93, 94, 95, 96, 97, 98, 99]] || io=[('open', ('image-file',), {'mode': 'rb'}), "
                             "'enter', ('seek', (140,), {}), ('read', (100,), {}), ('seek', (260,), {}), "
                             "('read', (40,), {}), 'exit']",
 "iu2 rpc='80B' [::2, all]": 'ndarray[<u2(3, 20)][[0, 1, 2, 3, 4, 5, 6, 7, 8, 9, 10, 11, 12, 13, 14, 15, 16, '
                             '17, 18, 19], [40, 41, 42, 43, 44, 45, 46, 47, 48, 49, 50, 51, 52, 53, 54, 55, '
                             '56, 57, 58, 59], [80, 81, 82, 83, 84, 85, 86, 87, 88, 89, 90, 91, 92, 93, 94, '
                             "95, 96, 97, 98, 99]] || io=[('open', ('image-file',), {'mode': 'rb'}), "
                             "'enter', ('seek', (20,), {}), ('read', (100,), {}), ('seek', (140,), {}), "
                             "('read', (100,), {}), ('seek', (260,), {}), ('read', (40,), {}), 'exit']",
 "iu2 rpc='80B' [1:4:2, all]": 'ndarray[<u2(2, 20)][[20, 21, 22, 23, 24, 25, 26, 27, 28, 29, 30, 31, 32, 33, '
                               '34, 35, 36, 37, 38, 39], [60, 61, 62, 63, 64, 65, 66, 67, 68, 69, 70, 71, '
                               "72, 73, 74, 75, 76, 77, 78, 79]] || io=[('open', ('image-file',), {'mode': "
                               "'rb'}), 'enter', ('seek', (20,), {}), ('read', (100,), {}), ('seek', (140,), "
                               "{}), ('read', (100,), {}), 'exit']",
 "iu2 rpc='80B' [::-1, all]": 'ndarray[<u2(5, 20)][[80, 81, 82, 83, 84, 85, 86, 87, 88, 89, 90, 91, 92, 93, '
                              '94, 95, 96, 97, 98, 99], [60, 61, 62, 63, 64, 65, 66, 67, 68, 69, 70, 71, 72, '
                              '73, 74, 75, 76, 77, 78, 79], [40, 41, 42, 43, 44, 45, 46, 47, 48, 49, 50, 51, '
                              '52, 53, 54, 55, 56, 57, 58, 59], [20, 21, 22, 23, 24, 25, 26, 27, 28, 29, 30, '
                              '31, 32, 33, 34, 35, 36, 37, 38, 39], [0, 1, 2, 3, 4, 5, 6, 7, 8, 9, 10, 11, '
                              "12, 13, 14, 15, 16, 17, 18, 19]] || io=[('open', ('image-file',), {'mode': "
                              "'rb'}), 'enter', ('seek', (260,), {}), ('read', (40,), {}), ('seek', (140,), "
                              "{}), ('read', (100,), {}), ('seek', (20,), {}), ('read', (100,), {}), 'exit']",
 "iu2 rpc='80B' [-1::-2, all]": 'ndarray[<u2(3, 20)][[80, 81, 82, 83, 84, 85, 86, 87, 88, 89, 90, 91, 92, '
                                '93, 94, 95, 96, 97, 98, 99], [40, 41, 42, 43, 44, 45, 46, 47, 48, 49, 50, '
                                '51, 52, 53, 54, 55, 56, 57, 58, 59], [0, 1, 2, 3, 4, 5, 6, 7, 8, 9, 10, 11, '
                                "12, 13, 14, 15, 16, 17, 18, 19]] || io=[('open', ('image-file',), {'mode': "
                                "'rb'}), 'enter', ('seek', (260,), {}), ('read', (40,), {}), ('seek', "
                                "(140,), {}), ('read', (100,), {}), ('seek', (20,), {}), ('read', (100,), "
                                "{}), 'exit']",
 "iu2 rpc='80B' [0:0, all]": "ndarray[<u2(0, 20)][] || io=[('open', ('image-file',), {'mode': 'rb'}), "
                             "'enter', 'exit']",
 "iu2 rpc='80B' [4:1, all]": "ndarray[<u2(0, 20)][] || io=[('open', ('image-file',), {'mode': 'rb'}), "
                             "'enter', 'exit']",
 "iu2 rpc='80B' [10:, all]": "ndarray[<u2(0, 20)][] || io=[('open', ('image-file',), {'mode': 'rb'}), "
                             "'enter', 'exit']",
 "iu2 rpc='80B' [[0,2], all]": 'ndarray[<u2(2, 20)][[0, 1, 2, 3, 4, 5, 6, 7, 8, 9, 10, 11, 12, 13, 14, 15, '
                               '16, 17, 18, 19], [40, 41, 42, 43, 44, 45, 46, 47, 48, 49, 50, 51, 52, 53, '
                               "54, 55, 56, 57, 58, 59]] || io=[('open', ('image-file',), {'mode': 'rb'}), "
                               "'enter', ('seek', (20,), {}), ('read', (100,), {}), ('seek', (140,), {}), "
                               "('read', (100,), {}), 'exit']",
 "iu2 rpc='80B' [[3,1,1], all]": 'ndarray[<u2(3, 20)][[60, 61, 62, 63, 64, 65, 66, 67, 68, 69, 70, 71, 72, '
                                 '73, 74, 75, 76, 77, 78, 79], [20, 21, 22, 23, 24, 25, 26, 27, 28, 29, 30, '
                                 '31, 32, 33, 34, 35, 36, 37, 38, 39], [20, 21, 22, 23, 24, 25, 26, 27, 28, '
                                 "29, 30, 31, 32, 33, 34, 35, 36, 37, 38, 39]] || io=[('open', "
                                 "('image-file',), {'mode': 'rb'}), 'enter', ('seek', (140,), {}), ('read', "
                                 "(100,), {}), ('seek', (20,), {}), ('read', (100,), {}), 'exit']",
 "iu2 rpc='80B' [[0,1], all]": 'ndarray[<u2(2, 20)][[0, 1, 2, 3, 4, 5, 6, 7, 8, 9, 10, 11, 12, 13, 14, 15, '
                               '16, 17, 18, 19], [20, 21, 22, 23, 24, 25, 26, 27, 28, 29, 30, 31, 32, 33, '
                               "34, 35, 36, 37, 38, 39]] || io=[('open', ('image-file',), {'mode': 'rb'}), "
                               "'enter', ('seek', (20,), {}), ('read', (100,), {}), 'exit']",
 "iu2 rpc='80B' [[0], all]": 'ndarray[<u2(1, 20)][[0, 1, 2, 3, 4, 5, 6, 7, 8, 9, 10, 11, 12, 13, 14, 15, 16, '
                             "17, 18, 19]] || io=[('open', ('image-file',), {'mode': 'rb'}), 'enter', "
                             "('seek', (20,), {}), ('read', (100,), {}), 'exit']",
 "iu2 rpc='80B' [[-1,0], all]": 'ndarray[<u2(2, 20)][[80, 81, 82, 83, 84, 85, 86, 87, 88, 89, 90, 91, 92, '
                                '93, 94, 95, 96, 97, 98, 99], [0, 1, 2, 3, 4, 5, 6, 7, 8, 9, 10, 11, 12, 13, '
                                "14, 15, 16, 17, 18, 19]] || io=[('open', ('image-file',), {'mode': 'rb'}), "
                                "'enter', ('seek', (260,), {}), ('read', (40,), {}), ('seek', (20,), {}), "
                                "('read', (100,), {}), 'exit']",
 "iu2 rpc='80B' [[], all]": "ndarray[<u2(0, 20)][] || io=[('open', ('image-file',), {'mode': 'rb'}), "
                            "'enter', 'exit']",
 "iu2 rpc='80B' [array[4,0], all]": 'ndarray[<u2(2, 20)][[80, 81, 82, 83, 84, 85, 86, 87, 88, 89, 90, 91, '
                                    '92, 93, 94, 95, 96, 97, 98, 99], [0, 1, 2, 3, 4, 5, 6, 7, 8, 9, 10, 11, '
                                    "12, 13, 14, 15, 16, 17, 18, 19]] || io=[('open', ('image-file',), "
                                    "{'mode': 'rb'}), 'enter', ('seek', (260,), {}), ('read', (40,), {}), "
                                    "('seek', (20,), {}), ('read', (100,), {}), 'exit']",
 "iu2 rpc='80B' [(1,3), all]": 'ndarray[<u2(2, 20)][[20, 21, 22, 23, 24, 25, 26, 27, 28, 29, 30, 31, 32, 33, '
                               '34, 35, 36, 37, 38, 39], [60, 61, 62, 63, 64, 65, 66, 67, 68, 69, 70, 71, '
                               "72, 73, 74, 75, 76, 77, 78, 79]] || io=[('open', ('image-file',), {'mode': "
                               "'rb'}), 'enter', ('seek', (20,), {}), ('read', (100,), {}), ('seek', (140,), "
                               "{}), ('read', (100,), {}), 'exit']",
 "iu2 rpc='80B' [range(1,4), all]": 'ndarray[<u2(3, 20)][[20, 21, 22, 23, 24, 25, 26, 27, 28, 29, 30, 31, '
                                    '32, 33, 34, 35, 36, 37, 38, 39], [40, 41, 42, 43, 44, 45, 46, 47, 48, '
                                    '49, 50, 51, 52, 53, 54, 55, 56, 57, 58, 59], [60, 61, 62, 63, 64, 65, '
                                    '66, 67, 68, 69, 70, 71, 72, 73, 74, 75, 76, 77, 78, 79]] || '
                                    "io=[('open', ('image-file',), {'mode': 'rb'}), 'enter', ('seek', (20,), "
                                    "{}), ('read', (100,), {}), ('seek', (140,), {}), ('read', (100,), {}), "
                                    "'exit']",
 "iu2 rpc='80B' [7, all]": 'raise builtins.IndexError: list index out of range || io=[]',
 "iu2 rpc='80B' [-6, all]": 'raise builtins.IndexError: list index out of range || io=[]',
 "iu2 rpc='80B' [[0,9], all]": 'raise builtins.IndexError: list index out of range || io=[]',
 "iu2 rpc='80B' [1.5, all]": "raise builtins.TypeError: 'float' object is not iterable || io=[]",
 "iu2 rpc='80B' [None, all]": "raise builtins.TypeError: 'NoneType' object is not iterable || io=[]",
 "iu2 rpc='80B' ['a', all]": 'raise builtins.TypeError: list indices must be integers or slices, not str || '
                             'io=[]',
 "iu2 rpc='80B' [[[0,1]], all]": 'raise builtins.TypeError: list indices must be integers or slices, not '
                                 'list || io=[]',
 "iu2 rpc='1B' [0, all]": 'ndarray[<u2(20,)][0, 1, 2, 3, 4, 5, 6, 7, 8, 9, 10, 11, 12, 13, 14, 15, 16, 17, '
                          "18, 19] || io=[('open', ('image-file',), {'mode': 'rb'}), 'enter', ('seek', "
                          "(20,), {}), ('read', (40,), {}), 'exit']",
 "iu2 rpc='1B' [2, all]": 'ndarray[<u2(20,)][40, 41, 42, 43, 44, 45, 46, 47, 48, 49, 50, 51, 52, 53, 54, 55, '
                          "56, 57, 58, 59] || io=[('open', ('image-file',), {'mode': 'rb'}), 'enter', "
                          "('seek', (140,), {}), ('read', (40,), {}), 'exit']",
 "iu2 rpc='1B' [-1, all]": 'ndarray[<u2(20,)][80, 81, 82, 83, 84, 85, 86, 87, 88, 89, 90, 91, 92, 93, 94, '
                           "95, 96, 97, 98, 99] || io=[('open', ('image-file',), {'mode': 'rb'}), 'enter', "
                           "('seek', (260,), {}), ('read', (40,), {}), 'exit']",
 "iu2 rpc='1B' [True, all]": 'ndarray[<u2(20,)][20, 21, 22, 23, 24, 25, 26, 27, 28, 29, 30, 31, 32, 33, 34, '
                             "35, 36, 37, 38, 39] || io=[('open', ('image-file',), {'mode': 'rb'}), 'enter', "
                             "('seek', (80,), {}), ('read', (40,), {}), 'exit']",
 "iu2 rpc='1B' [np.int64(1), all]": "raise builtins.TypeError: 'numpy.int64' object is not iterable || io=[]",
 "iu2 rpc='1B' [all, all]": 'ndarray[<u2(5, 20)][[0, 1, 2, 3, 4, 5, 6, 7, 8, 9, 10, 11, 12, 13, 14, 15, 16, '
                            '17, 18, 19], [20, 21, 22, 23, 24, 25, 26, 27, 28, 29, 30, 31, 32, 33, 34, 35, '
                            '36, 37, 38, 39], [40, 41, 42, 43, 44, 45, 46, 47, 48, 49, 50, 51, 52, 53, 54, '
                            '55, 56, 57, 58, 59], [60, 61, 62, 63, 64, 65, 66, 67, 68, 69, 70, 71, 72, 73, '
                            '74, 75, 76, 77, 78, 79], [80, 81, 82, 83, 84, 85, 86, 87, 88, 89, 90, 91, 92, '
                            "93, 94, 95, 96, 97, 98, 99]] || io=[('open', ('image-file',), {'mode': 'rb'}), "
                            "'enter', ('seek', (20,), {}), ('read', (40,), {}), ('seek', (80,), {}), "
                            "('read', (40,), {}), ('seek', (140,), {}), ('read', (40,), {}), ('seek', "
                            "(200,), {}), ('read', (40,), {}), ('seek', (260,), {}), ('read', (40,), {}), "
                            "'exit']",
 "iu2 rpc='1B' [2:, all]": 'ndarray[<u2(3, 20)][[40, 41, 42, 43, 44, 45, 46, 47, 48, 49, 50, 51, 52, 53, 54, '
                           '55, 56, 57, 58, 59], [60, 61, 62, 63, 64, 65, 66, 67, 68, 69, 70, 71, 72, 73, '
                           '74, 75, 76, 77, 78, 79], [80, 81, 82, 83, 84, 85, 86, 87, 88, 89, 90, 91, 92, '
                           "93, 94, 95, 96, 97, 98, 99]] || io=[('open', ('image-file',), {'mode': 'rb'}), "
                           "'enter', ('seek', (140,), {}), ('read', (40,), {}), ('seek', (200,), {}), "
                           "('read', (40,), {}), ('seek', (260,), {}), ('read', (40,), {}), 'exit']",
 "iu2 rpc='1B' [:2, all]": 'ndarray[<u2(2, 20)][[0, 1, 2, 3, 4, 5, 6, 7, 8, 9, 10, 11, 12, 13, 14, 15, 16, '
                           '17, 18, 19], [20, 21, 22, 23, 24, 25, 26, 27, 28, 29, 30, 31, 32, 33, 34, 35, '
                           "36, 37, 38, 39]] || io=[('open', ('image-file',), {'mode': 'rb'}), 'enter', "
                           "('seek', (20,), {}), ('read', (40,), {}), ('seek', (80,), {}), ('read', (40,), "
                           "{}), 'exit']",
 "iu2 rpc='1B' [-2:, all]": 'ndarray[<u2(2, 20)][[60, 61, 62, 63, 64, 65, 66, 67, 68, 69, 70, 71, 72, 73, '
                            '74, 75, 76, 77, 78, 79], [80, 81, 82, 83, 84, 85, 86, 87, 88, 89, 90, 91, 92, '
                            "93, 94, 95, 96, 97, 98, 99]] || io=[('open', ('image-file',), {'mode': 'rb'}), "
                            "'enter', ('seek', (200,), {}), ('read', (40,), {}), ('seek', (260,), {}), "
                            "('read', (40,), {}), 'exit']",
 "iu2 rpc='1B' [::2, all]": 'ndarray[<u2(3, 20)][[0, 1, 2, 3, 4, 5, 6, 7, 8, 9, 10, 11, 12, 13, 14, 15, 16, '
                            '17, 18, 19], [40, 41, 42, 43, 44, 45, 46, 47, 48, 49, 50, 51, 52, 53, 54, 55, '
                            '56, 57, 58, 59], [80, 81, 82, 83, 84, 85, 86, 87, 88, 89, 90, 91, 92, 93, 94, '
                            "95, 96, 97, 98, 99]] || io=[('open', ('image-file',), {'mode': 'rb'}), 'enter', "
                            "('seek', (20,), {}), ('read', (40,), {}), ('seek', (140,), {}), ('read', (40,), "
                            "{}), ('seek', (260,), {}), ('read', (40,), {}), 'exit']",
 "iu2 rpc='1B' [1:4:2, all]": 'ndarray[<u2(2, 20)][[20, 21, 22, 23, 24, 25, 26, 27, 28, 29, 30, 31, 32, 33, '
                              '34, 35, 36, 37, 38, 39], [60, 61, 62, 63, 64, 65, 66, 67, 68, 69, 70, 71, 72, '
                              "73, 74, 75, 76, 77, 78, 79]] || io=[('open', ('image-file',), {'mode': "
                              "'rb'}), 'enter', ('seek', (80,), {}), ('read', (40,), {}), ('seek', (200,), "
                              "{}), ('read', (40,), {}), 'exit']",
 "iu2 rpc='1B' [::-1, all]": 'ndarray[<u2(5, 20)][[80, 81, 82, 83, 84, 85, 86, 87, 88, 89, 90, 91, 92, 93, '
                             '94, 95, 96, 97, 98, 99], [60, 61, 62, 63, 64, 65, 66, 67, 68, 69, 70, 71, 72, '
                             '73, 74, 75, 76, 77, 78, 79], [40, 41, 42, 43, 44, 45, 46, 47, 48, 49, 50, 51, '
                             '52, 53, 54, 55, 56, 57, 58, 59], [20, 21, 22, 23, 24, 25, 26, 27, 28, 29, 30, '
                             '31, 32, 33, 34, 35, 36, 37, 38, 39], [0, 1, 2, 3, 4, 5, 6, 7, 8, 9, 10, 11, '
                             "12, 13, 14, 15, 16, 17, 18, 19]] || io=[('open', ('image-file',), {'mode': "
                             "'rb'}), 'enter', ('seek', (260,), {}), ('read', (40,), {}), ('seek', (200,), "
                             "{}), ('read', (40,), {}), ('seek', (140,), {}), ('read', (40,), {}), ('seek', "
                             "(80,), {}), ('read', (40,), {}), ('seek', (20,), {}), ('read', (40,), {}), "
                             "'exit']",
 "iu2 rpc='1B' [-1::-2, all]": 'ndarray[<u2(3, 20)][[80, 81, 82, 83, 84, 85, 86, 87, 88, 89, 90, 91, 92, 93, '
                               '94, 95, 96, 97, 98, 99], [40, 41, 42, 43, 44, 45, 46, 47, 48, 49, 50, 51, '
                               '52, 53, 54, 55, 56, 57, 58, 59], [0, 1, 2, 3, 4, 5, 6, 7, 8, 9, 10, 11, 12, '
                               "13, 14, 15, 16, 17, 18, 19]] || io=[('open', ('image-file',), {'mode': "
                               "'rb'}), 'enter', ('seek', (260,), {}), ('read', (40,), {}), ('seek', (140,), "
                               "{}), ('read', (40,), {}), ('seek', (20,), {}), ('read', (40,), {}), 'exit']",
 "iu2 rpc='1B' [0:0, all]": "ndarray[<u2(0, 20)][] || io=[('open', ('image-file',), {'mode': 'rb'}), "
                            "'enter', 'exit']",
 "iu2 rpc='1B' [4:1, all]": "ndarray[<u2(0, 20)][] || io=[('open', ('image-file',), {'mode': 'rb'}), "
                            "'enter', 'exit']",
 "iu2 rpc='1B' [10:, all]": "ndarray[<u2(0, 20)][] || io=[('open', ('image-file',), {'mode': 'rb'}), "
                            "'enter', 'exit']",
 "iu2 rpc='1B' [[0,2], all]": 'ndarray[<u2(2, 20)][[0, 1, 2, 3, 4, 5, 6, 7, 8, 9, 10, 11, 12, 13, 14, 15, '
                              '16, 17, 18, 19], [40, 41, 42, 43, 44, 45, 46, 47, 48, 49, 50, 51, 52, 53, 54, '
                              "55, 56, 57, 58, 59]] || io=[('open', ('image-file',), {'mode': 'rb'}), "
                              "'enter', ('seek', (20,), {}), ('read', (40,), {}), ('seek', (140,), {}), "
                              "('read', (40,), {}), 'exit']",
 "iu2 rpc='1B' [[3,1,1], all]": 'ndarray[<u2(3, 20)][[60, 61, 62, 63, 64, 65, 66, 67, 68, 69, 70, 71, 72, '
                                '73, 74, 75, 76, 77, 78, 79], [20, 21, 22, 23, 24, 25, 26, 27, 28, 29, 30, '
                                '31, 32, 33, 34, 35, 36, 37, 38, 39], [20, 21, 22, 23, 24, 25, 26, 27, 28, '
                                "29, 30, 31, 32, 33, 34, 35, 36, 37, 38, 39]] || io=[('open', "
                                "('image-file',), {'mode': 'rb'}), 'enter', ('seek', (200,), {}), ('read', "
                                "(40,), {}), ('seek', (80,), {}), ('read', (40,), {}), 'exit']",
 "iu2 rpc='1B' [[0,1], all]": 'ndarray[<u2(2, 20)][[0, 1, 2, 3, 4, 5, 6, 7, 8, 9, 10, 11, 12, 13, 14, 15, '
                              '16, 17, 18, 19], [20, 21, 22, 23, 24, 25, 26, 27, 28, 29, 30, 31, 32, 33, 34, '
                              "35, 36, 37, 38, 39]] || io=[('open', ('image-file',), {'mode': 'rb'}), "
                              "'enter', ('seek', (20,), {}), ('read', (40,), {}), ('seek', (80,), {}), "
                              "('read', (40,), {}), 'exit']",
 "iu2 rpc='1B' [[0], all]": 'ndarray[<u2(1, 20)][[0, 1, 2, 3, 4, 5, 6, 7, 8, 9, 10, 11, 12, 13, 14, 15, 16, '
                            "17, 18, 19]] || io=[('open', ('image-file',), {'mode': 'rb'}), 'enter', "
                            "('seek', (20,), {}), ('read', (40,), {}), 'exit']",
 "iu2 rpc='1B' [[-1,0], all]": 'ndarray[<u2(2, 20)][[80, 81, 82, 83, 84, 85, 86, 87, 88, 89, 90, 91, 92, 93, '
                               '94, 95, 96, 97, 98, 99], [0, 1, 2, 3, 4, 5, 6, 7, 8, 9, 10, 11, 12, 13, 14, '
                               "15, 16, 17, 18, 19]] || io=[('open', ('image-file',), {'mode': 'rb'}), "
                               "'enter', ('seek', (260,), {}), ('read', (40,), {}), ('seek', (20,), {}), "
                               "('read', (40,), {}), 'exit']",
 "iu2 rpc='1B' [[], all]": "ndarray[<u2(0, 20)][] || io=[('open', ('image-file',), {'mode': 'rb'}), 'enter', "
                           "'exit']",
 "iu2 rpc='1B' [array[4,0], all]": 'ndarray[<u2(2, 20)][[80, 81, 82, 83, 84, 85, 86, 87, 88, 89, 90, 91, 92, '
                                   '93, 94, 95, 96, 97, 98, 99], [0, 1, 2, 3, 4, 5, 6, 7, 8, 9, 10, 11, 12, '
                                   "13, 14, 15, 16, 17, 18, 19]] || io=[('open', ('image-file',), {'mode': "
                                   "'rb'}), 'enter', ('seek', (260,), {}), ('read', (40,), {}), ('seek', "
                                   "(20,), {}), ('read', (40,), {}), 'exit']",
 "iu2 rpc='1B' [(1,3), all]": 'ndarray[<u2(2, 20)][[20, 21, 22, 23, 24, 25, 26, 27, 28, 29, 30, 31, 32, 33, '
                              '34, 35, 36, 37, 38, 39], [60, 61, 62, 63, 64, 65, 66, 67, 68, 69, 70, 71, 72, '
                              "73, 74, 75, 76, 77, 78, 79]] || io=[('open', ('image-file',), {'mode': "
                              "'rb'}), 'enter', ('seek', (80,), {}), ('read', (40,), {}), ('seek', (200,), "
                              "{}), ('read', (40,), {}), 'exit']",
 "iu2 rpc='1B' [range(1,4), all]": 'ndarray[<u2(3, 20)][[20, 21, 22, 23, 24, 25, 26, 27, 28, 29, 30, 31, 32, '
                                   '33, 34, 35, 36, 37, 38, 39], [40, 41, 42, 43, 44, 45, 46, 47, 48, 49, '
                                   '50, 51, 52, 53, 54, 55, 56, 57, 58, 59], [60, 61, 62, 63, 64, 65, 66, '
                                   "67, 68, 69, 70, 71, 72, 73, 74, 75, 76, 77, 78, 79]] || io=[('open', "
                                   "('image-file',), {'mode': 'rb'}), 'enter', ('seek', (80,), {}), ('read', "
                                   "(40,), {}), ('seek', (140,), {}), ('read', (40,), {}), ('seek', (200,), "
                                   "{}), ('read', (40,), {}), 'exit']",
 "iu2 rpc='1B' [7, all]": 'raise builtins.IndexError: list index out of range || io=[]',
 "iu2 rpc='1B' [-6, all]": 'raise builtins.IndexError: list index out of range || io=[]',
 "iu2 rpc='1B' [[0,9], all]": 'raise builtins.IndexError: list index out of range || io=[]',
 "iu2 rpc='1B' [1.5, all]": "raise builtins.TypeError: 'float' object is not iterable || io=[]",
 "iu2 rpc='1B' [None, all]": "raise builtins.TypeError: 'NoneType' object is not iterable || io=[]",
 "iu2 rpc='1B' ['a', all]": 'raise builtins.TypeError: list indices must be integers or slices, not str || '
                            'io=[]',
 "iu2 rpc='1B' [[[0,1]], all]": 'raise builtins.TypeError: list indices must be integers or slices, not list '
                                '|| io=[]',
 'iu2 rpc=np.int64(2) [0, all]': 'ndarray[<u2(20,)][0, 1, 2, 3, 4, 5, 6, 7, 8, 9, 10, 11, 12, 13, 14, 15, '
                                 "16, 17, 18, 19] || io=[('open', ('image-file',), {'mode': 'rb'}), 'enter', "
                                 "('seek', (20,), {}), ('read', (100,), {}), 'exit']",
 'iu2 rpc=np.int64(2) [0, 3]': "uint16(3) || io=[('open', ('image-file',), {'mode': 'rb'}), 'enter', "
                               "('seek', (20,), {}), ('read', (100,), {}), 'exit']",
 'iu2 rpc=np.int64(2) [0, -1]': "uint16(19) || io=[('open', ('image-file',), {'mode': 'rb'}), 'enter', "
                                "('seek', (20,), {}), ('read', (100,), {}), 'exit']",
 'iu2 rpc=np.int64(2) [0, 2:]': 'ndarray[<u2(18,)][2, 3, 4, 5, 6, 7, 8, 9, 10, 11, 12, 13, 14, 15, 16, 17, '
                                "18, 19] || io=[('open', ('image-file',), {'mode': 'rb'}), 'enter', ('seek', "
                                "(20,), {}), ('read', (100,), {}), 'exit']",
 'iu2 rpc=np.int64(2) [0, :-2]': 'ndarray[<u2(18,)][0, 1, 2, 3, 4, 5, 6, 7, 8, 9, 10, 11, 12, 13, 14, 15, '
                                 "16, 17] || io=[('open', ('image-file',), {'mode': 'rb'}), 'enter', "
                                 "('seek', (20,), {}), ('read', (100,), {}), 'exit']",
 'iu2 rpc=np.int64(2) [0, ::3]': "ndarray[<u2(7,)][0, 3, 6, 9, 12, 15, 18] || io=[('open', ('image-file',), "
                                 "{'mode': 'rb'}), 'enter', ('seek', (20,), {}), ('read', (100,), {}), "
                                 "'exit']",
 'iu2 rpc=np.int64(2) [0, ::-1]': 'ndarray[<u2(20,)][19, 18, 17, 16, 15, 14, 13, 12, 11, 10, 9, 8, 7, 6, 5, '
                                  "4, 3, 2, 1, 0] || io=[('open', ('image-file',), {'mode': 'rb'}), 'enter', "
                                  "('seek', (20,), {}), ('read', (100,), {}), 'exit']",
 'iu2 rpc=np.int64(2) [0, 0:0]': "ndarray[<u2(0,)][] || io=[('open', ('image-file',), {'mode': 'rb'}), "
                                 "'enter', ('seek', (20,), {}), ('read', (100,), {}), 'exit']",
 'iu2 rpc=np.int64(2) [0, [1,5]]': "ndarray[<u2(2,)][1, 5] || io=[('open', ('image-file',), {'mode': 'rb'}), "
                                   "'enter', ('seek', (20,), {}), ('read', (100,), {}), 'exit']",
 'iu2 rpc=np.int64(2) [0, 25]': 'raise builtins.IndexError: index 25 is out of bounds for axis 1 with size '
                                "20 || io=[('open', ('image-file',), {'mode': 'rb'}), 'enter', ('seek', "
                                "(20,), {}), ('read', (100,), {}), 'exit']",
 'iu2 rpc=np.int64(2) [0, newaxis]': 'ndarray[<u2(1, 20)][[0, 1, 2, 3, 4, 5, 6, 7, 8, 9, 10, 11, 12, 13, 14, '
                                     "15, 16, 17, 18, 19]] || io=[('open', ('image-file',), {'mode': 'rb'}), "
                                     "'enter', ('seek', (20,), {}), ('read', (100,), {}), 'exit']",
 'iu2 rpc=np.int64(2) [0, ellipsis]': 'ndarray[<u2(20,)][0, 1, 2, 3, 4, 5, 6, 7, 8, 9, 10, 11, 12, 13, 14, '
                                      "15, 16, 17, 18, 19] || io=[('open', ('image-file',), {'mode': 'rb'}), "
                                      "'enter', ('seek', (20,), {}), ('read', (100,), {}), 'exit']",
 'iu2 rpc=np.int64(2) [0,]': 'ndarray[<u2(20,)][0, 1, 2, 3, 4, 5, 6, 7, 8, 9, 10, 11, 12, 13, 14, 15, 16, '
                             "17, 18, 19] || io=[('open', ('image-file',), {'mode': 'rb'}), 'enter', "
                             "('seek', (20,), {}), ('read', (100,), {}), 'exit']",
 'iu2 rpc=np.int64(2) [0, 1, 2]': 'raise builtins.IndexError: too many indices for array: array is '
                                  "2-dimensional, but 3 were indexed || io=[('open', ('image-file',), "
                                  "{'mode': 'rb'}), 'enter', ('seek', (20,), {}), ('read', (100,), {}), "
                                  "'exit']",
 'iu2 rpc=np.int64(2) list[0, 1:3]': "ndarray[<u2(2,)][1, 2] || io=[('open', ('image-file',), {'mode': "
                                     "'rb'}), 'enter', ('seek', (20,), {}), ('read', (100,), {}), 'exit']",
 'iu2 rpc=np.int64(2) [2, all]': 'ndarray[<u2(20,)][40, 41, 42, 43, 44, 45, 46, 47, 48, 49, 50, 51, 52, 53, '
                                 "54, 55, 56, 57, 58, 59] || io=[('open', ('image-file',), {'mode': 'rb'}), "
                                 "'enter', ('seek', (140,), {}), ('read', (100,), {}), 'exit']",
 'iu2 rpc=np.int64(2) [2, 3]': "uint16(43) || io=[('open', ('image-file',), {'mode': 'rb'}), 'enter', "
                               "('seek', (140,), {}), ('read', (100,), {}), 'exit']",
 'iu2 rpc=np.int64(2) [2, -1]': "uint16(59) || io=[('open', ('image-file',), {'mode': 'rb'}), 'enter', "
                                "('seek', (140,), {}), ('read', (100,), {}), 'exit']",
 'iu2 rpc=np.int64(2) [2, 2:]': 'ndarray[<u2(18,)][42, 43, 44, 45, 46, 47, 48, 49, 50, 51, 52, 53, 54, 55, '
                                "56, 57, 58, 59] || io=[('open', ('image-file',), {'mode': 'rb'}), 'enter', "
                                "('seek', (140,), {}), ('read', (100,), {}), 'exit']",
 'iu2 rpc=np.int64(2) [2, :-2]': 'ndarray[<u2(18,)][40, 41, 42, 43, 44, 45, 46, 47, 48, 49, 50, 51, 52, 53, '
                                 "54, 55, 56, 57] || io=[('open', ('image-file',), {'mode': 'rb'}), 'enter', "
                                 "('seek', (140,), {}), ('read', (100,), {}), 'exit']",
 'iu2 rpc=np.int64(2) [2, ::3]': "ndarray[<u2(7,)][40, 43, 46, 49, 52, 55, 58] || io=[('open', "
                                 "('image-file',), {'mode': 'rb'}), 'enter', ('seek', (140,), {}), ('read', "
                                 "(100,), {}), 'exit']",
 'iu2 rpc=np.int64(2) [2, ::-1]': 'ndarray[<u2(20,)][59, 58, 57, 56, 55, 54, 53, 52, 51, 50, 49, 48, 47, 46, '
                                  "45, 44, 43, 42, 41, 40] || io=[('open', ('image-file',), {'mode': 'rb'}), "
                                  "'enter', ('seek', (140,), {}), ('read', (100,), {}), 'exit']",
 'iu2 rpc=np.int64(2) [2, 0:0]': "ndarray[<u2(0,)][] || io=[('open', ('image-file',), {'mode': 'rb'}), "
                                 "'enter', ('seek', (140,), {}), ('read', (100,), {}), 'exit']",
 'iu2 rpc=np.int64(2) [2, [1,5]]': "ndarray[<u2(2,)][41, 45] || io=[('open', ('image-file',), {'mode': "
                                   "'rb'}), 'enter', ('seek', (140,), {}), ('read', (100,), {}), 'exit']",
 'iu2 rpc=np.int64(2) [2, 25]': 'raise builtins.IndexError: index 25 is out of bounds for axis 1 with size '
                                "20 || io=[('open', ('image-file',), {'mode': 'rb'}), 'enter', ('seek', "
                                "(140,), {}), ('read', (100,), {}), 'exit']",
 'iu2 rpc=np.int64(2) [2, newaxis]': 'ndarray[<u2(1, 20)][[40, 41, 42, 43, 44, 45, 46, 47, 48, 49, 50, 51, '
                                     "52, 53, 54, 55, 56, 57, 58, 59]] || io=[('open', ('image-file',), "
                                     "{'mode': 'rb'}), 'enter', ('seek', (140,), {}), ('read', (100,), {}), "
                                     "'exit']",
 'iu2 rpc=np.int64(2) [2, ellipsis]': 'ndarray[<u2(20,)][40, 41, 42, 43, 44, 45, 46, 47, 48, 49, 50, 51, 52, '
                                      "53, 54, 55, 56, 57, 58, 59] || io=[('open', ('image-file',), {'mode': "
                                      "'rb'}), 'enter', ('seek', (140,), {}), ('read', (100,), {}), 'exit']",
 'iu2 rpc=np.int64(2) [2,]': 'ndarray[<u2(20,)][40, 41, 42, 43, 44, 45, 46, 47, 48, 49, 50, 51, 52, 53, 54, '
                             "55, 56, 57, 58, 59] || io=[('open', ('image-file',), {'mode': 'rb'}), 'enter', "
                             "('seek', (140,), {}), ('read', (100,), {}), 'exit']",
 'iu2 rpc=np.int64(2) [2, 1, 2]': 'raise builtins.IndexError: too many indices for array: array is '
                                  "2-dimensional, but 3 were indexed || io=[('open', ('image-file',), "
                                  "{'mode': 'rb'}), 'enter', ('seek', (140,), {}), ('read', (100,), {}), "
                                  "'exit']",
 'iu2 rpc=np.int64(2) list[2, 1:3]': "ndarray[<u2(2,)][41, 42] || io=[('open', ('image-file',), {'mode': "
                                     "'rb'}), 'enter', ('seek', (140,), {}), ('read', (100,), {}), 'exit']",
 'iu2 rpc=np.int64(2) [-1, all]': 'ndarray[<u2(20,)][80, 81, 82, 83, 84, 85, 86, 87, 88, 89, 90, 91, 92, 93, '
                                  "94, 95, 96, 97, 98, 99] || io=[('open', ('image-file',), {'mode': 'rb'}), "
                                  "'enter', ('seek', (260,), {}), ('read', (40,), {}), 'exit']",
 'iu2 rpc=np.int64(2) [-1, 3]': "uint16(83) || io=[('open', ('image-file',), {'mode': 'rb'}), 'enter', "
                                "('seek', (260,), {}), ('read', (40,), {}), 'exit']",
 'iu2 rpc=np.int64(2) [-1, -1]': "uint16(99) || io=[('open', ('image-file',), {'mode': 'rb'}), 'enter', "
                                 "('seek', (260,), {}), ('read', (40,), {}), 'exit']",
 'iu2 rpc=np.int64(2) [-1, 2:]': 'ndarray[<u2(18,)][82, 83, 84, 85, 86, 87, 88, 89, 90, 91, 92, 93, 94, 95, '
                                 "96, 97, 98, 99] || io=[('open', ('image-file',), {'mode': 'rb'}), 'enter', "
                                 "('seek', (260,), {}), ('read', (40,), {}), 'exit']",
 'iu2 rpc=np.int64(2) [-1, :-2]': 'ndarray[<u2(18,)][80, 81, 82, 83, 84, 85, 86, 87, 88, 89, 90, 91, 92, 93, '
                                  "94, 95, 96, 97] || io=[('open', ('image-file',), {'mode': 'rb'}), "
                                  "'enter', ('seek', (260,), {}), ('read', (40,), {}), 'exit']",
 'iu2 rpc=np.int64(2) [-1, ::3]': "ndarray[<u2(7,)][80, 83, 86, 89, 92, 95, 98] || io=[('open', "
                                  "('image-file',), {'mode': 'rb'}), 'enter', ('seek', (260,), {}), ('read', "
                                  "(40,), {}), 'exit']",
 'iu2 rpc=np.int64(2) [-1, ::-1]': 'ndarray[<u2(20,)][99, 98, 97, 96, 95, 94, 93, 92, 91, 90, 89, 88, 87, '
                                   "86, 85, 84, 83, 82, 81, 80] || io=[('open', ('image-file',), {'mode': "
                                   "'rb'}), 'enter', ('seek', (260,), {}), ('read', (40,), {}), 'exit']",
 'iu2 rpc=np.int64(2) [-1, 0:0]': "ndarray[<u2(0,)][] || io=[('open', ('image-file',), {'mode': 'rb'}), "
                                  "'enter', ('seek', (260,), {}), ('read', (40,), {}), 'exit']",
 'iu2 rpc=np.int64(2) [-1, [1,5]]': "ndarray[<u2(2,)][81, 85] || io=[('open', ('image-file',), {'mode': "
                                    "'rb'}), 'enter', ('seek', (260,), {}), ('read', (40,), {}), 'exit']",
 'iu2 rpc=np.int64(2) [-1, 25]': 'raise builtins.IndexError: index 25 is out of bounds for axis 1 with size '
                                 "20 || io=[('open', ('image-file',), {'mode': 'rb'}), 'enter', ('seek', "
                                 "(260,), {}), ('read', (40,), {}), 'exit']",
 'iu2 rpc=np.int64(2) [-1, newaxis]': 'ndarray[<u2(1, 20)][[80, 81, 82, 83, 84, 85, 86, 87, 88, 89, 90, 91, '
                                      "92, 93, 94, 95, 96, 97, 98, 99]] || io=[('open', ('image-file',), "
                                      "{'mode': 'rb'}), 'enter', ('seek', (260,), {}), ('read', (40,), {}), "
                                      "'exit']",
 'iu2 rpc=np.int64(2) [-1, ellipsis]': 'ndarray[<u2(20,)][80, 81, 82, 83, 84, 85, 86, 87, 88, 89, 90, 91, '
                                       "92, 93, 94, 95, 96, 97, 98, 99] || io=[('open', ('image-file',), "
                                       "{'mode': 'rb'}), 'enter', ('seek', (260,), {}), ('read', (40,), {}), "
                                       "'exit']",
 'iu2 rpc=np.int64(2) [-1,]': 'ndarray[<u2(20,)][80, 81, 82, 83, 84, 85, 86, 87, 88, 89, 90, 91, 92, 93, 94, '
                              "95, 96, 97, 98, 99] || io=[('open', ('image-file',), {'mode': 'rb'}), "
                              "'enter', ('seek', (260,), {}), ('read', (40,), {}), 'exit']",
 'iu2 rpc=np.int64(2) [-1, 1, 2]': 'raise builtins.IndexError: too many indices for array: array is '
                                   "2-dimensional, but 3 were indexed || io=[('open', ('image-file',), "
                                   "{'mode': 'rb'}), 'enter', ('seek', (260,), {}), ('read', (40,), {}), "
                                   "'exit']",
 'iu2 rpc=np.int64(2) list[-1, 1:3]': "ndarray[<u2(2,)][81, 82] || io=[('open', ('image-file',), {'mode': "
                                      "'rb'}), 'enter', ('seek', (260,), {}), ('read', (40,), {}), 'exit']",
 'iu2 rpc=np.int64(2) [True, all]': 'ndarray[<u2(20,)][20, 21, 22, 23, 24, 25, 26, 27, 28, 29, 30, 31, 32, '
                                    "33, 34, 35, 36, 37, 38, 39] || io=[('open', ('image-file',), {'mode': "
                                    "'rb'}), 'enter', ('seek', (20,), {}), ('read', (100,), {}), 'exit']",
 'iu2 rpc=np.int64(2) [True, 3]': "uint16(23) || io=[('open', ('image-file',), {'mode': 'rb'}), 'enter', "
                                  "('seek', (20,), {}), ('read', (100,), {}), 'exit']",
 'iu2 rpc=np.int64(2) [True, -1]': "uint16(39) || io=[('open', ('image-file',), {'mode': 'rb'}), 'enter', "
                                   "('seek', (20,), {}), ('read', (100,), {}), 'exit']",
 'iu2 rpc=np.int64(2) [True, 2:]': 'ndarray[<u2(18,)][22, 23, 24, 25, 26, 27, 28, 29, 30, 31, 32, 33, 34, '
                                   "35, 36, 37, 38, 39] || io=[('open', ('image-file',), {'mode': 'rb'}), "
                                   "'enter', ('seek', (20,), {}), ('read', (100,), {}), 'exit']",
 'iu2 rpc=np.int64(2) [True, :-2]': 'ndarray[<u2(18,)][20, 21, 22, 23, 24, 25, 26, 27, 28, 29, 30, 31, 32, '
                                    "33, 34, 35, 36, 37] || io=[('open', ('image-file',), {'mode': 'rb'}), "
                                    "'enter', ('seek', (20,), {}), ('read', (100,), {}), 'exit']",
 'iu2 rpc=np.int64(2) [True, ::3]': "ndarray[<u2(7,)][20, 23, 26, 29, 32, 35, 38] || io=[('open', "
                                    "('image-file',), {'mode': 'rb'}), 'enter', ('seek', (20,), {}), "
                                    "('read', (100,), {}), 'exit']",
 'iu2 rpc=np.int64(2) [True, ::-1]': 'ndarray[<u2(20,)][39, 38, 37, 36, 35, 34, 33, 32, 31, 30, 29, 28, 27, '
                                     "26, 25, 24, 23, 22, 21, 20] || io=[('open', ('image-file',), {'mode': "
                                     "'rb'}), 'enter', ('seek', (20,), {}), ('read', (100,), {}), 'exit']",
 'iu2 rpc=np.int64(2) [True, 0:0]': "ndarray[<u2(0,)][] || io=[('open', ('image-file',), {'mode': 'rb'}), "
                                    "'enter', ('seek', (20,), {}), ('read', (100,), {}), 'exit']",
 'iu2 rpc=np.int64(2) [True, [1,5]]': "ndarray[<u2(2,)][21, 25] || io=[('open', ('image-file',), {'mode': "
                                      "'rb'}), 'enter', ('seek', (20,), {}), ('read', (100,), {}), 'exit']",
 'iu2 rpc=np.int64(2) [True, 25]': 'raise builtins.IndexError: index 25 is out of bounds for axis 1 with '
                                   "size 20 || io=[('open', ('image-file',), {'mode': 'rb'}), 'enter', "
                                   "('seek', (20,), {}), ('read', (100,), {}), 'exit']",
 'iu2 rpc=np.int64(2) [True, newaxis]': 'ndarray[<u2(1, 20)][[20, 21, 22, 23, 24, 25, 26, 27, 28, 29, 30, '
                                        "31, 32, 33, 34, 35, 36, 37, 38, 39]] || io=[('open', "
                                        "('image-file',), {'mode': 'rb'}), 'enter', ('seek', (20,), {}), "
                                        "('read', (100,), {}), 'exit']",
 'iu2 rpc=np.int64(2) [True, ellipsis]': 'ndarray[<u2(20,)][20, 21, 22, 23, 24, 25, 26, 27, 28, 29, 30, 31, '
                                         "32, 33, 34, 35, 36, 37, 38, 39] || io=[('open', ('image-file',), "
                                         "{'mode': 'rb'}), 'enter', ('seek', (20,), {}), ('read', (100,), "
                                         "{}), 'exit']",
 'iu2 rpc=np.int64(2) [True,]': 'ndarray[<u2(20,)][20, 21, 22, 23, 24, 25, 26, 27, 28, 29, 30, 31, 32, 33, '
                                "34, 35, 36, 37, 38, 39] || io=[('open', ('image-file',), {'mode': 'rb'}), "
                                "'enter', ('seek', (20,), {}), ('read', (100,), {}), 'exit']",
 'iu2 rpc=np.int64(2) [True, 1, 2]': 'raise builtins.IndexError: too many indices for array: array is '
                                     "2-dimensional, but 3 were indexed || io=[('open', ('image-file',), "
                                     "{'mode': 'rb'}), 'enter', ('seek', (20,), {}), ('read', (100,), {}), "
                                     "'exit']",
 'iu2 rpc=np.int64(2) list[True, 1:3]': "ndarray[<u2(2,)][21, 22] || io=[('open', ('image-file',), {'mode': "
                                        "'rb'}), 'enter', ('seek', (20,), {}), ('read', (100,), {}), 'exit']",
 'iu2 rpc=np.int64(2) [np.int64(1), all]': "raise builtins.TypeError: 'numpy.int64' object is not iterable "
                                           '|| io=[]',
 'iu2 rpc=np.int64(2) [np.int64(1), 3]': "raise builtins.TypeError: 'numpy.int64' object is not iterable || "
                                         'io=[]',
 'iu2 rpc=np.int64(2) [np.int64(1), -1]': "raise builtins.TypeError: 'numpy.int64' object is not iterable || "
                                          'io=[]',
 'iu2 rpc=np.int64(2) [np.int64(1), 2:]': "raise builtins.TypeError: 'numpy.int64' object is not iterable || "
                                          'io=[]',
 'iu2 rpc=np.int64(2) [np.int64(1), :-2]': "raise builtins.TypeError: 'numpy.int64' object is not iterable "
                                           '|| io=[]',
 'iu2 rpc=np.int64(2) [np.int64(1), ::3]': "raise builtins.TypeError: 'numpy.int64' object is not iterable "
                                           '|| io=[]',
 'iu2 rpc=np.int64(2) [np.int64(1), ::-1]': "raise builtins.TypeError: 'numpy.int64' object is not iterable "
                                            '|| io=[]',
 'iu2 rpc=np.int64(2) [np.int64(1), 0:0]': "raise builtins.TypeError: 'numpy.int64' object is not iterable "
                                           '|| io=[]',
 'iu2 rpc=np.int64(2) [np.int64(1), [1,5]]': "raise builtins.TypeError: 'numpy.int64' object is not iterable "
                                             '|| io=[]',
 'iu2 rpc=np.int64(2) [np.int64(1), 25]': "raise builtins.TypeError: 'numpy.int64' object is not iterable || "
                                          'io=[]',
 'iu2 rpc=np.int64(2) [np.int64(1), newaxis]': "raise builtins.TypeError: 'numpy.int64' object is not "
                                               'iterable || io=[]',
 'iu2 rpc=np.int64(2) [np.int64(1), ellipsis]': "raise builtins.TypeError: 'numpy.int64' object is not "
                                                'iterable || io=[]',
 'iu2 rpc=np.int64(2) [np.int64(1),]': "raise builtins.TypeError: 'numpy.int64' object is not iterable || "
                                       'io=[]',
 'iu2 rpc=np.int64(2) [np.int64(1), 1, 2]': "raise builtins.TypeError: 'numpy.int64' object is not iterable "
                                            '|| io=[]',
 'iu2 rpc=np.int64(2) list[np.int64(1), 1:3]': "raise builtins.TypeError: 'numpy.int64' object is not "
                                               'iterable || io=[]',
 'iu2 rpc=np.int64(2) [all, all]': 'ndarray[<u2(5, 20)][[0, 1, 2, 3, 4, 5, 6, 7, 8, 9, 10, 11, 12, 13, 14, '
                                   '15, 16, 17, 18, 19], [20, 21, 22, 23, 24, 25, 26, 27, 28, 29, 30, 31, '
                                   '32, 33, 34, 35, 36, 37, 38, 39], [40, 41, 42, 43, 44, 45, 46, 47, 48, '
                                   '49, 50, 51, 52, 53, 54, 55, 56, 57, 58, 59], [60, 61, 62, 63, 64, 65, '
                                   '66, 67, 68, 69, 70, 71, 72, 73, 74, 75, 76, 77, 78, 79], [80, 81, 82, '
                                   '83, 84, 85, 86, 87, 88, 89, 90, 91, 92, 93, 94, 95, 96, 97, 98, 99]] || '
                                   "io=[('open', ('image-file',), {'mode': 'rb'}), 'enter', ('seek', (20,), "
                                   "{}), ('read', (100,), {}), ('seek', (140,), {}), ('read', (100,), {}), "
                                   "('seek', (260,), {}), ('read', (40,), {}), 'exit']",
 'iu2 rpc=np.int64(2) [all, 3]': "ndarray[<u2(5,)][3, 23, 43, 63, 83] || io=[('open', ('image-file',), "
                                 "{'mode': 'rb'}), 'enter', ('seek', (20,), {}), ('read', (100,), {}), "
                                 "('seek', (140,), {}), ('read', (100,), {}), ('seek', (260,), {}), ('read', "
                                 "(40,), {}), 'exit']",
 'iu2 rpc=np.int64(2) [all, -1]': "ndarray[<u2(5,)][19, 39, 59, 79, 99] || io=[('open', ('image-file',), "
                                  "{'mode': 'rb'}), 'enter', ('seek', (20,), {}), ('read', (100,), {}), "
                                  "('seek', (140,), {}), ('read', (100,), {}), ('seek', (260,), {}), "
                                  "('read', (40,), {}), 'exit']",
 'iu2 rpc=np.int64(2) [all, 2:]': 'ndarray[<u2(5, 18)][[2, 3, 4, 5, 6, 7, 8, 9, 10, 11, 12, 13, 14, 15, 16, '
                                  '17, 18, 19], [22, 23, 24, 25, 26, 27, 28, 29, 30, 31, 32, 33, 34, 35, 36, '
                                  '37, 38, 39], [42, 43, 44, 45, 46, 47, 48, 49, 50, 51, 52, 53, 54, 55, 56, '
                                  '57, 58, 59], [62, 63, 64, 65, 66, 67, 68, 69, 70, 71, 72, 73, 74, 75, 76, '
                                  '77, 78, 79], [82, 83, 84, 85, 86, 87, 88, 89, 90, 91, 92, 93, 94, 95, 96, '
                                  "97, 98, 99]] || io=[('open', ('image-file',), {'mode': 'rb'}), 'enter', "
                                  "('seek', (20,), {}), ('read', (100,), {}), ('seek', (140,), {}), ('read', "
                                  "(100,), {}), ('seek', (260,), {}), ('read', (40,), {}), 'exit']",
 'iu2 rpc=np.int64(2) [all, :-2]': 'ndarray[<u2(5, 18)][[0, 1, 2, 3, 4, 5, 6, 7, 8, 9, 10, 11, 12, 13, 14, '
                                   '15, 16, 17], [20, 21, 22, 23, 24, 25, 26, 27, 28, 29, 30, 31, 32, 33, '
                                   '34, 35, 36, 37], [40, 41, 42, 43, 44, 45, 46, 47, 48, 49, 50, 51, 52, '
                                   '53, 54, 55, 56, 57], [60, 61, 62, 63, 64, 65, 66, 67, 68, 69, 70, 71, '
                                   '72, 73, 74, 75, 76, 77], [80, 81, 82, 83, 84, 85, 86, 87, 88, 89, 90, '
                                   "91, 92, 93, 94, 95, 96, 97]] || io=[('open', ('image-file',), {'mode': "
                                   "'rb'}), 'enter', ('seek', (20,), {}), ('read', (100,), {}), ('seek', "
                                   "(140,), {}), ('read', (100,), {}), ('seek', (260,), {}), ('read', (40,), "
                                   "{}), 'exit']",
 'iu2 rpc=np.int64(2) [all, ::3]': 'ndarray[<u2(5, 7)][[0, 3, 6, 9, 12, 15, 18], [20, 23, 26, 29, 32, 35, '
                                   '38], [40, 43, 46, 49, 52, 55, 58], [60, 63, 66, 69, 72, 75, 78], [80, '
                                   "83, 86, 89, 92, 95, 98]] || io=[('open', ('image-file',), {'mode': "
                                   "'rb'}), 'enter', ('seek', (20,), {}), ('read', (100,), {}), ('seek', "
                                   "(140,), {}), ('read', (100,), {}), ('seek', (260,), {}), ('read', (40,), "
                                   "{}), 'exit']",
 'iu2 rpc=np.int64(2) [all, ::-1]': 'ndarray[<u2(5, 20)][[19, 18, 17, 16, 15, 14, 13, 12, 11, 10, 9, 8, 7, '
                                    '6, 5, 4, 3, 2, 1, 0], [39, 38, 37, 36, 35, 34, 33, 32, 31, 30, 29, 28, '
                                    '27, 26, 25, 24, 23, 22, 21, 20], [59, 58, 57, 56, 55, 54, 53, 52, 51, '
                                    '50, 49, 48, 47, 46, 45, 44, 43, 42, 41, 40], [79, 78, 77, 76, 75, 74, '
                                    '73, 72, 71, 70, 69, 68, 67, 66, 65, 64, 63, 62, 61, 60], [99, 98, 97, '
                                    '96, 95, 94, 93, 92, 91, 90, 89, 88, 87, 86, 85, 84, 83, 82, 81, 80]] || '
                                    "io=[('open', ('image-file',), {'mode': 'rb'}), 'enter', ('seek', (20,), "
                                    "{}), ('read', (100,), {}), ('seek', (140,), {}), ('read', (100,), {}), "
                                    "('seek', (260,), {}), ('read', (40,), {}), 'exit']",
 'iu2 rpc=np.int64(2) [all, 0:0]': "ndarray[<u2(5, 0)][[], [], [], [], []] || io=[('open', ('image-file',), "
                                   "{'mode': 'rb'}), 'enter', ('seek', (20,), {}), ('read', (100,), {}), "
                                   "('seek', (140,), {}), ('read', (100,), {}), ('seek', (260,), {}), "
                                   "('read', (40,), {}), 'exit']",
 'iu2 rpc=np.int64(2) [all, [1,5]]': 'ndarray[<u2(5, 2)][[1, 5], [21, 25], [41, 45], [61, 65], [81, 85]] || '
                                     "io=[('open', ('image-file',), {'mode': 'rb'}), 'enter', ('seek', "
                                     "(20,), {}), ('read', (100,), {}), ('seek', (140,), {}), ('read', "
                                     "(100,), {}), ('seek', (260,), {}), ('read', (40,), {}), 'exit']",
 'iu2 rpc=np.int64(2) [all, 25]': 'raise builtins.IndexError: index 25 is out of bounds for axis 1 with size '
                                  "20 || io=[('open', ('image-file',), {'mode': 'rb'}), 'enter', ('seek', "
                                  "(20,), {}), ('read', (100,), {}), ('seek', (140,), {}), ('read', (100,), "
                                  "{}), ('seek', (260,), {}), ('read', (40,), {}), 'exit']",
 'iu2 rpc=np.int64(2) [all, newaxis]': 'ndarray[<u2(5, 1, 20)][[[0, 1, 2, 3, 4, 5, 6, 7, 8, 9, 10, 11, 12, '
                                       '13, 14, 15, 16, 17, 18, 19]], [[20, 21, 22, 23, 24, 25, 26, 27, 28, '
                                       '29, 30, 31, 32, 33, 34, 35, 36, 37, 38, 39]], [[40, 41, 42, 43, 44, '
                                       '45, 46, 47, 48, 49, 50, 51, 52, 53, 54, 55, 56, 57, 58, 59]], [[60, '
                                       '61, 62, 63, 64, 65, 66, 67, 68, 69, 70, 71, 72, 73, 74, 75, 76, 77, '
                                       '78, 79]], [[80, 81, 82, 83, 84, 85, 86, 87, 88, 89, 90, 91, 92, 93, '
                                       "94, 95, 96, 97, 98, 99]]] || io=[('open', ('image-file',), {'mode': "
                                       "'rb'}), 'enter', ('seek', (20,), {}), ('read', (100,), {}), ('seek', "
                                       "(140,), {}), ('read', (100,), {}), ('seek', (260,), {}), ('read', "
                                       "(40,), {}), 'exit']",
 'iu2 rpc=np.int64(2) [all, ellipsis]': 'ndarray[<u2(5, 20)][[0, 1, 2, 3, 4, 5, 6, 7, 8, 9, 10, 11, 12, 13, '
                                        '14, 15, 16, 17, 18, 19], [20, 21, 22, 23, 24, 25, 26, 27, 28, 29, '
                                        '30, 31, 32, 33, 34, 35, 36, 37, 38, 39], [40, 41, 42, 43, 44, 45, '
                                        '46, 47, 48, 49, 50, 51, 52, 53, 54, 55, 56, 57, 58, 59], [60, 61, '
                                        '62, 63, 64, 65, 66, 67, 68, 69, 70, 71, 72, 73, 74, 75, 76, 77, 78, '
                                        '79], [80, 81, 82, 83, 84, 85, 86, 87, 88, 89, 90, 91, 92, 93, 94, '
                                        "95, 96, 97, 98, 99]] || io=[('open', ('image-file',), {'mode': "
                                        "'rb'}), 'enter', ('seek', (20,), {}), ('read', (100,), {}), "
                                        "('seek', (140,), {}), ('read', (100,), {}), ('seek', (260,), {}), "
                                        "('read', (40,), {}), 'exit']",
 'iu2 rpc=np.int64(2) [all,]': 'ndarray[<u2(5, 20)][[0, 1, 2, 3, 4, 5, 6, 7, 8, 9, 10, 11, 12, 13, 14, 15, '
                               '16, 17, 18, 19], [20, 21, 22, 23, 24, 25, 26, 27, 28, 29, 30, 31, 32, 33, '
                               '34, 35, 36, 37, 38, 39], [40, 41, 42, 43, 44, 45, 46, 47, 48, 49, 50, 51, '
                               '52, 53, 54, 55, 56, 57, 58, 59], [60, 61, 62, 63, 64, 65, 66, 67, 68, 69, '
                               '70, 71, 72, 73, 74, 75, 76, 77, 78, 79], [80, 81, 82, 83, 84, 85, 86, 87, '
                               "88, 89, 90, 91, 92, 93, 94, 95, 96, 97, 98, 99]] || io=[('open', "
                               "('image-file',), {'mode': 'rb'}), 'enter', ('seek', (20,), {}), ('read', "
                               "(100,), {}), ('seek', (140,), {}), ('read', (100,), {}), ('seek', (260,), "
                               "{}), ('read', (40,), {}), 'exit']",
 'iu2 rpc=np.int64(2) [all, 1, 2]': 'raise builtins.IndexError: too many indices for array: array is '
                                    "2-dimensional, but 3 were indexed || io=[('open', ('image-file',), "
                                    "{'mode': 'rb'}), 'enter', ('seek', (20,), {}), ('read', (100,), {}), "
                                    "('seek', (140,), {}), ('read', (100,), {}), ('seek', (260,), {}), "
                                    "('read', (40,), {}), 'exit']",
 'iu2 rpc=np.int64(2) list[all, 1:3]': 'ndarray[<u2(5, 2)][[1, 2], [21, 22], [41, 42], [61, 62], [81, 82]] '
                                       "|| io=[('open', ('image-file',), {'mode': 'rb'}), 'enter', ('seek', "
                                       "(20,), {}), ('read', (100,), {}), ('seek', (140,), {}), ('read', "
                                       "(100,), {}), ('seek', (260,), {}), ('read', (40,), {}), 'exit']",
 'iu2 rpc=np.int64(2) [2:, all]': 'ndarray[<u2(3, 20)][[40, 41, 42, 43, 44, 45, 46, 47, 48, 49, 50, 51, 52, '
                                  '53, 54, 55, 56, 57, 58, 59], [60, 61, 62, 63, 64, 65, 66, 67, 68, 69, 70, '
                                  '71, 72, 73, 74, 75, 76, 77, 78, 79], [80, 81, 82, 83, 84, 85, 86, 87, 88, '
                                  "89, 90, 91, 92, 93, 94, 95, 96, 97, 98, 99]] || io=[('open', "
                                  "('image-file',), {'mode': 'rb'}), 'enter', ('seek', (140,), {}), ('read', "
                                  "(100,), {}), ('seek', (260,), {}), ('read', (40,), {}), 'exit']",
 'iu2 rpc=np.int64(2) [2:, 3]': "ndarray[<u2(3,)][43, 63, 83] || io=[('open', ('image-file',), {'mode': "
                                "'rb'}), 'enter', ('seek', (140,), {}), ('read', (100,), {}), ('seek', "
                                "(260,), {}), ('read', (40,), {}), 'exit']",
 'iu2 rpc=np.int64(2) [2:, -1]': "ndarray[<u2(3,)][59, 79, 99] || io=[('open', ('image-file',), {'mode': "
                                 "'rb'}), 'enter', ('seek', (140,), {}), ('read', (100,), {}), ('seek', "
                                 "(260,), {}), ('read', (40,), {}), 'exit']",
 'iu2 rpc=np.int64(2) [2:, 2:]': 'ndarray[<u2(3, 18)][[42, 43, 44, 45, 46, 47, 48, 49, 50, 51, 52, 53, 54, '
                                 '55, 56, 57, 58, 59], [62, 63, 64, 65, 66, 67, 68, 69, 70, 71, 72, 73, 74, '
                                 '75, 76, 77, 78, 79], [82, 83, 84, 85, 86, 87, 88, 89, 90, 91, 92, 93, 94, '
                                 "95, 96, 97, 98, 99]] || io=[('open', ('image-file',), {'mode': 'rb'}), "
                                 "'enter', ('seek', (140,), {}), ('read', (100,), {}), ('seek', (260,), {}), "
                                 "('read', (40,), {}), 'exit']",
 'iu2 rpc=np.int64(2) [2:, :-2]': 'ndarray[<u2(3, 18)][[40, 41, 42, 43, 44, 45, 46, 47, 48, 49, 50, 51, 52, '
                                  '53, 54, 55, 56, 57], [60, 61, 62, 63, 64, 65, 66, 67, 68, 69, 70, 71, 72, '
                                  '73, 74, 75, 76, 77], [80, 81, 82, 83, 84, 85, 86, 87, 88, 89, 90, 91, 92, '
                                  "93, 94, 95, 96, 97]] || io=[('open', ('image-file',), {'mode': 'rb'}), "
                                  "'enter', ('seek', (140,), {}), ('read', (100,), {}), ('seek', (260,), "
                                  "{}), ('read', (40,), {}), 'exit']",
 'iu2 rpc=np.int64(2) [2:, ::3]': 'ndarray[<u2(3, 7)][[40, 43, 46, 49, 52, 55, 58], [60, 63, 66, 69, 72, 75, '
                                  "78], [80, 83, 86, 89, 92, 95, 98]] || io=[('open', ('image-file',), "
                                  "{'mode': 'rb'}), 'enter', ('seek', (140,), {}), ('read', (100,), {}), "
                                  "('seek', (260,), {}), ('read', (40,), {}), 'exit']",
 'iu2 rpc=np.int64(2) [2:, ::-1]': 'ndarray[<u2(3, 20)][[59, 58, 57, 56, 55, 54, 53, 52, 51, 50, 49, 48, 47, '
                                   '46, 45, 44, 43, 42, 41, 40], [79, 78, 77, 76, 75, 74, 73, 72, 71, 70, '
                                   '69, 68, 67, 66, 65, 64, 63, 62, 61, 60], [99, 98, 97, 96, 95, 94, 93, '
                                   "92, 91, 90, 89, 88, 87, 86, 85, 84, 83, 82, 81, 80]] || io=[('open', "
                                   "('image-file',), {'mode': 'rb'}), 'enter', ('seek', (140,), {}), "
                                   "('read', (100,), {}), ('seek', (260,), {}), ('read', (40,), {}), 'exit']",
 'iu2 rpc=np.int64(2) [2:, 0:0]': "ndarray[<u2(3, 0)][[], [], []] || io=[('open', ('image-file',), {'mode': "
                                  "'rb'}), 'enter', ('seek', (140,), {}), ('read', (100,), {}), ('seek', "
                                  "(260,), {}), ('read', (40,), {}), 'exit']",
 'iu2 rpc=np.int64(2) [2:, [1,5]]': "ndarray[<u2(3, 2)][[41, 45], [61, 65], [81, 85]] || io=[('open', "
                                    "('image-file',), {'mode': 'rb'}), 'enter', ('seek', (140,), {}), "
                                    "('read', (100,), {}), ('seek', (260,), {}), ('read', (40,), {}), "
                                    "'exit']",
 'iu2 rpc=np.int64(2) [2:, 25]': 'raise builtins.IndexError: index 25 is out of bounds for axis 1 with size '
                                 "20 || io=[('open', ('image-file',), {'mode': 'rb'}), 'enter', ('seek', "
                                 "(140,), {}), ('read', (100,), {}), ('seek', (260,), {}), ('read', (40,), "
                                 "{}), 'exit']",
 'iu2 rpc=np.int64(2) [2:, newaxis]': 'ndarray[<u2(3, 1, 20)][[[40, 41, 42, 43, 44, 45, 46, 47, 48, 49, 50, '
                                      '51, 52, 53, 54, 55, 56, 57, 58, 59]], [[60, 61, 62, 63, 64, 65, 66, '
                                      '67, 68, 69, 70, 71, 72, 73, 74, 75, 76, 77, 78, 79]], [[80, 81, 82, '
                                      '83, 84, 85, 86, 87, 88, 89, 90, 91, 92, 93, 94, 95, 96, 97, 98, 99]]] '
                                      "|| io=[('open', ('image-file',), {'mode': 'rb'}), 'enter', ('seek', "
                                      "(140,), {}), ('read', (100,), {}), ('seek', (260,), {}), ('read', "
                                      "(40,), {}), 'exit']",
 'iu2 rpc=np.int64(2) [2:, ellipsis]': 'ndarray[<u2(3, 20)][[40, 41, 42, 43, 44, 45, 46, 47, 48, 49, 50, 51, '
                                       '52, 53, 54, 55, 56, 57, 58, 59], [60, 61, 62, 63, 64, 65, 66, 67, '
                                       '68, 69, 70, 71, 72, 73, 74, 75, 76, 77, 78, 79], [80, 81, 82, 83, '
                                       '84, 85, 86, 87, 88, 89, 90, 91, 92, 93, 94, 95, 96, 97, 98, 99]] || '
                                       "io=[('open', ('image-file',), {'mode': 'rb'}), 'enter', ('seek', "
                                       "(140,), {}), ('read', (100,), {}), ('seek', (260,), {}), ('read', "
                                       "(40,), {}), 'exit']",
 'iu2 rpc=np.int64(2) [2:,]': 'ndarray[<u2(3, 20)][[40, 41, 42, 43, 44, 45, 46, 47, 48, 49, 50, 51, 52, 53, '
                              '54, 55, 56, 57, 58, 59], [60, 61, 62, 63, 64, 65, 66, 67, 68, 69, 70, 71, 72, '
                              '73, 74, 75, 76, 77, 78, 79], [80, 81, 82, 83, 84, 85, 86, 87, 88, 89, 90, 91, '
                              "92, 93, 94, 95, 96, 97, 98, 99]] || io=[('open', ('image-file',), {'mode': "
                              "'rb'}), 'enter', ('seek', (140,), {}), ('read', (100,), {}), ('seek', (260,), "
                              "{}), ('read', (40,), {}), 'exit']",
 'iu2 rpc=np.int64(2) [2:, 1, 2]': 'raise builtins.IndexError: too many indices for array: array is '
                                   "2-dimensional, but 3 were indexed || io=[('open', ('image-file',), "
                                   "{'mode': 'rb'}), 'enter', ('seek', (140,), {}), ('read', (100,), {}), "
                                   "('seek', (260,), {}), ('read', (40,), {}), 'exit']",
 'iu2 rpc=np.int64(2) list[2:, 1:3]': "ndarray[<u2(3, 2)][[41, 42], [61, 62], [81, 82]] || io=[('open', "
                                      "('image-file',), {'mode': 'rb'}), 'enter', ('seek', (140,), {}), "
                                      "('read', (100,), {}), ('seek', (260,), {}), ('read', (40,), {}), "
                                      "'exit']",
 'iu2 rpc=np.int64(2) [:2, all]': 'ndarray[<u2(2, 20)][[0, 1, 2, 3, 4, 5, 6, 7, 8, 9, 10, 11, 12, 13, 14, '
                                  '15, 16, 17, 18, 19], [20, 21, 22, 23, 24, 25, 26, 27, 28, 29, 30, 31, 32, '
                                  "33, 34, 35, 36, 37, 38, 39]] || io=[('open', ('image-file',), {'mode': "
                                  "'rb'}), 'enter', ('seek', (20,), {}), ('read', (100,), {}), 'exit']",
 'iu2 rpc=np.int64(2) [:2, 3]': "ndarray[<u2(2,)][3, 23] || io=[('open', ('image-file',), {'mode': 'rb'}), "
                                "'enter', ('seek', (20,), {}), ('read', (100,), {}), 'exit']",
 'iu2 rpc=np.int64(2) [:2, -1]': "ndarray[<u2(2,)][19, 39] || io=[('open', ('image-file',), {'mode': 'rb'}), "
                                 "'enter', ('seek', (20,), {}), ('read', (100,), {}), 'exit']",
 'iu2 rpc=np.int64(2) [:2, 2:]': 'ndarray[<u2(2, 18)][[2, 3, 4, 5, 6, 7, 8, 9, 10, 11, 12, 13, 14, 15, 16, '
                                 '17, 18, 19], [22, 23, 24, 25, 26, 27, 28, 29, 30, 31, 32, 33, 34, 35, 36, '
                                 "37, 38, 39]] || io=[('open', ('image-file',), {'mode': 'rb'}), 'enter', "
                                 "('seek', (20,), {}), ('read', (100,), {}), 'exit']",
 'iu2 rpc=np.int64(2) [:2, :-2]': 'ndarray[<u2(2, 18)][[0, 1, 2, 3, 4, 5, 6, 7, 8, 9, 10, 11, 12, 13, 14, '
                                  '15, 16, 17], [20, 21, 22, 23, 24, 25, 26, 27, 28, 29, 30, 31, 32, 33, 34, '
                                  "35, 36, 37]] || io=[('open', ('image-file',), {'mode': 'rb'}), 'enter', "
                                  "('seek', (20,), {}), ('read', (100,), {}), 'exit']",
 'iu2 rpc=np.int64(2) [:2, ::3]': 'ndarray[<u2(2, 7)][[0, 3, 6, 9, 12, 15, 18], [20, 23, 26, 29, 32, 35, '
                                  "38]] || io=[('open', ('image-file',), {'mode': 'rb'}), 'enter', ('seek', "
                                  "(20,), {}), ('read', (100,), {}), 'exit']",
 'iu2 rpc=np.int64(2) [:2, ::-1]': 'ndarray[<u2(2, 20)][[19, 18, 17, 16, 15, 14, 13, 12, 11, 10, 9, 8, 7, 6, '
                                   '5, 4, 3, 2, 1, 0], [39, 38, 37, 36, 35, 34, 33, 32, 31, 30, 29, 28, 27, '
                                   "26, 25, 24, 23, 22, 21, 20]] || io=[('open', ('image-file',), {'mode': "
                                   "'rb'}), 'enter', ('seek', (20,), {}), ('read', (100,), {}), 'exit']",
 'iu2 rpc=np.int64(2) [:2, 0:0]': "ndarray[<u2(2, 0)][[], []] || io=[('open', ('image-file',), {'mode': "
                                  "'rb'}), 'enter', ('seek', (20,), {}), ('read', (100,), {}), 'exit']",
 'iu2 rpc=np.int64(2) [:2, [1,5]]': "ndarray[<u2(2, 2)][[1, 5], [21, 25]] || io=[('open', ('image-file',), "
                                    "{'mode': 'rb'}), 'enter', ('seek', (20,), {}), ('read', (100,), {}), "
                                    "'exit']",
 'iu2 rpc=np.int64(2) [:2, 25]': 'raise builtins.IndexError: index 25 is out of bounds for axis 1 with size '
                                 "20 || io=[('open', ('image-file',), {'mode': 'rb'}), 'enter', ('seek', "
                                 "(20,), {}), ('read', (100,), {}), 'exit']",
 'iu2 rpc=np.int64(2) [:2, newaxis]': 'ndarray[<u2(2, 1, 20)][[[0, 1, 2, 3, 4, 5, 6, 7, 8, 9, 10, 11, 12, '
                                      '13, 14, 15, 16, 17, 18, 19]], [[20, 21, 22, 23, 24, 25, 26, 27, 28, '
                                      "29, 30, 31, 32, 33, 34, 35, 36, 37, 38, 39]]] || io=[('open', "
                                      "('image-file',), {'mode': 'rb'}), 'enter', ('seek', (20,), {}), "
                                      "('read', (100,), {}), 'exit']",
 'iu2 rpc=np.int64(2) [:2, ellipsis]': 'ndarray[<u2(2, 20)][[0, 1, 2, 3, 4, 5, 6, 7, 8, 9, 10, 11, 12, 13, '
                                       '14, 15, 16, 17, 18, 19], [20, 21, 22, 23, 24, 25, 26, 27, 28, 29, '
                                       "30, 31, 32, 33, 34, 35, 36, 37, 38, 39]] || io=[('open', "
                                       "('image-file',), {'mode': 'rb'}), 'enter', ('seek', (20,), {}), "
                                       "('read', (100,), {}), 'exit']",
 'iu2 rpc=np.int64(2) [:2,]': 'ndarray[<u2(2, 20)][[0, 1, 2, 3, 4, 5, 6, 7, 8, 9, 10, 11, 12, 13, 14, 15, '
                              '16, 17, 18, 19], [20, 21, 22, 23, 24, 25, 26, 27, 28, 29, 30, 31, 32, 33, 34, '
                              "35, 36, 37, 38, 39]] || io=[('open', ('image-file',), {'mode': 'rb'}), "
                              "'enter', ('seek', (20,), {}), ('read', (100,), {}), 'exit']",
 'iu2 rpc=np.int64(2) [:2, 1, 2]': 'raise builtins.IndexError: too many indices for array: array is '
                                   "2-dimensional, but 3 were indexed || io=[('open', ('image-file',), "
                                   "{'mode': 'rb'}), 'enter', ('seek', (20,), {}), ('read', (100,), {}), "
                                   "'exit']",
 'iu2 rpc=np.int64(2) list[:2, 1:3]': "ndarray[<u2(2, 2)][[1, 2], [21, 22]] || io=[('open', ('image-file',), "
                                      "{'mode': 'rb'}), 'enter', ('seek', (20,), {}), ('read', (100,), {}), "
                                      "'exit']",
 'iu2 rpc=np.int64(2) [-2:, all]': 'ndarray[<u2(2, 20)][[60, 61, 62, 63, 64, 65, 66, 67, 68, 69, 70, 71, 72, '
                                   '73, 74, 75, 76, 77, 78, 79], [80, 81, 82, 83, 84, 85, 86, 87, 88, 89, '
                                   "90, 91, 92, 93, 94, 95, 96, 97, 98, 99]] || io=[('open', "
                                   "('image-file',), {'mode': 'rb'}), 'enter', ('seek', (140,), {}), "
                                   "('read', (100,), {}), ('seek', (260,), {}), ('read', (40,), {}), 'exit']",
 'iu2 rpc=np.int64(2) [-2:, 3]': "ndarray[<u2(2,)][63, 83] || io=[('open', ('image-file',), {'mode': 'rb'}), "
                                 "'enter', ('seek', (140,), {}), ('read', (100,), {}), ('seek', (260,), {}), "
                                 "('read', (40,), {}), 'exit']",
 'iu2 rpc=np.int64(2) [-2:, -1]': "ndarray[<u2(2,)][79, 99] || io=[('open', ('image-file',), {'mode': "
                                  "'rb'}), 'enter', ('seek', (140,), {}), ('read', (100,), {}), ('seek', "
                                  "(260,), {}), ('read', (40,), {}), 'exit']",
 'iu2 rpc=np.int64(2) [-2:, 2:]': 'ndarray[<u2(2, 18)][[62, 63, 64, 65, 66, 67, 68, 69, 70, 71, 72, 73, 74, '
                                  '75, 76, 77, 78, 79], [82, 83, 84, 85, 86, 87, 88, 89, 90, 91, 92, 93, 94, '
                                  "95, 96, 97, 98, 99]] || io=[('open', ('image-file',), {'mode': 'rb'}), "
                                  "'enter', ('seek', (140,), {}), ('read', (100,), {}), ('seek', (260,), "
                                  "{}), ('read', (40,), {}), 'exit']",
 'iu2 rpc=np.int64(2) [-2:, :-2]': 'ndarray[<u2(2, 18)][[60, 61, 62, 63, 64, 65, 66, 67, 68, 69, 70, 71, 72, '
                                   '73, 74, 75, 76, 77], [80, 81, 82, 83, 84, 85, 86, 87, 88, 89, 90, 91, '
                                   "92, 93, 94, 95, 96, 97]] || io=[('open', ('image-file',), {'mode': "
                                   "'rb'}), 'enter', ('seek', (140,), {}), ('read', (100,), {}), ('seek', "
                                   "(260,), {}), ('read', (40,), {}), 'exit']",
 'iu2 rpc=np.int64(2) [-2:, ::3]': 'ndarray[<u2(2, 7)][[60, 63, 66, 69, 72, 75, 78], [80, 83, 86, 89, 92, '
                                   "95, 98]] || io=[('open', ('image-file',), {'mode': 'rb'}), 'enter', "
                                   "('seek', (140,), {}), ('read', (100,), {}), ('seek', (260,), {}), "
                                   "('read', (40,), {}), 'exit']",
 'iu2 rpc=np.int64(2) [-2:, ::-1]': 'ndarray[<u2(2, 20)][[79, 78, 77, 76, 75, 74, 73, 72, 71, 70, 69, 68, '
                                    '67, 66, 65, 64, 63, 62, 61, 60], [99, 98, 97, 96, 95, 94, 93, 92, 91, '
                                    "90, 89, 88, 87, 86, 85, 84, 83, 82, 81, 80]] || io=[('open', "
                                    "('image-file',), {'mode': 'rb'}), 'enter', ('seek', (140,), {}), "
                                    "('read', (100,), {}), ('seek', (260,), {}), ('read', (40,), {}), "
                                    "'exit']",
 'iu2 rpc=np.int64(2) [-2:, 0:0]': "ndarray[<u2(2, 0)][[], []] || io=[('open', ('image-file',), {'mode': "
                                   "'rb'}), 'enter', ('seek', (140,), {}), ('read', (100,), {}), ('seek', "
                                   "(260,), {}), ('read', (40,), {}), 'exit']",
 'iu2 rpc=np.int64(2) [-2:, [1,5]]': "ndarray[<u2(2, 2)][[61, 65], [81, 85]] || io=[('open', "
                                     "('image-file',), {'mode': 'rb'}), 'enter', ('seek', (140,), {}), "
                                     "('read', (100,), {}), ('seek', (260,), {}), ('read', (40,), {}), "
                                     "'exit']",
 'iu2 rpc=np.int64(2) [-2:, 25]': 'raise builtins.IndexError: index 25 is out of bounds for axis 1 with size '
                                  "20 || io=[('open', ('image-file',), {'mode': 'rb'}), 'enter', ('seek', "
                                  "(140,), {}), ('read', (100,), {}), ('seek', (260,), {}), ('read', (40,), "
                                  "{}), 'exit']",
 'iu2 rpc=np.int64(2) [-2:, newaxis]': 'ndarray[<u2(2, 1, 20)][[[60, 61, 62, 63, 64, 65, 66, 67, 68, 69, 70, '
                                       '71, 72, 73, 74, 75, 76, 77, 78, 79]], [[80, 81, 82, 83, 84, 85, 86, '
                                       '87, 88, 89, 90, 91, 92, 93, 94, 95, 96, 97, 98, 99]]] || '
                                       "io=[('open', ('image-file',), {'mode': 'rb'}), 'enter', ('seek', "
                                       "(140,), {}), ('read', (100,), {}), ('seek', (260,), {}), ('read', "
                                       "(40,), {}), 'exit']",
 'iu2 rpc=np.int64(2) [-2:, ellipsis]': 'ndarray[<u2(2, 20)][[60, 61, 62, 63, 64, 65, 66, 67, 68, 69, 70, '
                                        '71, 72, 73, 74, 75, 76, 77, 78, 79], [80, 81, 82, 83, 84, 85, 86, '
                                        '87, 88, 89, 90, 91, 92, 93, 94, 95, 96, 97, 98, 99]] || '
                                        "io=[('open', ('image-file',), {'mode': 'rb'}), 'enter', ('seek', "
                                        "(140,), {}), ('read', (100,), {}), ('seek', (260,), {}), ('read', "
                                        "(40,), {}), 'exit']",
 'iu2 rpc=np.int64(2) [-2:,]': 'ndarray[<u2(2, 20)][[60, 61, 62, 63, 64, 65, 66, 67, 68, 69, 70, 71, 72, 73, '
                               '74, 75, 76, 77, 78, 79], [80, 81, 82, 83, 84, 85, 86, 87, 88, 89, 90, 91, '
                               "92, 93, 94, 95, 96, 97, 98, 99]] || io=[('open', ('image-file',), {'mode': "
                               "'rb'}), 'enter', ('seek', (140,), {}), ('read', (100,), {}), ('seek', "
                               "(260,), {}), ('read', (40,), {}), 'exit']",
 'iu2 rpc=np.int64(2) [-2:, 1, 2]': 'raise builtins.IndexError: too many indices for array: array is '
                                    "2-dimensional, but 3 were indexed || io=[('open', ('image-file',), "
                                    "{'mode': 'rb'}), 'enter', ('seek', (140,), {}), ('read', (100,), {}), "
                                    "('seek', (260,), {}), ('read', (40,), {}), 'exit']",
 'iu2 rpc=np.int64(2) list[-2:, 1:3]': "ndarray[<u2(2, 2)][[61, 62], [81, 82]] || io=[('open', "
                                       "('image-file',), {'mode': 'rb'}), 'enter', ('seek', (140,), {}), "
                                       "('read', (100,), {}), ('seek', (260,), {}), ('read', (40,), {}), "
                                       "'exit']",
 'iu2 rpc=np.int64(2) [::2, all]': 'ndarray[<u2(3, 20)][[0, 1, 2, 3, 4, 5, 6, 7, 8, 9, 10, 11, 12, 13, 14, '
                                   '15, 16, 17, 18, 19], [40, 41, 42, 43, 44, 45, 46, 47, 48, 49, 50, 51, '
                                   '52, 53, 54, 55, 56, 57, 58, 59], [80, 81, 82, 83, 84, 85, 86, 87, 88, '
                                   "89, 90, 91, 92, 93, 94, 95, 96, 97, 98, 99]] || io=[('open', "
                                   "('image-file',), {'mode': 'rb'}), 'enter', ('seek', (20,), {}), ('read', "
                                   "(100,), {}), ('seek', (140,), {}), ('read', (100,), {}), ('seek', "
                                   "(260,), {}), ('read', (40,), {}), 'exit']",
 'iu2 rpc=np.int64(2) [::2, 3]': "ndarray[<u2(3,)][3, 43, 83] || io=[('open', ('image-file',), {'mode': "
                                 "'rb'}), 'enter', ('seek', (20,), {}), ('read', (100,), {}), ('seek', "
                                 "(140,), {}), ('read', (100,), {}), ('seek', (260,), {}), ('read', (40,), "
                                 "{}), 'exit']",
 'iu2 rpc=np.int64(2) [::2, -1]': "ndarray[<u2(3,)][19, 59, 99] || io=[('open', ('image-file',), {'mode': "
                                  "'rb'}), 'enter', ('seek', (20,), {}), ('read', (100,), {}), ('seek', "
                                  "(140,), {}), ('read', (100,), {}), ('seek', (260,), {}), ('read', (40,), "
                                  "{}), 'exit']",
 'iu2 rpc=np.int64(2) [::2, 2:]': 'ndarray[<u2(3, 18)][[2, 3, 4, 5, 6, 7, 8, 9, 10, 11, 12, 13, 14, 15, 16, '
                                  '17, 18, 19], [42, 43, 44, 45, 46, 47, 48, 49, 50, 51, 52, 53, 54, 55, 56, '
                                  '57, 58, 59], [82, 83, 84, 85, 86, 87, 88, 89, 90, 91, 92, 93, 94, 95, 96, '
                                  "97, 98, 99]] || io=[('open', ('image-file',), {'mode': 'rb'}), 'enter', "
                                  "('seek', (20,), {}), ('read', (100,), {}), ('seek', (140,), {}), ('read', "
                                  "(100,), {}), ('seek', (260,), {}), ('read', (40,), {}), 'exit']",
 'iu2 rpc=np.int64(2) [::2, :-2]': 'ndarray[<u2(3, 18)][[0, 1, 2, 3, 4, 5, 6, 7, 8, 9, 10, 11, 12, 13, 14, '
                                   '15, 16, 17], [40, 41, 42, 43, 44, 45, 46, 47, 48, 49, 50, 51, 52, 53, '
                                   '54, 55, 56, 57], [80, 81, 82, 83, 84, 85, 86, 87, 88, 89, 90, 91, 92, '
                                   "93, 94, 95, 96, 97]] || io=[('open', ('image-file',), {'mode': 'rb'}), "
                                   "'enter', ('seek', (20,), {}), ('read', (100,), {}), ('seek', (140,), "
                                   "{}), ('read', (100,), {}), ('seek', (260,), {}), ('read', (40,), {}), "
                                   "'exit']",
 'iu2 rpc=np.int64(2) [::2, ::3]': 'ndarray[<u2(3, 7)][[0, 3, 6, 9, 12, 15, 18], [40, 43, 46, 49, 52, 55, '
                                   "58], [80, 83, 86, 89, 92, 95, 98]] || io=[('open', ('image-file',), "
                                   "{'mode': 'rb'}), 'enter', ('seek', (20,), {}), ('read', (100,), {}), "
                                   "('seek', (140,), {}), ('read', (100,), {}), ('seek', (260,), {}), "
                                   "('read', (40,), {}), 'exit']",
 'iu2 rpc=np.int64(2) [::2, ::-1]': 'ndarray[<u2(3, 20)][[19, 18, 17, 16, 15, 14, 13, 12, 11, 10, 9, 8, 7, '
                                    '6, 5, 4, 3, 2, 1, 0], [59, 58, 57, 56, 55, 54, 53, 52, 51, 50, 49, 48, '
                                    '47, 46, 45, 44, 43, 42, 41, 40], [99, 98, 97, 96, 95, 94, 93, 92, 91, '
                                    "90, 89, 88, 87, 86, 85, 84, 83, 82, 81, 80]] || io=[('open', "
                                    "('image-file',), {'mode': 'rb'}), 'enter', ('seek', (20,), {}), "
                                    "('read', (100,), {}), ('seek', (140,), {}), ('read', (100,), {}), "
                                    "('seek', (260,), {}), ('read', (40,), {}), 'exit']",
 'iu2 rpc=np.int64(2) [::2, 0:0]': "ndarray[<u2(3, 0)][[], [], []] || io=[('open', ('image-file',), {'mode': "
                                   "'rb'}), 'enter', ('seek', (20,), {}), ('read', (100,), {}), ('seek', "
                                   "(140,), {}), ('read', (100,), {}), ('seek', (260,), {}), ('read', (40,), "
                                   "{}), 'exit']",
 'iu2 rpc=np.int64(2) [::2, [1,5]]': "ndarray[<u2(3, 2)][[1, 5], [41, 45], [81, 85]] || io=[('open', "
                                     "('image-file',), {'mode': 'rb'}), 'enter', ('seek', (20,), {}), "
                                     "('read', (100,), {}), ('seek', (140,), {}), ('read', (100,), {}), "
                                     "('seek', (260,), {}), ('read', (40,), {}), 'exit']",
 'iu2 rpc=np.int64(2) [::2, 25]': 'raise builtins.IndexError: index 25 is out of bounds for axis 1 with size '
                                  "20 || io=[('open', ('image-file',), {'mode': 'rb'}), 'enter', ('seek', "
                                  "(20,), {}), ('read', (100,), {}), ('seek', (140,), {}), ('read', (100,), "
                                  "{}), ('seek', (260,), {}), ('read', (40,), {}), 'exit']",
 'iu2 rpc=np.int64(2) [::2, newaxis]': 'ndarray[<u2(3, 1, 20)][[[0, 1, 2, 3, 4, 5, 6, 7, 8, 9, 10, 11, 12, '
                                       '13, 14, 15, 16, 17, 18, 19]], [[40, 41, 42, 43, 44, 45, 46, 47, 48, '
                                       '49, 50, 51, 52, 53, 54, 55, 56, 57, 58, 59]], [[80, 81, 82, 83, 84, '
                                       '85, 86, 87, 88, 89, 90, 91, 92, 93, 94, 95, 96, 97, 98, 99]]] || '
                                       "io=[('open', ('image-file',), {'mode': 'rb'}), 'enter', ('seek', "
                                       "(20,), {}), ('read', (100,), {}), ('seek', (140,), {}), ('read', "
                                       "(100,), {}), ('seek', (260,), {}), ('read', (40,), {}), 'exit']",
 'iu2 rpc=np.int64(2) [::2, ellipsis]': 'ndarray[<u2(3, 20)][[0, 1, 2, 3, 4, 5, 6, 7, 8, 9, 10, 11, 12, 13, '
                                        '14, 15, 16, 17, 18, 19], [40, 41, 42, 43, 44, 45, 46, 47, 48, 49, '
                                        '50, 51, 52, 53, 54, 55, 56, 57, 58, 59], [80, 81, 82, 83, 84, 85, '
                                        '86, 87, 88, 89, 90, 91, 92, 93, 94, 95, 96, 97, 98, 99]] || '
                                        "io=[('open', ('image-file',), {'mode': 'rb'}), 'enter', ('seek', "
                                        "(20,), {}), ('read', (100,), {}), ('seek', (140,), {}), ('read', "
                                        "(100,), {}), ('seek', (260,), {}), ('read', (40,), {}), 'exit']",
 'iu2 rpc=np.int64(2) [::2,]': 'ndarray[<u2(3, 20)][[0, 1, 2, 3, 4, 5, 6, 7, 8, 9, 10, 11, 12, 13, 14, 15, '
                               '16, 17, 18, 19], [40, 41, 42, 43, 44, 45, 46, 47, 48, 49, 50, 51, 52, 53, '
                               '54, 55, 56, 57, 58, 59], [80, 81, 82, 83, 84, 85, 86, 87, 88, 89, 90, 91, '
                               "92, 93, 94, 95, 96, 97, 98, 99]] || io=[('open', ('image-file',), {'mode': "
                               "'rb'}), 'enter', ('seek', (20,), {}), ('read', (100,), {}), ('seek', (140,), "
                               "{}), ('read', (100,), {}), ('seek', (260,), {}), ('read', (40,), {}), "
                               "'exit']",
 'iu2 rpc=np.int64(2) [::2, 1, 2]': 'raise builtins.IndexError: too many indices for array: array is '
                                    "2-dimensional, but 3 were indexed || io=[('open', ('image-file',), "
                                    "{'mode': 'rb'}), 'enter', ('seek', (20,), {}), ('read', (100,), {}), "
                                    "('seek', (140,), {}), ('read', (100,), {}), ('seek', (260,), {}), "
                                    "('read', (40,), {}), 'exit']",
 'iu2 rpc=np.int64(2) list[::2, 1:3]': "ndarray[<u2(3, 2)][[1, 2], [41, 42], [81, 82]] || io=[('open', "
                                       "('image-file',), {'mode': 'rb'}), 'enter', ('seek', (20,), {}), "
                                       "('read', (100,), {}), ('seek', (140,), {}), ('read', (100,), {}), "
                                       "('seek', (260,), {}), ('read', (40,), {}), 'exit']",
 'iu2 rpc=np.int64(2) [1:4:2, all]': 'ndarray[<u2(2, 20)][[20, 21, 22, 23, 24, 25, 26, 27, 28, 29, 30, 31, '
                                     '32, 33, 34, 35, 36, 37, 38, 39], [60, 61, 62, 63, 64, 65, 66, 67, 68, '
                                     "69, 70, 71, 72, 73, 74, 75, 76, 77, 78, 79]] || io=[('open', "
                                     "('image-file',), {'mode': 'rb'}), 'enter', ('seek', (20,), {}), "
                                     "('read', (100,), {}), ('seek', (140,), {}), ('read', (100,), {}), "
                                     "'exit']",
 'iu2 rpc=np.int64(2) [1:4:2, 3]': "ndarray[<u2(2,)][23, 63] || io=[('open', ('image-file',), {'mode': "
                                   "'rb'}), 'enter', ('seek', (20,), {}), ('read', (100,), {}), ('seek', "
                                   "(140,), {}), ('read', (100,), {}), 'exit']",
 'iu2 rpc=np.int64(2) [1:4:2, -1]': "ndarray[<u2(2,)][39, 79] || io=[('open', ('image-file',), {'mode': "
                                    "'rb'}), 'enter', ('seek', (20,), {}), ('read', (100,), {}), ('seek', "
                                    "(140,), {}), ('read', (100,), {}), 'exit']",
 'iu2 rpc=np.int64(2) [1:4:2, 2:]': 'ndarray[<u2(2, 18)][[22, 23, 24, 25, 26, 27, 28, 29, 30, 31, 32, 33, '
                                    '34, 35, 36, 37, 38, 39], [62, 63, 64, 65, 66, 67, 68, 69, 70, 71, 72, '
                                    "73, 74, 75, 76, 77, 78, 79]] || io=[('open', ('image-file',), {'mode': "
                                    "'rb'}), 'enter', ('seek', (20,), {}), ('read', (100,), {}), ('seek', "
                                    "(140,), {}), ('read', (100,), {}), 'exit']",
 'iu2 rpc=np.int64(2) [1:4:2, :-2]': 'ndarray[<u2(2, 18)][[20, 21, 22, 23, 24, 25, 26, 27, 28, 29, 30, 31, '
                                     '32, 33, 34, 35, 36, 37], [60, 61, 62, 63, 64, 65, 66, 67, 68, 69, 70, '
                                     "71, 72, 73, 74, 75, 76, 77]] || io=[('open', ('image-file',), {'mode': "
                                     "'rb'}), 'enter', ('seek', (20,), {}), ('read', (100,), {}), ('seek', "
                                     "(140,), {}), ('read', (100,), {}), 'exit']",
 'iu2 rpc=np.int64(2) [1:4:2, ::3]': 'ndarray[<u2(2, 7)][[20, 23, 26, 29, 32, 35, 38], [60, 63, 66, 69, 72, '
                                     "75, 78]] || io=[('open', ('image-file',), {'mode': 'rb'}), 'enter', "
                                     "('seek', (20,), {}), ('read', (100,), {}), ('seek', (140,), {}), "
                                     "('read', (100,), {}), 'exit']",
 'iu2 rpc=np.int64(2) [1:4:2, ::-1]': 'ndarray[<u2(2, 20)][[39, 38, 37, 36, 35, 34, 33, 32, 31, 30, 29, 28, '
                                      '27, 26, 25, 24, 23, 22, 21, 20], [79, 78, 77, 76, 75, 74, 73, 72, 71, '
                                      "70, 69, 68, 67, 66, 65, 64, 63, 62, 61, 60]] || io=[('open', "
                                      "('image-file',), {'mode': 'rb'}), 'enter', ('seek', (20,), {}), "
                                      "('read', (100,), {}), ('seek', (140,), {}), ('read', (100,), {}), "
                                      "'exit']",
 'iu2 rpc=np.int64(2) [1:4:2, 0:0]': "ndarray[<u2(2, 0)][[], []] || io=[('open', ('image-file',), {'mode': "
                                     "'rb'}), 'enter', ('seek', (20,), {}), ('read', (100,), {}), ('seek', "
                                     "(140,), {}), ('read', (100,), {}), 'exit']",
 'iu2 rpc=np.int64(2) [1:4:2, [1,5]]': "ndarray[<u2(2, 2)][[21, 25], [61, 65]] || io=[('open', "
                                       "('image-file',), {'mode': 'rb'}), 'enter', ('seek', (20,), {}), "
                                       "('read', (100,), {}), ('seek', (140,), {}), ('read', (100,), {}), "
                                       "'exit']",
 'iu2 rpc=np.int64(2) [1:4:2, 25]': 'raise builtins.IndexError: index 25 is out of bounds for axis 1 with '
                                    "size 20 || io=[('open', ('image-file',), {'mode': 'rb'}), 'enter', "
                                    "('seek', (20,), {}), ('read', (100,), {}), ('seek', (140,), {}), "
                                    "('read', (100,), {}), 'exit']",
 'iu2 rpc=np.int64(2) [1:4:2, newaxis]': 'ndarray[<u2(2, 1, 20)][[[20, 21, 22, 23, 24, 25, 26, 27, 28, 29, '
                                         '30, 31, 32, 33, 34, 35, 36, 37, 38, 39]], [[60, 61, 62, 63, 64, '
                                         '65, 66, 67, 68, 69, 70, 71, 72, 73, 74, 75, 76, 77, 78, 79]]] || '
                                         "io=[('open', ('image-file',), {'mode': 'rb'}), 'enter', ('seek', "
                                         "(20,), {}), ('read', (100,), {}), ('seek', (140,), {}), ('read', "
                                         "(100,), {}), 'exit']",
 'iu2 rpc=np.int64(2) [1:4:2, ellipsis]': 'ndarray[<u2(2, 20)][[20, 21, 22, 23, 24, 25, 26, 27, 28, 29, 30, '
                                          '31, 32, 33, 34, 35, 36, 37, 38, 39], [60, 61, 62, 63, 64, 65, 66, '
                                          '67, 68, 69, 70, 71, 72, 73, 74, 75, 76, 77, 78, 79]] || '
                                          "io=[('open', ('image-file',), {'mode': 'rb'}), 'enter', ('seek', "
                                          "(20,), {}), ('read', (100,), {}), ('seek', (140,), {}), ('read', "
                                          "(100,), {}), 'exit']",
 'iu2 rpc=np.int64(2) [1:4:2,]': 'ndarray[<u2(2, 20)][[20, 21, 22, 23, 24, 25, 26, 27, 28, 29, 30, 31, 32, '
                                 '33, 34, 35, 36, 37, 38, 39], [60, 61, 62, 63, 64, 65, 66, 67, 68, 69, 70, '
                                 "71, 72, 73, 74, 75, 76, 77, 78, 79]] || io=[('open', ('image-file',), "
                                 "{'mode': 'rb'}), 'enter', ('seek', (20,), {}), ('read', (100,), {}), "
                                 "('seek', (140,), {}), ('read', (100,), {}), 'exit']",
 'iu2 rpc=np.int64(2) [1:4:2, 1, 2]': 'raise builtins.IndexError: too many indices for array: array is '
                                      "2-dimensional, but 3 were indexed || io=[('open', ('image-file',), "
                                      "{'mode': 'rb'}), 'enter', ('seek', (20,), {}), ('read', (100,), {}), "
                                      "('seek', (140,), {}), ('read', (100,), {}), 'exit']",
 'iu2 rpc=np.int64(2) list[1:4:2, 1:3]': "ndarray[<u2(2, 2)][[21, 22], [61, 62]] || io=[('open', "
                                         "('image-file',), {'mode': 'rb'}), 'enter', ('seek', (20,), {}), "
                                         "('read', (100,), {}), ('seek', (140,), {}), ('read', (100,), {}), "
                                         "'exit']",
 'iu2 rpc=np.int64(2) [::-1, all]': 'ndarray[<u2(5, 20)][[80, 81, 82, 83, 84, 85, 86, 87, 88, 89, 90, 91, '
                                    '92, 93, 94, 95, 96, 97, 98, 99], [60, 61, 62, 63, 64, 65, 66, 67, 68, '
                                    '69, 70, 71, 72, 73, 74, 75, 76, 77, 78, 79], [40, 41, 42, 43, 44, 45, '
                                    '46, 47, 48, 49, 50, 51, 52, 53, 54, 55, 56, 57, 58, 59], [20, 21, 22, '
                                    '23, 24, 25, 26, 27, 28, 29, 30, 31, 32, 33, 34, 35, 36, 37, 38, 39], '
                                    '[0, 1, 2, 3, 4, 5, 6, 7, 8, 9, 10, 11, 12, 13, 14, 15, 16, 17, 18, 19]] '
                                    "|| io=[('open', ('image-file',), {'mode': 'rb'}), 'enter', ('seek', "
                                    "(260,), {}), ('read', (40,), {}), ('seek', (140,), {}), ('read', "
                                    "(100,), {}), ('seek', (20,), {}), ('read', (100,), {}), 'exit']",
 'iu2 rpc=np.int64(2) [::-1, 3]': "ndarray[<u2(5,)][83, 63, 43, 23, 3] || io=[('open', ('image-file',), "
                                  "{'mode': 'rb'}), 'enter', ('seek', (260,), {}), ('read', (40,), {}), "
                                  "('seek', (140,), {}), ('read', (100,), {}), ('seek', (20,), {}), ('read', "
                                  "(100,), {}), 'exit']",
 'iu2 rpc=np.int64(2) [::-1, -1]': "ndarray[<u2(5,)][99, 79, 59, 39, 19] || io=[('open', ('image-file',), "
                                   "{'mode': 'rb'}), 'enter', ('seek', (260,), {}), ('read', (40,), {}), "
                                   "('seek', (140,), {}), ('read', (100,), {}), ('seek', (20,), {}), "
                                   "('read', (100,), {}), 'exit']",
 'iu2 rpc=np.int64(2) [::-1, 2:]': 'ndarray[<u2(5, 18)][[82, 83, 84, 85, 86, 87, 88, 89, 90, 91, 92, 93, 94, '
                                   '95, 96, 97, 98, 99], [62, 63, 64, 65, 66, 67, 68, 69, 70, 71, 72, 73, '
                                   '74, 75, 76, 77, 78, 79], [42, 43, 44, 45, 46, 47, 48, 49, 50, 51, 52, '
                                   '53, 54, 55, 56, 57, 58, 59], [22, 23, 24, 25, 26, 27, 28, 29, 30, 31, '
                                   '32, 33, 34, 35, 36, 37, 38, 39], [2, 3, 4, 5, 6, 7, 8, 9, 10, 11, 12, '
                                   "13, 14, 15, 16, 17, 18, 19]] || io=[('open', ('image-file',), {'mode': "
                                   "'rb'}), 'enter', ('seek', (260,), {}), ('read', (40,), {}), ('seek', "
                                   "(140,), {}), ('read', (100,), {}), ('seek', (20,), {}), ('read', (100,), "
                                   "{}), 'exit']",
 'iu2 rpc=np.int64(2) [::-1, :-2]': 'ndarray[<u2(5, 18)][[80, 81, 82, 83, 84, 85, 86, 87, 88, 89, 90, 91, '
                                    '92, 93, 94, 95, 96, 97], [60, 61, 62, 63, 64, 65, 66, 67, 68, 69, 70, '
                                    '71, 72, 73, 74, 75, 76, 77], [40, 41, 42, 43, 44, 45, 46, 47, 48, 49, '
                                    '50, 51, 52, 53, 54, 55, 56, 57], [20, 21, 22, 23, 24, 25, 26, 27, 28, '
                                    '29, 30, 31, 32, 33, 34, 35, 36, 37], [0, 1, 2, 3, 4, 5, 6, 7, 8, 9, 10, '
                                    "11, 12, 13, 14, 15, 16, 17]] || io=[('open', ('image-file',), {'mode': "
                                    "'rb'}), 'enter', ('seek', (260,), {}), ('read', (40,), {}), ('seek', "
                                    "(140,), {}), ('read', (100,), {}), ('seek', (20,), {}), ('read', "
                                    "(100,), {}), 'exit']",
 'iu2 rpc=np.int64(2) [::-1, ::3]': 'ndarray[<u2(5, 7)][[80, 83, 86, 89, 92, 95, 98], [60, 63, 66, 69, 72, '
                                    '75, 78], [40, 43, 46, 49, 52, 55, 58], [20, 23, 26, 29, 32, 35, 38], '
                                    "[0, 3, 6, 9, 12, 15, 18]] || io=[('open', ('image-file',), {'mode': "
                                    "'rb'}), 'enter', ('seek', (260,), {}), ('read', (40,), {}), ('seek', "
                                    "(140,), {}), ('read', (100,), {}), ('seek', (20,), {}), ('read', "
                                    "(100,), {}), 'exit']",
 'iu2 rpc=np.int64(2) [::-1, ::-1]': 'ndarray[<u2(5, 20)][[99, 98, 97, 96, 95, 94, 93, 92, 91, 90, 89, 88, '
                                     '87, 86, 85, 84, 83, 82, 81, 80], [79, 78, 77, 76, 75, 74, 73, 72, 71, '
                                     '70, 69, 68, 67, 66, 65, 64, 63, 62, 61, 60], [59, 58, 57, 56, 55, 54, '
                                     '53, 52, 51, 50, 49, 48, 47, 46, 45, 44, 43, 42, 41, 40], [39, 38, 37, '
                                     '36, 35, 34, 33, 32, 31, 30, 29, 28, 27, 26, 25, 24, 23, 22, 21, 20], '
                                     '[19, 18, 17, 16, 15, 14, 13, 12, 11, 10, 9, 8, 7, 6, 5, 4, 3, 2, 1, '
                                     "0]] || io=[('open', ('image-file',), {'mode': 'rb'}), 'enter', "
                                     "('seek', (260,), {}), ('read', (40,), {}), ('seek', (140,), {}), "
                                     "('read', (100,), {}), ('seek', (20,), {}), ('read', (100,), {}), "
                                     "'exit']",
 'iu2 rpc=np.int64(2) [::-1, 0:0]': "ndarray[<u2(5, 0)][[], [], [], [], []] || io=[('open', ('image-file',), "
                                    "{'mode': 'rb'}), 'enter', ('seek', (260,), {}), ('read', (40,), {}), "
                                    "('seek', (140,), {}), ('read', (100,), {}), ('seek', (20,), {}), "
                                    "('read', (100,), {}), 'exit']",
 'iu2 rpc=np.int64(2) [::-1, [1,5]]': 'ndarray[<u2(5, 2)][[81, 85], [61, 65], [41, 45], [21, 25], [1, 5]] || '
                                      "io=[('open', ('image-file',), {'mode': 'rb'}), 'enter', ('seek', "
                                      "(260,), {}), ('read', (40,), {}), ('seek', (140,), {}), ('read', "
                                      "(100,), {}), ('seek', (20,), {}), ('read', (100,), {}), 'exit']",
 'iu2 rpc=np.int64(2) [::-1, 25]': 'raise builtins.IndexError: index 25 is out of bounds for axis 1 with '
                                   "size 20 || io=[('open', ('image-file',), {'mode': 'rb'}), 'enter', "
                                   "('seek', (260,), {}), ('read', (40,), {}), ('seek', (140,), {}), "
                                   "('read', (100,), {}), ('seek', (20,), {}), ('read', (100,), {}), 'exit']",
 'iu2 rpc=np.int64(2) [::-1, newaxis]': 'ndarray[<u2(5, 1, 20)][[[80, 81, 82, 83, 84, 85, 86, 87, 88, 89, '
                                        '90, 91, 92, 93, 94, 95, 96, 97, 98, 99]], [[60, 61, 62, 63, 64, 65, '
                                        '66, 67, 68, 69, 70, 71, 72, 73, 74, 75, 76, 77, 78, 79]], [[40, 41, '
                                        '42, 43, 44, 45, 46, 47, 48, 49, 50, 51, 52, 53, 54, 55, 56, 57, 58, '
                                        '59]], [[20, 21, 22, 23, 24, 25, 26, 27, 28, 29, 30, 31, 32, 33, 34, '
                                        '35, 36, 37, 38, 39]], [[0, 1, 2, 3, 4, 5, 6, 7, 8, 9, 10, 11, 12, '
                                        "13, 14, 15, 16, 17, 18, 19]]] || io=[('open', ('image-file',), "
                                        "{'mode': 'rb'}), 'enter', ('seek', (260,), {}), ('read', (40,), "
                                        "{}), ('seek', (140,), {}), ('read', (100,), {}), ('seek', (20,), "
                                        "{}), ('read', (100,), {}), 'exit']",
 'iu2 rpc=np.int64(2) [::-1, ellipsis]': 'ndarray[<u2(5, 20)][[80, 81, 82, 83, 84, 85, 86, 87, 88, 89, 90, '
                                         '91, 92, 93, 94, 95, 96, 97, 98, 99], [60, 61, 62, 63, 64, 65, 66, '
                                         '67, 68, 69, 70, 71, 72, 73, 74, 75, 76, 77, 78, 79], [40, 41, 42, '
                                         '43, 44, 45, 46, 47, 48, 49, 50, 51, 52, 53, 54, 55, 56, 57, 58, '
                                         '59], [20, 21, 22, 23, 24, 25, 26, 27, 28, 29, 30, 31, 32, 33, 34, '
                                         '35, 36, 37, 38, 39], [0, 1, 2, 3, 4, 5, 6, 7, 8, 9, 10, 11, 12, '
                                         "13, 14, 15, 16, 17, 18, 19]] || io=[('open', ('image-file',), "
                                         "{'mode': 'rb'}), 'enter', ('seek', (260,), {}), ('read', (40,), "
                                         "{}), ('seek', (140,), {}), ('read', (100,), {}), ('seek', (20,), "
                                         "{}), ('read', (100,), {}), 'exit']",
 'iu2 rpc=np.int64(2) [::-1,]': 'ndarray[<u2(5, 20)][[80, 81, 82, 83, 84, 85, 86, 87, 88, 89, 90, 91, 92, '
                                '93, 94, 95, 96, 97, 98, 99], [60, 61, 62, 63, 64, 65, 66, 67, 68, 69, 70, '
                                '71, 72, 73, 74, 75, 76, 77, 78, 79], [40, 41, 42, 43, 44, 45, 46, 47, 48, '
                                '49, 50, 51, 52, 53, 54, 55, 56, 57, 58, 59], [20, 21, 22, 23, 24, 25, 26, '
                                '27, 28, 29, 30, 31, 32, 33, 34, 35, 36, 37, 38, 39], [0, 1, 2, 3, 4, 5, 6, '
                                "7, 8, 9, 10, 11, 12, 13, 14, 15, 16, 17, 18, 19]] || io=[('open', "
                                "('image-file',), {'mode': 'rb'}), 'enter', ('seek', (260,), {}), ('read', "
                                "(40,), {}), ('seek', (140,), {}), ('read', (100,), {}), ('seek', (20,), "
                                "{}), ('read', (100,), {}), 'exit']",
 'iu2 rpc=np.int64(2) [::-1, 1, 2]': 'raise builtins.IndexError: too many indices for array: array is '
                                     "2-dimensional, but 3 were indexed || io=[('open', ('image-file',), "
                                     "{'mode': 'rb'}), 'enter', ('seek', (260,), {}), ('read', (40,), {}), "
                                     "('seek', (140,), {}), ('read', (100,), {}), ('seek', (20,), {}), "
                                     "('read', (100,), {}), 'exit']",
 'iu2 rpc=np.int64(2) list[::-1, 1:3]': 'ndarray[<u2(5, 2)][[81, 82], [61, 62], [41, 42], [21, 22], [1, 2]] '
                                        "|| io=[('open', ('image-file',), {'mode': 'rb'}), 'enter', ('seek', "
                                        "(260,), {}), ('read', (40,), {}), ('seek', (140,), {}), ('read', "
                                        "(100,), {}), ('seek', (20,), {}), ('read', (100,), {}), 'exit']",
 'iu2 rpc=np.int64(2) [-1::-2, all]': 'ndarray[<u2(3, 20)][[80, 81, 82, 83, 84, 85, 86, 87, 88, 89, 90, 91, '
                                      '92, 93, 94, 95, 96, 97, 98, 99], [40, 41, 42, 43, 44, 45, 46, 47, 48, '
                                      '49, 50, 51, 52, 53, 54, 55, 56, 57, 58, 59], [0, 1, 2, 3, 4, 5, 6, 7, '
                                      "8, 9, 10, 11, 12, 13, 14, 15, 16, 17, 18, 19]] || io=[('open', "
                                      "('image-file',), {'mode': 'rb'}), 'enter', ('seek', (260,), {}), "
                                      "('read', (40,), {}), ('seek', (140,), {}), ('read', (100,), {}), "
                                      "('seek', (20,), {}), ('read', (100,), {}), 'exit']",
 'iu2 rpc=np.int64(2) [-1::-2, 3]': "ndarray[<u2(3,)][83, 43, 3] || io=[('open', ('image-file',), {'mode': "
                                    "'rb'}), 'enter', ('seek', (260,), {}), ('read', (40,), {}), ('seek', "
                                    "(140,), {}), ('read', (100,), {}), ('seek', (20,), {}), ('read', "
                                    "(100,), {}), 'exit']",
 'iu2 rpc=np.int64(2) [-1::-2, -1]': "ndarray[<u2(3,)][99, 59, 19] || io=[('open', ('image-file',), {'mode': "
                                     "'rb'}), 'enter', ('seek', (260,), {}), ('read', (40,), {}), ('seek', "
                                     "(140,), {}), ('read', (100,), {}), ('seek', (20,), {}), ('read', "
                                     "(100,), {}), 'exit']",
 'iu2 rpc=np.int64(2) [-1::-2, 2:]': 'ndarray[<u2(3, 18)][[82, 83, 84, 85, 86, 87, 88, 89, 90, 91, 92, 93, '
                                     '94, 95, 96, 97, 98, 99], [42, 43, 44, 45, 46, 47, 48, 49, 50, 51, 52, '
                                     '53, 54, 55, 56, 57, 58, 59], [2, 3, 4, 5, 6, 7, 8, 9, 10, 11, 12, 13, '
                                     "14, 15, 16, 17, 18, 19]] || io=[('open', ('image-file',), {'mode': "
                                     "'rb'}), 'enter', ('seek', (260,), {}), ('read', (40,), {}), ('seek', "
                                     "(140,), {}), ('read', (100,), {}), ('seek', (20,), {}), ('read', "
                                     "(100,), {}), 'exit']",
 'iu2 rpc=np.int64(2) [-1::-2, :-2]': 'ndarray[<u2(3, 18)][[80, 81, 82, 83, 84, 85, 86, 87, 88, 89, 90, 91, '
                                      '92, 93, 94, 95, 96, 97], [40, 41, 42, 43, 44, 45, 46, 47, 48, 49, 50, '
                                      '51, 52, 53, 54, 55, 56, 57], [0, 1, 2, 3, 4, 5, 6, 7, 8, 9, 10, 11, '
                                      "12, 13, 14, 15, 16, 17]] || io=[('open', ('image-file',), {'mode': "
                                      "'rb'}), 'enter', ('seek', (260,), {}), ('read', (40,), {}), ('seek', "
                                      "(140,), {}), ('read', (100,), {}), ('seek', (20,), {}), ('read', "
                                      "(100,), {}), 'exit']",
 'iu2 rpc=np.int64(2) [-1::-2, ::3]': 'ndarray[<u2(3, 7)][[80, 83, 86, 89, 92, 95, 98], [40, 43, 46, 49, 52, '
                                      "55, 58], [0, 3, 6, 9, 12, 15, 18]] || io=[('open', ('image-file',), "
                                      "{'mode': 'rb'}), 'enter', ('seek', (260,), {}), ('read', (40,), {}), "
                                      "('seek', (140,), {}), ('read', (100,), {}), ('seek', (20,), {}), "
                                      "('read', (100,), {}), 'exit']",
 'iu2 rpc=np.int64(2) [-1::-2, ::-1]': 'ndarray[<u2(3, 20)][[99, 98, 97, 96, 95, 94, 93, 92, 91, 90, 89, 88, '
                                       '87, 86, 85, 84, 83, 82, 81, 80], [59, 58, 57, 56, 55, 54, 53, 52, '
                                       '51, 50, 49, 48, 47, 46, 45, 44, 43, 42, 41, 40], [19, 18, 17, 16, '
                                       '15, 14, 13, 12, 11, 10, 9, 8, 7, 6, 5, 4, 3, 2, 1, 0]] || '
                                       "io=[('open', ('image-file',), {'mode': 'rb'}), 'enter', ('seek', "
                                       "(260,), {}), ('read', (40,), {}), ('seek', (140,), {}), ('read', "
                                       "(100,), {}), ('seek', (20,), {}), ('read', (100,), {}), 'exit']",
 'iu2 rpc=np.int64(2) [-1::-2, 0:0]': "ndarray[<u2(3, 0)][[], [], []] || io=[('open', ('image-file',), "
                                      "{'mode': 'rb'}), 'enter', ('seek', (260,), {}), ('read', (40,), {}), "
                                      "('seek', (140,), {}), ('read', (100,), {}), ('seek', (20,), {}), "
                                      "('read', (100,), {}), 'exit']",
 'iu2 rpc=np.int64(2) [-1::-2, [1,5]]': "ndarray[<u2(3, 2)][[81, 85], [41, 45], [1, 5]] || io=[('open', "
                                        "('image-file',), {'mode': 'rb'}), 'enter', ('seek', (260,), {}), "
                                        "('read', (40,), {}), ('seek', (140,), {}), ('read', (100,), {}), "
                                        "('seek', (20,), {}), ('read', (100,), {}), 'exit']",
 'iu2 rpc=np.int64(2) [-1::-2, 25]': 'raise builtins.IndexError: index 25 is out of bounds for axis 1 with '
                                     "size 20 || io=[('open', ('image-file',), {'mode': 'rb'}), 'enter', "
                                     "('seek', (260,), {}), ('read', (40,), {}), ('seek', (140,), {}), "
                                     "('read', (100,), {}), ('seek', (20,), {}), ('read', (100,), {}), "
                                     "'exit']",
 'iu2 rpc=np.int64(2) [-1::-2, newaxis]': 'ndarray[<u2(3, 1, 20)][[[80, 81, 82, 83, 84, 85, 86, 87, 88, 89, '
                                          '90, 91, 92, 93, 94, 95, 96, 97, 98, 99]], [[40, 41, 42, 43, 44, '
                                          '45, 46, 47, 48, 49, 50, 51, 52, 53, 54, 55, 56, 57, 58, 59]], '
                                          '[[0, 1, 2, 3, 4, 5, 6, 7, 8, 9, 10, 11, 12, 13, 14, 15, 16, 17, '
                                          "18, 19]]] || io=[('open', ('image-file',), {'mode': 'rb'}), "
                                          "'enter', ('seek', (260,), {}), ('read', (40,), {}), ('seek', "
                                          "(140,), {}), ('read', (100,), {}), ('seek', (20,), {}), ('read', "
                                          "(100,), {}), 'exit']",
 'iu2 rpc=np.int64(2) [-1::-2, ellipsis]': 'ndarray[<u2(3, 20)][[80, 81, 82, 83, 84, 85, 86, 87, 88, 89, 90, '
                                           '91, 92, 93, 94, 95, 96, 97, 98, 99], [40, 41, 42, 43, 44, 45, '
                                           '46, 47, 48, 49, 50, 51, 52, 53, 54, 55, 56, 57, 58, 59], [0, 1, '
                                           '2, 3, 4, 5, 6, 7, 8, 9, 10, 11, 12, 13, 14, 15, 16, 17, 18, 19]] '
                                           "|| io=[('open', ('image-file',), {'mode': 'rb'}), 'enter', "
                                           "('seek', (260,), {}), ('read', (40,), {}), ('seek', (140,), {}), "
                                           "('read', (100,), {}), ('seek', (20,), {}), ('read', (100,), {}), "
                                           "'exit']",
 'iu2 rpc=np.int64(2) [-1::-2,]': 'ndarray[<u2(3, 20)][[80, 81, 82, 83, 84, 85, 86, 87, 88, 89, 90, 91, 92, '
                                  '93, 94, 95, 96, 97, 98, 99], [40, 41, 42, 43, 44, 45, 46, 47, 48, 49, 50, '
                                  '51, 52, 53, 54, 55, 56, 57, 58, 59], [0, 1, 2, 3, 4, 5, 6, 7, 8, 9, 10, '
                                  "11, 12, 13, 14, 15, 16, 17, 18, 19]] || io=[('open', ('image-file',), "
                                  "{'mode': 'rb'}), 'enter', ('seek', (260,), {}), ('read', (40,), {}), "
                                  "('seek', (140,), {}), ('read', (100,), {}), ('seek', (20,), {}), ('read', "
                                  "(100,), {}), 'exit']",
 'iu2 rpc=np.int64(2) [-1::-2, 1, 2]': 'raise builtins.IndexError: too many indices for array: array is '
                                       "2-dimensional, but 3 were indexed || io=[('open', ('image-file',), "
                                       "{'mode': 'rb'}), 'enter', ('seek', (260,), {}), ('read', (40,), {}), "
                                       "('seek', (140,), {}), ('read', (100,), {}), ('seek', (20,), {}), "
                                       "('read', (100,), {}), 'exit']",
 'iu2 rpc=np.int64(2) list[-1::-2, 1:3]': "ndarray[<u2(3, 2)][[81, 82], [41, 42], [1, 2]] || io=[('open', "
                                          "('image-file',), {'mode': 'rb'}), 'enter', ('seek', (260,), {}), "
                                          "('read', (40,), {}), ('seek', (140,), {}), ('read', (100,), {}), "
                                          "('seek', (20,), {}), ('read', (100,), {}), 'exit']",
 'iu2 rpc=np.int64(2) [0:0, all]': "ndarray[<u2(0, 20)][] || io=[('open', ('image-file',), {'mode': 'rb'}), "
                                   "'enter', 'exit']",
 'iu2 rpc=np.int64(2) [0:0, 3]': "ndarray[<u2(0,)][] || io=[('open', ('image-file',), {'mode': 'rb'}), "
                                 "'enter', 'exit']",
 'iu2 rpc=np.int64(2) [0:0, -1]': "ndarray[<u2(0,)][] || io=[('open', ('image-file',), {'mode': 'rb'}), "
                                  "'enter', 'exit']",
 'iu2 rpc=np.int64(2) [0:0, 2:]': "ndarray[<u2(0, 18)][] || io=[('open', ('image-file',), {'mode': 'rb'}), "
                                  "'enter', 'exit']",
 'iu2 rpc=np.int64(2) [0:0, :-2]': "ndarray[<u2(0, 18)][] || io=[('open', ('image-file',), {'mode': 'rb'}), "
                                   "'enter', 'exit']",
 'iu2 rpc=np.int64(2) [0:0, ::3]': "ndarray[<u2(0, 7)][] || io=[('open', ('image-file',), {'mode': 'rb'}), "
                                   "'enter', 'exit']",
 'iu2 rpc=np.int64(2) [0:0, ::-1]': "ndarray[<u2(0, 20)][] || io=[('open', ('image-file',), {'mode': 'rb'}), "
                                    "'enter', 'exit']",
 'iu2 rpc=np.int64(2) [0:0, 0:0]': "ndarray[<u2(0, 0)][] || io=[('open', ('image-file',), {'mode': 'rb'}), "
                                   "'enter', 'exit']",
 'iu2 rpc=np.int64(2) [0:0, [1,5]]': "ndarray[<u2(0, 2)][] || io=[('open', ('image-file',), {'mode': 'rb'}), "
                                     "'enter', 'exit']",
 'iu2 rpc=np.int64(2) [0:0, 25]': 'raise builtins.IndexError: index 25 is out of bounds for axis 1 with size '
                                  "20 || io=[('open', ('image-file',), {'mode': 'rb'}), 'enter', 'exit']",
 'iu2 rpc=np.int64(2) [0:0, newaxis]': "ndarray[<u2(0, 1, 20)][] || io=[('open', ('image-file',), {'mode': "
                                       "'rb'}), 'enter', 'exit']",
 'iu2 rpc=np.int64(2) [0:0, ellipsis]': "ndarray[<u2(0, 20)][] || io=[('open', ('image-file',), {'mode': "
                                        "'rb'}), 'enter', 'exit']",
 'iu2 rpc=np.int64(2) [0:0,]': "ndarray[<u2(0, 20)][] || io=[('open', ('image-file',), {'mode': 'rb'}), "
                               "'enter', 'exit']",
 'iu2 rpc=np.int64(2) [0:0, 1, 2]': 'raise builtins.IndexError: too many indices for array: array is '
                                    "2-dimensional, but 3 were indexed || io=[('open', ('image-file',), "
                                    "{'mode': 'rb'}), 'enter', 'exit']",
 'iu2 rpc=np.int64(2) list[0:0, 1:3]': "ndarray[<u2(0, 2)][] || io=[('open', ('image-file',), {'mode': "
                                       "'rb'}), 'enter', 'exit']",
 'iu2 rpc=np.int64(2) [4:1, all]': "ndarray[<u2(0, 20)][] || io=[('open', ('image-file',), {'mode': 'rb'}), "
                                   "'enter', 'exit']",
 'iu2 rpc=np.int64(2) [4:1, 3]': "ndarray[<u2(0,)][] || io=[('open', ('image-file',), {'mode': 'rb'}), "
                                 "'enter', 'exit']",
 'iu2 rpc=np.int64(2) [4:1, -1]': "ndarray[<u2(0,)][] || io=[('open', ('image-file',), {'mode': 'rb'}), "
                                  "'enter', 'exit']",
 'iu2 rpc=np.int64(2) [4:1, 2:]': "ndarray[<u2(0, 18)][] || io=[('open', ('image-file',), {'mode': 'rb'}), "
                                  "'enter', 'exit']",
 'iu2 rpc=np.int64(2) [4:1, :-2]': "ndarray[<u2(0, 18)][] || io=[('open', ('image-file',), {'mode': 'rb'}), "
                                   "'enter', 'exit']",
 'iu2 rpc=np.int64(2) [4:1, ::3]': "ndarray[<u2(0, 7)][] || io=[('open', ('image-file',), {'mode': 'rb'}), "
                                   "'enter', 'exit']",
 'iu2 rpc=np.int64(2) [4:1, ::-1]': "ndarray[<u2(0, 20)][] || io=[('open', ('image-file',), {'mode': 'rb'}), "
                                    "'enter', 'exit']",
 'iu2 rpc=np.int64(2) [4:1, 0:0]': "ndarray[<u2(0, 0)][] || io=[('open', ('image-file',), {'mode': 'rb'}), "
                                   "'enter', 'exit']",
 'iu2 rpc=np.int64(2) [4:1, [1,5]]': "ndarray[<u2(0, 2)][] || io=[('open', ('image-file',), {'mode': 'rb'}), "
                                     "'enter', 'exit']",
 'iu2 rpc=np.int64(2) [4:1, 25]': 'raise builtins.IndexError: index 25 is out of bounds for axis 1 with size '
                                  "20 || io=[('open', ('image-file',), {'mode': 'rb'}), 'enter', 'exit']",
 'iu2 rpc=np.int64(2) [4:1, newaxis]': "ndarray[<u2(0, 1, 20)][] || io=[('open', ('image-file',), {'mode': "
                                       "'rb'}), 'enter', 'exit']",
 'iu2 rpc=np.int64(2) [4:1, ellipsis]': "ndarray[<u2(0, 20)][] || io=[('open', ('image-file',), {'mode': "
                                        "'rb'}), 'enter', 'exit']",
 'iu2 rpc=np.int64(2) [4:1,]': "ndarray[<u2(0, 20)][] || io=[('open', ('image-file',), {'mode': 'rb'}), "
                               "'enter', 'exit']",
 'iu2 rpc=np.int64(2) [4:1, 1, 2]': 'raise builtins.IndexError: too many indices for array: array is '
                                    "2-dimensional, but 3 were indexed || io=[('open', ('image-file',), "
                                    "{'mode': 'rb'}), 'enter', 'exit']",
 'iu2 rpc=np.int64(2) list[4:1, 1:3]': "ndarray[<u2(0, 2)][] || io=[('open', ('image-file',), {'mode': "
                                       "'rb'}), 'enter', 'exit']",
 'iu2 rpc=np.int64(2) [10:, all]': "ndarray[<u2(0, 20)][] || io=[('open', ('image-file',), {'mode': 'rb'}), "
                                   "'enter', 'exit']",
 'iu2 rpc=np.int64(2) [10:, 3]': "ndarray[<u2(0,)][] || io=[('open', ('image-file',), {'mode': 'rb'}), "
                                 "'enter', 'exit']",
 'iu2 rpc=np.int64(2) [10:, -1]': "ndarray[<u2(0,)][] || io=[('open', ('image-file',), {'mode': 'rb'}), "
                                  "'enter', 'exit']",
 'iu2 rpc=np.int64(2) [10:, 2:]': "ndarray[<u2(0, 18)][] || io=[('open', ('image-file',), {'mode': 'rb'}), "
                                  "'enter', 'exit']",
 'iu2 rpc=np.int64(2) [10:, :-2]': "ndarray[<u2(0, 18)][] || io=[('open', ('image-file',), {'mode': 'rb'}), "
                                   "'enter', 'exit']",
 'iu2 rpc=np.int64(2) [10:, ::3]': "ndarray[<u2(0, 7)][] || io=[('open', ('image-file',), {'mode': 'rb'}), "
                                   "'enter', 'exit']",
 'iu2 rpc=np.int64(2) [10:, ::-1]': "ndarray[<u2(0, 20)][] || io=[('open', ('image-file',), {'mode': 'rb'}), "
                                    "'enter', 'exit']",
 'iu2 rpc=np.int64(2) [10:, 0:0]': "ndarray[<u2(0, 0)][] || io=[('open', ('image-file',), {'mode': 'rb'}), "
                                   "'enter', 'exit']",
 'iu2 rpc=np.int64(2) [10:, [1,5]]': "ndarray[<u2(0, 2)][] || io=[('open', ('image-file',), {'mode': 'rb'}), "
                                     "'enter', 'exit']",
 'iu2 rpc=np.int64(2) [10:, 25]': 'raise builtins.IndexError: index 25 is out of bounds for axis 1 with size '
                                  "20 || io=[('open', ('image-file',), {'mode': 'rb'}), 'enter', 'exit']",
 'iu2 rpc=np.int64(2) [10:, newaxis]': "ndarray[<u2(0, 1, 20)][] || io=[('open', ('image-file',), {'mode': "
                                       "'rb'}), 'enter', 'exit']",
 'iu2 rpc=np.int64(2) [10:, ellipsis]': "ndarray[<u2(0, 20)][] || io=[('open', ('image-file',), {'mode': "
                                        "'rb'}), 'enter', 'exit']",
 'iu2 rpc=np.int64(2) [10:,]': "ndarray[<u2(0, 20)][] || io=[('open', ('image-file',), {'mode': 'rb'}), "
                               "'enter', 'exit']",
 'iu2 rpc=np.int64(2) [10:, 1, 2]': 'raise builtins.IndexError: too many indices for array: array is '
                                    "2-dimensional, but 3 were indexed || io=[('open', ('image-file',), "
                                    "{'mode': 'rb'}), 'enter', 'exit']",
 'iu2 rpc=np.int64(2) list[10:, 1:3]': "ndarray[<u2(0, 2)][] || io=[('open', ('image-file',), {'mode': "
                                       "'rb'}), 'enter', 'exit']",
 'iu2 rpc=np.int64(2) [[0,2], all]': 'ndarray[<u2(2, 20)][[0, 1, 2, 3, 4, 5, 6, 7, 8, 9, 10, 11, 12, 13, 14, '
                                     '15, 16, 17, 18, 19], [40, 41, 42, 43, 44, 45, 46, 47, 48, 49, 50, 51, '
                                     "52, 53, 54, 55, 56, 57, 58, 59]] || io=[('open', ('image-file',), "
                                     "{'mode': 'rb'}), 'enter', ('seek', (20,), {}), ('read', (100,), {}), "
                                     "('seek', (140,), {}), ('read', (100,), {}), 'exit']",
 'iu2 rpc=np.int64(2) [[0,2], 3]': "ndarray[<u2(2,)][3, 43] || io=[('open', ('image-file',), {'mode': "
                                   "'rb'}), 'enter', ('seek', (20,), {}), ('read', (100,), {}), ('seek', "
                                   "(140,), {}), ('read', (100,), {}), 'exit']",
 'iu2 rpc=np.int64(2) [[0,2], -1]': "ndarray[<u2(2,)][19, 59] || io=[('open', ('image-file',), {'mode': "
                                    "'rb'}), 'enter', ('seek', (20,), {}), ('read', (100,), {}), ('seek', "
                                    "(140,), {}), ('read', (100,), {}), 'exit']",
 'iu2 rpc=np.int64(2) [[0,2], 2:]': 'ndarray[<u2(2, 18)][[2, 3, 4, 5, 6, 7, 8, 9, 10, 11, 12, 13, 14, 15, '
                                    '16, 17, 18, 19], [42, 43, 44, 45, 46, 47, 48, 49, 50, 51, 52, 53, 54, '
                                    "55, 56, 57, 58, 59]] || io=[('open', ('image-file',), {'mode': 'rb'}), "
                                    "'enter', ('seek', (20,), {}), ('read', (100,), {}), ('seek', (140,), "
                                    "{}), ('read', (100,), {}), 'exit']",
 'iu2 rpc=np.int64(2) [[0,2], :-2]': 'ndarray[<u2(2, 18)][[0, 1, 2, 3, 4, 5, 6, 7, 8, 9, 10, 11, 12, 13, 14, '
                                     '15, 16, 17], [40, 41, 42, 43, 44, 45, 46, 47, 48, 49, 50, 51, 52, 53, '
                                     "54, 55, 56, 57]] || io=[('open', ('image-file',), {'mode': 'rb'}), "
                                     "'enter', ('seek', (20,), {}), ('read', (100,), {}), ('seek', (140,), "
                                     "{}), ('read', (100,), {}), 'exit']",
 'iu2 rpc=np.int64(2) [[0,2], ::3]': 'ndarray[<u2(2, 7)][[0, 3, 6, 9, 12, 15, 18], [40, 43, 46, 49, 52, 55, '
                                     "58]] || io=[('open', ('image-file',), {'mode': 'rb'}), 'enter', "
                                     "('seek', (20,), {}), ('read', (100,), {}), ('seek', (140,), {}), "
                                     "('read', (100,), {}), 'exit']",
 'iu2 rpc=np.int64(2) [[0,2], ::-1]': 'ndarray[<u2(2, 20)][[19, 18, 17, 16, 15, 14, 13, 12, 11, 10, 9, 8, 7, '
                                      '6, 5, 4, 3, 2, 1, 0], [59, 58, 57, 56, 55, 54, 53, 52, 51, 50, 49, '
                                      "48, 47, 46, 45, 44, 43, 42, 41, 40]] || io=[('open', ('image-file',), "
                                      "{'mode': 'rb'}), 'enter', ('seek', (20,), {}), ('read', (100,), {}), "
                                      "('seek', (140,), {}), ('read', (100,), {}), 'exit']",
 'iu2 rpc=np.int64(2) [[0,2], 0:0]': "ndarray[<u2(2, 0)][[], []] || io=[('open', ('image-file',), {'mode': "
                                     "'rb'}), 'enter', ('seek', (20,), {}), ('read', (100,), {}), ('seek', "
                                     "(140,), {}), ('read', (100,), {}), 'exit']",
 'iu2 rpc=np.int64(2) [[0,2], [1,5]]': "ndarray[<u2(2, 2)][[1, 5], [41, 45]] || io=[('open', "
                                       "('image-file',), {'mode': 'rb'}), 'enter', ('seek', (20,), {}), "
                                       "('read', (100,), {}), ('seek', (140,), {}), ('read', (100,), {}), "
                                       "'exit']",
 'iu2 rpc=np.int64(2) [[0,2], 25]': 'raise builtins.IndexError: index 25 is out of bounds for axis 1 with '
                                    "size 20 || io=[('open', ('image-file',), {'mode': 'rb'}), 'enter', "
                                    "('seek', (20,), {}), ('read', (100,), {}), ('seek', (140,), {}), "
                                    "('read', (100,), {}), 'exit']",
 'iu2 rpc=np.int64(2) [[0,2], newaxis]': 'ndarray[<u2(2, 1, 20)][[[0, 1, 2, 3, 4, 5, 6, 7, 8, 9, 10, 11, 12, '
                                         '13, 14, 15, 16, 17, 18, 19]], [[40, 41, 42, 43, 44, 45, 46, 47, '
                                         "48, 49, 50, 51, 52, 53, 54, 55, 56, 57, 58, 59]]] || io=[('open', "
                                         "('image-file',), {'mode': 'rb'}), 'enter', ('seek', (20,), {}), "
                                         "('read', (100,), {}), ('seek', (140,), {}), ('read', (100,), {}), "
                                         "'exit']",
 'iu2 rpc=np.int64(2) [[0,2], ellipsis]': 'ndarray[<u2(2, 20)][[0, 1, 2, 3, 4, 5, 6, 7, 8, 9, 10, 11, 12, '
                                          '13, 14, 15, 16, 17, 18, 19], [40, 41, 42, 43, 44, 45, 46, 47, 48, '
                                          "49, 50, 51, 52, 53, 54, 55, 56, 57, 58, 59]] || io=[('open', "
                                          "('image-file',), {'mode': 'rb'}), 'enter', ('seek', (20,), {}), "
                                          "('read', (100,), {}), ('seek', (140,), {}), ('read', (100,), {}), "
                                          "'exit']",
 'iu2 rpc=np.int64(2) [[0,2],]': 'ndarray[<u2(2, 20)][[0, 1, 2, 3, 4, 5, 6, 7, 8, 9, 10, 11, 12, 13, 14, 15, '
                                 '16, 17, 18, 19], [40, 41, 42, 43, 44, 45, 46, 47, 48, 49, 50, 51, 52, 53, '
                                 "54, 55, 56, 57, 58, 59]] || io=[('open', ('image-file',), {'mode': 'rb'}), "
                                 "'enter', ('seek', (20,), {}), ('read', (100,), {}), ('seek', (140,), {}), "
                                 "('read', (100,), {}), 'exit']",
 'iu2 rpc=np.int64(2) [[0,2], 1, 2]': 'raise builtins.IndexError: too many indices for array: array is '
                                      "2-dimensional, but 3 were indexed || io=[('open', ('image-file',), "
                                      "{'mode': 'rb'}), 'enter', ('seek', (20,), {}), ('read', (100,), {}), "
                                      "('seek', (140,), {}), ('read', (100,), {}), 'exit']",
 'iu2 rpc=np.int64(2) list[[0,2], 1:3]': "ndarray[<u2(2, 2)][[1, 2], [41, 42]] || io=[('open', "
                                         "('image-file',), {'mode': 'rb'}), 'enter', ('seek', (20,), {}), "
                                         "('read', (100,), {}), ('seek', (140,), {}), ('read', (100,), {}), "
                                         "'exit']",
 'iu2 rpc=np.int64(2) [[3,1,1], all]': 'ndarray[<u2(3, 20)][[60, 61, 62, 63, 64, 65, 66, 67, 68, 69, 70, 71, '
                                       '72, 73, 74, 75, 76, 77, 78, 79], [20, 21, 22, 23, 24, 25, 26, 27, '
                                       '28, 29, 30, 31, 32, 33, 34, 35, 36, 37, 38, 39], [20, 21, 22, 23, '
                                       '24, 25, 26, 27, 28, 29, 30, 31, 32, 33, 34, 35, 36, 37, 38, 39]] || '
                                       "io=[('open', ('image-file',), {'mode': 'rb'}), 'enter', ('seek', "
                                       "(140,), {}), ('read', (100,), {}), ('seek', (20,), {}), ('read', "
                                       "(100,), {}), 'exit']",
 'iu2 rpc=np.int64(2) [[3,1,1], 3]': "ndarray[<u2(3,)][63, 23, 23] || io=[('open', ('image-file',), {'mode': "
                                     "'rb'}), 'enter', ('seek', (140,), {}), ('read', (100,), {}), ('seek', "
                                     "(20,), {}), ('read', (100,), {}), 'exit']",
 'iu2 rpc=np.int64(2) [[3,1,1], -1]': "ndarray[<u2(3,)][79, 39, 39] || io=[('open', ('image-file',), "
                                      "{'mode': 'rb'}), 'enter', ('seek', (140,), {}), ('read', (100,), {}), "
                                      "('seek', (20,), {}), ('read', (100,), {}), 'exit']",
 'iu2 rpc=np.int64(2) [[3,1,1], 2:]': 'ndarray[<u2(3, 18)][[62, 63, 64, 65, 66, 67, 68, 69, 70, 71, 72, 73, '
                                      '74, 75, 76, 77, 78, 79], [22, 23, 24, 25, 26, 27, 28, 29, 30, 31, 32, '
                                      '33, 34, 35, 36, 37, 38, 39], [22, 23, 24, 25, 26, 27, 28, 29, 30, 31, '
                                      "32, 33, 34, 35, 36, 37, 38, 39]] || io=[('open', ('image-file',), "
                                      "{'mode': 'rb'}), 'enter', ('seek', (140,), {}), ('read', (100,), {}), "
                                      "('seek', (20,), {}), ('read', (100,), {}), 'exit']",
 'iu2 rpc=np.int64(2) [[3,1,1], :-2]': 'ndarray[<u2(3, 18)][[60, 61, 62, 63, 64, 65, 66, 67, 68, 69, 70, 71, '
                                       '72, 73, 74, 75, 76, 77], [20, 21, 22, 23, 24, 25, 26, 27, 28, 29, '
                                       '30, 31, 32, 33, 34, 35, 36, 37], [20, 21, 22, 23, 24, 25, 26, 27, '
                                       "28, 29, 30, 31, 32, 33, 34, 35, 36, 37]] || io=[('open', "
                                       "('image-file',), {'mode': 'rb'}), 'enter', ('seek', (140,), {}), "
                                       "('read', (100,), {}), ('seek', (20,), {}), ('read', (100,), {}), "
                                       "'exit']",
 'iu2 rpc=np.int64(2) [[3,1,1], ::3]': 'ndarray[<u2(3, 7)][[60, 63, 66, 69, 72, 75, 78], [20, 23, 26, 29, '
                                       "32, 35, 38], [20, 23, 26, 29, 32, 35, 38]] || io=[('open', "
                                       "('image-file',), {'mode': 'rb'}), 'enter', ('seek', (140,), {}), "
                                       "('read', (100,), {}), ('seek', (20,), {}), ('read', (100,), {}), "
                                       "'exit']",
 'iu2 rpc=np.int64(2) [[3,1,1], ::-1]': 'ndarray[<u2(3, 20)][[79, 78, 77, 76, 75, 74, 73, 72, 71, 70, 69, '
                                        '68, 67, 66, 65, 64, 63, 62, 61, 60], [39, 38, 37, 36, 35, 34, 33, '
                                        '32, 31, 30, 29, 28, 27, 26, 25, 24, 23, 22, 21, 20], [39, 38, 37, '
                                        '36, 35, 34, 33, 32, 31, 30, 29, 28, 27, 26, 25, 24, 23, 22, 21, '
                                        "20]] || io=[('open', ('image-file',), {'mode': 'rb'}), 'enter', "
                                        "('seek', (140,), {}), ('read', (100,), {}), ('seek', (20,), {}), "
                                        "('read', (100,), {}), 'exit']",
 'iu2 rpc=np.int64(2) [[3,1,1], 0:0]': "ndarray[<u2(3, 0)][[], [], []] || io=[('open', ('image-file',), "
                                       "{'mode': 'rb'}), 'enter', ('seek', (140,), {}), ('read', (100,), "
                                       "{}), ('seek', (20,), {}), ('read', (100,), {}), 'exit']",
 'iu2 rpc=np.int64(2) [[3,1,1], [1,5]]': "ndarray[<u2(3, 2)][[61, 65], [21, 25], [21, 25]] || io=[('open', "
                                         "('image-file',), {'mode': 'rb'}), 'enter', ('seek', (140,), {}), "
                                         "('read', (100,), {}), ('seek', (20,), {}), ('read', (100,), {}), "
                                         "'exit']",
 'iu2 rpc=np.int64(2) [[3,1,1], 25]': 'raise builtins.IndexError: index 25 is out of bounds for axis 1 with '
                                      "size 20 || io=[('open', ('image-file',), {'mode': 'rb'}), 'enter', "
                                      "('seek', (140,), {}), ('read', (100,), {}), ('seek', (20,), {}), "
                                      "('read', (100,), {}), 'exit']",
 'iu2 rpc=np.int64(2) [[3,1,1], newaxis]': 'ndarray[<u2(3, 1, 20)][[[60, 61, 62, 63, 64, 65, 66, 67, 68, 69, '
                                           '70, 71, 72, 73, 74, 75, 76, 77, 78, 79]], [[20, 21, 22, 23, 24, '
                                           '25, 26, 27, 28, 29, 30, 31, 32, 33, 34, 35, 36, 37, 38, 39]], '
                                           '[[20, 21, 22, 23, 24, 25, 26, 27, 28, 29, 30, 31, 32, 33, 34, '
                                           "35, 36, 37, 38, 39]]] || io=[('open', ('image-file',), {'mode': "
                                           "'rb'}), 'enter', ('seek', (140,), {}), ('read', (100,), {}), "
                                           "('seek', (20,), {}), ('read', (100,), {}), 'exit']",
 'iu2 rpc=np.int64(2) [[3,1,1], ellipsis]': 'ndarray[<u2(3, 20)][[60, 61, 62, 63, 64, 65, 66, 67, 68, 69, '
                                            '70, 71, 72, 73, 74, 75, 76, 77, 78, 79], [20, 21, 22, 23, 24, '
                                            '25, 26, 27, 28, 29, 30, 31, 32, 33, 34, 35, 36, 37, 38, 39], '
                                            '[20, 21, 22, 23, 24, 25, 26, 27, 28, 29, 30, 31, 32, 33, 34, '
                                            "35, 36, 37, 38, 39]] || io=[('open', ('image-file',), {'mode': "
                                            "'rb'}), 'enter', ('seek', (140,), {}), ('read', (100,), {}), "
                                            "('seek', (20,), {}), ('read', (100,), {}), 'exit']",
 'iu2 rpc=np.int64(2) [[3,1,1],]': 'ndarray[<u2(3, 20)][[60, 61, 62, 63, 64, 65, 66, 67, 68, 69, 70, 71, 72, '
                                   '73, 74, 75, 76, 77, 78, 79], [20, 21, 22, 23, 24, 25, 26, 27, 28, 29, '
                                   '30, 31, 32, 33, 34, 35, 36, 37, 38, 39], [20, 21, 22, 23, 24, 25, 26, '
                                   "27, 28, 29, 30, 31, 32, 33, 34, 35, 36, 37, 38, 39]] || io=[('open', "
                                   "('image-file',), {'mode': 'rb'}), 'enter', ('seek', (140,), {}), "
                                   "('read', (100,), {}), ('seek', (20,), {}), ('read', (100,), {}), 'exit']",
 'iu2 rpc=np.int64(2) [[3,1,1], 1, 2]': 'raise builtins.IndexError: too many indices for array: array is '
                                        "2-dimensional, but 3 were indexed || io=[('open', ('image-file',), "
                                        "{'mode': 'rb'}), 'enter', ('seek', (140,), {}), ('read', (100,), "
                                        "{}), ('seek', (20,), {}), ('read', (100,), {}), 'exit']",
 'iu2 rpc=np.int64(2) list[[3,1,1], 1:3]': "ndarray[<u2(3, 2)][[61, 62], [21, 22], [21, 22]] || io=[('open', "
                                           "('image-file',), {'mode': 'rb'}), 'enter', ('seek', (140,), {}), "
                                           "('read', (100,), {}), ('seek', (20,), {}), ('read', (100,), {}), "
                                           "'exit']",
 'iu2 rpc=np.int64(2) [[0,1], all]': 'ndarray[<u2(2, 20)][[0, 1, 2, 3, 4, 5, 6, 7, 8, 9, 10, 11, 12, 13, 14, '
                                     '15, 16, 17, 18, 19], [20, 21, 22, 23, 24, 25, 26, 27, 28, 29, 30, 31, '
                                     "32, 33, 34, 35, 36, 37, 38, 39]] || io=[('open', ('image-file',), "
                                     "{'mode': 'rb'}), 'enter', ('seek', (20,), {}), ('read', (100,), {}), "
                                     "'exit']",
 'iu2 rpc=np.int64(2) [[0,1], 3]': "ndarray[<u2(2,)][3, 23] || io=[('open', ('image-file',), {'mode': "
                                   "'rb'}), 'enter', ('seek', (20,), {}), ('read', (100,), {}), 'exit']",
 'iu2 rpc=np.int64(2) [[0,1], -1]': "ndarray[<u2(2,)][19, 39] || io=[('open', ('image-file',), {'mode': "
                                    "'rb'}), 'enter', ('seek', (20,), {}), ('read', (100,), {}), 'exit']",
 'iu2 rpc=np.int64(2) [[0,1], 2:]': 'ndarray[<u2(2, 18)][[2, 3, 4, 5, 6, 7, 8, 9, 10, 11, 12, 13, 14, 15, '
                                    '16, 17, 18, 19], [22, 23, 24, 25, 26, 27, 28, 29, 30, 31, 32, 33, 34, '
                                    "35, 36, 37, 38, 39]] || io=[('open', ('image-file',), {'mode': 'rb'}), "
                                    "'enter', ('seek', (20,), {}), ('read', (100,), {}), 'exit']",
 'iu2 rpc=np.int64(2) [[0,1], :-2]': 'ndarray[<u2(2, 18)][[0, 1, 2, 3, 4, 5, 6, 7, 8, 9, 10, 11, 12, 13, 14, '
                                     '15, 16, 17], [20, 21, 22, 23, 24, 25, 26, 27, 28, 29, 30, 31, 32, 33, '
                                     "34, 35, 36, 37]] || io=[('open', ('image-file',), {'mode': 'rb'}), "
                                     "'enter', ('seek', (20,), {}), ('read', (100,), {}), 'exit']",
 'iu2 rpc=np.int64(2) [[0,1], ::3]': 'ndarray[<u2(2, 7)][[0, 3, 6, 9, 12, 15, 18], [20, 23, 26, 29, 32, 35, '
                                     "38]] || io=[('open', ('image-file',), {'mode': 'rb'}), 'enter', "
                                     "('seek', (20,), {}), ('read', (100,), {}), 'exit']",
 'iu2 rpc=np.int64(2) [[0,1], ::-1]': 'ndarray[<u2(2, 20)][[19, 18, 17, 16, 15, 14, 13, 12, 11, 10, 9, 8, 7, '
                                      '6, 5, 4, 3, 2, 1, 0], [39, 38, 37, 36, 35, 34, 33, 32, 31, 30, 29, '
                                      "28, 27, 26, 25, 24, 23, 22, 21, 20]] || io=[('open', ('image-file',), "
                                      "{'mode': 'rb'}), 'enter', ('seek', (20,), {}), ('read', (100,), {}), "
                                      "'exit']",
 'iu2 rpc=np.int64(2) [[0,1], 0:0]': "ndarray[<u2(2, 0)][[], []] || io=[('open', ('image-file',), {'mode': "
                                     "'rb'}), 'enter', ('seek', (20,), {}), ('read', (100,), {}), 'exit']",
 'iu2 rpc=np.int64(2) [[0,1], [1,5]]': "ndarray[<u2(2, 2)][[1, 5], [21, 25]] || io=[('open', "
                                       "('image-file',), {'mode': 'rb'}), 'enter', ('seek', (20,), {}), "
                                       "('read', (100,), {}), 'exit']",
 'iu2 rpc=np.int64(2) [[0,1], 25]': 'raise builtins.IndexError: index 25 is out of bounds for axis 1 with '
                                    "size 20 || io=[('open', ('image-file',), {'mode': 'rb'}), 'enter', "
                                    "('seek', (20,), {}), ('read', (100,), {}), 'exit']",
 'iu2 rpc=np.int64(2) [[0,1], newaxis]': 'ndarray[<u2(2, 1, 20)][[[0, 1, 2, 3, 4, 5, 6, 7, 8, 9, 10, 11, 12, '
                                         '13, 14, 15, 16, 17, 18, 19]], [[20, 21, 22, 23, 24, 25, 26, 27, '
                                         "28, 29, 30, 31, 32, 33, 34, 35, 36, 37, 38, 39]]] || io=[('open', "
                                         "('image-file',), {'mode': 'rb'}), 'enter', ('seek', (20,), {}), "
                                         "('read', (100,), {}), 'exit']",
 'iu2 rpc=np.int64(2) [[0,1], ellipsis]': 'ndarray[<u2(2, 20)][[0, 1, 2, 3, 4, 5, 6, 7, 8, 9, 10, 11, 12, '
                                          '13, 14, 15, 16, 17, 18, 19], [20, 21, 22, 23, 24, 25, 26, 27, 28, '
                                          "29, 30, 31, 32, 33, 34, 35, 36, 37, 38, 39]] || io=[('open', "
                                          "('image-file',), {'mode': 'rb'}), 'enter', ('seek', (20,), {}), "
                                          "('read', (100,), {}), 'exit']",
 'iu2 rpc=np.int64(2) [[0,1],]': 'ndarray[<u2(2, 20)][[0, 1, 2, 3, 4, 5, 6, 7, 8, 9, 10, 11, 12, 13, 14, 15, '
                                 '16, 17, 18, 19], [20, 21, 22, 23, 24, 25, 26, 27, 28, 29, 30, 31, 32, 33, '
                                 "34, 35, 36, 37, 38, 39]] || io=[('open', ('image-file',), {'mode': 'rb'}), "
                                 "'enter', ('seek', (20,), {}), ('read', (100,), {}), 'exit']",
 'iu2 rpc=np.int64(2) [[0,1], 1, 2]': 'raise builtins.IndexError: too many indices for array: array is '
                                      "2-dimensional, but 3 were indexed || io=[('open', ('image-file',), "
                                      "{'mode': 'rb'}), 'enter', ('seek', (20,), {}), ('read', (100,), {}), "
                                      "'exit']",
 'iu2 rpc=np.int64(2) list[[0,1], 1:3]': "ndarray[<u2(2, 2)][[1, 2], [21, 22]] || io=[('open', "
                                         "('image-file',), {'mode': 'rb'}), 'enter', ('seek', (20,), {}), "
                                         "('read', (100,), {}), 'exit']",
 'iu2 rpc=np.int64(2) [[0], all]': 'ndarray[<u2(1, 20)][[0, 1, 2, 3, 4, 5, 6, 7, 8, 9, 10, 11, 12, 13, 14, '
                                   "15, 16, 17, 18, 19]] || io=[('open', ('image-file',), {'mode': 'rb'}), "
                                   "'enter', ('seek', (20,), {}), ('read', (100,), {}), 'exit']",
 'iu2 rpc=np.int64(2) [[0], 3]': "ndarray[<u2(1,)][3] || io=[('open', ('image-file',), {'mode': 'rb'}), "
                                 "'enter', ('seek', (20,), {}), ('read', (100,), {}), 'exit']",
 'iu2 rpc=np.int64(2) [[0], -1]': "ndarray[<u2(1,)][19] || io=[('open', ('image-file',), {'mode': 'rb'}), "
                                  "'enter', ('seek', (20,), {}), ('read', (100,), {}), 'exit']",
 'iu2 rpc=np.int64(2) [[0], 2:]': 'ndarray[<u2(1, 18)][[2, 3, 4, 5, 6, 7, 8, 9, 10, 11, 12, 13, 14, 15, 16, '
                                  "17, 18, 19]] || io=[('open', ('image-file',), {'mode': 'rb'}), 'enter', "
                                  "('seek', (20,), {}), ('read', (100,), {}), 'exit']",
 'iu2 rpc=np.int64(2) [[0], :-2]': 'ndarray[<u2(1, 18)][[0, 1, 2, 3, 4, 5, 6, 7, 8, 9, 10, 11, 12, 13, 14, '
                                   "15, 16, 17]] || io=[('open', ('image-file',), {'mode': 'rb'}), 'enter', "
                                   "('seek', (20,), {}), ('read', (100,), {}), 'exit']",
 'iu2 rpc=np.int64(2) [[0], ::3]': "ndarray[<u2(1, 7)][[0, 3, 6, 9, 12, 15, 18]] || io=[('open', "
                                   "('image-file',), {'mode': 'rb'}), 'enter', ('seek', (20,), {}), ('read', "
                                   "(100,), {}), 'exit']",
 'iu2 rpc=np.int64(2) [[0], ::-1]': 'ndarray[<u2(1, 20)][[19, 18, 17, 16, 15, 14, 13, 12, 11, 10, 9, 8, 7, '
                                    "6, 5, 4, 3, 2, 1, 0]] || io=[('open', ('image-file',), {'mode': 'rb'}), "
                                    "'enter', ('seek', (20,), {}), ('read', (100,), {}), 'exit']",
 'iu2 rpc=np.int64(2) [[0], 0:0]': "ndarray[<u2(1, 0)][[]] || io=[('open', ('image-file',), {'mode': 'rb'}), "
                                   "'enter', ('seek', (20,), {}), ('read', (100,), {}), 'exit']",
 'iu2 rpc=np.int64(2) [[0], [1,5]]': "ndarray[<u2(1, 2)][[1, 5]] || io=[('open', ('image-file',), {'mode': "
                                     "'rb'}), 'enter', ('seek', (20,), {}), ('read', (100,), {}), 'exit']",
 'iu2 rpc=np.int64(2) [[0], 25]': 'raise builtins.IndexError: index 25 is out of bounds for axis 1 with size '
                                  "20 || io=[('open', ('image-file',), {'mode': 'rb'}), 'enter', ('seek', "
                                  "(20,), {}), ('read', (100,), {}), 'exit']",
 'iu2 rpc=np.int64(2) [[0], newaxis]': 'ndarray[<u2(1, 1, 20)][[[0, 1, 2, 3, 4, 5, 6, 7, 8, 9, 10, 11, 12, '
                                       "13, 14, 15, 16, 17, 18, 19]]] || io=[('open', ('image-file',), "
                                       "{'mode': 'rb'}), 'enter', ('seek', (20,), {}), ('read', (100,), {}), "
                                       "'exit']",
 'iu2 rpc=np.int64(2) [[0], ellipsis]': 'ndarray[<u2(1, 20)][[0, 1, 2, 3, 4, 5, 6, 7, 8, 9, 10, 11, 12, 13, '
                                        "14, 15, 16, 17, 18, 19]] || io=[('open', ('image-file',), {'mode': "
                                        "'rb'}), 'enter', ('seek', (20,), {}), ('read', (100,), {}), 'exit']",
 'iu2 rpc=np.int64(2) [[0],]': 'ndarray[<u2(1, 20)][[0, 1, 2, 3, 4, 5, 6, 7, 8, 9, 10, 11, 12, 13, 14, 15, '
                               "16, 17, 18, 19]] || io=[('open', ('image-file',), {'mode': 'rb'}), 'enter', "
                               "('seek', (20,), {}), ('read', (100,), {}), 'exit']",
 'iu2 rpc=np.int64(2) [[0], 1, 2]': 'raise builtins.IndexError: too many indices for array: array is '
                                    "2-dimensional, but 3 were indexed || io=[('open', ('image-file',), "
                                    "{'mode': 'rb'}), 'enter', ('seek', (20,), {}), ('read', (100,), {}), "
                                    "'exit']",
 'iu2 rpc=np.int64(2) list[[0], 1:3]': "ndarray[<u2(1, 2)][[1, 2]] || io=[('open', ('image-file',), {'mode': "
                                       "'rb'}), 'enter', ('seek', (20,), {}), ('read', (100,), {}), 'exit']",
 'iu2 rpc=np.int64(2) [[-1,0], all]': 'ndarray[<u2(2, 20)][[80, 81, 82, 83, 84, 85, 86, 87, 88, 89, 90, 91, '
                                      '92, 93, 94, 95, 96, 97, 98, 99], [0, 1, 2, 3, 4, 5, 6, 7, 8, 9, 10, '
                                      "11, 12, 13, 14, 15, 16, 17, 18, 19]] || io=[('open', ('image-file',), "
                                      "{'mode': 'rb'}), 'enter', ('seek', (260,), {}), ('read', (40,), {}), "
                                      "('seek', (20,), {}), ('read', (100,), {}), 'exit']",
 'iu2 rpc=np.int64(2) [[-1,0], 3]': "ndarray[<u2(2,)][83, 3] || io=[('open', ('image-file',), {'mode': "
                                    "'rb'}), 'enter', ('seek', (260,), {}), ('read', (40,), {}), ('seek', "
                                    "(20,), {}), ('read', (100,), {}), 'exit']",
 'iu2 rpc=np.int64(2) [[-1,0], -1]': "ndarray[<u2(2,)][99, 19] || io=[('open', ('image-file',), {'mode': "
                                     "'rb'}), 'enter', ('seek', (260,), {}), ('read', (40,), {}), ('seek', "
                                     "(20,), {}), ('read', (100,), {}), 'exit']",
 'iu2 rpc=np.int64(2) [[-1,0], 2:]': 'ndarray[<u2(2, 18)][[82, 83, 84, 85, 86, 87, 88, 89, 90, 91, 92, 93, '
                                     '94, 95, 96, 97, 98, 99], [2, 3, 4, 5, 6, 7, 8, 9, 10, 11, 12, 13, 14, '
                                     "15, 16, 17, 18, 19]] || io=[('open', ('image-file',), {'mode': 'rb'}), "
                                     "'enter', ('seek', (260,), {}), ('read', (40,), {}), ('seek', (20,), "
                                     "{}), ('read', (100,), {}), 'exit']",
 'iu2 rpc=np.int64(2) [[-1,0], :-2]': 'ndarray[<u2(2, 18)][[80, 81, 82, 83, 84, 85, 86, 87, 88, 89, 90, 91, '
                                      '92, 93, 94, 95, 96, 97], [0, 1, 2, 3, 4, 5, 6, 7, 8, 9, 10, 11, 12, '
                                      "13, 14, 15, 16, 17]] || io=[('open', ('image-file',), {'mode': "
                                      "'rb'}), 'enter', ('seek', (260,), {}), ('read', (40,), {}), ('seek', "
                                      "(20,), {}), ('read', (100,), {}), 'exit']",
 'iu2 rpc=np.int64(2) [[-1,0], ::3]': 'ndarray[<u2(2, 7)][[80, 83, 86, 89, 92, 95, 98], [0, 3, 6, 9, 12, 15, '
                                      "18]] || io=[('open', ('image-file',), {'mode': 'rb'}), 'enter', "
                                      "('seek', (260,), {}), ('read', (40,), {}), ('seek', (20,), {}), "
                                      "('read', (100,), {}), 'exit']",
 'iu2 rpc=np.int64(2) [[-1,0], ::-1]': 'ndarray[<u2(2, 20)][[99, 98, 97, 96, 95, 94, 93, 92, 91, 90, 89, 88, '
                                       '87, 86, 85, 84, 83, 82, 81, 80], [19, 18, 17, 16, 15, 14, 13, 12, '
                                       "11, 10, 9, 8, 7, 6, 5, 4, 3, 2, 1, 0]] || io=[('open', "
                                       "('image-file',), {'mode': 'rb'}), 'enter', ('seek', (260,), {}), "
                                       "('read', (40,), {}), ('seek', (20,), {}), ('read', (100,), {}), "
                                       "'exit']",
 'iu2 rpc=np.int64(2) [[-1,0], 0:0]': "ndarray[<u2(2, 0)][[], []] || io=[('open', ('image-file',), {'mode': "
                                      "'rb'}), 'enter', ('seek', (260,), {}), ('read', (40,), {}), ('seek', "
                                      "(20,), {}), ('read', (100,), {}), 'exit']",
 'iu2 rpc=np.int64(2) [[-1,0], [1,5]]': "ndarray[<u2(2, 2)][[81, 85], [1, 5]] || io=[('open', "
                                        "('image-file',), {'mode': 'rb'}), 'enter', ('seek', (260,), {}), "
                                        "('read', (40,), {}), ('seek', (20,), {}), ('read', (100,), {}), "
                                        "'exit']",
 'iu2 rpc=np.int64(2) [[-1,0], 25]': 'raise builtins.IndexError: index 25 is out of bounds for axis 1 with '
                                     "size 20 || io=[('open', ('image-file',), {'mode': 'rb'}), 'enter', "
                                     "('seek', (260,), {}), ('read', (40,), {}), ('seek', (20,), {}), "
                                     "('read', (100,), {}), 'exit']",
 'iu2 rpc=np.int64(2) [[-1,0], newaxis]': 'ndarray[<u2(2, 1, 20)][[[80, 81, 82, 83, 84, 85, 86, 87, 88, 89, '
                                          '90, 91, 92, 93, 94, 95, 96, 97, 98, 99]], [[0, 1, 2, 3, 4, 5, 6, '
                                          '7, 8, 9, 10, 11, 12, 13, 14, 15, 16, 17, 18, 19]]] || '
                                          "io=[('open', ('image-file',), {'mode': 'rb'}), 'enter', ('seek', "
                                          "(260,), {}), ('read', (40,), {}), ('seek', (20,), {}), ('read', "
                                          "(100,), {}), 'exit']",
 'iu2 rpc=np.int64(2) [[-1,0], ellipsis]': 'ndarray[<u2(2, 20)][[80, 81, 82, 83, 84, 85, 86, 87, 88, 89, 90, '
                                           '91, 92, 93, 94, 95, 96, 97, 98, 99], [0, 1, 2, 3, 4, 5, 6, 7, 8, '
                                           "9, 10, 11, 12, 13, 14, 15, 16, 17, 18, 19]] || io=[('open', "
                                           "('image-file',), {'mode': 'rb'}), 'enter', ('seek', (260,), {}), "
                                           "('read', (40,), {}), ('seek', (20,), {}), ('read', (100,), {}), "
                                           "'exit']",
 'iu2 rpc=np.int64(2) [[-1,0],]': 'ndarray[<u2(2, 20)][[80, 81, 82, 83, 84, 85, 86, 87, 88, 89, 90, 91, 92, '
                                  '93, 94, 95, 96, 97, 98, 99], [0, 1, 2, 3, 4, 5, 6, 7, 8, 9, 10, 11, 12, '
                                  "13, 14, 15, 16, 17, 18, 19]] || io=[('open', ('image-file',), {'mode': "
                                  "'rb'}), 'enter', ('seek', (260,), {}), ('read', (40,), {}), ('seek', "
                                  "(20,), {}), ('read', (100,), {}), 'exit']",
 'iu2 rpc=np.int64(2) [[-1,0], 1, 2]': 'raise builtins.IndexError: too many indices for array: array is '
                                       "2-dimensional, but 3 were indexed || io=[('open', ('image-file',), "
                                       "{'mode': 'rb'}), 'enter', ('seek', (260,), {}), ('read', (40,), {}), "
                                       "('seek', (20,), {}), ('read', (100,), {}), 'exit']",
 'iu2 rpc=np.int64(2) list[[-1,0], 1:3]': "ndarray[<u2(2, 2)][[81, 82], [1, 2]] || io=[('open', "
                                          "('image-file',), {'mode': 'rb'}), 'enter', ('seek', (260,), {}), "
                                          "('read', (40,), {}), ('seek', (20,), {}), ('read', (100,), {}), "
                                          "'exit']",
 'iu2 rpc=np.int64(2) [[], all]': "ndarray[<u2(0, 20)][] || io=[('open', ('image-file',), {'mode': 'rb'}), "
                                  "'enter', 'exit']",
 'iu2 rpc=np.int64(2) [[], 3]': "ndarray[<u2(0,)][] || io=[('open', ('image-file',), {'mode': 'rb'}), "
                                "'enter', 'exit']",
 'iu2 rpc=np.int64(2) [[], -1]': "ndarray[<u2(0,)][] || io=[('open', ('image-file',), {'mode': 'rb'}), "
                                 "'enter', 'exit']",
 'iu2 rpc=np.int64(2) [[], 2:]': "ndarray[<u2(0, 18)][] || io=[('open', ('image-file',), {'mode': 'rb'}), "
                                 "'enter', 'exit']",
 'iu2 rpc=np.int64(2) [[], :-2]': "ndarray[<u2(0, 18)][] || io=[('open', ('image-file',), {'mode': 'rb'}), "
                                  "'enter', 'exit']",
 'iu2 rpc=np.int64(2) [[], ::3]': "ndarray[<u2(0, 7)][] || io=[('open', ('image-file',), {'mode': 'rb'}), "
                                  "'enter', 'exit']",
 'iu2 rpc=np.int64(2) [[], ::-1]': "ndarray[<u2(0, 20)][] || io=[('open', ('image-file',), {'mode': 'rb'}), "
                                   "'enter', 'exit']",
 'iu2 rpc=np.int64(2) [[], 0:0]': "ndarray[<u2(0, 0)][] || io=[('open', ('image-file',), {'mode': 'rb'}), "
                                  "'enter', 'exit']",
 'iu2 rpc=np.int64(2) [[], [1,5]]': "ndarray[<u2(0, 2)][] || io=[('open', ('image-file',), {'mode': 'rb'}), "
                                    "'enter', 'exit']",
 'iu2 rpc=np.int64(2) [[], 25]': 'raise builtins.IndexError: index 25 is out of bounds for axis 1 with size '
                                 "20 || io=[('open', ('image-file',), {'mode': 'rb'}), 'enter', 'exit']",
 'iu2 rpc=np.int64(2) [[], newaxis]': "ndarray[<u2(0, 1, 20)][] || io=[('open', ('image-file',), {'mode': "
                                      "'rb'}), 'enter', 'exit']",
 'iu2 rpc=np.int64(2) [[], ellipsis]': "ndarray[<u2(0, 20)][] || io=[('open', ('image-file',), {'mode': "
                                       "'rb'}), 'enter', 'exit']",
 'iu2 rpc=np.int64(2) [[],]': "ndarray[<u2(0, 20)][] || io=[('open', ('image-file',), {'mode': 'rb'}), "
                              "'enter', 'exit']",
 'iu2 rpc=np.int64(2) [[], 1, 2]': 'raise builtins.IndexError: too many indices for array: array is '
                                   "2-dimensional, but 3 were indexed || io=[('open', ('image-file',), "
                                   "{'mode': 'rb'}), 'enter', 'exit']",
 'iu2 rpc=np.int64(2) list[[], 1:3]': "ndarray[<u2(0, 2)][] || io=[('open', ('image-file',), {'mode': "
                                      "'rb'}), 'enter', 'exit']",
 'iu2 rpc=np.int64(2) [array[4,0], all]': 'ndarray[<u2(2, 20)][[80, 81, 82, 83, 84, 85, 86, 87, 88, 89, 90, '
                                          '91, 92, 93, 94, 95, 96, 97, 98, 99], [0, 1, 2, 3, 4, 5, 6, 7, 8, '
                                          "9, 10, 11, 12, 13, 14, 15, 16, 17, 18, 19]] || io=[('open', "
                                          "('image-file',), {'mode': 'rb'}), 'enter', ('seek', (260,), {}), "
                                          "('read', (40,), {}), ('seek', (20,), {}), ('read', (100,), {}), "
                                          "'exit']",
 'iu2 rpc=np.int64(2) [array[4,0], 3]': "ndarray[<u2(2,)][83, 3] || io=[('open', ('image-file',), {'mode': "
                                        "'rb'}), 'enter', ('seek', (260,), {}), ('read', (40,), {}), "
                                        "('seek', (20,), {}), ('read', (100,), {}), 'exit']",
 'iu2 rpc=np.int64(2) [array[4,0], -1]': "ndarray[<u2(2,)][99, 19] || io=[('open', ('image-file',), {'mode': "
                                         "'rb'}), 'enter', ('seek', (260,), {}), ('read', (40,), {}), "
                                         "('seek', (20,), {}), ('read', (100,), {}), 'exit']",
 'iu2 rpc=np.int64(2) [array[4,0], 2:]': 'ndarray[<u2(2, 18)][[82, 83, 84, 85, 86, 87, 88, 89, 90, 91, 92, '
                                         '93, 94, 95, 96, 97, 98, 99], [2, 3, 4, 5, 6, 7, 8, 9, 10, 11, 12, '
                                         "13, 14, 15, 16, 17, 18, 19]] || io=[('open', ('image-file',), "
                                         "{'mode': 'rb'}), 'enter', ('seek', (260,), {}), ('read', (40,), "
                                         "{}), ('seek', (20,), {}), ('read', (100,), {}), 'exit']",
 'iu2 rpc=np.int64(2) [array[4,0], :-2]': 'ndarray[<u2(2, 18)][[80, 81, 82, 83, 84, 85, 86, 87, 88, 89, 90, '
                                          '91, 92, 93, 94, 95, 96, 97], [0, 1, 2, 3, 4, 5, 6, 7, 8, 9, 10, '
                                          "11, 12, 13, 14, 15, 16, 17]] || io=[('open', ('image-file',), "
                                          "{'mode': 'rb'}), 'enter', ('seek', (260,), {}), ('read', (40,), "
                                          "{}), ('seek', (20,), {}), ('read', (100,), {}), 'exit']",
 'iu2 rpc=np.int64(2) [array[4,0], ::3]': 'ndarray[<u2(2, 7)][[80, 83, 86, 89, 92, 95, 98], [0, 3, 6, 9, 12, '
                                          "15, 18]] || io=[('open', ('image-file',), {'mode': 'rb'}), "
                                          "'enter', ('seek', (260,), {}), ('read', (40,), {}), ('seek', "
                                          "(20,), {}), ('read', (100,), {}), 'exit']",
 'iu2 rpc=np.int64(2) [array[4,0], ::-1]': 'ndarray[<u2(2, 20)][[99, 98, 97, 96, 95, 94, 93, 92, 91, 90, 89, '
                                           '88, 87, 86, 85, 84, 83, 82, 81, 80], [19, 18, 17, 16, 15, 14, '
                                           "13, 12, 11, 10, 9, 8, 7, 6, 5, 4, 3, 2, 1, 0]] || io=[('open', "
                                           "('image-file',), {'mode': 'rb'}), 'enter', ('seek', (260,), {}), "
                                           "('read', (40,), {}), ('seek', (20,), {}), ('read', (100,), {}), "
                                           "'exit']",
 'iu2 rpc=np.int64(2) [array[4,0], 0:0]': "ndarray[<u2(2, 0)][[], []] || io=[('open', ('image-file',), "
                                          "{'mode': 'rb'}), 'enter', ('seek', (260,), {}), ('read', (40,), "
                                          "{}), ('seek', (20,), {}), ('read', (100,), {}), 'exit']",
 'iu2 rpc=np.int64(2) [array[4,0], [1,5]]': "ndarray[<u2(2, 2)][[81, 85], [1, 5]] || io=[('open', "
                                            "('image-file',), {'mode': 'rb'}), 'enter', ('seek', (260,), "
                                            "{}), ('read', (40,), {}), ('seek', (20,), {}), ('read', (100,), "
                                            "{}), 'exit']",
 'iu2 rpc=np.int64(2) [array[4,0], 25]': 'raise builtins.IndexError: index 25 is out of bounds for axis 1 '
                                         "with size 20 || io=[('open', ('image-file',), {'mode': 'rb'}), "
                                         "'enter', ('seek', (260,), {}), ('read', (40,), {}), ('seek', "
                                         "(20,), {}), ('read', (100,), {}), 'exit']",
 'iu2 rpc=np.int64(2) [array[4,0], newaxis]': 'ndarray[<u2(2, 1, 20)][[[80, 81, 82, 83, 84, 85, 86, 87, 88, '
                                              '89, 90, 91, 92, 93, 94, 95, 96, 97, 98, 99]], [[0, 1, 2, 3, '
                                              '4, 5, 6, 7, 8, 9, 10, 11, 12, 13, 14, 15, 16, 17, 18, 19]]] '
                                              "|| io=[('open', ('image-file',), {'mode': 'rb'}), 'enter', "
                                              "('seek', (260,), {}), ('read', (40,), {}), ('seek', (20,), "
                                              "{}), ('read', (100,), {}), 'exit']",
 'iu2 rpc=np.int64(2) [array[4,0], ellipsis]': 'ndarray[<u2(2, 20)][[80, 81, 82, 83, 84, 85, 86, 87, 88, 89, '
                                               '90, 91, 92, 93, 94, 95, 96, 97, 98, 99], [0, 1, 2, 3, 4, 5, '
                                               '6, 7, 8, 9, 10, 11, 12, 13, 14, 15, 16, 17, 18, 19]] || '
                                               "io=[('open', ('image-file',), {'mode': 'rb'}), 'enter', "
                                               "('seek', (260,), {}), ('read', (40,), {}), ('seek', (20,), "
                                               "{}), ('read', (100,), {}), 'exit']",
 'iu2 rpc=np.int64(2) [array[4,0],]': 'ndarray[<u2(2, 20)][[80, 81, 82, 83, 84, 85, 86, 87, 88, 89, 90, 91, '
                                      '92, 93, 94, 95, 96, 97, 98, 99], [0, 1, 2, 3, 4, 5, 6, 7, 8, 9, 10, '
                                      "11, 12, 13, 14, 15, 16, 17, 18, 19]] || io=[('open', ('image-file',), "
                                      "{'mode': 'rb'}), 'enter', ('seek', (260,), {}), ('read', (40,), {}), "
                                      "('seek', (20,), {}), ('read', (100,), {}), 'exit']",
 'iu2 rpc=np.int64(2) [array[4,0], 1, 2]': 'raise builtins.IndexError: too many indices for array: array is '
                                           "2-dimensional, but 3 were indexed || io=[('open', "
                                           "('image-file',), {'mode': 'rb'}), 'enter', ('seek', (260,), {}), "
                                           "('read', (40,), {}), ('seek', (20,), {}), ('read', (100,), {}), "
                                           "'exit']",
 'iu2 rpc=np.int64(2) list[array[4,0], 1:3]': "ndarray[<u2(2, 2)][[81, 82], [1, 2]] || io=[('open', "
                                              "('image-file',), {'mode': 'rb'}), 'enter', ('seek', (260,), "
                                              "{}), ('read', (40,), {}), ('seek', (20,), {}), ('read', "
                                              "(100,), {}), 'exit']",
 'iu2 rpc=np.int64(2) [(1,3), all]': 'ndarray[<u2(2, 20)][[20, 21, 22, 23, 24, 25, 26, 27, 28, 29, 30, 31, '
                                     '32, 33, 34, 35, 36, 37, 38, 39], [60, 61, 62, 63, 64, 65, 66, 67, 68, '
                                     "69, 70, 71, 72, 73, 74, 75, 76, 77, 78, 79]] || io=[('open', "
                                     "('image-file',), {'mode': 'rb'}), 'enter', ('seek', (20,), {}), "
                                     "('read', (100,), {}), ('seek', (140,), {}), ('read', (100,), {}), "
                                     "'exit']",
 'iu2 rpc=np.int64(2) [(1,3), 3]': "ndarray[<u2(2,)][23, 63] || io=[('open', ('image-file',), {'mode': "
                                   "'rb'}), 'enter', ('seek', (20,), {}), ('read', (100,), {}), ('seek', "
                                   "(140,), {}), ('read', (100,), {}), 'exit']",
 'iu2 rpc=np.int64(2) [(1,3), -1]': "ndarray[<u2(2,)][39, 79] || io=[('open', ('image-file',), {'mode': "
                                    "'rb'}), 'enter', ('seek', (20,), {}), ('read', (100,), {}), ('seek', "
                                    "(140,), {}), ('read', (100,), {}), 'exit']",
 'iu2 rpc=np.int64(2) [(1,3), 2:]': 'ndarray[<u2(2, 18)][[22, 23, 24, 25, 26, 27, 28, 29, 30, 31, 32, 33, '
                                    '34, 35, 36, 37, 38, 39], [62, 63, 64, 65, 66, 67, 68, 69, 70, 71, 72, '
                                    "73, 74, 75, 76, 77, 78, 79]] || io=[('open', ('image-file',), {'mode': "
                                    "'rb'}), 'enter', ('seek', (20,), {}), ('read', (100,), {}), ('seek', "
                                    "(140,), {}), ('read', (100,), {}), 'exit']",
 'iu2 rpc=np.int64(2) [(1,3), :-2]': 'ndarray[<u2(2, 18)][[20, 21, 22, 23, 24, 25, 26, 27, 28, 29, 30, 31, '
                                     '32, 33, 34, 35, 36, 37], [60, 61, 62, 63, 64, 65, 66, 67, 68, 69, 70, '
                                     "71, 72, 73, 74, 75, 76, 77]] || io=[('open', ('image-file',), {'mode': "
                                     "'rb'}), 'enter', ('seek', (20,), {}), ('read', (100,), {}), ('seek', "
                                     "(140,), {}), ('read', (100,), {}), 'exit']",
 'iu2 rpc=np.int64(2) [(1,3), ::3]': 'ndarray[<u2(2, 7)][[20, 23, 26, 29, 32, 35, 38], [60, 63, 66, 69, 72, '
                                     "75, 78]] || io=[('open', ('image-file',), {'mode': 'rb'}), 'enter', "
                                     "('seek', (20,), {}), ('read', (100,), {}), ('seek', (140,), {}), "
                                     "('read', (100,), {}), 'exit']",
 'iu2 rpc=np.int64(2) [(1,3), ::-1]': 'ndarray[<u2(2, 20)][[39, 38, 37, 36, 35, 34, 33, 32, 31, 30, 29, 28, '
                                      '27, 26, 25, 24, 23, 22, 21, 20], [79, 78, 77, 76, 75, 74, 73, 72, 71, '
                                      "70, 69, 68, 67, 66, 65, 64, 63, 62, 61, 60]] || io=[('open', "
                                      "('image-file',), {'mode': 'rb'}), 'enter', ('seek', (20,), {}), "
                                      "('read', (100,), {}), ('seek', (140,), {}), ('read', (100,), {}), "
                                      "'exit']",
 'iu2 rpc=np.int64(2) [(1,3), 0:0]': "ndarray[<u2(2, 0)][[], []] || io=[('open', ('image-file',), {'mode': "
                                     "'rb'}), 'enter', ('seek', (20,), {}), ('read', (100,), {}), ('seek', "
                                     "(140,), {}), ('read', (100,), {}), 'exit']",
 'iu2 rpc=np.int64(2) [(1,3), [1,5]]': "ndarray[<u2(2, 2)][[21, 25], [61, 65]] || io=[('open', "
                                       "('image-file',), {'mode': 'rb'}), 'enter', ('seek', (20,), {}), "
                                       "('read', (100,), {}), ('seek', (140,), {}), ('read', (100,), {}), "
                                       "'exit']",
 'iu2 rpc=np.int64(2) [(1,3), 25]': 'raise builtins.IndexError: index 25 is out of bounds for axis 1 with '
                                    "size 20 || io=[('open', ('image-file',), {'mode': 'rb'}), 'enter', "
                                    "('seek', (20,), {}), ('read', (100,), {}), ('seek', (140,), {}), "
                                    "('read', (100,), {}), 'exit']",
 'iu2 rpc=np.int64(2) [(1,3), newaxis]': 'ndarray[<u2(2, 1, 20)][[[20, 21, 22, 23, 24, 25, 26, 27, 28, 29, '
                                         '30, 31, 32, 33, 34, 35, 36, 37, 38, 39]], [[60, 61, 62, 63, 64, '
                                         '65, 66, 67, 68, 69, 70, 71, 72, 73, 74, 75, 76, 77, 78, 79]]] || '
                                         "io=[('open', ('image-file',), {'mode': 'rb'}), 'enter', ('seek', "
                                         "(20,), {}), ('read', (100,), {}), ('seek', (140,), {}), ('read', "
                                         "(100,), {}), 'exit']",
 'iu2 rpc=np.int64(2) [(1,3), ellipsis]': 'ndarray[<u2(2, 20)][[20, 21, 22, 23, 24, 25, 26, 27, 28, 29, 30, '
                                          '31, 32, 33, 34, 35, 36, 37, 38, 39], [60, 61, 62, 63, 64, 65, 66, '
                                          '67, 68, 69, 70, 71, 72, 73, 74, 75, 76, 77, 78, 79]] || '
                                          "io=[('open', ('image-file',), {'mode': 'rb'}), 'enter', ('seek', "
                                          "(20,), {}), ('read', (100,), {}), ('seek', (140,), {}), ('read', "
                                          "(100,), {}), 'exit']",
 'iu2 rpc=np.int64(2) [(1,3),]': 'ndarray[<u2(2, 20)][[20, 21, 22, 23, 24, 25, 26, 27, 28, 29, 30, 31, 32, '
                                 '33, 34, 35, 36, 37, 38, 39], [60, 61, 62, 63, 64, 65, 66, 67, 68, 69, 70, '
                                 "71, 72, 73, 74, 75, 76, 77, 78, 79]] || io=[('open', ('image-file',), "
                                 "{'mode': 'rb'}), 'enter', ('seek', (20,), {}), ('read', (100,), {}), "
                                 "('seek', (140,), {}), ('read', (100,), {}), 'exit']",
 'iu2 rpc=np.int64(2) [(1,3), 1, 2]': 'raise builtins.IndexError: too many indices for array: array is '
                                      "2-dimensional, but 3 were indexed || io=[('open', ('image-file',), "
                                      "{'mode': 'rb'}), 'enter', ('seek', (20,), {}), ('read', (100,), {}), "
                                      "('seek', (140,), {}), ('read', (100,), {}), 'exit']",
 'iu2 rpc=np.int64(2) list[(1,3), 1:3]': "ndarray[<u2(2, 2)][[21, 22], [61, 62]] || io=[('open', "
                                         "('image-file',), {'mode': 'rb'}), 'enter', ('seek', (20,), {}), "
                                         "('read', (100,), {}), ('seek', (140,), {}), ('read', (100,), {}), "
                                         "'exit']",
 'iu2 rpc=np.int64(2) [range(1,4), all]': 'ndarray[<u2(3, 20)][[20, 21, 22, 23, 24, 25, 26, 27, 28, 29, 30, '
                                          '31, 32, 33, 34, 35, 36, 37, 38, 39], [40, 41, 42, 43, 44, 45, 46, '
                                          '47, 48, 49, 50, 51, 52, 53, 54, 55, 56, 57, 58, 59], [60, 61, 62, '
                                          '63, 64, 65, 66, 67, 68, 69, 70, 71, 72, 73, 74, 75, 76, 77, 78, '
                                          "79]] || io=[('open', ('image-file',), {'mode': 'rb'}), 'enter', "
                                          "('seek', (20,), {}), ('read', (100,), {}), ('seek', (140,), {}), "
                                          "('read', (100,), {}), 'exit']",
 'iu2 rpc=np.int64(2) [range(1,4), 3]': "ndarray[<u2(3,)][23, 43, 63] || io=[('open', ('image-file',), "
                                        "{'mode': 'rb'}), 'enter', ('seek', (20,), {}), ('read', (100,), "
                                        "{}), ('seek', (140,), {}), ('read', (100,), {}), 'exit']",
 'iu2 rpc=np.int64(2) [range(1,4), -1]': "ndarray[<u2(3,)][39, 59, 79] || io=[('open', ('image-file',), "
                                         "{'mode': 'rb'}), 'enter', ('seek', (20,), {}), ('read', (100,), "
                                         "{}), ('seek', (140,), {}), ('read', (100,), {}), 'exit']",
 'iu2 rpc=np.int64(2) [range(1,4), 2:]': 'ndarray[<u2(3, 18)][[22, 23, 24, 25, 26, 27, 28, 29, 30, 31, 32, '
                                         '33, 34, 35, 36, 37, 38, 39], [42, 43, 44, 45, 46, 47, 48, 49, 50, '
                                         '51, 52, 53, 54, 55, 56, 57, 58, 59], [62, 63, 64, 65, 66, 67, 68, '
                                         "69, 70, 71, 72, 73, 74, 75, 76, 77, 78, 79]] || io=[('open', "
                                         "('image-file',), {'mode': 'rb'}), 'enter', ('seek', (20,), {}), "
                                         "('read', (100,), {}), ('seek', (140,), {}), ('read', (100,), {}), "
                                         "'exit']",
 'iu2 rpc=np.int64(2) [range(1,4), :-2]': 'ndarray[<u2(3, 18)][[20, 21, 22, 23, 24, 25, 26, 27, 28, 29, 30, '
                                          '31, 32, 33, 34, 35, 36, 37], [40, 41, 42, 43, 44, 45, 46, 47, 48, '
                                          '49, 50, 51, 52, 53, 54, 55, 56, 57], [60, 61, 62, 63, 64, 65, 66, '
                                          "67, 68, 69, 70, 71, 72, 73, 74, 75, 76, 77]] || io=[('open', "
                                          "('image-file',), {'mode': 'rb'}), 'enter', ('seek', (20,), {}), "
                                          "('read', (100,), {}), ('seek', (140,), {}), ('read', (100,), {}), "
                                          "'exit']",
 'iu2 rpc=np.int64(2) [range(1,4), ::3]': 'ndarray[<u2(3, 7)][[20, 23, 26, 29, 32, 35, 38], [40, 43, 46, 49, '
                                          "52, 55, 58], [60, 63, 66, 69, 72, 75, 78]] || io=[('open', "
                                          "('image-file',), {'mode': 'rb'}), 'enter', ('seek', (20,), {}), "
                                          "('read', (100,), {}), ('seek', (140,), {}), ('read', (100,), {}), "
                                          "'exit']",
 'iu2 rpc=np.int64(2) [range(1,4), ::-1]': 'ndarray[<u2(3, 20)][[39, 38, 37, 36, 35, 34, 33, 32, 31, 30, 29, '
                                           '28, 27, 26, 25, 24, 23, 22, 21, 20], [59, 58, 57, 56, 55, 54, '
                                           '53, 52, 51, 50, 49, 48, 47, 46, 45, 44, 43, 42, 41, 40], [79, '
                                           '78, 77, 76, 75, 74, 73, 72, 71, 70, 69, 68, 67, 66, 65, 64, 63, '
                                           "62, 61, 60]] || io=[('open', ('image-file',), {'mode': 'rb'}), "
                                           "'enter', ('seek', (20,), {}), ('read', (100,), {}), ('seek', "
                                           "(140,), {}), ('read', (100,), {}), 'exit']",
 'iu2 rpc=np.int64(2) [range(1,4), 0:0]': "ndarray[<u2(3, 0)][[], [], []] || io=[('open', ('image-file',), "
                                          "{'mode': 'rb'}), 'enter', ('seek', (20,), {}), ('read', (100,), "
                                          "{}), ('seek', (140,), {}), ('read', (100,), {}), 'exit']",
 'iu2 rpc=np.int64(2) [range(1,4), [1,5]]': 'ndarray[<u2(3, 2)][[21, 25], [41, 45], [61, 65]] || '
                                            "io=[('open', ('image-file',), {'mode': 'rb'}), 'enter', "
                                            "('seek', (20,), {}), ('read', (100,), {}), ('seek', (140,), "
                                            "{}), ('read', (100,), {}), 'exit']",
 'iu2 rpc=np.int64(2) [range(1,4), 25]': 'raise builtins.IndexError: index 25 is out of bounds for axis 1 '
                                         "with size 20 || io=[('open', ('image-file',), {'mode': 'rb'}), "
                                         "'enter', ('seek', (20,), {}), ('read', (100,), {}), ('seek', "
                                         "(140,), {}), ('read', (100,), {}), 'exit']",
 'iu2 rpc=np.int64(2) [range(1,4), newaxis]': 'ndarray[<u2(3, 1, 20)][[[20, 21, 22, 23, 24, 25, 26, 27, 28, '
                                              '29, 30, 31, 32, 33, 34, 35, 36, 37, 38, 39]], [[40, 41, 42, '
                                              '43, 44, 45, 46, 47, 48, 49, 50, 51, 52, 53, 54, 55, 56, 57, '
                                              '58, 59]], [[60, 61, 62, 63, 64, 65, 66, 67, 68, 69, 70, 71, '
                                              "72, 73, 74, 75, 76, 77, 78, 79]]] || io=[('open', "
                                              "('image-file',), {'mode': 'rb'}), 'enter', ('seek', (20,), "
                                              "{}), ('read', (100,), {}), ('seek', (140,), {}), ('read', "
                                              "(100,), {}), 'exit']",
 'iu2 rpc=np.int64(2) [range(1,4), ellipsis]': 'ndarray[<u2(3, 20)][[20, 21, 22, 23, 24, 25, 26, 27, 28, 29, '
                                               '30, 31, 32, 33, 34, 35, 36, 37, 38, 39], [40, 41, 42, 43, '
                                               '44, 45, 46, 47, 48, 49, 50, 51, 52, 53, 54, 55, 56, 57, 58, '
                                               '59], [60, 61, 62, 63, 64, 65, 66, 67, 68, 69, 70, 71, 72, '
                                               "73, 74, 75, 76, 77, 78, 79]] || io=[('open', "
                                               "('image-file',), {'mode': 'rb'}), 'enter', ('seek', (20,), "
                                               "{}), ('read', (100,), {}), ('seek', (140,), {}), ('read', "
                                               "(100,), {}), 'exit']",
 'iu2 rpc=np.int64(2) [range(1,4),]': 'ndarray[<u2(3, 20)][[20, 21, 22, 23, 24, 25, 26, 27, 28, 29, 30, 31, '
                                      '32, 33, 34, 35, 36, 37, 38, 39], [40, 41, 42, 43, 44, 45, 46, 47, 48, '
                                      '49, 50, 51, 52, 53, 54, 55, 56, 57, 58, 59], [60, 61, 62, 63, 64, 65, '
                                      '66, 67, 68, 69, 70, 71, 72, 73, 74, 75, 76, 77, 78, 79]] || '
                                      "io=[('open', ('image-file',), {'mode': 'rb'}), 'enter', ('seek', "
                                      "(20,), {}), ('read', (100,), {}), ('seek', (140,), {}), ('read', "
                                      "(100,), {}), 'exit']",
 'iu2 rpc=np.int64(2) [range(1,4), 1, 2]': 'raise builtins.IndexError: too many indices for array: array is '
                                           "2-dimensional, but 3 were indexed || io=[('open', "
                                           "('image-file',), {'mode': 'rb'}), 'enter', ('seek', (20,), {}), "
                                           "('read', (100,), {}), ('seek', (140,), {}), ('read', (100,), "
                                           "{}), 'exit']",
 'iu2 rpc=np.int64(2) list[range(1,4), 1:3]': 'ndarray[<u2(3, 2)][[21, 22], [41, 42], [61, 62]] || '
                                              "io=[('open', ('image-file',), {'mode': 'rb'}), 'enter', "
                                              "('seek', (20,), {}), ('read', (100,), {}), ('seek', (140,), "
                                              "{}), ('read', (100,), {}), 'exit']",
 'iu2 rpc=np.int64(2) [7, all]': 'raise builtins.IndexError: list index out of range || io=[]',
 'iu2 rpc=np.int64(2) [7, 3]': 'raise builtins.IndexError: list index out of range || io=[]',
 'iu2 rpc=np.int64(2) [7, -1]': 'raise builtins.IndexError: list index out of range || io=[]',
 'iu2 rpc=np.int64(2) [7, 2:]': 'raise builtins.IndexError: list index out of range || io=[]',
 'iu2 rpc=np.int64(2) [7, :-2]': 'raise builtins.IndexError: list index out of range || io=[]',
 'iu2 rpc=np.int64(2) [7, ::3]': 'raise builtins.IndexError: list index out of range || io=[]',
 'iu2 rpc=np.int64(2) [7, ::-1]': 'raise builtins.IndexError: list index out of range || io=[]',
 'iu2 rpc=np.int64(2) [7, 0:0]': 'raise builtins.IndexError: list index out of range || io=[]',
 'iu2 rpc=np.int64(2) [7, [1,5]]': 'raise builtins.IndexError: list index out of range || io=[]',
 'iu2 rpc=np.int64(2) [7, 25]': 'raise builtins.IndexError: list index out of range || io=[]',
 'iu2 rpc=np.int64(2) [7, newaxis]': 'raise builtins.IndexError: list index out of range || io=[]',
 'iu2 rpc=np.int64(2) [7, ellipsis]': 'raise builtins.IndexError: list index out of range || io=[]',
 'iu2 rpc=np.int64(2) [7,]': 'raise builtins.IndexError: list index out of range || io=[]',
 'iu2 rpc=np.int64(2) [7, 1, 2]': 'raise builtins.IndexError: list index out of range || io=[]',
 'iu2 rpc=np.int64(2) list[7, 1:3]': 'raise builtins.IndexError: list index out of range || io=[]',
 'iu2 rpc=np.int64(2) [-6, all]': 'raise builtins.IndexError: list index out of range || io=[]',
 'iu2 rpc=np.int64(2) [-6, 3]': 'raise builtins.IndexError: list index out of range || io=[]',
 'iu2 rpc=np.int64(2) [-6, -1]': 'raise builtins.IndexError: list index out of range || io=[]',
 'iu2 rpc=np.int64(2) [-6, 2:]': 'raise builtins.IndexError: list index out of range || io=[]',
 'iu2 rpc=np.int64(2) [-6, :-2]': 'raise builtins.IndexError: list index out of range || io=[]',
 'iu2 rpc=np.int64(2) [-6, ::3]': 'raise builtins.IndexError: list index out of range || io=[]',
 'iu2 rpc=np.int64(2) [-6, ::-1]': 'raise builtins.IndexError: list index out of range || io=[]',
 'iu2 rpc=np.int64(2) [-6, 0:0]': 'raise builtins.IndexError: list index out of range || io=[]',
 'iu2 rpc=np.int64(2) [-6, [1,5]]': 'raise builtins.IndexError: list index out of range || io=[]',
 'iu2 rpc=np.int64(2) [-6, 25]': 'raise builtins.IndexError: list index out of range || io=[]',
 'iu2 rpc=np.int64(2) [-6, newaxis]': 'raise builtins.IndexError: list index out of range || io=[]',
 'iu2 rpc=np.int64(2) [-6, ellipsis]': 'raise builtins.IndexError: list index out of range || io=[]',
 'iu2 rpc=np.int64(2) [-6,]': 'raise builtins.IndexError: list index out of range || io=[]',
 'iu2 rpc=np.int64(2) [-6, 1, 2]': 'raise builtins.IndexError: list index out of range || io=[]',
 'iu2 rpc=np.int64(2) list[-6, 1:3]': 'raise builtins.IndexError: list index out of range || io=[]',
 'iu2 rpc=np.int64(2) [[0,9], all]': 'raise builtins.IndexError: list index out of range || io=[]',
 'iu2 rpc=np.int64(2) [[0,9], 3]': 'raise builtins.IndexError: list index out of range || io=[]',
 'iu2 rpc=np.int64(2) [[0,9], -1]': 'raise builtins.IndexError: list index out of range || io=[]',
 'iu2 rpc=np.int64(2) [[0,9], 2:]': 'raise builtins.IndexError: list index out of range || io=[]',
 'iu2 rpc=np.int64(2) [[0,9], :-2]': 'raise builtins.IndexError: list index out of range || io=[]',
 'iu2 rpc=np.int64(2) [[0,9], ::3]': 'raise builtins.IndexError: list index out of range || io=[]',
 'iu2 rpc=np.int64(2) [[0,9], ::-1]': 'raise builtins.IndexError: list index out of range || io=[]',
 'iu2 rpc=np.int64(2) [[0,9], 0:0]': 'raise builtins.IndexError: list index out of range || io=[]',
 'iu2 rpc=np.int64(2) [[0,9], [1,5]]': 'raise builtins.IndexError: list index out of range || io=[]',
 'iu2 rpc=np.int64(2) [[0,9], 25]': 'raise builtins.IndexError: list index out of range || io=[]',
 'iu2 rpc=np.int64(2) [[0,9], newaxis]': 'raise builtins.IndexError: list index out of range || io=[]',
 'iu2 rpc=np.int64(2) [[0,9], ellipsis]': 'raise builtins.IndexError: list index out of range || io=[]',
 'iu2 rpc=np.int64(2) [[0,9],]': 'raise builtins.IndexError: list index out of range || io=[]',
 'iu2 rpc=np.int64(2) [[0,9], 1, 2]': 'raise builtins.IndexError: list index out of range || io=[]',
 'iu2 rpc=np.int64(2) list[[0,9], 1:3]': 'raise builtins.IndexError: list index out of range || io=[]',
 'iu2 rpc=np.int64(2) [1.5, all]': "raise builtins.TypeError: 'float' object is not iterable || io=[]",
 'iu2 rpc=np.int64(2) [1.5, 3]': "raise builtins.TypeError: 'float' object is not iterable || io=[]",
 'iu2 rpc=np.int64(2) [1.5, -1]': "raise builtins.TypeError: 'float' object is not iterable || io=[]",
 'iu2 rpc=np.int64(2) [1.5, 2:]': "raise builtins.TypeError: 'float' object is not iterable || io=[]",
 'iu2 rpc=np.int64(2) [1.5, :-2]': "raise builtins.TypeError: 'float' object is not iterable || io=[]",
 'iu2 rpc=np.int64(2) [1.5, ::3]': "raise builtins.TypeError: 'float' object is not iterable || io=[]",
 'iu2 rpc=np.int64(2) [1.5, ::-1]': "raise builtins.TypeError: 'float' object is not iterable || io=[]",
 'iu2 rpc=np.int64(2) [1.5, 0:0]': "raise builtins.TypeError: 'float' object is not iterable || io=[]",
 'iu2 rpc=np.int64(2) [1.5, [1,5]]': "raise builtins.TypeError: 'float' object is not iterable || io=[]",
 'iu2 rpc=np.int64(2) [1.5, 25]': "raise builtins.TypeError: 'float' object is not iterable || io=[]",
 'iu2 rpc=np.int64(2) [1.5, newaxis]': "raise builtins.TypeError: 'float' object is not iterable || io=[]",
 'iu2 rpc=np.int64(2) [1.5, ellipsis]': "raise builtins.TypeError: 'float' object is not iterable || io=[]",
 'iu2 rpc=np.int64(2) [1.5,]': "raise builtins.TypeError: 'float' object is not iterable || io=[]",
 'iu2 rpc=np.int64(2) [1.5, 1, 2]': "raise builtins.TypeError: 'float' object is not iterable || io=[]",
 'iu2 rpc=np.int64(2) list[1.5, 1:3]': "raise builtins.TypeError: 'float' object is not iterable || io=[]",
 'iu2 rpc=np.int64(2) [None, all]': "raise builtins.TypeError: 'NoneType' object is not iterable || io=[]",
 'iu2 rpc=np.int64(2) [None, 3]': "raise builtins.TypeError: 'NoneType' object is not iterable || io=[]",
 'iu2 rpc=np.int64(2) [None, -1]': "raise builtins.TypeError: 'NoneType' object is not iterable || io=[]",
 'iu2 rpc=np.int64(2) [None, 2:]': "raise builtins.TypeError: 'NoneType' object is not iterable || io=[]",
 'iu2 rpc=np.int64(2) [None, :-2]': "raise builtins.TypeError: 'NoneType' object is not iterable || io=[]",
 'iu2 rpc=np.int64(2) [None, ::3]': "raise builtins.TypeError: 'NoneType' object is not iterable || io=[]",
 'iu2 rpc=np.int64(2) [None, ::-1]': "raise builtins.TypeError: 'NoneType' object is not iterable || io=[]",
 'iu2 rpc=np.int64(2) [None, 0:0]': "raise builtins.TypeError: 'NoneType' object is not iterable || io=[]",
 'iu2 rpc=np.int64(2) [None, [1,5]]': "raise builtins.TypeError: 'NoneType' object is not iterable || io=[]",
 'iu2 rpc=np.int64(2) [None, 25]': "raise builtins.TypeError: 'NoneType' object is not iterable || io=[]",
 'iu2 rpc=np.int64(2) [None, newaxis]': "raise builtins.TypeError: 'NoneType' object is not iterable || "
                                        'io=[]',
 'iu2 rpc=np.int64(2) [None, ellipsis]': "raise builtins.TypeError: 'NoneType' object is not iterable || "
                                         'io=[]',
 'iu2 rpc=np.int64(2) [None,]': "raise builtins.TypeError: 'NoneType' object is not iterable || io=[]",
 'iu2 rpc=np.int64(2) [None, 1, 2]': "raise builtins.TypeError: 'NoneType' object is not iterable || io=[]",
 'iu2 rpc=np.int64(2) list[None, 1:3]': "raise builtins.TypeError: 'NoneType' object is not iterable || "
                                        'io=[]',
 "iu2 rpc=np.int64(2) ['a', all]": 'raise builtins.TypeError: list indices must be integers or slices, not '
                                   'str || io=[]',
 "iu2 rpc=np.int64(2) ['a', 3]": 'raise builtins.TypeError: list indices must be integers or slices, not str '
                                 '|| io=[]',
 "iu2 rpc=np.int64(2) ['a', -1]": 'raise builtins.TypeError: list indices must be integers or slices, not '
                                  'str || io=[]',
 "iu2 rpc=np.int64(2) ['a', 2:]": 'raise builtins.TypeError: list indices must be integers or slices, not '
                                  'str || io=[]',
 "iu2 rpc=np.int64(2) ['a', :-2]": 'raise builtins.TypeError: list indices must be integers or slices, not '
                                   'str || io=[]',
 "iu2 rpc=np.int64(2) ['a', ::3]": 'raise builtins.TypeError: list indices must be integers or slices, not '
                                   'str || io=[]',
 "iu2 rpc=np.int64(2) ['a', ::-1]": 'raise builtins.TypeError: list indices must be integers or slices, not '
                                    'str || io=[]',
 "iu2 rpc=np.int64(2) ['a', 0:0]": 'raise builtins.TypeError: list indices must be integers or slices, not '
                                   'str || io=[]',
 "iu2 rpc=np.int64(2) ['a', [1,5]]": 'raise builtins.TypeError: list indices must be integers or slices, not '
                                     'str || io=[]',
 "iu2 rpc=np.int64(2) ['a', 25]": 'raise builtins.TypeError: list indices must be integers or slices, not '
                                  'str || io=[]',
 "iu2 rpc=np.int64(2) ['a', newaxis]": 'raise builtins.TypeError: list indices must be integers or slices, '
                                       'not str || io=[]',
 "iu2 rpc=np.int64(2) ['a', ellipsis]": 'raise builtins.TypeError: list indices must be integers or slices, '
                                        'not str || io=[]',
 "iu2 rpc=np.int64(2) ['a',]": 'raise builtins.TypeError: list indices must be integers or slices, not str '
                               '|| io=[]',
 "iu2 rpc=np.int64(2) ['a', 1, 2]": 'raise builtins.TypeError: list indices must be integers or slices, not '
                                    'str || io=[]',
 "iu2 rpc=np.int64(2) list['a', 1:3]": 'raise builtins.TypeError: list indices must be integers or slices, '
                                       'not str || io=[]',
 'iu2 rpc=np.int64(2) [[[0,1]], all]': 'raise builtins.TypeError: list indices must be integers or slices, '
                                       'not list || io=[]',
 'iu2 rpc=np.int64(2) [[[0,1]], 3]': 'raise builtins.TypeError: list indices must be integers or slices, not '
                                     'list || io=[]',
 'iu2 rpc=np.int64(2) [[[0,1]], -1]': 'raise builtins.TypeError: list indices must be integers or slices, '
                                      'not list || io=[]',
 'iu2 rpc=np.int64(2) [[[0,1]], 2:]': 'raise builtins.TypeError: list indices must be integers or slices, '
                                      'not list || io=[]',
 'iu2 rpc=np.int64(2) [[[0,1]], :-2]': 'raise builtins.TypeError: list indices must be integers or slices, '
                                       'not list || io=[]',
 'iu2 rpc=np.int64(2) [[[0,1]], ::3]': 'raise builtins.TypeError: list indices must be integers or slices, '
                                       'not list || io=[]',
 'iu2 rpc=np.int64(2) [[[0,1]], ::-1]': 'raise builtins.TypeError: list indices must be integers or slices, '
                                        'not list || io=[]',
 'iu2 rpc=np.int64(2) [[[0,1]], 0:0]': 'raise builtins.TypeError: list indices must be integers or slices, '
                                       'not list || io=[]',
 'iu2 rpc=np.int64(2) [[[0,1]], [1,5]]': 'raise builtins.TypeError: list indices must be integers or slices, '
                                         'not list || io=[]',
 'iu2 rpc=np.int64(2) [[[0,1]], 25]': 'raise builtins.TypeError: list indices must be integers or slices, '
                                      'not list || io=[]',
 'iu2 rpc=np.int64(2) [[[0,1]], newaxis]': 'raise builtins.TypeError: list indices must be integers or '
                                           'slices, not list || io=[]',
 'iu2 rpc=np.int64(2) [[[0,1]], ellipsis]': 'raise builtins.TypeError: list indices must be integers or '
                                            'slices, not list || io=[]',
 'iu2 rpc=np.int64(2) [[[0,1]],]': 'raise builtins.TypeError: list indices must be integers or slices, not '
                                   'list || io=[]',
 'iu2 rpc=np.int64(2) [[[0,1]], 1, 2]': 'raise builtins.TypeError: list indices must be integers or slices, '
                                        'not list || io=[]',
 'iu2 rpc=np.int64(2) list[[[0,1]], 1:3]': 'raise builtins.TypeError: list indices must be integers or '
                                           'slices, not list || io=[]',
 'odd indexers ()': 'raise builtins.IndexError: tuple index out of range || io=[]',
 'odd indexers []': 'raise builtins.IndexError: list index out of range || io=[]',
 'odd indexers 2': "raise builtins.TypeError: 'int' object is not subscriptable || io=[]",
 'odd indexers slice': "raise builtins.TypeError: 'slice' object is not subscriptable || io=[]",
 'odd indexers None': "raise builtins.TypeError: 'NoneType' object is not subscriptable || io=[]",
 'odd indexers str': 'raise builtins.TypeError: list indices must be integers or slices, not str || io=[]',
 'odd indexers dict': "raise builtins.KeyError: slice(1, None, None) || io=[('open', ('image-file',), "
                      "{'mode': 'rb'}), 'enter', ('seek', (20,), {}), ('read', (100,), {}), 'exit']",
 'odd indexers array': "raise builtins.TypeError: 'numpy.int64' object is not iterable || io=[]",
 'c8 rpc=1 [0, all]': "ndarray[<c8(6,)][24j, (1+23j), (2+22j), (3+21j), (4+20j), (5+19j)] || io=[('open', "
                      "('image-file',), {'mode': 'rb'}), 'enter', ('seek', (7,), {}), ('read', (48,), {}), "
                      "'exit']",
 'c8 rpc=1 [0, 3]': "complex64((3+21j)) || io=[('open', ('image-file',), {'mode': 'rb'}), 'enter', ('seek', "
                    "(7,), {}), ('read', (48,), {}), 'exit']",
 'c8 rpc=1 [0, ::3]': "ndarray[<c8(2,)][24j, (3+21j)] || io=[('open', ('image-file',), {'mode': 'rb'}), "
                      "'enter', ('seek', (7,), {}), ('read', (48,), {}), 'exit']",
 'c8 rpc=1 [-1, all]': 'ndarray[<c8(6,)][(18+6j), (19+5j), (20+4j), (21+3j), (22+2j), (23+1j)] || '
                       "io=[('open', ('image-file',), {'mode': 'rb'}), 'enter', ('seek', (172,), {}), "
                       "('read', (48,), {}), 'exit']",
 'c8 rpc=1 [-1, 3]': "complex64((21+3j)) || io=[('open', ('image-file',), {'mode': 'rb'}), 'enter', ('seek', "
                     "(172,), {}), ('read', (48,), {}), 'exit']",
 'c8 rpc=1 [-1, ::3]': "ndarray[<c8(2,)][(18+6j), (21+3j)] || io=[('open', ('image-file',), {'mode': 'rb'}), "
                       "'enter', ('seek', (172,), {}), ('read', (48,), {}), 'exit']",
 'c8 rpc=1 [all, all]': 'ndarray[<c8(4, 6)][[24j, (1+23j), (2+22j), (3+21j), (4+20j), (5+19j)], [(6+18j), '
                        '(7+17j), (8+16j), (9+15j), (10+14j), (11+13j)], [(12+12j), (13+11j), (14+10j), '
                        '(15+9j), (16+8j), (17+7j)], [(18+6j), (19+5j), (20+4j), (21+3j), (22+2j), (23+1j)]] '
                        "|| io=[('open', ('image-file',), {'mode': 'rb'}), 'enter', ('seek', (7,), {}), "
                        "('read', (48,), {}), ('seek', (62,), {}), ('read', (48,), {}), ('seek', (117,), "
                        "{}), ('read', (48,), {}), ('seek', (172,), {}), ('read', (48,), {}), 'exit']",
 'c8 rpc=1 [all, 3]': "ndarray[<c8(4,)][(3+21j), (9+15j), (15+9j), (21+3j)] || io=[('open', ('image-file',), "
                      "{'mode': 'rb'}), 'enter', ('seek', (7,), {}), ('read', (48,), {}), ('seek', (62,), "
                      "{}), ('read', (48,), {}), ('seek', (117,), {}), ('read', (48,), {}), ('seek', (172,), "
                      "{}), ('read', (48,), {}), 'exit']",
 'c8 rpc=1 [all, ::3]': 'ndarray[<c8(4, 2)][[24j, (3+21j)], [(6+18j), (9+15j)], [(12+12j), (15+9j)], '
                        "[(18+6j), (21+3j)]] || io=[('open', ('image-file',), {'mode': 'rb'}), 'enter', "
                        "('seek', (7,), {}), ('read', (48,), {}), ('seek', (62,), {}), ('read', (48,), {}), "
                        "('seek', (117,), {}), ('read', (48,), {}), ('seek', (172,), {}), ('read', (48,), "
                        "{}), 'exit']",
 'c8 rpc=1 [::-1, all]': 'ndarray[<c8(4, 6)][[(18+6j), (19+5j), (20+4j), (21+3j), (22+2j), (23+1j)], '
                         '[(12+12j), (13+11j), (14+10j), (15+9j), (16+8j), (17+7j)], [(6+18j), (7+17j), '
                         '(8+16j), (9+15j), (10+14j), (11+13j)], [24j, (1+23j), (2+22j), (3+21j), (4+20j), '
                         "(5+19j)]] || io=[('open', ('image-file',), {'mode': 'rb'}), 'enter', ('seek', "
                         "(172,), {}), ('read', (48,), {}), ('seek', (117,), {}), ('read', (48,), {}), "
                         "('seek', (62,), {}), ('read', (48,), {}), ('seek', (7,), {}), ('read', (48,), {}), "
                         "'exit']",
 'c8 rpc=1 [::-1, 3]': "ndarray[<c8(4,)][(21+3j), (15+9j), (9+15j), (3+21j)] || io=[('open', "
                       "('image-file',), {'mode': 'rb'}), 'enter', ('seek', (172,), {}), ('read', (48,), "
                       "{}), ('seek', (117,), {}), ('read', (48,), {}), ('seek', (62,), {}), ('read', (48,), "
                       "{}), ('seek', (7,), {}), ('read', (48,), {}), 'exit']",
 'c8 rpc=1 [::-1, ::3]': 'ndarray[<c8(4, 2)][[(18+6j), (21+3j)], [(12+12j), (15+9j)], [(6+18j), (9+15j)], '
                         "[24j, (3+21j)]] || io=[('open', ('image-file',), {'mode': 'rb'}), 'enter', "
                         "('seek', (172,), {}), ('read', (48,), {}), ('seek', (117,), {}), ('read', (48,), "
                         "{}), ('seek', (62,), {}), ('read', (48,), {}), ('seek', (7,), {}), ('read', (48,), "
                         "{}), 'exit']",
 'c8 rpc=1 [1:4:2, all]': 'ndarray[<c8(2, 6)][[(6+18j), (7+17j), (8+16j), (9+15j), (10+14j), (11+13j)], '
                          "[(18+6j), (19+5j), (20+4j), (21+3j), (22+2j), (23+1j)]] || io=[('open', "
                          "('image-file',), {'mode': 'rb'}), 'enter', ('seek', (62,), {}), ('read', (48,), "
                          "{}), ('seek', (172,), {}), ('read', (48,), {}), 'exit']",
 'c8 rpc=1 [1:4:2, 3]': "ndarray[<c8(2,)][(9+15j), (21+3j)] || io=[('open', ('image-file',), {'mode': "
                        "'rb'}), 'enter', ('seek', (62,), {}), ('read', (48,), {}), ('seek', (172,), {}), "
                        "('read', (48,), {}), 'exit']",
 'c8 rpc=1 [1:4:2, ::3]': "ndarray[<c8(2, 2)][[(6+18j), (9+15j)], [(18+6j), (21+3j)]] || io=[('open', "
                          "('image-file',), {'mode': 'rb'}), 'enter', ('seek', (62,), {}), ('read', (48,), "
                          "{}), ('seek', (172,), {}), ('read', (48,), {}), 'exit']",
 'c8 rpc=1 [[3,1,1], all]': 'ndarray[<c8(3, 6)][[(18+6j), (19+5j), (20+4j), (21+3j), (22+2j), (23+1j)], '
                            '[(6+18j), (7+17j), (8+16j), (9+15j), (10+14j), (11+13j)], [(6+18j), (7+17j), '
                            "(8+16j), (9+15j), (10+14j), (11+13j)]] || io=[('open', ('image-file',), "
                            "{'mode': 'rb'}), 'enter', ('seek', (172,), {}), ('read', (48,), {}), ('seek', "
                            "(62,), {}), ('read', (48,), {}), 'exit']",
 'c8 rpc=1 [[3,1,1], 3]': "ndarray[<c8(3,)][(21+3j), (9+15j), (9+15j)] || io=[('open', ('image-file',), "
                          "{'mode': 'rb'}), 'enter', ('seek', (172,), {}), ('read', (48,), {}), ('seek', "
                          "(62,), {}), ('read', (48,), {}), 'exit']",
 'c8 rpc=1 [[3,1,1], ::3]': 'ndarray[<c8(3, 2)][[(18+6j), (21+3j)], [(6+18j), (9+15j)], [(6+18j), (9+15j)]] '
                            "|| io=[('open', ('image-file',), {'mode': 'rb'}), 'enter', ('seek', (172,), "
                            "{}), ('read', (48,), {}), ('seek', (62,), {}), ('read', (48,), {}), 'exit']",
 'c8 rpc=1 [0:0, all]': "ndarray[<c8(0, 6)][] || io=[('open', ('image-file',), {'mode': 'rb'}), 'enter', "
                        "'exit']",
 'c8 rpc=1 [0:0, 3]': "ndarray[<c8(0,)][] || io=[('open', ('image-file',), {'mode': 'rb'}), 'enter', 'exit']",
 'c8 rpc=1 [0:0, ::3]': "ndarray[<c8(0, 2)][] || io=[('open', ('image-file',), {'mode': 'rb'}), 'enter', "
                        "'exit']",
 'c8 rpc=1 [[], all]': "ndarray[<c8(0, 6)][] || io=[('open', ('image-file',), {'mode': 'rb'}), 'enter', "
                       "'exit']",
 'c8 rpc=1 [[], 3]': "ndarray[<c8(0,)][] || io=[('open', ('image-file',), {'mode': 'rb'}), 'enter', 'exit']",
 'c8 rpc=1 [[], ::3]': "ndarray[<c8(0, 2)][] || io=[('open', ('image-file',), {'mode': 'rb'}), 'enter', "
                       "'exit']",
 'c8 rpc=1 [7, all]': 'raise builtins.IndexError: list index out of range || io=[]',
 'c8 rpc=1 [7, 3]': 'raise builtins.IndexError: list index out of range || io=[]',
 'c8 rpc=1 [7, ::3]': 'raise builtins.IndexError: list index out of range || io=[]',
 'c8 rpc=3 [0, all]': "ndarray[<c8(6,)][24j, (1+23j), (2+22j), (3+21j), (4+20j), (5+19j)] || io=[('open', "
                      "('image-file',), {'mode': 'rb'}), 'enter', ('seek', (7,), {}), ('read', (158,), {}), "
                      "'exit']",
 'c8 rpc=3 [0, 3]': "complex64((3+21j)) || io=[('open', ('image-file',), {'mode': 'rb'}), 'enter', ('seek', "
                    "(7,), {}), ('read', (158,), {}), 'exit']",
 'c8 rpc=3 [0, ::3]': "ndarray[<c8(2,)][24j, (3+21j)] || io=[('open', ('image-file',), {'mode': 'rb'}), "
                      "'enter', ('seek', (7,), {}), ('read', (158,), {}), 'exit']",
 'c8 rpc=3 [-1, all]': 'ndarray[<c8(6,)][(18+6j), (19+5j), (20+4j), (21+3j), (22+2j), (23+1j)] || '
                       "io=[('open', ('image-file',), {'mode': 'rb'}), 'enter', ('seek', (172,), {}), "
                       "('read', (48,), {}), 'exit']",
 'c8 rpc=3 [-1, 3]': "complex64((21+3j)) || io=[('open', ('image-file',), {'mode': 'rb'}), 'enter', ('seek', "
                     "(172,), {}), ('read', (48,), {}), 'exit']",
 'c8 rpc=3 [-1, ::3]': "ndarray[<c8(2,)][(18+6j), (21+3j)] || io=[('open', ('image-file',), {'mode': 'rb'}), "
                       "'enter', ('seek', (172,), {}), ('read', (48,), {}), 'exit']",
 'c8 rpc=3 [all, all]': 'ndarray[<c8(4, 6)][[24j, (1+23j), (2+22j), (3+21j), (4+20j), (5+19j)], [(6+18j), '
                        '(7+17j), (8+16j), (9+15j), (10+14j), (11+13j)], [(12+12j), (13+11j), (14+10j), '
                        '(15+9j), (16+8j), (17+7j)], [(18+6j), (19+5j), (20+4j), (21+3j), (22+2j), (23+1j)]] '
                        "|| io=[('open', ('image-file',), {'mode': 'rb'}), 'enter', ('seek', (7,), {}), "
                        "('read', (158,), {}), ('seek', (172,), {}), ('read', (48,), {}), 'exit']",
 'c8 rpc=3 [all, 3]': "ndarray[<c8(4,)][(3+21j), (9+15j), (15+9j), (21+3j)] || io=[('open', ('image-file',), "
                      "{'mode': 'rb'}), 'enter', ('seek', (7,), {}), ('read', (158,), {}), ('seek', (172,), "
                      "{}), ('read', (48,), {}), 'exit']",
 'c8 rpc=3 [all, ::3]': 'ndarray[<c8(4, 2)][[24j, (3+21j)], [(6+18j), (9+15j)], [(12+12j), (15+9j)], '
                        "[(18+6j), (21+3j)]] || io=[('open', ('image-file',), {'mode': 'rb'}), 'enter', "
                        "('seek', (7,), {}), ('read', (158,), {}), ('seek', (172,), {}), ('read', (48,), "
                        "{}), 'exit']",
 'c8 rpc=3 [::-1, all]': 'ndarray[<c8(4, 6)][[(18+6j), (19+5j), (20+4j), (21+3j), (22+2j), (23+1j)], '
                         '[(12+12j), (13+11j), (14+10j), (15+9j), (16+8j), (17+7j)], [(6+18j), (7+17j), '
                         '(8+16j), (9+15j), (10+14j), (11+13j)], [24j, (1+23j), (2+22j), (3+21j), (4+20j), '
                         "(5+19j)]] || io=[('open', ('image-file',), {'mode': 'rb'}), 'enter', ('seek', "
                         "(172,), {}), ('read', (48,), {}), ('seek', (7,), {}), ('read', (158,), {}), "
                         "'exit']",
 'c8 rpc=3 [::-1, 3]': "ndarray[<c8(4,)][(21+3j), (15+9j), (9+15j), (3+21j)] || io=[('open', "
                       "('image-file',), {'mode': 'rb'}), 'enter', ('seek', (172,), {}), ('read', (48,), "
                       "{}), ('seek', (7,), {}), ('read', (158,), {}), 'exit']",
 'c8 rpc=3 [::-1, ::3]': 'ndarray[<c8(4, 2)][[(18+6j), (21+3j)], [(12+12j), (15+9j)], [(6+18j), (9+15j)], '
                         "[24j, (3+21j)]] || io=[('open', ('image-file',), {'mode': 'rb'}), 'enter', "
                         "('seek', (172,), {}), ('read', (48,), {}), ('seek', (7,), {}), ('read', (158,), "
                         "{}), 'exit']",
 'c8 rpc=3 [1:4:2, all]': 'ndarray[<c8(2, 6)][[(6+18j), (7+17j), (8+16j), (9+15j), (10+14j), (11+13j)], '
                          "[(18+6j), (19+5j), (20+4j), (21+3j), (22+2j), (23+1j)]] || io=[('open', "
                          "('image-file',), {'mode': 'rb'}), 'enter', ('seek', (7,), {}), ('read', (158,), "
                          "{}), ('seek', (172,), {}), ('read', (48,), {}), 'exit']",
 'c8 rpc=3 [1:4:2, 3]': "ndarray[<c8(2,)][(9+15j), (21+3j)] || io=[('open', ('image-file',), {'mode': "
                        "'rb'}), 'enter', ('seek', (7,), {}), ('read', (158,), {}), ('seek', (172,), {}), "
                        "('read', (48,), {}), 'exit']",
 'c8 rpc=3 [1:4:2, ::3]': "ndarray[<c8(2, 2)][[(6+18j), (9+15j)], [(18+6j), (21+3j)]] || io=[('open', "
                          "('image-file',), {'mode': 'rb'}), 'enter', ('seek', (7,), {}), ('read', (158,), "
                          "{}), ('seek', (172,), {}), ('read', (48,), {}), 'exit']",
 'c8 rpc=3 [[3,1,1], all]': 'ndarray[<c8(3, 6)][[(18+6j), (19+5j), (20+4j), (21+3j), (22+2j), (23+1j)], '
                            '[(6+18j), (7+17j), (8+16j), (9+15j), (10+14j), (11+13j)], [(6+18j), (7+17j), '
                            "(8+16j), (9+15j), (10+14j), (11+13j)]] || io=[('open', ('image-file',), "
                            "{'mode': 'rb'}), 'enter', ('seek', (172,), {}), ('read', (48,), {}), ('seek', "
                            "(7,), {}), ('read', (158,), {}), 'exit']",
 'c8 rpc=3 [[3,1,1], 3]': "ndarray[<c8(3,)][(21+3j), (9+15j), (9+15j)] || io=[('open', ('image-file',), "
                          "{'mode': 'rb'}), 'enter', ('seek', (172,), {}), ('read', (48,), {}), ('seek', "
                          "(7,), {}), ('read', (158,), {}), 'exit']",
 'c8 rpc=3 [[3,1,1], ::3]': 'ndarray[<c8(3, 2)][[(18+6j), (21+3j)], [(6+18j), (9+15j)], [(6+18j), (9+15j)]] '
                            "|| io=[('open', ('image-file',), {'mode': 'rb'}), 'enter', ('seek', (172,), "
                            "{}), ('read', (48,), {}), ('seek', (7,), {}), ('read', (158,), {}), 'exit']",
 'c8 rpc=3 [0:0, all]': "ndarray[<c8(0, 6)][] || io=[('open', ('image-file',), {'mode': 'rb'}), 'enter', "
                        "'exit']",
 'c8 rpc=3 [0:0, 3]': "ndarray[<c8(0,)][] || io=[('open', ('image-file',), {'mode': 'rb'}), 'enter', 'exit']",
 'c8 rpc=3 [0:0, ::3]': "ndarray[<c8(0, 2)][] || io=[('open', ('image-file',), {'mode': 'rb'}), 'enter', "
                        "'exit']",
 'c8 rpc=3 [[], all]': "ndarray[<c8(0, 6)][] || io=[('open', ('image-file',), {'mode': 'rb'}), 'enter', "
                       "'exit']",
 'c8 rpc=3 [[], 3]': "ndarray[<c8(0,)][] || io=[('open', ('image-file',), {'mode': 'rb'}), 'enter', 'exit']",
 'c8 rpc=3 [[], ::3]': "ndarray[<c8(0, 2)][] || io=[('open', ('image-file',), {'mode': 'rb'}), 'enter', "
                       "'exit']",
 'c8 rpc=3 [7, all]': 'raise builtins.IndexError: list index out of range || io=[]',
 'c8 rpc=3 [7, 3]': 'raise builtins.IndexError: list index out of range || io=[]',
 'c8 rpc=3 [7, ::3]': 'raise builtins.IndexError: list index out of range || io=[]',
 'c8 rpc=4 [0, all]': "ndarray[<c8(6,)][24j, (1+23j), (2+22j), (3+21j), (4+20j), (5+19j)] || io=[('open', "
                      "('image-file',), {'mode': 'rb'}), 'enter', ('seek', (7,), {}), ('read', (213,), {}), "
                      "'exit']",
 'c8 rpc=4 [0, 3]': "complex64((3+21j)) || io=[('open', ('image-file',), {'mode': 'rb'}), 'enter', ('seek', "
                    "(7,), {}), ('read', (213,), {}), 'exit']",
 'c8 rpc=4 [0, ::3]': "ndarray[<c8(2,)][24j, (3+21j)] || io=[('open', ('image-file',), {'mode': 'rb'}), "
                      "'enter', ('seek', (7,), {}), ('read', (213,), {}), 'exit']",
 'c8 rpc=4 [-1, all]': 'ndarray[<c8(6,)][(18+6j), (19+5j), (20+4j), (21+3j), (22+2j), (23+1j)] || '
                       "io=[('open', ('image-file',), {'mode': 'rb'}), 'enter', ('seek', (7,), {}), ('read', "
                       "(213,), {}), 'exit']",
 'c8 rpc=4 [-1, 3]': "complex64((21+3j)) || io=[('open', ('image-file',), {'mode': 'rb'}), 'enter', ('seek', "
                     "(7,), {}), ('read', (213,), {}), 'exit']",
 'c8 rpc=4 [-1, ::3]': "ndarray[<c8(2,)][(18+6j), (21+3j)] || io=[('open', ('image-file',), {'mode': 'rb'}), "
                       "'enter', ('seek', (7,), {}), ('read', (213,), {}), 'exit']",
 'c8 rpc=4 [all, all]': 'ndarray[<c8(4, 6)][[24j, (1+23j), (2+22j), (3+21j), (4+20j), (5+19j)], [(6+18j), '
                        '(7+17j), (8+16j), (9+15j), (10+14j), (11+13j)], [(12+12j), (13+11j), (14+10j), '
                        '(15+9j), (16+8j), (17+7j)], [(18+6j), (19+5j), (20+4j), (21+3j), (22+2j), (23+1j)]] '
                        "|| io=[('open', ('image-file',), {'mode': 'rb'}), 'enter', ('seek', (7,), {}), "
                        "('read', (213,), {}), 'exit']",
 'c8 rpc=4 [all, 3]': "ndarray[<c8(4,)][(3+21j), (9+15j), (15+9j), (21+3j)] || io=[('open', ('image-file',), "
                      "{'mode': 'rb'}), 'enter', ('seek', (7,), {}), ('read', (213,), {}), 'exit']",
 'c8 rpc=4 [all, ::3]': 'ndarray[<c8(4, 2)][[24j, (3+21j)], [(6+18j), (9+15j)], [(12+12j), (15+9j)], '
                        "[(18+6j), (21+3j)]] || io=[('open', ('image-file',), {'mode': 'rb'}), 'enter', "
                        "('seek', (7,), {}), ('read', (213,), {}), 'exit']",
 'c8 rpc=4 [::-1, all]': 'ndarray[<c8(4, 6)][[(18+6j), (19+5j), (20+4j), (21+3j), (22+2j), (23+1j)], '
                         '[(12+12j), (13+11j), (14+10j), (15+9j), (16+8j), (17+7j)], [(6+18j), (7+17j), '
                         '(8+16j), (9+15j), (10+14j), (11+13j)], [24j, (1+23j), (2+22j), (3+21j), (4+20j), '
                         "(5+19j)]] || io=[('open', ('image-file',), {'mode': 'rb'}), 'enter', ('seek', "
                         "(7,), {}), ('read', (213,), {}), 'exit']",
 'c8 rpc=4 [::-1, 3]': "ndarray[<c8(4,)][(21+3j), (15+9j), (9+15j), (3+21j)] || io=[('open', "
                       "('image-file',), {'mode': 'rb'}), 'enter', ('seek', (7,), {}), ('read', (213,), {}), "
                       "'exit']",
 'c8 rpc=4 [::-1, ::3]': 'ndarray[<c8(4, 2)][[(18+6j), (21+3j)], [(12+12j), (15+9j)], [(6+18j), (9+15j)], '
                         "[24j, (3+21j)]] || io=[('open', ('image-file',), {'mode': 'rb'}), 'enter', "
                         "('seek', (7,), {}), ('read', (213,), {}), 'exit']",
 'c8 rpc=4 [1:4:2, all]': 'ndarray[<c8(2, 6)][[(6+18j), (7+17j), (8+16j), (9+15j), (10+14j), (11+13j)], '
                          "[(18+6j), (19+5j), (20+4j), (21+3j), (22+2j), (23+1j)]] || io=[('open', "
                          "('image-file',), {'mode': 'rb'}), 'enter', ('seek', (7,), {}), ('read', (213,), "
                          "{}), 'exit']",
 'c8 rpc=4 [1:4:2, 3]': "ndarray[<c8(2,)][(9+15j), (21+3j)] || io=[('open', ('image-file',), {'mode': "
                        "'rb'}), 'enter', ('seek', (7,), {}), ('read', (213,), {}), 'exit']",
 'c8 rpc=4 [1:4:2, ::3]': "ndarray[<c8(2, 2)][[(6+18j), (9+15j)], [(18+6j), (21+3j)]] || io=[('open', "
                          "('image-file',), {'mode': 'rb'}), 'enter', ('seek', (7,), {}), ('read', (213,), "
                          "{}), 'exit']",
 'c8 rpc=4 [[3,1,1], all]': 'ndarray[<c8(3, 6)][[(18+6j), (19+5j), (20+4j), (21+3j), (22+2j), (23+1j)], '
                            '[(6+18j), (7+17j), (8+16j), (9+15j), (10+14j), (11+13j)], [(6+18j), (7+17j), '
                            "(8+16j), (9+15j), (10+14j), (11+13j)]] || io=[('open', ('image-file',), "
                            "{'mode': 'rb'}), 'enter', ('seek', (7,), {}), ('read', (213,), {}), 'exit']",
 'c8 rpc=4 [[3,1,1], 3]': "ndarray[<c8(3,)][(21+3j), (9+15j), (9+15j)] || io=[('open', ('image-file',), "
                          "{'mode': 'rb'}), 'enter', ('seek', (7,), {}), ('read', (213,), {}), 'exit']",
 'c8 rpc=4 [[3,1,1], ::3]': 'ndarray[<c8(3, 2)][[(18+6j), (21+3j)], [(6+18j), (9+15j)], [(6+18j), (9+15j)]] '
                            "|| io=[('open', ('image-file',), {'mode': 'rb'}), 'enter', ('seek', (7,), {}), "
                            "('read', (213,), {}), 'exit']",
 'c8 rpc=4 [0:0, all]': "ndarray[<c8(0, 6)][] || io=[('open', ('image-file',), {'mode': 'rb'}), 'enter', "
                        "'exit']",
 'c8 rpc=4 [0:0, 3]': "ndarray[<c8(0,)][] || io=[('open', ('image-file',), {'mode': 'rb'}), 'enter', 'exit']",
 'c8 rpc=4 [0:0, ::3]': "ndarray[<c8(0, 2)][] || io=[('open', ('image-file',), {'mode': 'rb'}), 'enter', "
                        "'exit']",
 'c8 rpc=4 [[], all]': "ndarray[<c8(0, 6)][] || io=[('open', ('image-file',), {'mode': 'rb'}), 'enter', "
                       "'exit']",
 'c8 rpc=4 [[], 3]': "ndarray[<c8(0,)][] || io=[('open', ('image-file',), {'mode': 'rb'}), 'enter', 'exit']",
 'c8 rpc=4 [[], ::3]': "ndarray[<c8(0, 2)][] || io=[('open', ('image-file',), {'mode': 'rb'}), 'enter', "
                       "'exit']",
 'c8 rpc=4 [7, all]': 'raise builtins.IndexError: list index out of range || io=[]',
 'c8 rpc=4 [7, 3]': 'raise builtins.IndexError: list index out of range || io=[]',
 'c8 rpc=4 [7, ::3]': 'raise builtins.IndexError: list index out of range || io=[]',
 'c8 rpc=None [0, all]': "ndarray[<c8(6,)][24j, (1+23j), (2+22j), (3+21j), (4+20j), (5+19j)] || io=[('open', "
                         "('image-file',), {'mode': 'rb'}), 'enter', ('seek', (7,), {}), ('read', (213,), "
                         "{}), 'exit']",
 'c8 rpc=None [0, 3]': "complex64((3+21j)) || io=[('open', ('image-file',), {'mode': 'rb'}), 'enter', "
                       "('seek', (7,), {}), ('read', (213,), {}), 'exit']",
 'c8 rpc=None [0, ::3]': "ndarray[<c8(2,)][24j, (3+21j)] || io=[('open', ('image-file',), {'mode': 'rb'}), "
                         "'enter', ('seek', (7,), {}), ('read', (213,), {}), 'exit']",
 'c8 rpc=None [-1, all]': 'ndarray[<c8(6,)][(18+6j), (19+5j), (20+4j), (21+3j), (22+2j), (23+1j)] || '
                          "io=[('open', ('image-file',), {'mode': 'rb'}), 'enter', ('seek', (7,), {}), "
                          "('read', (213,), {}), 'exit']",
 'c8 rpc=None [-1, 3]': "complex64((21+3j)) || io=[('open', ('image-file',), {'mode': 'rb'}), 'enter', "
                        "('seek', (7,), {}), ('read', (213,), {}), 'exit']",
 'c8 rpc=None [-1, ::3]': "ndarray[<c8(2,)][(18+6j), (21+3j)] || io=[('open', ('image-file',), {'mode': "
                          "'rb'}), 'enter', ('seek', (7,), {}), ('read', (213,), {}), 'exit']",
 'c8 rpc=None [all, all]': 'ndarray[<c8(4, 6)][[24j, (1+23j), (2+22j), (3+21j), (4+20j), (5+19j)], [(6+18j), '
                           '(7+17j), (8+16j), (9+15j), (10+14j), (11+13j)], [(12+12j), (13+11j), (14+10j), '
                           '(15+9j), (16+8j), (17+7j)], [(18+6j), (19+5j), (20+4j), (21+3j), (22+2j), '
                           "(23+1j)]] || io=[('open', ('image-file',), {'mode': 'rb'}), 'enter', ('seek', "
                           "(7,), {}), ('read', (213,), {}), 'exit']",
 'c8 rpc=None [all, 3]': "ndarray[<c8(4,)][(3+21j), (9+15j), (15+9j), (21+3j)] || io=[('open', "
                         "('image-file',), {'mode': 'rb'}), 'enter', ('seek', (7,), {}), ('read', (213,), "
                         "{}), 'exit']",
 'c8 rpc=None [all, ::3]': 'ndarray[<c8(4, 2)][[24j, (3+21j)], [(6+18j), (9+15j)], [(12+12j), (15+9j)], '
                           "[(18+6j), (21+3j)]] || io=[('open', ('image-file',), {'mode': 'rb'}), 'enter', "
                           "('seek', (7,), {}), ('read', (213,), {}), 'exit']",
 'c8 rpc=None [::-1, all]': 'ndarray[<c8(4, 6)][[(18+6j), (19+5j), (20+4j), (21+3j), (22+2j), (23+1j)], '
                            '[(12+12j), (13+11j), (14+10j), (15+9j), (16+8j), (17+7j)], [(6+18j), (7+17j), '
                            '(8+16j), (9+15j), (10+14j), (11+13j)], [24j, (1+23j), (2+22j), (3+21j), '
                            "(4+20j), (5+19j)]] || io=[('open', ('image-file',), {'mode': 'rb'}), 'enter', "
                            "('seek', (7,), {}), ('read', (213,), {}), 'exit']",
 'c8 rpc=None [::-1, 3]': "ndarray[<c8(4,)][(21+3j), (15+9j), (9+15j), (3+21j)] || io=[('open', "
                          "('image-file',), {'mode': 'rb'}), 'enter', ('seek', (7,), {}), ('read', (213,), "
                          "{}), 'exit']",
 'c8 rpc=None [::-1, ::3]': 'ndarray[<c8(4, 2)][[(18+6j), (21+3j)], [(12+12j), (15+9j)], [(6+18j), (9+15j)], '
                            "[24j, (3+21j)]] || io=[('open', ('image-file',), {'mode': 'rb'}), 'enter', "
                            "('seek', (7,), {}), ('read', (213,), {}), 'exit']",
 'c8 rpc=None [1:4:2, all]': 'ndarray[<c8(2, 6)][[(6+18j), (7+17j), (8+16j), (9+15j), (10+14j), (11+13j)], '
                             "[(18+6j), (19+5j), (20+4j), (21+3j), (22+2j), (23+1j)]] || io=[('open', "
                             "('image-file',), {'mode': 'rb'}), 'enter', ('seek', (7,), {}), ('read', "
                             "(213,), {}), 'exit']",
 'c8 rpc=None [1:4:2, 3]': "ndarray[<c8(2,)][(9+15j), (21+3j)] || io=[('open', ('image-file',), {'mode': "
                           "'rb'}), 'enter', ('seek', (7,), {}), ('read', (213,), {}), 'exit']",
 'c8 rpc=None [1:4:2, ::3]': "ndarray[<c8(2, 2)][[(6+18j), (9+15j)], [(18+6j), (21+3j)]] || io=[('open', "
                             "('image-file',), {'mode': 'rb'}), 'enter', ('seek', (7,), {}), ('read', "
                             "(213,), {}), 'exit']",
 'c8 rpc=None [[3,1,1], all]': 'ndarray[<c8(3, 6)][[(18+6j), (19+5j), (20+4j), (21+3j), (22+2j), (23+1j)], '
                               '[(6+18j), (7+17j), (8+16j), (9+15j), (10+14j), (11+13j)], [(6+18j), (7+17j), '
                               "(8+16j), (9+15j), (10+14j), (11+13j)]] || io=[('open', ('image-file',), "
                               "{'mode': 'rb'}), 'enter', ('seek', (7,), {}), ('read', (213,), {}), 'exit']",
 'c8 rpc=None [[3,1,1], 3]': "ndarray[<c8(3,)][(21+3j), (9+15j), (9+15j)] || io=[('open', ('image-file',), "
                             "{'mode': 'rb'}), 'enter', ('seek', (7,), {}), ('read', (213,), {}), 'exit']",
 'c8 rpc=None [[3,1,1], ::3]': 'ndarray[<c8(3, 2)][[(18+6j), (21+3j)], [(6+18j), (9+15j)], [(6+18j), '
                               "(9+15j)]] || io=[('open', ('image-file',), {'mode': 'rb'}), 'enter', "
                               "('seek', (7,), {}), ('read', (213,), {}), 'exit']",
 'c8 rpc=None [0:0, all]': "ndarray[<c8(0, 6)][] || io=[('open', ('image-file',), {'mode': 'rb'}), 'enter', "
                           "'exit']",
 'c8 rpc=None [0:0, 3]': "ndarray[<c8(0,)][] || io=[('open', ('image-file',), {'mode': 'rb'}), 'enter', "
                         "'exit']",
 'c8 rpc=None [0:0, ::3]': "ndarray[<c8(0, 2)][] || io=[('open', ('image-file',), {'mode': 'rb'}), 'enter', "
                           "'exit']",
 'c8 rpc=None [[], all]': "ndarray[<c8(0, 6)][] || io=[('open', ('image-file',), {'mode': 'rb'}), 'enter', "
                          "'exit']",
 'c8 rpc=None [[], 3]': "ndarray[<c8(0,)][] || io=[('open', ('image-file',), {'mode': 'rb'}), 'enter', "
                        "'exit']",
 'c8 rpc=None [[], ::3]': "ndarray[<c8(0, 2)][] || io=[('open', ('image-file',), {'mode': 'rb'}), 'enter', "
                          "'exit']",
 'c8 rpc=None [7, all]': 'raise builtins.IndexError: list index out of range || io=[]',
 'c8 rpc=None [7, 3]': 'raise builtins.IndexError: list index out of range || io=[]',
 'c8 rpc=None [7, ::3]': 'raise builtins.IndexError: list index out of range || io=[]',
 "declared shape=(5, 20) dtype='float32' [0:0]": "ndarray[<f4(0, 20)][] || io=[('open', ('image-file',), "
                                                 "{'mode': 'rb'}), 'enter', 'exit']",
 "declared shape=(5, 20) dtype='float32' [0:0] cols": "ndarray[<f4(0, 2)][] || io=[('open', ('image-file',), "
                                                      "{'mode': 'rb'}), 'enter', 'exit']",
 "declared shape=(5, 20) dtype='float32' [[]]": "ndarray[<f4(0, 20)][] || io=[('open', ('image-file',), "
                                                "{'mode': 'rb'}), 'enter', 'exit']",
 "declared shape=(5, 20) dtype='float32' [[]] cols": "ndarray[<f4(0, 2)][] || io=[('open', ('image-file',), "
                                                     "{'mode': 'rb'}), 'enter', 'exit']",
 "declared shape=(5, 20) dtype='float32' [1]": 'ndarray[<u2(20,)][20, 21, 22, 23, 24, 25, 26, 27, 28, 29, '
                                               "30, 31, 32, 33, 34, 35, 36, 37, 38, 39] || io=[('open', "
                                               "('image-file',), {'mode': 'rb'}), 'enter', ('seek', (20,), "
                                               "{}), ('read', (280,), {}), 'exit']",
 "declared shape=(5, 20) dtype='float32' [1] cols": "ndarray[<u2(2,)][20, 21] || io=[('open', "
                                                    "('image-file',), {'mode': 'rb'}), 'enter', ('seek', "
                                                    "(20,), {}), ('read', (280,), {}), 'exit']",
 "declared shape=(5, 20) dtype='float32' [all]": 'ndarray[<u2(5, 20)][[0, 1, 2, 3, 4, 5, 6, 7, 8, 9, 10, 11, '
                                                 '12, 13, 14, 15, 16, 17, 18, 19], [20, 21, 22, 23, 24, 25, '
                                                 '26, 27, 28, 29, 30, 31, 32, 33, 34, 35, 36, 37, 38, 39], '
                                                 '[40, 41, 42, 43, 44, 45, 46, 47, 48, 49, 50, 51, 52, 53, '
                                                 '54, 55, 56, 57, 58, 59], [60, 61, 62, 63, 64, 65, 66, 67, '
                                                 '68, 69, 70, 71, 72, 73, 74, 75, 76, 77, 78, 79], [80, 81, '
                                                 '82, 83, 84, 85, 86, 87, 88, 89, 90, 91, 92, 93, 94, 95, '
                                                 "96, 97, 98, 99]] || io=[('open', ('image-file',), {'mode': "
                                                 "'rb'}), 'enter', ('seek', (20,), {}), ('read', (280,), "
                                                 "{}), 'exit']",
 "declared shape=(5, 20) dtype='float32' [all] cols": 'ndarray[<u2(5, 2)][[0, 1], [20, 21], [40, 41], [60, '
                                                      "61], [80, 81]] || io=[('open', ('image-file',), "
                                                      "{'mode': 'rb'}), 'enter', ('seek', (20,), {}), "
                                                      "('read', (280,), {}), 'exit']",
 "declared shape=(5, 3, 2) dtype='uint16' [0:0]": "ndarray[<u2(0, 3, 2)][] || io=[('open', ('image-file',), "
                                                  "{'mode': 'rb'}), 'enter', 'exit']",
 "declared shape=(5, 3, 2) dtype='uint16' [0:0] cols": "ndarray[<u2(0, 2, 2)][] || io=[('open', "
                                                       "('image-file',), {'mode': 'rb'}), 'enter', 'exit']",
 "declared shape=(5, 3, 2) dtype='uint16' [[]]": "ndarray[<u2(0, 3, 2)][] || io=[('open', ('image-file',), "
                                                 "{'mode': 'rb'}), 'enter', 'exit']",
 "declared shape=(5, 3, 2) dtype='uint16' [[]] cols": "ndarray[<u2(0, 2, 2)][] || io=[('open', "
                                                      "('image-file',), {'mode': 'rb'}), 'enter', 'exit']",
 "declared shape=(5, 3, 2) dtype='uint16' [1]": 'ndarray[<u2(20,)][20, 21, 22, 23, 24, 25, 26, 27, 28, 29, '
                                                "30, 31, 32, 33, 34, 35, 36, 37, 38, 39] || io=[('open', "
                                                "('image-file',), {'mode': 'rb'}), 'enter', ('seek', (20,), "
                                                "{}), ('read', (280,), {}), 'exit']",
 "declared shape=(5, 3, 2) dtype='uint16' [1] cols": "ndarray[<u2(2,)][20, 21] || io=[('open', "
                                                     "('image-file',), {'mode': 'rb'}), 'enter', ('seek', "
                                                     "(20,), {}), ('read', (280,), {}), 'exit']",
 "declared shape=(5, 3, 2) dtype='uint16' [all]": 'ndarray[<u2(5, 20)][[0, 1, 2, 3, 4, 5, 6, 7, 8, 9, 10, '
                                                  '11, 12, 13, 14, 15, 16, 17, 18, 19], [20, 21, 22, 23, 24, '
                                                  '25, 26, 27, 28, 29, 30, 31, 32, 33, 34, 35, 36, 37, 38, '
                                                  '39], [40, 41, 42, 43, 44, 45, 46, 47, 48, 49, 50, 51, 52, '
                                                  '53, 54, 55, 56, 57, 58, 59], [60, 61, 62, 63, 64, 65, 66, '
                                                  '67, 68, 69, 70, 71, 72, 73, 74, 75, 76, 77, 78, 79], [80, '
                                                  '81, 82, 83, 84, 85, 86, 87, 88, 89, 90, 91, 92, 93, 94, '
                                                  "95, 96, 97, 98, 99]] || io=[('open', ('image-file',), "
                                                  "{'mode': 'rb'}), 'enter', ('seek', (20,), {}), ('read', "
                                                  "(280,), {}), 'exit']",
 "declared shape=(5, 3, 2) dtype='uint16' [all] cols": 'ndarray[<u2(5, 2)][[0, 1], [20, 21], [40, 41], [60, '
                                                       "61], [80, 81]] || io=[('open', ('image-file',), "
                                                       "{'mode': 'rb'}), 'enter', ('seek', (20,), {}), "
                                                       "('read', (280,), {}), 'exit']",
 "declared shape=(5,) dtype='int8' [0:0]": "ndarray[|i1(0,)][] || io=[('open', ('image-file',), {'mode': "
                                           "'rb'}), 'enter', 'exit']",
 "declared shape=(5,) dtype='int8' [0:0] cols": 'raise builtins.IndexError: too many indices for array: '
                                                "array is 1-dimensional, but 2 were indexed || io=[('open', "
                                                "('image-file',), {'mode': 'rb'}), 'enter', 'exit']",
 "declared shape=(5,) dtype='int8' [[]]": "ndarray[|i1(0,)][] || io=[('open', ('image-file',), {'mode': "
                                          "'rb'}), 'enter', 'exit']",
 "declared shape=(5,) dtype='int8' [[]] cols": 'raise builtins.IndexError: too many indices for array: array '
                                               "is 1-dimensional, but 2 were indexed || io=[('open', "
                                               "('image-file',), {'mode': 'rb'}), 'enter', 'exit']",
 "declared shape=(5,) dtype='int8' [1]": 'ndarray[<u2(20,)][20, 21, 22, 23, 24, 25, 26, 27, 28, 29, 30, 31, '
                                         "32, 33, 34, 35, 36, 37, 38, 39] || io=[('open', ('image-file',), "
                                         "{'mode': 'rb'}), 'enter', ('seek', (20,), {}), ('read', (280,), "
                                         "{}), 'exit']",
 "declared shape=(5,) dtype='int8' [1] cols": "ndarray[<u2(2,)][20, 21] || io=[('open', ('image-file',), "
                                              "{'mode': 'rb'}), 'enter', ('seek', (20,), {}), ('read', "
                                              "(280,), {}), 'exit']",
 "declared shape=(5,) dtype='int8' [all]": 'ndarray[<u2(5, 20)][[0, 1, 2, 3, 4, 5, 6, 7, 8, 9, 10, 11, 12, '
                                           '13, 14, 15, 16, 17, 18, 19], [20, 21, 22, 23, 24, 25, 26, 27, '
                                           '28, 29, 30, 31, 32, 33, 34, 35, 36, 37, 38, 39], [40, 41, 42, '
                                           '43, 44, 45, 46, 47, 48, 49, 50, 51, 52, 53, 54, 55, 56, 57, 58, '
                                           '59], [60, 61, 62, 63, 64, 65, 66, 67, 68, 69, 70, 71, 72, 73, '
                                           '74, 75, 76, 77, 78, 79], [80, 81, 82, 83, 84, 85, 86, 87, 88, '
                                           "89, 90, 91, 92, 93, 94, 95, 96, 97, 98, 99]] || io=[('open', "
                                           "('image-file',), {'mode': 'rb'}), 'enter', ('seek', (20,), {}), "
                                           "('read', (280,), {}), 'exit']",
 "declared shape=(5,) dtype='int8' [all] cols": 'ndarray[<u2(5, 2)][[0, 1], [20, 21], [40, 41], [60, 61], '
                                                "[80, 81]] || io=[('open', ('image-file',), {'mode': 'rb'}), "
                                                "'enter', ('seek', (20,), {}), ('read', (280,), {}), 'exit']",
 "declared shape=() dtype='uint16' [0:0]": "ndarray[<u2(0,)][] || io=[('open', ('image-file',), {'mode': "
                                           "'rb'}), 'enter', 'exit']",
 "declared shape=() dtype='uint16' [0:0] cols": 'raise builtins.IndexError: too many indices for array: '
                                                "array is 1-dimensional, but 2 were indexed || io=[('open', "
                                                "('image-file',), {'mode': 'rb'}), 'enter', 'exit']",
 "declared shape=() dtype='uint16' [[]]": "ndarray[<u2(0,)][] || io=[('open', ('image-file',), {'mode': "
                                          "'rb'}), 'enter', 'exit']",
 "declared shape=() dtype='uint16' [[]] cols": 'raise builtins.IndexError: too many indices for array: array '
                                               "is 1-dimensional, but 2 were indexed || io=[('open', "
                                               "('image-file',), {'mode': 'rb'}), 'enter', 'exit']",
 "declared shape=() dtype='uint16' [1]": 'ndarray[<u2(20,)][20, 21, 22, 23, 24, 25, 26, 27, 28, 29, 30, 31, '
                                         "32, 33, 34, 35, 36, 37, 38, 39] || io=[('open', ('image-file',), "
                                         "{'mode': 'rb'}), 'enter', ('seek', (20,), {}), ('read', (280,), "
                                         "{}), 'exit']",
 "declared shape=() dtype='uint16' [1] cols": "ndarray[<u2(2,)][20, 21] || io=[('open', ('image-file',), "
                                              "{'mode': 'rb'}), 'enter', ('seek', (20,), {}), ('read', "
                                              "(280,), {}), 'exit']",
 "declared shape=() dtype='uint16' [all]": 'ndarray[<u2(5, 20)][[0, 1, 2, 3, 4, 5, 6, 7, 8, 9, 10, 11, 12, '
                                           '13, 14, 15, 16, 17, 18, 19], [20, 21, 22, 23, 24, 25, 26, 27, '
                                           '28, 29, 30, 31, 32, 33, 34, 35, 36, 37, 38, 39], [40, 41, 42, '
                                           '43, 44, 45, 46, 47, 48, 49, 50, 51, 52, 53, 54, 55, 56, 57, 58, '
                                           '59], [60, 61, 62, 63, 64, 65, 66, 67, 68, 69, 70, 71, 72, 73, '
                                           '74, 75, 76, 77, 78, 79], [80, 81, 82, 83, 84, 85, 86, 87, 88, '
                                           "89, 90, 91, 92, 93, 94, 95, 96, 97, 98, 99]] || io=[('open', "
                                           "('image-file',), {'mode': 'rb'}), 'enter', ('seek', (20,), {}), "
                                           "('read', (280,), {}), 'exit']",
 "declared shape=() dtype='uint16' [all] cols": 'ndarray[<u2(5, 2)][[0, 1], [20, 21], [40, 41], [60, 61], '
                                                "[80, 81]] || io=[('open', ('image-file',), {'mode': 'rb'}), "
                                                "'enter', ('seek', (20,), {}), ('read', (280,), {}), 'exit']",
 "declared shape=None dtype='uint16' [0:0]": "raise builtins.TypeError: 'NoneType' object is not "
                                             "subscriptable || io=[('open', ('image-file',), {'mode': "
                                             "'rb'}), 'enter', 'exit']",
 "declared shape=None dtype='uint16' [0:0] cols": "raise builtins.TypeError: 'NoneType' object is not "
                                                  "subscriptable || io=[('open', ('image-file',), {'mode': "
                                                  "'rb'}), 'enter', 'exit']",
 "declared shape=None dtype='uint16' [[]]": "raise builtins.TypeError: 'NoneType' object is not "
                                            "subscriptable || io=[('open', ('image-file',), {'mode': 'rb'}), "
                                            "'enter', 'exit']",
 "declared shape=None dtype='uint16' [[]] cols": "raise builtins.TypeError: 'NoneType' object is not "
                                                 "subscriptable || io=[('open', ('image-file',), {'mode': "
                                                 "'rb'}), 'enter', 'exit']",
 "declared shape=None dtype='uint16' [1]": 'ndarray[<u2(20,)][20, 21, 22, 23, 24, 25, 26, 27, 28, 29, 30, '
                                           "31, 32, 33, 34, 35, 36, 37, 38, 39] || io=[('open', "
                                           "('image-file',), {'mode': 'rb'}), 'enter', ('seek', (20,), {}), "
                                           "('read', (280,), {}), 'exit']",
 "declared shape=None dtype='uint16' [1] cols": "ndarray[<u2(2,)][20, 21] || io=[('open', ('image-file',), "
                                                "{'mode': 'rb'}), 'enter', ('seek', (20,), {}), ('read', "
                                                "(280,), {}), 'exit']",
 "declared shape=None dtype='uint16' [all]": 'ndarray[<u2(5, 20)][[0, 1, 2, 3, 4, 5, 6, 7, 8, 9, 10, 11, 12, '
                                             '13, 14, 15, 16, 17, 18, 19], [20, 21, 22, 23, 24, 25, 26, 27, '
                                             '28, 29, 30, 31, 32, 33, 34, 35, 36, 37, 38, 39], [40, 41, 42, '
                                             '43, 44, 45, 46, 47, 48, 49, 50, 51, 52, 53, 54, 55, 56, 57, '
                                             '58, 59], [60, 61, 62, 63, 64, 65, 66, 67, 68, 69, 70, 71, 72, '
                                             '73, 74, 75, 76, 77, 78, 79], [80, 81, 82, 83, 84, 85, 86, 87, '
                                             '88, 89, 90, 91, 92, 93, 94, 95, 96, 97, 98, 99]] || '
                                             "io=[('open', ('image-file',), {'mode': 'rb'}), 'enter', "
                                             "('seek', (20,), {}), ('read', (280,), {}), 'exit']",
 "declared shape=None dtype='uint16' [all] cols": 'ndarray[<u2(5, 2)][[0, 1], [20, 21], [40, 41], [60, 61], '
                                                  "[80, 81]] || io=[('open', ('image-file',), {'mode': "
                                                  "'rb'}), 'enter', ('seek', (20,), {}), ('read', (280,), "
                                                  "{}), 'exit']",
 "declared shape=(5, 20) dtype='no-such-dtype' [0:0]": "raise builtins.TypeError: data type 'no-such-dtype' "
                                                       "not understood || io=[('open', ('image-file',), "
                                                       "{'mode': 'rb'}), 'enter', 'exit']",
 "declared shape=(5, 20) dtype='no-such-dtype' [0:0] cols": 'raise builtins.TypeError: data type '
                                                            "'no-such-dtype' not understood || io=[('open', "
                                                            "('image-file',), {'mode': 'rb'}), 'enter', "
                                                            "'exit']",
 "declared shape=(5, 20) dtype='no-such-dtype' [[]]": "raise builtins.TypeError: data type 'no-such-dtype' "
                                                      "not understood || io=[('open', ('image-file',), "
                                                      "{'mode': 'rb'}), 'enter', 'exit']",
 "declared shape=(5, 20) dtype='no-such-dtype' [[]] cols": 'raise builtins.TypeError: data type '
                                                           "'no-such-dtype' not understood || io=[('open', "
                                                           "('image-file',), {'mode': 'rb'}), 'enter', "
                                                           "'exit']",
 "declared shape=(5, 20) dtype='no-such-dtype' [1]": 'ndarray[<u2(20,)][20, 21, 22, 23, 24, 25, 26, 27, 28, '
                                                     '29, 30, 31, 32, 33, 34, 35, 36, 37, 38, 39] || '
                                                     "io=[('open', ('image-file',), {'mode': 'rb'}), "
                                                     "'enter', ('seek', (20,), {}), ('read', (280,), {}), "
                                                     "'exit']",
 "declared shape=(5, 20) dtype='no-such-dtype' [1] cols": "ndarray[<u2(2,)][20, 21] || io=[('open', "
                                                          "('image-file',), {'mode': 'rb'}), 'enter', "
                                                          "('seek', (20,), {}), ('read', (280,), {}), "
                                                          "'exit']",
 "declared shape=(5, 20) dtype='no-such-dtype' [all]": 'ndarray[<u2(5, 20)][[0, 1, 2, 3, 4, 5, 6, 7, 8, 9, '
                                                       '10, 11, 12, 13, 14, 15, 16, 17, 18, 19], [20, 21, '
                                                       '22, 23, 24, 25, 26, 27, 28, 29, 30, 31, 32, 33, 34, '
                                                       '35, 36, 37, 38, 39], [40, 41, 42, 43, 44, 45, 46, '
                                                       '47, 48, 49, 50, 51, 52, 53, 54, 55, 56, 57, 58, 59], '
                                                       '[60, 61, 62, 63, 64, 65, 66, 67, 68, 69, 70, 71, 72, '
                                                       '73, 74, 75, 76, 77, 78, 79], [80, 81, 82, 83, 84, '
                                                       '85, 86, 87, 88, 89, 90, 91, 92, 93, 94, 95, 96, 97, '
                                                       "98, 99]] || io=[('open', ('image-file',), {'mode': "
                                                       "'rb'}), 'enter', ('seek', (20,), {}), ('read', "
                                                       "(280,), {}), 'exit']",
 "declared shape=(5, 20) dtype='no-such-dtype' [all] cols": 'ndarray[<u2(5, 2)][[0, 1], [20, 21], [40, 41], '
                                                            "[60, 61], [80, 81]] || io=[('open', "
                                                            "('image-file',), {'mode': 'rb'}), 'enter', "
                                                            "('seek', (20,), {}), ('read', (280,), {}), "
                                                            "'exit']",
 "declared shape=(5, -1) dtype='uint16' [0:0]": 'raise builtins.ValueError: negative dimensions are not '
                                                "allowed || io=[('open', ('image-file',), {'mode': 'rb'}), "
                                                "'enter', 'exit']",
 "declared shape=(5, -1) dtype='uint16' [0:0] cols": 'raise builtins.ValueError: negative dimensions are not '
                                                     "allowed || io=[('open', ('image-file',), {'mode': "
                                                     "'rb'}), 'enter', 'exit']",
 "declared shape=(5, -1) dtype='uint16' [[]]": 'raise builtins.ValueError: negative dimensions are not '
                                               "allowed || io=[('open', ('image-file',), {'mode': 'rb'}), "
                                               "'enter', 'exit']",
 "declared shape=(5, -1) dtype='uint16' [[]] cols": 'raise builtins.ValueError: negative dimensions are not '
                                                    "allowed || io=[('open', ('image-file',), {'mode': "
                                                    "'rb'}), 'enter', 'exit']",
 "declared shape=(5, -1) dtype='uint16' [1]": 'ndarray[<u2(20,)][20, 21, 22, 23, 24, 25, 26, 27, 28, 29, 30, '
                                              "31, 32, 33, 34, 35, 36, 37, 38, 39] || io=[('open', "
                                              "('image-file',), {'mode': 'rb'}), 'enter', ('seek', (20,), "
                                              "{}), ('read', (280,), {}), 'exit']",
 "declared shape=(5, -1) dtype='uint16' [1] cols": "ndarray[<u2(2,)][20, 21] || io=[('open', "
                                                   "('image-file',), {'mode': 'rb'}), 'enter', ('seek', "
                                                   "(20,), {}), ('read', (280,), {}), 'exit']",
 "declared shape=(5, -1) dtype='uint16' [all]": 'ndarray[<u2(5, 20)][[0, 1, 2, 3, 4, 5, 6, 7, 8, 9, 10, 11, '
                                                '12, 13, 14, 15, 16, 17, 18, 19], [20, 21, 22, 23, 24, 25, '
                                                '26, 27, 28, 29, 30, 31, 32, 33, 34, 35, 36, 37, 38, 39], '
                                                '[40, 41, 42, 43, 44, 45, 46, 47, 48, 49, 50, 51, 52, 53, '
                                                '54, 55, 56, 57, 58, 59], [60, 61, 62, 63, 64, 65, 66, 67, '
                                                '68, 69, 70, 71, 72, 73, 74, 75, 76, 77, 78, 79], [80, 81, '
                                                '82, 83, 84, 85, 86, 87, 88, 89, 90, 91, 92, 93, 94, 95, 96, '
                                                "97, 98, 99]] || io=[('open', ('image-file',), {'mode': "
                                                "'rb'}), 'enter', ('seek', (20,), {}), ('read', (280,), {}), "
                                                "'exit']",
 "declared shape=(5, -1) dtype='uint16' [all] cols": 'ndarray[<u2(5, 2)][[0, 1], [20, 21], [40, 41], [60, '
                                                     "61], [80, 81]] || io=[('open', ('image-file',), "
                                                     "{'mode': 'rb'}), 'enter', ('seek', (20,), {}), "
                                                     "('read', (280,), {}), 'exit']",
 "type_code='IU2' [0]": 'ndarray[<u2(20,)][0, 1, 2, 3, 4, 5, 6, 7, 8, 9, 10, 11, 12, 13, 14, 15, 16, 17, 18, '
                        "19] || io=[('open', ('image-file',), {'mode': 'rb'}), 'enter', ('seek', (20,), {}), "
                        "('read', (100,), {}), 'exit']",
 "type_code='IU2' [all]": 'ndarray[<u2(5, 20)][[0, 1, 2, 3, 4, 5, 6, 7, 8, 9, 10, 11, 12, 13, 14, 15, 16, '
                          '17, 18, 19], [20, 21, 22, 23, 24, 25, 26, 27, 28, 29, 30, 31, 32, 33, 34, 35, 36, '
                          '37, 38, 39], [40, 41, 42, 43, 44, 45, 46, 47, 48, 49, 50, 51, 52, 53, 54, 55, 56, '
                          '57, 58, 59], [60, 61, 62, 63, 64, 65, 66, 67, 68, 69, 70, 71, 72, 73, 74, 75, 76, '
                          '77, 78, 79], [80, 81, 82, 83, 84, 85, 86, 87, 88, 89, 90, 91, 92, 93, 94, 95, 96, '
                          "97, 98, 99]] || io=[('open', ('image-file',), {'mode': 'rb'}), 'enter', ('seek', "
                          "(20,), {}), ('read', (100,), {}), ('seek', (140,), {}), ('read', (100,), {}), "
                          "('seek', (260,), {}), ('read', (40,), {}), 'exit']",
 "type_code='IU2' [0:0]": "ndarray[<u2(0, 20)][] || io=[('open', ('image-file',), {'mode': 'rb'}), 'enter', "
                          "'exit']",
 "type_code='IU2' [[3,1,1]]": 'ndarray[<u2(3, 20)][[60, 61, 62, 63, 64, 65, 66, 67, 68, 69, 70, 71, 72, 73, '
                              '74, 75, 76, 77, 78, 79], [20, 21, 22, 23, 24, 25, 26, 27, 28, 29, 30, 31, 32, '
                              '33, 34, 35, 36, 37, 38, 39], [20, 21, 22, 23, 24, 25, 26, 27, 28, 29, 30, 31, '
                              "32, 33, 34, 35, 36, 37, 38, 39]] || io=[('open', ('image-file',), {'mode': "
                              "'rb'}), 'enter', ('seek', (140,), {}), ('read', (100,), {}), ('seek', (20,), "
                              "{}), ('read', (100,), {}), 'exit']",
 "type_code='IU2' [7]": 'raise builtins.IndexError: list index out of range || io=[]',
 "type_code='C*8' [0]": 'ndarray[<c8(5,)][(1.401298464324817e-45+1.836751962113754e-40j), '
                        '(3.673489911242865e-40+5.5102278603719754e-40j), '
                        '(7.346965809501086e-40+9.183703758630197e-40j), '
                        '(1.1020441707759308e-39+1.2857179656888418e-39j), '
                        "(1.469391760601753e-39+1.653065555514664e-39j)] || io=[('open', ('image-file',), "
                        "{'mode': 'rb'}), 'enter', ('seek', (20,), {}), ('read', (100,), {}), 'exit']",
 "type_code='C*8' [all]": 'ndarray[<c8(5, 5)][[(1.401298464324817e-45+1.836751962113754e-40j), '
                          '(3.673489911242865e-40+5.5102278603719754e-40j), '
                          '(7.346965809501086e-40+9.183703758630197e-40j), '
                          '(1.1020441707759308e-39+1.2857179656888418e-39j), '
                          '(1.469391760601753e-39+1.653065555514664e-39j)], '
                          '[(1.836739350427575e-39+2.020413145340486e-39j), '
                          '(2.2040869402533972e-39+2.3877607351663083e-39j), '
                          '(2.5714345300792193e-39+2.7551083249921304e-39j), '
                          '(2.9387821199050415e-39+3.1224559148179526e-39j), '
                          '(3.3061297097308636e-39+3.489803504643775e-39j)], '
                          '[(3.673477299556686e-39+3.857151094469597e-39j), '
                          '(4.040824889382508e-39+4.224498684295419e-39j), '
                          '(4.40817247920833e-39+4.591846274121241e-39j), '
                          '(4.775520069034152e-39+4.959193863947063e-39j), '
                          '(5.1428676588599744e-39+5.3265414537728854e-39j)], '
                          '[(5.5102152486857965e-39+5.6938890435987076e-39j), '
                          '(5.877562838511619e-39+6.06123663342453e-39j), '
                          '(6.244910428337441e-39+6.428584223250352e-39j), '
                          '(6.612258018163263e-39+6.795931813076174e-39j), '
                          '(6.979605607989085e-39+7.163279402901996e-39j)], '
                          '[(7.346953197814907e-39+7.530626992727818e-39j), '
                          '(7.71430078764073e-39+7.89797458255364e-39j), '
                          '(8.081648377466552e-39+8.265322172379463e-39j), '
                          '(8.448995967292374e-39+8.632669762205285e-39j), '
                          "(8.816343557118196e-39+9.000017352031107e-39j)]] || io=[('open', ('image-file',), "
                          "{'mode': 'rb'}), 'enter', ('seek', (20,), {}), ('read', (100,), {}), ('seek', "
                          "(140,), {}), ('read', (100,), {}), ('seek', (260,), {}), ('read', (40,), {}), "
                          "'exit']",
 "type_code='C*8' [0:0]": "ndarray[<u2(0, 20)][] || io=[('open', ('image-file',), {'mode': 'rb'}), 'enter', "
                          "'exit']",
 "type_code='C*8' [[3,1,1]]": 'ndarray[<c8(3, 5)][[(5.5102152486857965e-39+5.6938890435987076e-39j), '
                              '(5.877562838511619e-39+6.06123663342453e-39j), '
                              '(6.244910428337441e-39+6.428584223250352e-39j), '
                              '(6.612258018163263e-39+6.795931813076174e-39j), '
                              '(6.979605607989085e-39+7.163279402901996e-39j)], '
                              '[(1.836739350427575e-39+2.020413145340486e-39j), '
                              '(2.2040869402533972e-39+2.3877607351663083e-39j), '
                              '(2.5714345300792193e-39+2.7551083249921304e-39j), '
                              '(2.9387821199050415e-39+3.1224559148179526e-39j), '
                              '(3.3061297097308636e-39+3.489803504643775e-39j)], '
                              '[(1.836739350427575e-39+2.020413145340486e-39j), '
                              '(2.2040869402533972e-39+2.3877607351663083e-39j), '
                              '(2.5714345300792193e-39+2.7551083249921304e-39j), '
                              '(2.9387821199050415e-39+3.1224559148179526e-39j), '
                              "(3.3061297097308636e-39+3.489803504643775e-39j)]] || io=[('open', "
                              "('image-file',), {'mode': 'rb'}), 'enter', ('seek', (140,), {}), ('read', "
                              "(100,), {}), ('seek', (20,), {}), ('read', (100,), {}), 'exit']",
 "type_code='C*8' [7]": 'raise builtins.IndexError: list index out of range || io=[]',
 "type_code='F*4' [0]": "raise builtins.ValueError: unknown type code: F*4 || io=[('open', ('image-file',), "
                        "{'mode': 'rb'}), 'enter', ('seek', (20,), {}), ('read', (100,), {}), 'exit']",
 "type_code='F*4' [all]": "raise builtins.ValueError: unknown type code: F*4 || io=[('open', "
                          "('image-file',), {'mode': 'rb'}), 'enter', ('seek', (20,), {}), ('read', (100,), "
                          "{}), 'exit']",
 "type_code='F*4' [0:0]": "ndarray[<u2(0, 20)][] || io=[('open', ('image-file',), {'mode': 'rb'}), 'enter', "
                          "'exit']",
 "type_code='F*4' [[3,1,1]]": "raise builtins.ValueError: unknown type code: F*4 || io=[('open', "
                              "('image-file',), {'mode': 'rb'}), 'enter', ('seek', (140,), {}), ('read', "
                              "(100,), {}), 'exit']",
 "type_code='F*4' [7]": 'raise builtins.IndexError: list index out of range || io=[]',
 'type_code=None [0]': "raise builtins.ValueError: unknown type code: None || io=[('open', ('image-file',), "
                       "{'mode': 'rb'}), 'enter', ('seek', (20,), {}), ('read', (100,), {}), 'exit']",
 'type_code=None [all]': "raise builtins.ValueError: unknown type code: None || io=[('open', "
                         "('image-file',), {'mode': 'rb'}), 'enter', ('seek', (20,), {}), ('read', (100,), "
                         "{}), 'exit']",
 'type_code=None [0:0]': "ndarray[<u2(0, 20)][] || io=[('open', ('image-file',), {'mode': 'rb'}), 'enter', "
                         "'exit']",
 'type_code=None [[3,1,1]]': "raise builtins.ValueError: unknown type code: None || io=[('open', "
                             "('image-file',), {'mode': 'rb'}), 'enter', ('seek', (140,), {}), ('read', "
                             "(100,), {}), 'exit']",
 'type_code=None [7]': 'raise builtins.IndexError: list index out of range || io=[]',
 "type_code=['IU2'] [0]": "raise builtins.TypeError: unhashable type: 'list' || io=[('open', "
                          "('image-file',), {'mode': 'rb'}), 'enter', ('seek', (20,), {}), ('read', (100,), "
                          "{}), 'exit']",
 "type_code=['IU2'] [all]": "raise builtins.TypeError: unhashable type: 'list' || io=[('open', "
                            "('image-file',), {'mode': 'rb'}), 'enter', ('seek', (20,), {}), ('read', "
                            "(100,), {}), 'exit']",
 "type_code=['IU2'] [0:0]": "ndarray[<u2(0, 20)][] || io=[('open', ('image-file',), {'mode': 'rb'}), "
                            "'enter', 'exit']",
 "type_code=['IU2'] [[3,1,1]]": "raise builtins.TypeError: unhashable type: 'list' || io=[('open', "
                                "('image-file',), {'mode': 'rb'}), 'enter', ('seek', (140,), {}), ('read', "
                                "(100,), {}), 'exit']",
 "type_code=['IU2'] [7]": 'raise builtins.IndexError: list index out of range || io=[]',
 'ragged [all]': "raise builtins.ValueError: all input arrays must have the same shape || io=[('open', "
                 "('image-file',), {'mode': 'rb'}), 'enter', ('seek', (20,), {}), ('read', (80,), {}), "
                 "('seek', (140,), {}), ('read', (40,), {}), 'exit']",
 'ragged [0]': 'ndarray[<u2(20,)][0, 1, 2, 3, 4, 5, 6, 7, 8, 9, 10, 11, 12, 13, 14, 15, 16, 17, 18, 19] || '
               "io=[('open', ('image-file',), {'mode': 'rb'}), 'enter', ('seek', (20,), {}), ('read', (80,), "
               "{}), 'exit']",
 'ragged [[0,2]]': 'ndarray[<u2(2, 20)][[0, 1, 2, 3, 4, 5, 6, 7, 8, 9, 10, 11, 12, 13, 14, 15, 16, 17, 18, '
                   '19], [40, 41, 42, 43, 44, 45, 46, 47, 48, 49, 50, 51, 52, 53, 54, 55, 56, 57, 58, 59]] '
                   "|| io=[('open', ('image-file',), {'mode': 'rb'}), 'enter', ('seek', (20,), {}), ('read', "
                   "(80,), {}), ('seek', (140,), {}), ('read', (40,), {}), 'exit']",
 'ragged [[0,1]]': "raise builtins.ValueError: all input arrays must have the same shape || io=[('open', "
                   "('image-file',), {'mode': 'rb'}), 'enter', ('seek', (20,), {}), ('read', (80,), {}), "
                   "'exit']",
 'ragged [2:]': 'ndarray[<u2(1, 20)][[40, 41, 42, 43, 44, 45, 46, 47, 48, 49, 50, 51, 52, 53, 54, 55, 56, '
                "57, 58, 59]] || io=[('open', ('image-file',), {'mode': 'rb'}), 'enter', ('seek', (140,), "
                "{}), ('read', (40,), {}), 'exit']",
 'ragged [::-1]': "raise builtins.ValueError: all input arrays must have the same shape || io=[('open', "
                  "('image-file',), {'mode': 'rb'}), 'enter', ('seek', (140,), {}), ('read', (40,), {}), "
                  "('seek', (20,), {}), ('read', (80,), {}), 'exit']",
 'truncated [all]': "raise builtins.ValueError: all input arrays must have the same shape || io=[('open', "
                    "('image-file',), {'mode': 'rb'}), 'enter', ('seek', (20,), {}), ('read', (100,), {}), "
                    "('seek', (140,), {}), ('read', (100,), {}), ('seek', (260,), {}), ('read', (40,), {}), "
                    "'exit']",
 'truncated [0]': 'ndarray[<u2(20,)][0, 1, 2, 3, 4, 5, 6, 7, 8, 9, 10, 11, 12, 13, 14, 15, 16, 17, 18, 19] '
                  "|| io=[('open', ('image-file',), {'mode': 'rb'}), 'enter', ('seek', (20,), {}), ('read', "
                  "(100,), {}), 'exit']",
 'truncated [2]': "ndarray[<u2(5,)][40, 41, 42, 43, 44] || io=[('open', ('image-file',), {'mode': 'rb'}), "
                  "'enter', ('seek', (140,), {}), ('read', (100,), {}), 'exit']",
 'truncated [-1]': "ndarray[<u2(0,)][] || io=[('open', ('image-file',), {'mode': 'rb'}), 'enter', ('seek', "
                   "(260,), {}), ('read', (40,), {}), 'exit']",
 'truncated [2:]': "raise builtins.ValueError: all input arrays must have the same shape || io=[('open', "
                   "('image-file',), {'mode': 'rb'}), 'enter', ('seek', (140,), {}), ('read', (100,), {}), "
                   "('seek', (260,), {}), ('read', (40,), {}), 'exit']",
 'truncated [[3,1,1]]': 'raise builtins.ValueError: all input arrays must have the same shape || '
                        "io=[('open', ('image-file',), {'mode': 'rb'}), 'enter', ('seek', (140,), {}), "
                        "('read', (100,), {}), ('seek', (20,), {}), ('read', (100,), {}), 'exit']",
 'odd row size [all]': 'raise builtins.ValueError: buffer size must be a multiple of element size || '
                       "io=[('open', ('image-file',), {'mode': 'rb'}), 'enter', ('seek', (20,), {}), "
                       "('read', (5,), {}), 'exit']",
 'odd row size [0]': 'raise builtins.ValueError: buffer size must be a multiple of element size || '
                     "io=[('open', ('image-file',), {'mode': 'rb'}), 'enter', ('seek', (20,), {}), ('read', "
                     "(5,), {}), 'exit']",
 'odd row size [0:0]': "ndarray[<u2(0, 2)][] || io=[('open', ('image-file',), {'mode': 'rb'}), 'enter', "
                       "'exit']",
 'overlapping rpc=1 [all]': 'ndarray[<u2(4, 4)][[30, 31, 32, 33], [0, 1, 2, 3], [10, 11, 12, 13], [0, 1, 2, '
                            "3]] || io=[('open', ('image-file',), {'mode': 'rb'}), 'enter', ('seek', (100,), "
                            "{}), ('read', (40,), {}), ('seek', (20,), {}), ('read', (40,), {}), ('seek', "
                            "(40,), {}), ('read', (40,), {}), ('seek', (20,), {}), ('read', (40,), {}), "
                            "'exit']",
 'overlapping rpc=1 [::-1]': 'ndarray[<u2(4, 4)][[0, 1, 2, 3], [10, 11, 12, 13], [0, 1, 2, 3], [30, 31, 32, '
                             "33]] || io=[('open', ('image-file',), {'mode': 'rb'}), 'enter', ('seek', "
                             "(20,), {}), ('read', (40,), {}), ('seek', (40,), {}), ('read', (40,), {}), "
                             "('seek', (20,), {}), ('read', (40,), {}), ('seek', (100,), {}), ('read', "
                             "(40,), {}), 'exit']",
 'overlapping rpc=1 [[3,1,1]]': 'ndarray[<u2(3, 4)][[0, 1, 2, 3], [0, 1, 2, 3], [0, 1, 2, 3]] || '
                                "io=[('open', ('image-file',), {'mode': 'rb'}), 'enter', ('seek', (20,), "
                                "{}), ('read', (40,), {}), ('seek', (20,), {}), ('read', (40,), {}), 'exit']",
 'overlapping rpc=1 [2]': "ndarray[<u2(4,)][10, 11, 12, 13] || io=[('open', ('image-file',), {'mode': "
                          "'rb'}), 'enter', ('seek', (40,), {}), ('read', (40,), {}), 'exit']",
 'overlapping rpc=1 [1:4:2]': "ndarray[<u2(2, 4)][[0, 1, 2, 3], [0, 1, 2, 3]] || io=[('open', "
                              "('image-file',), {'mode': 'rb'}), 'enter', ('seek', (20,), {}), ('read', "
                              "(40,), {}), ('seek', (20,), {}), ('read', (40,), {}), 'exit']",
 'overlapping rpc=2 [all]': 'ndarray[<u2(4, 4)][[30, 31, 32, 33], [0, 1, 2, 3], [10, 11, 12, 13], [0, 1, 2, '
                            "3]] || io=[('open', ('image-file',), {'mode': 'rb'}), 'enter', ('seek', (20,), "
                            "{}), ('read', (120,), {}), ('seek', (20,), {}), ('read', (60,), {}), 'exit']",
 'overlapping rpc=2 [::-1]': 'ndarray[<u2(4, 4)][[0, 1, 2, 3], [10, 11, 12, 13], [0, 1, 2, 3], [30, 31, 32, '
                             "33]] || io=[('open', ('image-file',), {'mode': 'rb'}), 'enter', ('seek', "
                             "(20,), {}), ('read', (60,), {}), ('seek', (20,), {}), ('read', (120,), {}), "
                             "'exit']",
 'overlapping rpc=2 [[3,1,1]]': 'ndarray[<u2(3, 4)][[0, 1, 2, 3], [0, 1, 2, 3], [0, 1, 2, 3]] || '
                                "io=[('open', ('image-file',), {'mode': 'rb'}), 'enter', ('seek', (20,), "
                                "{}), ('read', (60,), {}), ('seek', (20,), {}), ('read', (120,), {}), "
                                "'exit']",
 'overlapping rpc=2 [2]': "ndarray[<u2(4,)][10, 11, 12, 13] || io=[('open', ('image-file',), {'mode': "
                          "'rb'}), 'enter', ('seek', (20,), {}), ('read', (60,), {}), 'exit']",
 'overlapping rpc=2 [1:4:2]': "ndarray[<u2(2, 4)][[0, 1, 2, 3], [0, 1, 2, 3]] || io=[('open', "
                              "('image-file',), {'mode': 'rb'}), 'enter', ('seek', (20,), {}), ('read', "
                              "(120,), {}), ('seek', (20,), {}), ('read', (60,), {}), 'exit']",
 'overlapping rpc=3 [all]': 'ndarray[<u2(4, 4)][[30, 31, 32, 33], [0, 1, 2, 3], [10, 11, 12, 13], [0, 1, 2, '
                            "3]] || io=[('open', ('image-file',), {'mode': 'rb'}), 'enter', ('seek', (20,), "
                            "{}), ('read', (120,), {}), ('seek', (20,), {}), ('read', (40,), {}), 'exit']",
 'overlapping rpc=3 [::-1]': 'ndarray[<u2(4, 4)][[0, 1, 2, 3], [10, 11, 12, 13], [0, 1, 2, 3], [30, 31, 32, '
                             "33]] || io=[('open', ('image-file',), {'mode': 'rb'}), 'enter', ('seek', "
                             "(20,), {}), ('read', (40,), {}), ('seek', (20,), {}), ('read', (120,), {}), "
                             "'exit']",
 'overlapping rpc=3 [[3,1,1]]': 'ndarray[<u2(3, 4)][[0, 1, 2, 3], [0, 1, 2, 3], [0, 1, 2, 3]] || '
                                "io=[('open', ('image-file',), {'mode': 'rb'}), 'enter', ('seek', (20,), "
                                "{}), ('read', (40,), {}), ('seek', (20,), {}), ('read', (120,), {}), "
                                "'exit']",
 'overlapping rpc=3 [2]': "ndarray[<u2(4,)][10, 11, 12, 13] || io=[('open', ('image-file',), {'mode': "
                          "'rb'}), 'enter', ('seek', (20,), {}), ('read', (120,), {}), 'exit']",
 'overlapping rpc=3 [1:4:2]': "ndarray[<u2(2, 4)][[0, 1, 2, 3], [0, 1, 2, 3]] || io=[('open', "
                              "('image-file',), {'mode': 'rb'}), 'enter', ('seek', (20,), {}), ('read', "
                              "(120,), {}), ('seek', (20,), {}), ('read', (40,), {}), 'exit']",
 'overlapping rpc=None [all]': 'ndarray[<u2(4, 4)][[30, 31, 32, 33], [0, 1, 2, 3], [10, 11, 12, 13], [0, 1, '
                               "2, 3]] || io=[('open', ('image-file',), {'mode': 'rb'}), 'enter', ('seek', "
                               "(20,), {}), ('read', (120,), {}), 'exit']",
 'overlapping rpc=None [::-1]': 'ndarray[<u2(4, 4)][[0, 1, 2, 3], [10, 11, 12, 13], [0, 1, 2, 3], [30, 31, '
                                "32, 33]] || io=[('open', ('image-file',), {'mode': 'rb'}), 'enter', "
                                "('seek', (20,), {}), ('read', (120,), {}), 'exit']",
 'overlapping rpc=None [[3,1,1]]': 'ndarray[<u2(3, 4)][[0, 1, 2, 3], [0, 1, 2, 3], [0, 1, 2, 3]] || '
                                   "io=[('open', ('image-file',), {'mode': 'rb'}), 'enter', ('seek', (20,), "
                                   "{}), ('read', (120,), {}), 'exit']",
 'overlapping rpc=None [2]': "ndarray[<u2(4,)][10, 11, 12, 13] || io=[('open', ('image-file',), {'mode': "
                             "'rb'}), 'enter', ('seek', (20,), {}), ('read', (120,), {}), 'exit']",
 'overlapping rpc=None [1:4:2]': "ndarray[<u2(2, 4)][[0, 1, 2, 3], [0, 1, 2, 3]] || io=[('open', "
                                 "('image-file',), {'mode': 'rb'}), 'enter', ('seek', (20,), {}), ('read', "
                                 "(120,), {}), 'exit']",
 'no rows rpc=None [all]': "ndarray[<u2(0, 20)][] || io=[('open', ('image-file',), {'mode': 'rb'}), 'enter', "
                           "'exit']",
 'no rows rpc=None [0]': 'raise builtins.IndexError: list index out of range || io=[]',
 'no rows rpc=None [[]]': "ndarray[<u2(0, 20)][] || io=[('open', ('image-file',), {'mode': 'rb'}), 'enter', "
                          "'exit']",
 'no rows rpc=None [::-1]': "ndarray[<u2(0, 20)][] || io=[('open', ('image-file',), {'mode': 'rb'}), "
                            "'enter', 'exit']",
 'no rows rpc=None [[0]]': 'raise builtins.IndexError: list index out of range || io=[]',
 'no rows rpc=2 [all]': "ndarray[<u2(0, 20)][] || io=[('open', ('image-file',), {'mode': 'rb'}), 'enter', "
                        "'exit']",
 'no rows rpc=2 [0]': 'raise builtins.IndexError: list index out of range || io=[]',
 'no rows rpc=2 [[]]': "ndarray[<u2(0, 20)][] || io=[('open', ('image-file',), {'mode': 'rb'}), 'enter', "
                       "'exit']",
 'no rows rpc=2 [::-1]': "ndarray[<u2(0, 20)][] || io=[('open', ('image-file',), {'mode': 'rb'}), 'enter', "
                         "'exit']",
 'no rows rpc=2 [[0]]': 'raise builtins.IndexError: list index out of range || io=[]',
 'no rows rpc=-1 [all]': "ndarray[<u2(0, 20)][] || io=[('open', ('image-file',), {'mode': 'rb'}), 'enter', "
                         "'exit']",
 'no rows rpc=-1 [0]': 'raise builtins.IndexError: list index out of range || io=[]',
 'no rows rpc=-1 [[]]': "ndarray[<u2(0, 20)][] || io=[('open', ('image-file',), {'mode': 'rb'}), 'enter', "
                        "'exit']",
 'no rows rpc=-1 [::-1]': "ndarray[<u2(0, 20)][] || io=[('open', ('image-file',), {'mode': 'rb'}), 'enter', "
                          "'exit']",
 'no rows rpc=-1 [[0]]': 'raise builtins.IndexError: list index out of range || io=[]',
 'missing file [all]': "raise builtins.KeyError: 'other-file' || io=[('open', ('other-file',), {'mode': "
                       "'rb'})]",
 'missing file [0]': "raise builtins.KeyError: 'other-file' || io=[('open', ('other-file',), {'mode': "
                     "'rb'})]",
 'missing file [7]': 'raise builtins.IndexError: list index out of range || io=[]',
 'missing file [0:0]': "raise builtins.KeyError: 'other-file' || io=[('open', ('other-file',), {'mode': "
                       "'rb'})]",
 'flags [all]': "('ndarray', True, True, '=')",
 'flags [0]': "('ndarray', True, True, '=')",
 'flags [0:0]': "('ndarray', True, True, '=')",
 'flags [[0,2]]': "('ndarray', True, True, '=')"}


def compare(actual, expected):
    problems = []
    for key in expected.keys() - actual.keys():
        problems.append(f"missing case: {key}")
    for key in actual.keys() - expected.keys():
        problems.append(f"unexpected case: {key}")
    for key in actual.keys() & expected.keys():
        if actual[key] != expected[key]:
            problems.append(f"{key}:\n  expected {expected[key]}\n  actual   {actual[key]}")
    return sorted(problems)


def test_equivalence():
    problems = compare(collect(), EXPECTED)
    assert not problems, "\n".join(problems)


if __name__ == "__main__":
    if "--record" in sys.argv:
        pprint.pprint(collect(), width=110, sort_dicts=False)
        sys.exit(0)

    problems = compare(collect(), EXPECTED)
    for problem in problems:
        print(problem)
    print(f"{len(EXPECTED)} recorded cases, {len(problems)} mismatches")
    sys.exit(1 if problems else 0)
